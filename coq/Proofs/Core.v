(* Unimock.Proofs.Core -- basic lemmas about the Layer A model. *)
From Unimock Require Import Model.Eval Spec.FirstMatch.
Open Scope N_scope.

(* ---------- strings ---------- *)

Lemma sapp_assoc (a b c : string) : ((a ++ b) ++ c = a ++ (b ++ c))%string.
Proof. induction a as [|ch a IH]; cbn; [reflexivity|now rewrite IH]. Qed.

(* ---------- table ---------- *)

Lemma lookup_update_same m v (tb : table) : lookup m (update m v tb) = Some v.
Proof.
  induction tb as [|[k w] tb IH]; cbn; [now rewrite N.eqb_refl|].
  destruct (N.eqb_spec k m) as [->|Hne]; cbn; [now rewrite N.eqb_refl|].
  destruct (N.eqb_spec k m); [contradiction|assumption].
Qed.

Lemma lookup_update_other m m' v (tb : table) : m <> m' -> lookup m' (update m v tb) = lookup m' tb.
Proof.
  intros Hne. induction tb as [|[k w] tb IH]; cbn.
  - destruct (N.eqb_spec m m'); [contradiction|reflexivity].
  - destruct (N.eqb_spec k m) as [->|Hk]; cbn.
    + destruct (N.eqb_spec m m'); [contradiction|reflexivity].
    + destruct (N.eqb_spec k m'); [reflexivity|assumption].
Qed.

Definition pats_of (m : N) (tb : table) : list pattern :=
  match lookup m tb with Some mk => m_pats mk | None => [] end.

Definition mode_of (m : N) (tb : table) : option mode :=
  match lookup m tb with Some mk => Some (m_mode mk) | None => None end.

(* ---------- counters ---------- *)

Lemma bump_same c m i : bump c m i m i = c m i + 1.
Proof. unfold bump. now rewrite N.eqb_refl, Nat.eqb_refl. Qed.

Lemma bump_other c m i m' i' : (m, i) <> (m', i') -> bump c m i m' i' = c m' i'.
Proof.
  unfold bump. intros H. destruct (N.eqb_spec m m') as [->|]; [|reflexivity].
  destruct (Nat.eqb_spec i i') as [->|]; [now contradiction H|reflexivity].
Qed.

Lemma take_same t m i j : take t m i j m i j = true.
Proof. unfold take. now rewrite N.eqb_refl, !Nat.eqb_refl. Qed.

Lemma take_other t m i j m' i' j' : (m, i, j) <> (m', i', j') -> take t m i j m' i' j' = t m' i' j'.
Proof.
  unfold take. intros H. destruct (N.eqb_spec m m') as [->|]; [|reflexivity].
  destruct (Nat.eqb_spec i i') as [->|]; [|reflexivity].
  destruct (Nat.eqb_spec j j') as [->|]; [now contradiction H|reflexivity].
Qed.

(* ---------- the unordered scan is "first accepting pattern" ---------- *)

Section Scan.
Variable A : Type.
Variable accepts : N -> A -> bool.
Notation scan := (scan A accepts).
Notation first_match := (first_match A accepts).
Notation accepts_pat := (accepts_pat A accepts).

Lemma scan_first_match a ps : forall i,
  forallb has_matcher ps = true ->
  scan a ps i = match first_match a ps i with
                | Some j => match nth_opt ps (j - i) with
                            | Some p => Some (j, p, Some true)
                            | None => None
                            end
                | None => None
                end.
Proof.
  induction ps as [|p ps IH]; intros i Hm; cbn in *; [reflexivity|].
  apply andb_true_iff in Hm as [Hp Hps].
  unfold match_inputs, accepts_pat, has_matcher in *.
  destruct (p_matcher p) as [f|]; [|discriminate].
  destruct (accepts f a).
  - now rewrite Nat.sub_diag.
  - rewrite (IH (S i) Hps). destruct (first_match a ps (S i)) as [j|] eqn:Hj; [|reflexivity].
    assert (S i <= j)%nat as Hle.
    { clear -Hj. revert i Hj. induction ps as [|q ps IH]; intros i Hj; cbn in Hj; [discriminate|].
      destruct (FirstMatch.accepts_pat A accepts q a); [injection Hj as <-; lia|].
      specialize (IH _ Hj). lia. }
    replace (j - i)%nat with (S (j - S i)) by lia. reflexivity.
Qed.

Lemma first_match_bounds a ps : forall i j, first_match a ps i = Some j -> (i <= j < i + length ps)%nat.
Proof.
  induction ps as [|p ps IH]; intros i j H; cbn in *; [discriminate|].
  destruct (accepts_pat p a); [injection H as <-; lia|].
  specialize (IH _ _ H). lia.
Qed.

(* the spec in words: j is the first index whose pattern accepts *)
Lemma first_match_spec a ps j :
  first_match a ps 0 = Some j <->
  (exists p, nth_opt ps j = Some p /\ accepts_pat p a = true) /\
  (forall k q, (k < j)%nat -> nth_opt ps k = Some q -> accepts_pat q a = false).
Proof.
  assert (G : forall i j, first_match a ps i = Some j <->
    (i <= j)%nat /\ (exists p, nth_opt ps (j - i) = Some p /\ accepts_pat p a = true) /\
    (forall k q, (k < j - i)%nat -> nth_opt ps k = Some q -> accepts_pat q a = false)).
  { induction ps as [|p ps IH]; intros i j'; cbn.
    - split; [discriminate|]. intros (_ & (q & Hq & _) & _). destruct (j' - i)%nat; discriminate.
    - destruct (accepts_pat p a) eqn:Hp.
      + split.
        * intros [= <-]. rewrite Nat.sub_diag. split; [lia|]. split; [now exists p|]. intros k q Hk. lia.
        * intros (Hle & (q & Hq & Hqa) & Hall).
          destruct (j' - i)%nat as [|d] eqn:Hd; [f_equal; lia|].
          specialize (Hall 0%nat p (Nat.lt_0_succ _) eq_refl). congruence.
      + rewrite IH. split.
        * intros (Hle & (q & Hq & Hqa) & Hall). split; [lia|].
          replace (j' - i)%nat with (S (j' - S i)) by lia. split; [now exists q|].
          intros [|k] r Hk Hr; cbn in Hr; [congruence|]. apply (Hall k); [lia|assumption].
        * intros (Hle & (q & Hq & Hqa) & Hall).
          destruct (j' - i)%nat as [|d] eqn:Hd.
          { cbn in Hq. injection Hq as <-. congruence. }
          split; [lia|]. replace (j' - S i)%nat with d by lia. split; [now exists q|].
          intros k r Hk Hr. apply (Hall (S k)); [lia|exact Hr]. }
  rewrite G, Nat.sub_0_r. split; [intros (_ & H1 & H2); now split|intros [H1 H2]; split; [lia|now split]].
Qed.

Lemma first_match_none a ps : forall i,
  first_match a ps i = None <-> (forall p, In p ps -> accepts_pat p a = false).
Proof.
  induction ps as [|p ps IH]; intros i; cbn.
  - split; [intros _ q []|reflexivity].
  - destruct (accepts_pat p a) eqn:Hp.
    + split; [discriminate|]. intros H. specialize (H p (or_introl eq_refl)). congruence.
    + rewrite IH. split.
      * intros H q [<-|Hq]; [assumption|now apply H].
      * intros H q Hq. apply H. now right.
Qed.

Lemma scan_none a ps : forall i,
  forallb has_matcher ps = true -> first_match a ps i = None -> scan a ps i = None.
Proof. intros i Hm Hn. now rewrite scan_first_match, Hn. Qed.

End Scan.

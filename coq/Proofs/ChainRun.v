(* Unimock.Proofs.ChainRun -- lemmas about the session model of Model/RunChain.v (one instance: its own value
   chain, the chain of its delegation helper, the references the caller still holds). *)
From Unimock Require Import Model.RunChain Proofs.Chain.
Open Scope list_scope.

Definition is_make_mut (o : cop) : bool := match o with CMut _ _ | CMutM _ _ => true | _ => false end.

(* every value the caller holds a reference to is in one of the instance's two chains *)
Definition held_alive (ci : cinst) : Prop :=
  incl (ci_held ci) (cells (ci_chain ci) ++ cells (ci_helper ci)).

(* lending (directly or through the helper), `&mut self` provided calls and observations release nothing:
   both chains only grow *)
Lemma step_releases_nothing others ci o : is_make_mut o = false ->
  let ci' := fst (cop_step others ci o) in
  released (ci_chain ci') = released (ci_chain ci) /\
  released (ci_helper ci') = released (ci_helper ci) /\
  (exists e1, cells (ci_chain ci') = cells (ci_chain ci) ++ e1) /\
  (exists e2, cells (ci_helper ci') = cells (ci_helper ci) ++ e2).
Proof.
  intros H. destruct o as [ty v|ty v| |ty v| | | |ty v]; try discriminate; cbn.
  - repeat split; try reflexivity; [exists [(ty, v)]; reflexivity|exists []; now rewrite app_nil_r].
  - repeat split; try reflexivity; exists []; now rewrite app_nil_r.
  - repeat split; try reflexivity; [exists []; now rewrite app_nil_r|exists [(ty, v)]; reflexivity].
  - repeat split; try reflexivity; exists []; now rewrite app_nil_r.
  - repeat split; try reflexivity; exists []; now rewrite app_nil_r.
  - repeat split; try reflexivity; exists []; now rewrite app_nil_r.
Qed.

(* make_mut releases exactly the instance's OWN earlier values; the helper's chain is untouched *)
Lemma make_mut_releases_own_only others ci ty v :
  let ci' := fst (cop_step others ci (CMut ty v)) in
  released (ci_chain ci') = all_values (ci_chain ci) /\ ci_helper ci' = ci_helper ci /\ ci_held ci' = [].
Proof. cbn. repeat split. Qed.

(* ... whichever way make_mut is reached: directly, or by the answer function of a mocked method with a `&mut` result *)
Lemma any_make_mut_releases_own_only others ci o : is_make_mut o = true ->
  let ci' := fst (cop_step others ci o) in
  released (ci_chain ci') = all_values (ci_chain ci) /\ ci_helper ci' = ci_helper ci /\ ci_held ci' = [] /\
  length (cells (ci_chain ci')) = 1%nat.
Proof.
  intros H. destruct o as [ty v|ty v| |ty v| | | |ty v]; try discriminate; cbn; repeat split.
Qed.

(* a mocked `&mut`-returning method answered with make_mut behaves exactly like make_mut called on the instance *)
Lemma mocked_mut_result_is_make_mut others ci ty v : (ty <? 2)%N = true ->
  cop_step others ci (CMutM ty v) = cop_step others ci (CMut ty v).
Proof. intros H. cbn. rewrite H. reflexivity. Qed.

Lemma step_helper_never_released others ci o :
  released (ci_helper (fst (cop_step others ci o))) = released (ci_helper ci)
  /\ exists e, cells (ci_helper (fst (cop_step others ci o))) = cells (ci_helper ci) ++ e.
Proof.
  destruct o as [ty v|ty v| |ty v| | | |ty v]; cbn; split; try reflexivity;
    try (exists []; now rewrite app_nil_r). exists [(ty, v)]. reflexivity.
Qed.

Lemma session_fst others : forall ops ci,
  fst (session others ci ops) = fold_left (fun c o => fst (cop_step others c o)) ops ci.
Proof.
  induction ops as [|o r IH]; intros ci; [reflexivity|].
  cbn [session fold_left]. destruct (cop_step others ci o) as [ci' out] eqn:E.
  specialize (IH ci'). destruct (session others ci' r) as [ci'' outs]. cbn [fst] in *.
  exact IH.
Qed.

(* over any session, whatever is lent through the helper stays until the instance goes *)
Theorem helper_values_never_released others ops : forall ci,
  released (ci_helper (fst (session others ci ops))) = released (ci_helper ci)
  /\ exists e, cells (ci_helper (fst (session others ci ops))) = cells (ci_helper ci) ++ e.
Proof.
  intros ci. rewrite session_fst. revert ci.
  induction ops as [|o r IH]; intros ci; cbn [fold_left].
  - split; [reflexivity|]. exists []. now rewrite app_nil_r.
  - destruct (IH (fst (cop_step others ci o))) as [R [e E]].
    destruct (step_helper_never_released others ci o) as [R0 [e0 E0]].
    split; [now rewrite R|]. exists (e0 ++ e). now rewrite E, E0, app_assoc.
Qed.

(* every held reference points at a value that is still in a chain, after any operation sequence *)
Lemma step_held_alive others ci o : held_alive ci -> held_alive (fst (cop_step others ci o)).
Proof.
  unfold held_alive. intros H. destruct o as [ty v|ty v| |ty v| | | |ty v]; cbn.
  - intros x Hx. apply in_app_or in Hx. destruct Hx as [Hx|[<-|[]]].
    + apply H in Hx. apply in_app_or in Hx. destruct Hx as [Hx|Hx]; apply in_or_app; [left|right]; [|exact Hx].
      apply in_or_app. left. exact Hx.
    + apply in_or_app. left. apply in_or_app. right. left. reflexivity.
  - intros x [].
  - exact H.
  - intros x Hx. apply in_app_or in Hx. destruct Hx as [Hx|[<-|[]]].
    + apply H in Hx. apply in_app_or in Hx. destruct Hx as [Hx|Hx]; apply in_or_app; [left; exact Hx|right].
      apply in_or_app. left. exact Hx.
    + apply in_or_app. right. apply in_or_app. right. left. reflexivity.
  - intros x [].
  - intros x [].
  - intros x [].
  - intros x [].
Qed.

Theorem session_held_alive others ops : forall ci, held_alive ci -> held_alive (fst (session others ci ops)).
Proof.
  intros ci H. rewrite session_fst. revert ci H.
  induction ops as [|o r IH]; intros ci H; cbn [fold_left]; [exact H|].
  apply IH. now apply step_held_alive.
Qed.

(* Unimock.Proofs.C05 -- lemmas behind Props/C05.v *)
From Unimock Require Import Macro.Unimock Spec.Forward Macro.ShapeRun.
Open Scope nat_scope.
Open Scope list_scope.

(* ---------- packing ---------- *)

Lemma unpack_pack : forall vs, unpack (pack vs) = vs.
Proof. intros [|v [|w r]]; reflexivity. Qed.

Lemma pack_unpack : forall i, inputs_wf i -> pack (unpack i) = i.
Proof. intros [v|[|v [|w r]]] H; try reflexivity. destruct H. Qed.

Lemma pack_wf : forall vs, inputs_wf (pack vs).
Proof. intros [|v [|w r]]; exact I. Qed.

(* the term-level packing mirrors the value-level packing *)
Lemma tuple_up_length_one : forall l, (exists a, l = [a] /\ tuple_up l = TOne a) \/ (length l <> 1 /\ tuple_up l = TTup l).
Proof.
  intros [|a [|b r]].
  - right. split; [discriminate|reflexivity].
  - left. exists a. split; reflexivity.
  - right. split; [discriminate|reflexivity].
Qed.

Lemma items_length : forall s cs k, length (items_from s k cs) = length cs.
Proof. induction cs; intros; cbn; [reflexivity|]. rewrite IHcs. reflexivity. Qed.

(* ---------- slots ---------- *)

Lemma take_at_app : forall pre v r,
  take_at (length pre) (pre ++ Some v :: r) = Some (v, pre ++ None :: r).
Proof. induction pre; intros; cbn; [reflexivity|]. rewrite IHpre. reflexivity. Qed.

Lemma set_at_app : forall pre x v r,
  set_at (length pre) v (pre ++ x :: r) = Some (pre ++ Some v :: r).
Proof. induction pre; intros; cbn; [reflexivity|]. rewrite IHpre. reflexivity. Qed.

Lemma app_cons_assoc : forall {A} (pre : list A) x r, pre ++ x :: r = (pre ++ [x]) ++ r.
Proof. intros. rewrite <- app_assoc. reflexivity. Qed.

Lemma length_snoc : forall {A} (pre : list A) x, length (pre ++ [x]) = S (length pre).
Proof. intros. rewrite app_length. cbn. rewrite Nat.add_1_r. reflexivity. Qed.

(* slots after the arguments were moved into eval: the Impossible class keeps its value *)
Fixpoint after_eval (cs : list pclass) (vs : list aval) : list (option aval) :=
  match cs, vs with
  | c :: cr, v :: vr =>
      (match classify_arg c with ACMutImpossible => Some v | ACOther => None end) :: after_eval cr vr
  | _, _ => []
  end.

Definition mk (ps : list (option aval)) (s u : option selfv) : env :=
  {| e_params := ps; e_self := s; e_surr := u |}.

(* EvalParams: eval is handed the views, in order *)
Lemma eval_params_ok : forall cs vs pre s u,
  length vs = length cs ->
  eval_atoms (mk (pre ++ map Some vs) s u) (items_from EvalParams (length pre) cs)
  = Some (views cs vs, mk (pre ++ after_eval cs vs) s u).
Proof.
  induction cs as [|c cr IH]; intros [|v vr] pre s u H; try discriminate.
  - reflexivity.
  - cbn [items_from eval_atoms map views after_eval]. injection H as H.
    unfold item. destruct (classify_arg c) eqn:E.
    + cbn [eval_atom e_params mk]. rewrite take_at_app. unfold with_params. cbn [e_self e_surr mk].
      rewrite (app_cons_assoc pre None), <- (length_snoc pre None).
      fold (mk ((pre ++ [None]) ++ map Some vr) s u). rewrite IH by assumption.
      rewrite <- app_cons_assoc.
      assert (view c v = v) as -> by (destruct c; try reflexivity; discriminate). reflexivity.
    + cbn [eval_atom]. rewrite (app_cons_assoc pre (Some v)), <- (length_snoc pre (Some v)).
      rewrite IH by assumption. rewrite <- app_cons_assoc.
      assert (view c v = VImp) as -> by (destruct c; try discriminate; reflexivity). reflexivity.
Qed.

(* EvalPatternMutAsWildcard against what eval hands back: every slot holds the caller's value again *)
Lemma bind_no_mut_ok : forall cs vs pre s u,
  length vs = length cs ->
  bind_atoms (mk (pre ++ after_eval cs vs) s u) (items_from EvalPatternMutAsWildcard (length pre) cs) (views cs vs)
  = Some (mk (pre ++ map Some vs) s u).
Proof.
  induction cs as [|c cr IH]; intros [|v vr] pre s u H; try discriminate.
  - reflexivity.
  - cbn [items_from bind_atoms map views after_eval]. injection H as H.
    unfold item. destruct (classify_arg c) eqn:E.
    + cbn [bind_atom e_params mk]. rewrite set_at_app. unfold with_params. cbn [e_self e_surr mk].
      assert (view c v = v) as -> by (destruct c; try reflexivity; discriminate).
      rewrite (app_cons_assoc pre (Some v)), <- (length_snoc pre (Some v)).
      fold (mk ((pre ++ [Some v]) ++ after_eval cr vr) s u). rewrite IH by assumption.
      rewrite <- app_cons_assoc. reflexivity.
    + cbn [bind_atom]. rewrite (app_cons_assoc pre (Some v)), <- (length_snoc pre (Some v)).
      rewrite IH by assumption. rewrite <- app_cons_assoc. reflexivity.
Qed.

(* FnParams (and FnPattern, EvalPatternAll as expressions): the caller's values, in order, each moved once *)
Lemma fn_params_ok : forall cs vs pre s u,
  length vs = length cs ->
  eval_atoms (mk (pre ++ map Some vs) s u) (items_from FnParams (length pre) cs)
  = Some (vs, mk (pre ++ map (fun _ => None) vs) s u).
Proof.
  induction cs as [|c cr IH]; intros [|v vr] pre s u H; try discriminate.
  - reflexivity.
  - cbn [items_from eval_atoms map]. injection H as H.
    assert (item FnParams (length pre) c = AId (length pre)) as ->
      by (unfold item; destruct (classify_arg c); reflexivity).
    cbn [eval_atom e_params mk]. rewrite take_at_app. unfold with_params. cbn [e_self e_surr mk].
    rewrite (app_cons_assoc pre None), <- (length_snoc pre None).
    fold (mk ((pre ++ [None]) ++ map Some vr) s u). rewrite IH by assumption.
    rewrite <- app_cons_assoc. reflexivity.
Qed.

(* EvalPatternAll re-binds everything that left through `_exit!` *)
Lemma bind_all_ok : forall cs vs pre s u,
  length vs = length cs ->
  bind_atoms (mk (pre ++ map (fun _ => None) vs) s u) (items_from EvalPatternAll (length pre) cs) vs
  = Some (mk (pre ++ map Some vs) s u).
Proof.
  induction cs as [|c cr IH]; intros [|v vr] pre s u H; try discriminate.
  - reflexivity.
  - cbn [items_from bind_atoms map]. injection H as H.
    assert (item EvalPatternAll (length pre) c = AId (length pre)) as ->
      by (unfold item; destruct (classify_arg c); reflexivity).
    cbn [bind_atom e_params mk]. rewrite set_at_app. unfold with_params. cbn [e_self e_surr mk].
    rewrite (app_cons_assoc pre (Some v)), <- (length_snoc pre (Some v)).
    fold (mk ((pre ++ [Some v]) ++ map (fun _ => None) vr) s u). rewrite IH by assumption.
    rewrite <- app_cons_assoc. reflexivity.
Qed.

Lemma views_length : forall cs vs, length vs = length cs -> length (views cs vs) = length cs.
Proof. induction cs; intros [|v vr] H; try discriminate; cbn; [reflexivity|]. injection H as H. rewrite IHcs; auto. Qed.

(* ---------- tupled forms: term-level and value-level packing agree ---------- *)

Lemma eval_tupled : forall e l vs e',
  length l = length vs ->
  eval_atoms e l = Some (vs, e') ->
  eval_tterm e (tuple_up l) = Some (pack vs, e').
Proof.
  intros e [|a [|b r]] [|v [|w vr]] e' HL H; try discriminate; cbn in *.
  - injection H as <-. reflexivity.
  - destruct (eval_atom e a) as [[x e1]|]; [|discriminate]. injection H as -> ->. reflexivity.
  - rewrite H. reflexivity.
Qed.

Lemma bind_tupled : forall e l vs e',
  length l = length vs ->
  bind_atoms e l vs = Some e' ->
  bind_tterm e (tuple_up l) (pack vs) = Some e'.
Proof.
  intros e [|a [|b r]] [|v [|w vr]] e' HL H; try discriminate; cbn in *.
  - exact H.
  - destruct (bind_atom e a v); [exact H|discriminate].
  - exact H.
Qed.

(* the five syntaxes at Tupled(true)/Tupled(false), for every class list *)
Section Syntaxes.
  Variables (cs : list pclass) (vs : list aval) (s u : option selfv).
  Hypothesis HL : length vs = length cs.

  Lemma t_eval_params :
    eval_tterm (mk (map Some vs) s u) (tupled EvalParams cs)
    = Some (pack (views cs vs), mk (after_eval cs vs) s u).
  Proof.
    apply eval_tupled. { unfold untupled. rewrite items_length, views_length; auto. }
    exact (eval_params_ok cs vs [] s u HL).
  Qed.

  Lemma t_bind_no_mut :
    bind_tterm (mk (after_eval cs vs) s u) (tupled EvalPatternMutAsWildcard cs) (pack (views cs vs))
    = Some (mk (map Some vs) s u).
  Proof.
    apply bind_tupled. { unfold untupled. rewrite items_length, views_length; auto. }
    exact (bind_no_mut_ok cs vs [] s u HL).
  Qed.

  Lemma t_fn_params :
    eval_atoms (mk (map Some vs) s u) (untupled FnParams cs)
    = Some (vs, mk (map (fun _ => None) vs) s u).
  Proof. exact (fn_params_ok cs vs [] s u HL). Qed.

  Lemma t_fn_params_tupled :
    eval_tterm (mk (map Some vs) s u) (tupled FnParams cs)
    = Some (pack vs, mk (map (fun _ => None) vs) s u).
  Proof.
    apply eval_tupled. { unfold untupled. rewrite items_length; auto. }
    exact t_fn_params.
  Qed.

  Lemma t_bind_all :
    bind_tterm (mk (map (fun _ => None) vs) s u) (tupled EvalPatternAll cs) (pack vs)
    = Some (mk (map Some vs) s u).
  Proof.
    apply bind_tupled. { unfold untupled. rewrite items_length; auto. }
    exact (bind_all_ok cs vs [] s u HL).
  Qed.
End Syntaxes.

(* ---------- the whole body ---------- *)

Lemma rt_eval_hands_back : forall R (r : responder R) i c i',
  rt_eval r i = EContinue c i' -> i' = i.
Proof. intros R [o|f| | |fid f ps] i c i' H; cbn in H; try discriminate; injection H as _ <-; reflexivity. Qed.

Ltac rw L := let H := fresh in pose proof L as H; unfold mk in H; rewrite H; clear H.

(* ---------- explicit unmock parameter lists ---------- *)

Lemma take_at_spec : forall ps i v ps',
  take_at i ps = Some (v, ps') ->
  nth_error ps i = Some (Some v) /\ (forall j, j <> i -> nth_error ps' j = nth_error ps j).
Proof.
  induction ps as [|x r IH]; intros [|i] v ps' H; cbn in H; try discriminate.
  - destruct x as [w|]; [|discriminate]. injection H as -> <-. split; [reflexivity|].
    intros [|j] Hj; [contradiction|reflexivity].
  - destruct (take_at i r) as [[w r']|] eqn:E; [|discriminate]. injection H as -> <-.
    destruct (IH i v r' E) as [H1 H2]. split; [exact H1|].
    intros [|j] Hj; [reflexivity|]. cbn. apply H2. intros ->. apply Hj. reflexivity.
Qed.

Lemma take_at_some : forall ps i v, nth_error ps i = Some (Some v) -> exists ps', take_at i ps = Some (v, ps').
Proof.
  induction ps as [|x r IH]; intros [|i] v H; cbn in H; try discriminate.
  - injection H as ->. eexists. reflexivity.
  - destruct (IH i v H) as [r' E]. cbn. rewrite E. eexists. reflexivity.
Qed.

(* expression x is available in e and denotes a *)
Definition avail (e : env) (x : uexpr) (a : rarg) : Prop :=
  match x with
  | USelf => exists s, e_self e = Some s /\ a = RSelf s
  | UParam i => exists v, nth_error (e_params e) i = Some (Some v) /\ a = RVal v
  end.

Lemma eval_uexpr_avail : forall e x a, avail e x a ->
  exists e1, eval_uexpr e x = Some (a, e1)
    /\ forall y b, y <> x -> avail e y b -> avail e1 y b.
Proof.
  intros e [|i] a H; cbn [avail] in H.
  - destruct H as [s [Hs ->]]. cbn [eval_uexpr move_self]. rewrite Hs. eexists. split; [reflexivity|].
    intros [|j] b Hy Hb; [contradiction|]. exact Hb.
  - destruct H as [v [Hv ->]]. destruct (take_at_some _ _ _ Hv) as [ps' E].
    cbn [eval_uexpr eval_atom]. rewrite E. eexists. split; [reflexivity|].
    intros [|j] b Hy Hb; cbn [avail with_params e_self e_params] in *; [exact Hb|].
    destruct Hb as [w [Hw ->]]. exists w. split; [|reflexivity].
    destruct (take_at_spec _ _ _ _ E) as [_ H2]. rewrite H2; [exact Hw|]. intros ->. apply Hy. reflexivity.
Qed.

Lemma eval_uexprs_avail : forall l e (rs : list rarg),
  NoDup l -> Forall2 (avail e) l rs -> exists e', eval_uexprs e l = Some (rs, e').
Proof.
  induction l as [|x r IH]; intros e rs ND F; inversion F as [|x' a r' ar Ha Hr]; subst.
  - eexists. reflexivity.
  - destruct (eval_uexpr_avail e x a Ha) as [e1 [E1 Hpres]].
    inversion ND as [|x' r' Hnin ND']; subst.
    assert (Forall2 (avail e1) r ar) as F1.
    { clear IH E1 ND ND' F Ha. induction Hr as [|y b r ar Hyb Hr IHr]; [constructor|].
      constructor.
      - apply Hpres; [|exact Hyb]. intros ->. apply Hnin. left. reflexivity.
      - apply IHr. intros Hin. apply Hnin. right. exact Hin. }
    destruct (IH e1 ar ND' F1) as [e' E']. cbn [eval_uexprs]. rewrite E1, E'. eexists. reflexivity.
Qed.

Lemma eval_uexprs_select : forall l args u,
  uexprs_ok (length args) l ->
  exists e', eval_uexprs (mk (map Some args) (Some SelfAsPassed) u) l = Some (select l args, e').
Proof.
  intros l args u [ND FR]. apply eval_uexprs_avail; [exact ND|].
  unfold select. induction FR as [|x r Hx Hr IH]; [constructor|]. cbn [map]. constructor.
  - destruct x as [|k]; cbn [avail mk e_self e_params].
    + exists SelfAsPassed. split; reflexivity.
    + cbn [uexpr_in_range] in Hx. exists (nth k args VImp). split; [|reflexivity].
      rewrite nth_error_map, (nth_error_nth' args VImp Hx). reflexivity.
  - apply IH. inversion ND; assumption.
Qed.

Section Body.
  Variable R : Type.
  Variables (cs : list pclass) (args : list aval) (resp : responder R) (st : store).
  Hypothesis HL : length args = length cs.
  Hypothesis HW : resp_wf (length cs) resp.

  (* direct: the template has an Unmock arm *)
  Definition spec_with (direct : bool) (sv : selfv) : outcome R :=
    let i := pack (views cs args) in
    match resp with
    | KReturn o => ([EvEval i], Returned o, st)
    | KAnswer f => ([EvEval i; EvAnswer sv args], Returned (fst (f sv args st)), snd (f sv args st))
    | KUnmock | KDefault => ([EvEval i], Reported, st)
    | KUnmockArm fid f ps =>
        if direct then
          let rargs := match ps with None => RSelf sv :: map RVal args | Some l => select l args end in
          ([EvEval i; EvReal fid rargs], Returned (fst (f rargs st)), snd (f rargs st))
        else ([EvEval i], Reported, st)
    end.

  (* direct template: `match eval(self_ref, inputs) { Return(o) => o, Continue(Answer(f), pat) => f(self, params), .. }` *)
  Lemma direct_ok : forall self_ref, self_ref = SxSelf \/ self_ref = SxRefSelf ->
    exec_body (BDirect self_ref (tupled EvalParams cs) (tupled EvalPatternMutAsWildcard cs) SxSelf (untupled FnParams cs))
              (init_env args) resp st
    = Some (spec_with true SelfAsPassed).
  Proof.
    intros self_ref Hs. unfold exec_body, init_env.
    assert (eval_target {| e_params := map Some args; e_self := Some SelfAsPassed; e_surr := None |} self_ref = Some SelfAsPassed) as ->
      by (destruct Hs; subst; reflexivity).
    rw (t_eval_params cs args (Some SelfAsPassed) None HL).
    unfold spec_with. destruct resp as [o|f| | |fid f [l|]]; cbn [rt_eval]; try reflexivity.
    - rw (t_bind_no_mut cs args (Some SelfAsPassed) None HL).
      cbn [move_self e_self e_params e_surr].
      rw (t_fn_params cs args None None HL).
      unfold apply_answer. destruct (f SelfAsPassed args st). reflexivity.
    - rw (t_bind_no_mut cs args (Some SelfAsPassed) None HL).
      cbn [resp_wf] in HW. rewrite <- HL in HW.
      destruct (eval_uexprs_select l args None HW) as [e' E]. unfold mk in E. rewrite E.
      unfold apply_real. destruct (f (select l args) st). reflexivity.
    - rw (t_bind_no_mut cs args (Some SelfAsPassed) None HL).
      cbn [move_self e_self e_params e_surr].
      rw (t_fn_params cs args None None HL).
      unfold apply_real. destruct (f (RSelf SelfAsPassed :: map RVal args) st). reflexivity.
  Qed.

  (* polonius template *)
  Lemma polonius_ok : forall pre,
    exec_body (BPolonius pre SxSurr (tupled EvalParams cs) (tupled EvalPatternMutAsWildcard cs)
                         (tupled FnParams cs) (tupled EvalPatternAll cs) SxSurr (untupled FnParams cs))
              (init_env args) resp st
    = Some (spec_with false (match pre with PreMove => SelfAsPassed | PreUnpin => SelfUnpinned end)).
  Proof.
    intros pre. unfold exec_body, init_env. cbn [run_prelude e_self e_params e_surr eval_target].
    set (sv := match pre with PreMove => SelfAsPassed | PreUnpin => SelfUnpinned end).
    rw (t_eval_params cs args None (Some sv) HL).
    unfold spec_with. destruct resp as [o|f| | |fid f ps]; cbn [rt_eval]; try reflexivity;
      rw (t_bind_no_mut cs args None (Some sv) HL);
      rw (t_fn_params_tupled cs args None (Some sv) HL);
      rw (t_bind_all cs args None (Some sv) HL); try reflexivity.
    cbn [move_self e_self e_params e_surr].
    rw (t_fn_params cs args None None HL).
    unfold apply_answer. destruct (f sv args st). reflexivity.
  Qed.
End Body.

Theorem forwarding : forall R (sh : shape) (args : list aval) (resp : responder R) (st : store),
  length args = length (sh_params sh) -> resp_wf (length (sh_params sh)) resp ->
  exec_body (gen_body sh) (init_env args) resp st = Some (forward_spec sh args resp st).
Proof.
  intros R sh args resp st HL HW. unfold gen_body, forward_spec.
  destruct (sh_recv sh); cbn [receiver_of self_reference received_self].
  1,3,4,5,6,8,9: (rewrite (direct_ok R (sh_params sh) args resp st HL HW) by (auto); unfold spec_with; destruct resp; reflexivity).
  all: rewrite (polonius_ok R (sh_params sh) args resp st HL HW); unfold spec_with; destruct resp; reflexivity.
Qed.

(* ---------- declaration order, position by position ---------- *)

Lemma views_nth : forall cs vs k,
  length vs = length cs ->
  nth_error (views cs vs) k =
  match nth_error cs k, nth_error vs k with
  | Some c, Some v => Some (view c v)
  | _, _ => None
  end.
Proof.
  induction cs as [|c cr IH]; intros [|v vr] k H; try discriminate.
  - destruct k; reflexivity.
  - destruct k; cbn; [reflexivity|]. apply IH. injection H as H. exact H.
Qed.

(* FnPattern (the binder of `debug_inputs`): component k of the inputs is bound to parameter k *)
Lemma bind_fn_pattern_ok : forall cs vs pre s u,
  length vs = length cs ->
  bind_atoms (mk (pre ++ map (fun _ => None) vs) s u) (items_from FnPattern (length pre) cs) vs
  = Some (mk (pre ++ map Some vs) s u).
Proof.
  induction cs as [|c cr IH]; intros [|v vr] pre s u H; try discriminate.
  - reflexivity.
  - cbn [items_from bind_atoms map]. injection H as H.
    assert (item FnPattern (length pre) c = AId (length pre)) as ->
      by (unfold item; destruct (classify_arg c); reflexivity).
    cbn [bind_atom e_params mk]. rewrite set_at_app. unfold with_params. cbn [e_self e_surr mk].
    rewrite (app_cons_assoc pre (Some v)), <- (length_snoc pre (Some v)).
    fold (mk ((pre ++ [Some v]) ++ map (fun _ => None) vr) s u). rewrite IH by assumption.
    rewrite <- app_cons_assoc. reflexivity.
Qed.

Lemma t_bind_fn_pattern : forall cs vs s u, length vs = length cs ->
  bind_tterm (mk (map (fun _ => None) vs) s u) (tupled FnPattern cs) (pack vs)
  = Some (mk (map Some vs) s u).
Proof.
  intros. apply bind_tupled. { unfold untupled. rewrite items_length; auto. }
  exact (bind_fn_pattern_ok cs vs [] s u H).
Qed.

(* ---------- &mut: the answer works on the caller's own locations ---------- *)

Lemma answer_store : forall R sh args (f : answer_fn R) st,
  length args = length (sh_params sh) ->
  exists tr r,
    exec_body (gen_body sh) (init_env args) (KAnswer f) st
    = Some (tr, Returned r, snd (f (received_self (sh_recv sh)) args st))
    /\ r = fst (f (received_self (sh_recv sh)) args st)
    /\ In (EvAnswer (received_self (sh_recv sh)) args) tr.
Proof.
  intros R sh args f st HL. rewrite (forwarding R sh args (KAnswer f) st HL I). cbn [forward_spec].
  eexists. eexists. split; [reflexivity|]. split; [reflexivity|]. right. left. reflexivity.
Qed.

(* ---------- sync / async ---------- *)

(* the recorded deviation: RPIT future on a polonius receiver *)
Definition Known (sh : shape) : Prop := expansion_compiles sh = false.

Lemma not_known : forall sh, ~ Known sh -> expansion_compiles sh = true.
Proof. intros sh H. unfold Known in H. destruct (expansion_compiles sh); [reflexivity|]. exfalso. apply H. reflexivity. Qed.

Lemma sync_never_known : forall sh, deferred sh = false -> ~ Known sh.
Proof.
  intros sh HD HK. unfold Known, expansion_compiles in HK. unfold deferred, sig_async, must_async_wrap in HD.
  destruct (sh_flavour sh); try discriminate; destruct (receiver_of (sh_recv sh)); discriminate.
Qed.

Lemma sync_runs_at_call : forall R sh args (resp : responder R) st,
  deferred sh = false -> length args = length (sh_params sh) -> resp_wf (length (sh_params sh)) resp ->
  call_method sh args resp st = Now (Some (forward_spec sh args resp st)).
Proof.
  intros R sh args resp st HD HL HW. unfold call_method.
  rewrite (not_known sh (sync_never_known sh HD)). cbn [negb].
  rewrite HD, (forwarding R sh args resp st HL HW). reflexivity.
Qed.

Lemma known_refuted : forall R args (resp : responder R) st,
  exists sh, Known sh /\ call_method sh args resp st = Now None.
Proof.
  intros. exists {| sh_recv := RcvMut; sh_params := []; sh_ret := RetVal; sh_flavour := FRpit;
                    sh_trait_generic := false; sh_api := ApiModule |}.
  split; reflexivity.
Qed.

Lemma async_deferred : forall R sh args (resp : responder R) st,
  ~ Known sh -> deferred sh = true -> length args = length (sh_params sh) -> resp_wf (length (sh_params sh)) resp ->
  exists fut, call_method sh args resp st = Later fut
    /\ (forall st', await fut st' = Some (forward_spec sh args resp st'))
    /\ (forall st', drop_unpolled fut st' = ([], Reported, st')).
Proof.
  intros R sh args resp st HK HD HL HW. unfold call_method. rewrite (not_known sh HK). cbn [negb].
  rewrite HD. eexists. split; [reflexivity|]. split.
  - intros st'. unfold await. cbn [fu_body fu_env fu_resp]. apply forwarding; assumption.
  - intros st'. reflexivity.
Qed.

Definition runs (sh : shape) (u : use) : bool :=
  negb (deferred sh) || match u with Awaited => true | DroppedUnpolled => false end.

Definition ran_calls (sh : shape) (calls : list (use * list aval * store)) : nat :=
  length (filter (fun c => runs sh (fst (fst c))) calls).

Lemma count_evals_app : forall a b, count_evals (a ++ b) = count_evals a + count_evals b.
Proof. intros. unfold count_evals. rewrite filter_app, app_length. reflexivity. Qed.
Lemma count_answers_app : forall a b, count_answers (a ++ b) = count_answers a + count_answers b.
Proof. intros. unfold count_answers. rewrite filter_app, app_length. reflexivity. Qed.

Definition answers_expected {R} (resp : responder R) (n : nat) : nat :=
  match resp with KAnswer _ => n | _ => 0 end.

Lemma call_and_counts : forall R sh u args (resp : responder R) st,
  ~ Known sh -> length args = length (sh_params sh) -> resp_wf (length (sh_params sh)) resp ->
  exists tr res st', call_and sh u args resp st = Some (tr, res, st')
    /\ count_evals tr = (if runs sh u then 1 else 0)
    /\ count_answers tr = answers_expected resp (if runs sh u then 1 else 0).
Proof.
  intros R sh u args resp st HK HL HW. unfold call_and, runs.
  destruct (deferred sh) eqn:HD.
  - destruct (async_deferred R sh args resp st HK HD HL HW) as [fut [-> [HA HDp]]].
    destruct u; cbn [negb orb].
    + rewrite HA. clear HW HA. destruct resp; cbn [forward_spec]; try destruct (receiver_of (sh_recv sh));
        do 3 eexists; (split; [reflexivity|]); split; reflexivity.
    + rewrite HDp. do 3 eexists. split; [reflexivity|]. split; [reflexivity|]. destruct resp; reflexivity.
  - rewrite (sync_runs_at_call R sh args resp st HD HL HW). cbn [negb orb]. clear HW.
    destruct resp; cbn [forward_spec]; try destruct (receiver_of (sh_recv sh));
      do 3 eexists; (split; [reflexivity|]); split; reflexivity.
Qed.

Theorem once_per_await : forall R sh (resp : responder R) calls,
  ~ Known sh -> resp_wf (length (sh_params sh)) resp ->
  Forall (fun c => length (snd (fst c)) = length (sh_params sh)) calls ->
  exists tr, run_calls sh resp calls = Some tr
    /\ count_evals tr = ran_calls sh calls
    /\ count_answers tr = answers_expected resp (ran_calls sh calls).
Proof.
  intros R sh resp calls HK HW H. induction H as [|[[u args] st] r Hc Hr IH].
  - exists []. split; [reflexivity|]. split; [reflexivity|]. destruct resp; reflexivity.
  - destruct IH as [tr' [E [C1 C2]]]. cbn [fst snd] in Hc.
    destruct (call_and_counts R sh u args resp st HK Hc HW) as [tr [res [st' [EC [D1 D2]]]]].
    exists (tr ++ tr'). cbn [run_calls]. rewrite EC, E. split; [reflexivity|].
    rewrite count_evals_app, count_answers_app, C1, C2, D1, D2.
    unfold ran_calls. cbn [filter fst]. destruct (runs sh u); cbn [length]; split; try reflexivity;
      destruct resp; reflexivity.
Qed.

(* ---------- unmock_with: which list entry belongs to which method ---------- *)

Definition count_mocked (items : list bool) : nat := length (filter (fun b => b) items).

(* the index of the k-th mocked method is the position of the k-th `true`: that fn item is a mocked
   method and exactly k mocked methods stand before it *)
Lemma method_index_spec : forall items k i,
  method_index items k = Some i <->
  (nth_error items i = Some true /\ count_mocked (firstn i items) = k).
Proof.
  induction items as [|b r IH]; intros k i.
  - cbn. split; [discriminate|]. intros [H _]. destruct i; discriminate.
  - destruct b; cbn [method_index].
    + destruct k as [|k'].
      * split.
        -- intros H. injection H as <-. split; reflexivity.
        -- intros [H1 H2]. destruct i as [|i']; [reflexivity|]. cbn in H2. discriminate.
      * destruct (method_index r k') as [j|] eqn:E; cbn [option_map].
        -- destruct (proj1 (IH k' j) E) as [H1 H2]. split.
           ++ intros H. injection H as <-. split; [exact H1|]. unfold count_mocked. cbn. f_equal. exact H2.
           ++ intros [H1' H2']. destruct i as [|i']; [cbn in H2'; discriminate|].
              cbn in H1'. unfold count_mocked in H2'. cbn in H2'. injection H2' as H2'.
              assert (method_index r k' = Some i') as E' by (apply IH; split; assumption).
              rewrite E in E'. injection E' as ->. reflexivity.
        -- split; [discriminate|]. intros [H1' H2']. destruct i as [|i']; [cbn in H2'; discriminate|].
           cbn in H1'. unfold count_mocked in H2'. cbn in H2'. injection H2' as H2'.
           assert (method_index r k' = Some i') as E' by (apply IH; split; assumption).
           rewrite E in E'. discriminate.
    + destruct (method_index r k) as [j|] eqn:E; cbn [option_map].
      * destruct (proj1 (IH k j) E) as [H1 H2]. split.
        -- intros H. injection H as <-. split; [exact H1|]. exact H2.
        -- intros [H1' H2']. destruct i as [|i']; [cbn in H1'; discriminate|].
           cbn in H1'. unfold count_mocked in H2'. cbn in H2'.
           assert (method_index r k = Some i') as E' by (apply IH; split; assumption).
           rewrite E in E'. injection E' as ->. reflexivity.
      * split; [discriminate|]. intros [H1' H2']. destruct i as [|i']; [cbn in H1'; discriminate|].
        cbn in H1'. unfold count_mocked in H2'. cbn in H2'.
        assert (method_index r k = Some i') as E' by (apply IH; split; assumption).
        rewrite E in E'. discriminate.
Qed.

(* the function a method is unmocked with is the entry written at the method's own position among ALL fn
   items of the trait (skipped receiver-less functions count, `_` entries are not compacted away) *)
Lemma unmock_of_spec : forall items uw k fid ps,
  unmock_of items (Some uw) k = Some (fid, ps) <->
  exists i, nth_error items i = Some true /\ count_mocked (firstn i items) = k /\
            ((nth_error uw i = Some (UPath fid) /\ ps = None) \/
             (exists l, nth_error uw i = Some (UCall fid l) /\ ps = Some l)).
Proof.
  intros items uw k fid ps. unfold unmock_of, get_unmock_fn. split.
  - destruct (method_index items k) as [i|] eqn:E; [|discriminate].
    destruct (proj1 (method_index_spec items k i) E) as [H1 H2].
    destruct (nth_error uw i) as [[|f|f l]|] eqn:U; try discriminate; intros H; injection H as <- <-;
      exists i; (split; [exact H1|]); (split; [exact H2|]).
    + left. split; [exact U|reflexivity].
    + right. exists l. split; [exact U|reflexivity].
  - intros [i [H1 [H2 H3]]]. rewrite (proj2 (method_index_spec items k i) (conj H1 H2)).
    destruct H3 as [[-> ->]|[l [-> ->]]]; reflexivity.
Qed.

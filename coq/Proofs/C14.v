(* Unimock.Proofs.C14 -- clause composition preserves order; inconsistent
   setups are rejected while assembling. *)
From Unimock Require Import Model.Tree Model.Eval Spec.Leaves Spec.FirstMatch Proofs.Core.
Open Scope N_scope.

(* ---------- induction principle for the nested type ---------- *)
Section TreeInd.
Variable P : ctree -> Prop.
Hypothesis Hleaf : forall x, P (CLeaf x).
Hypothesis Hunit : P CUnit.
Hypothesis Hnode : forall ts, Forall P ts -> P (CNode ts).

Fixpoint ctree_ind' (t : ctree) : P t :=
  match t with
  | CLeaf x => Hleaf x
  | CUnit => Hunit
  | CNode ts =>
    Hnode ts ((fix go (l : list ctree) : Forall P l :=
                 match l with
                 | [] => Forall_nil P
                 | t' :: l' => Forall_cons t' (ctree_ind' t') (go l')
                 end) ts)
  end.
End TreeInd.

(* ---------- order ---------- *)

Lemma list_nat_eqb_eq a : forall b, list_nat_eqb a b = true -> a = b.
Proof.
  induction a as [|x a IH]; intros [|y b] H; cbn in H; try discriminate; [reflexivity|].
  apply andb_true_iff in H as [Hx Hr]. apply Nat.eqb_eq in Hx. subst. f_equal. now apply IH.
Qed.

Lemma table_ok_order tb n o : table_ok tb = true -> assoc_nat n tb = Some o -> o = seq 0 n.
Proof.
  unfold table_ok. induction tb as [|[k v] tb IH]; cbn; intros Hok Ha; [discriminate|].
  apply andb_true_iff in Hok as [Hk Hr].
  destruct (Nat.eqb_spec k n) as [->|Hne].
  - injection Ha as <-. now apply list_nat_eqb_eq.
  - now apply IH.
Qed.

Lemma concat_nth_seq {X} (parts : list (list X)) :
  concat (map (fun i => nth i parts []) (seq 0 (length parts))) = concat parts.
Proof.
  assert (G : forall pre, concat (map (fun i => nth i (pre ++ parts)%list []) (seq (length pre) (length parts))) = concat parts).
  { induction parts as [|p parts IH]; intros pre; cbn; [reflexivity|].
    rewrite app_nth2, Nat.sub_diag by lia. cbn. f_equal.
    specialize (IH (pre ++ [p])%list). rewrite app_length, Nat.add_1_r in IH. cbn in IH.
    rewrite <- app_assoc in IH. exact IH. }
  exact (G []).
Qed.

Theorem flatten_leaves tb : table_ok tb = true ->
  forall t, arities_in tb t = true -> flatten (order_of tb) t = leaves t.
Proof.
  intros Hok. induction t as [x| |ts IH] using ctree_ind'; intros Har; try reflexivity.
  cbn in Har. apply andb_true_iff in Har as [Hn Hall].
  cbn [flatten leaves]. unfold order_of, has_arity in *.
  destruct (assoc_nat (length ts) tb) as [o|] eqn:Ha; [|discriminate].
  rewrite (table_ok_order tb _ o Hok Ha).
  assert (Hmap : map (flatten (order_of tb)) ts = map leaves ts).
  { clear Ha Hn. induction ts as [|t ts IHts]; [reflexivity|].
    cbn in Hall. apply andb_true_iff in Hall as [Ht Hts].
    inversion IH as [|? ? Hp Hps]; subst. cbn. f_equal; [now apply Hp|now apply IHts]. }
  unfold order_of in Hmap. rewrite Hmap.
  replace (length ts) with (length (map leaves ts)) by apply map_length.
  rewrite concat_nth_seq. now rewrite flat_map_concat_map.
Qed.

(* nothing dropped, nothing duplicated: the leaf count is preserved (corollary) *)
Corollary flatten_length tb t : table_ok tb = true -> arities_in tb t = true ->
  length (flatten (order_of tb) t) = length (leaves t).
Proof. intros H1 H2. now rewrite (flatten_leaves tb H1 t H2). Qed.

(* ---------- rejection ---------- *)
Section Reject.
Variable info : N -> minfo.
Notation asm_push := (asm_push info).
Notation asm_pushes := (asm_pushes info).
Notation offence := (offence info).
Notation first_offence := (first_offence info).

Definition modes_agree (a : assembler) (seen : list pushed) : Prop :=
  forall m, mode_of m (a_table a) = first_mode m seen.

Lemma first_mode_app m seen x :
  first_mode m (seen ++ [x])%list =
  match first_mode m seen with
  | Some md => Some md
  | None => match x with Pushed m' b => if N.eqb m' m then Some (b_mode b) else None | PushErr _ => None end
  end.
Proof.
  induction seen as [|[m' b|e] seen IH]; cbn.
  - destruct x as [m' b|e]; [destruct (N.eqb m' m)|]; reflexivity.
  - destruct (N.eqb m' m); [reflexivity|exact IH].
  - exact IH.
Qed.

Lemma asm_push_offence a seen m b : modes_agree a seen ->
  match asm_push a m b with
  | inl a' => offence seen (Pushed m b) = None /\ modes_agree a' (seen ++ [Pushed m b])%list
  | inr e => offence seen (Pushed m b) = Some e
  end.
Proof.
  intros Hag. unfold Assemble.asm_push, Leaves.offence.
  destruct (b_err b) as [e|]; [reflexivity|].
  pose proof (Hag m) as Hm. unfold mode_of in Hm.
  unfold new_call_pattern.
  destruct (b_mode b) eqn:Hmode.
  - (* InAnyOrder *)
    destruct (lookup m (a_table a)) as [mk|] eqn:Hl; rewrite <- Hm.
    + rewrite <- Hmode. destruct (mode_eqb (m_mode mk) (b_mode b)) eqn:He; [|now rewrite Hmode].
      split; [reflexivity|]. intros m'. rewrite first_mode_app, <- (Hag m'). unfold mode_of. cbn [a_table].
      destruct (N.eqb_spec m m') as [<-|Hne].
      * now rewrite lookup_update_same, Hl.
      * rewrite lookup_update_other by assumption. destruct (lookup m' (a_table a)); reflexivity.
    + split; [reflexivity|]. intros m'. rewrite first_mode_app, <- (Hag m'). unfold mode_of. cbn [a_table].
      destruct (N.eqb_spec m m') as [<-|Hne].
      * now rewrite lookup_update_same, Hl, Hmode.
      * rewrite lookup_update_other by assumption. destruct (lookup m' (a_table a)); reflexivity.
  - (* InOrder *)
    destruct (exact_calls (b_exp b)) as [n|]; [|reflexivity].
    destruct (lookup m (a_table a)) as [mk|] eqn:Hl; rewrite <- Hm.
    + rewrite <- Hmode. destruct (mode_eqb (m_mode mk) (b_mode b)) eqn:He; [|now rewrite Hmode].
      split; [reflexivity|]. intros m'. rewrite first_mode_app, <- (Hag m'). unfold mode_of. cbn [a_table].
      destruct (N.eqb_spec m m') as [<-|Hne].
      * now rewrite lookup_update_same, Hl.
      * rewrite lookup_update_other by assumption. destruct (lookup m' (a_table a)); reflexivity.
    + split; [reflexivity|]. intros m'. rewrite first_mode_app, <- (Hag m'). unfold mode_of. cbn [a_table].
      destruct (N.eqb_spec m m') as [<-|Hne].
      * now rewrite lookup_update_same, Hl, Hmode.
      * rewrite lookup_update_other by assumption. destruct (lookup m' (a_table a)); reflexivity.
Qed.

Theorem asm_pushes_offence ps : forall a seen, modes_agree a seen ->
  match asm_pushes a ps with
  | inl _ => first_offence seen ps = None
  | inr e => first_offence seen ps = Some e
  end.
Proof.
  induction ps as [|[m b|msg] ps IH]; intros a seen Hag; cbn [Assemble.asm_pushes Leaves.first_offence].
  - reflexivity.
  - pose proof (asm_push_offence a seen m b Hag) as H.
    destruct (asm_push a m b) as [a'|e].
    + destruct H as [Ho Hag']. rewrite Ho. now apply IH.
    + now rewrite H.
  - reflexivity.
Qed.

Lemma modes_agree_new : modes_agree new_assembler [].
Proof. intros m. reflexivity. Qed.

Theorem rejected_iff ps e :
  asm_pushes new_assembler ps = inr e <-> first_offence [] ps = Some e.
Proof.
  pose proof (asm_pushes_offence ps new_assembler [] modes_agree_new) as H.
  destruct (asm_pushes new_assembler ps) as [a|e']; split; intros G; try congruence.
Qed.

Theorem accepted_iff ps :
  (exists a, asm_pushes new_assembler ps = inl a) <-> first_offence [] ps = None.
Proof.
  pose proof (asm_pushes_offence ps new_assembler [] modes_agree_new) as H.
  destruct (asm_pushes new_assembler ps) as [a|e']; split; intros G; try congruence.
  - now exists a.
  - destruct G as [a G]. discriminate.
Qed.

End Reject.

(* ---------- compile time: what the type states refuse ---------- *)
Lemma no_at_least_on_ordered bc c ts b n :
  b_mode b = InOrder -> bstep bc c (ts, b) (OAtLeastTimes n) = None.
Proof.
  intros Hm. destruct ts; cbn; try reflexivity; rewrite ?Hm; try reflexivity.
  destruct c; reflexivity.
Qed.

Lemma then_needs_exact bc c ts b st :
  bstep bc c (ts, b) OThen = Some st -> ts = TS_QRE.
Proof. destruct ts; cbn; try discriminate; reflexivity. Qed.

(* bstep never changes the mode, so a next_call chain stays InOrder *)
Lemma bstep_mode bc c ts b o ts' b' : bstep bc c (ts, b) o = Some (ts', b') -> b_mode b' = b_mode b.
Proof.
  destruct ts, o; cbn; intros H; try discriminate; try (injection H as _ <-; reflexivity).
  all: try (destruct c; try discriminate; try (injection H as _ <-; reflexivity)).
  all: try (destruct (b_mode b) eqn:Hb; try discriminate; injection H as _ <-; cbn; try rewrite Hb; reflexivity).
  all: try (unfold push_returner_result in H; destruct (into_return_once bc v); injection H as _ <-; reflexivity).
Qed.

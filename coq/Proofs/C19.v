(* Unimock.Proofs.C19 -- lemmas behind Props/C19.v *)
From Unimock Require Import Spec.Messages.
Open Scope N_scope.

(* ---------- strings ---------- *)

Lemma app_assoc_s : forall a b c : string, (a ++ b) ++ c = a ++ (b ++ c).
Proof. induction a; intros; cbn [append]; [reflexivity | now rewrite IHa]. Qed.

Lemma app_nil_s : forall a : string, a ++ "" = a.
Proof. induction a; cbn [append]; [reflexivity | now rewrite IHa]. Qed.

Lemma contains_here : forall x post, contains x (x ++ post).
Proof. intros. exists "", post. reflexivity. Qed.

Lemma contains_after : forall x pre post, contains x (pre ++ x ++ post).
Proof. intros. exists pre, post. reflexivity. Qed.

Lemma contains_app_l : forall x a b, contains x a -> contains x (a ++ b).
Proof.
  intros x a b (pre & post & ->). exists pre, (post ++ b).
  now rewrite !app_assoc_s.
Qed.

Lemma contains_app_r : forall x a b, contains x b -> contains x (a ++ b).
Proof.
  intros x a b (pre & post & ->). exists (a ++ pre), post.
  now rewrite !app_assoc_s.
Qed.

(* ---------- the argument list: separators exactly between arguments ---------- *)

Definition render_opt (a : option string) : string := match a with Some d => d | None => "?" end.

Lemma fmt_inputs_comma_list : forall l, fmt_inputs l = comma_list (map render_opt l).
Proof.
  induction l as [|x rest IH]; [reflexivity|].
  cbn [fmt_inputs]. rewrite IH. destruct rest as [|y rest'].
  - destruct x; cbn; now rewrite ?app_nil_s.
  - destruct x; cbn [map comma_list cat_all render_opt]; now rewrite !app_assoc_s.
Qed.

Lemma fmt_inputs_join : forall l, fmt_inputs l = join ", " (map render_arg l).
Proof.
  induction l as [|x rest IH]; [reflexivity|].
  cbn [fmt_inputs map]. rewrite IH. destruct rest as [|y rest'].
  - cbn. destruct x; cbn; now rewrite ?app_nil_s.
  - cbn [map join]. destruct x; reflexivity.
Qed.

Lemma comma_list_join : forall l, comma_list l = join ", " l.
Proof.
  induction l as [|x rest IH]; [reflexivity|].
  destruct rest as [|y rest']; [cbn; now rewrite app_nil_s|].
  change (join ", " (x :: y :: rest')) with (x ++ ", " ++ join ", " (y :: rest')).
  rewrite <- IH. cbn [comma_list map cat_all]. now rewrite !app_assoc_s.
Qed.

(* a separator for every boundary: the list splits anywhere between two arguments *)
Lemma join_app : forall sep l1 l2, l1 <> [] -> l2 <> [] ->
  join sep (l1 ++ l2) = join sep l1 ++ sep ++ join sep l2.
Proof.
  induction l1 as [|x l1 IH]; intros l2 H1 H2; [congruence|].
  destruct l1 as [|y l1'].
  - destruct l2 as [|z l2']; [congruence|]. reflexivity.
  - transitivity (x ++ sep ++ join sep ((y :: l1') ++ l2)%list); [reflexivity|].
    rewrite IH by congruence.
    transitivity ((x ++ sep ++ join sep (y :: l1')) ++ sep ++ join sep l2); [|reflexivity].
    now rewrite !app_assoc_s.
Qed.

Lemma comma_list_app : forall l1 l2, l1 <> [] -> l2 <> [] ->
  comma_list (l1 ++ l2) = comma_list l1 ++ ", " ++ comma_list l2.
Proof. intros. rewrite !comma_list_join. now apply join_app. Qed.

(* ---------- the dereference chain reaches the value ---------- *)

Lemma apply_ops_app : forall l1 l2 t,
  apply_ops (l1 ++ l2) t = match apply_ops l2 t with Some t' => apply_ops l1 t' | None => None end.
Proof.
  induction l1 as [|o l1 IH]; intros; cbn [apply_ops app].
  - destruct (apply_ops l2 t); reflexivity.
  - rewrite IH. destruct (apply_ops l2 t); reflexivity.
Qed.

Lemma collect_ref : forall m t,
  collect_derefs (TRef m t) =
  let '(ops, k) := collect_derefs t in
  match k with
  | KOther => ((ops ++ [if m then OpRefDeref else OpDeref])%list, KOther)
  | KSliceInner => (ops, KSliceInner)
  end.
Proof. reflexivity. Qed.

(* behind references that do not end in a slice the chain is never cut short *)
Lemma kind_other : forall t, wf_inner t = true ->
  match t with TRef _ (TSlice _) => False | TSlice _ => False | _ => True end ->
  snd (collect_derefs t) = KOther.
Proof.
  induction t as [b|m t' IH|e IH]; intros W NS; [destruct b; reflexivity| |contradiction].
  cbn [collect_derefs].
  destruct t' as [b|m' x|e].
  - destruct b; cbn; reflexivity.
  - assert (K : snd (collect_derefs (TRef m' x)) = KOther).
    { apply IH.
      - cbn [wf_inner] in W. destruct x; try discriminate;
          apply andb_true_iff in W; tauto.
      - destruct x; try exact I. cbn [wf_inner] in W. discriminate. }
    destruct (collect_derefs (TRef m' x)) as [ops k]. cbn [snd] in K. subst k. reflexivity.
  - contradiction.
Qed.

Lemma arg_resolution_wf : forall t, wf_param t = true ->
  arg_resolution t = if knows_debug t then RProper else RNoDebug.
Proof.
  unfold wf_param.
  induction t as [b|m t' IH|e IH]; intros W.
  - destruct b; reflexivity.
  - destruct t' as [b|m' x|e].
    + destruct m, b; reflexivity.
    + (* & over a reference: one `*` strips the closure's reference, then the inner chain *)
      assert (Wx : m = false /\ wf_inner (TRef m' x) = true
                   /\ match x with TSlice _ => False | _ => True end).
      { cbn [wf_inner] in W. destruct x; try discriminate;
          apply andb_true_iff in W; destruct W as [Wm W']; destruct m; try discriminate; auto. }
      destruct Wx as (-> & W' & NS).
      specialize (IH W').
      assert (K : snd (collect_derefs (TRef m' x)) = KOther).
      { apply kind_other; [exact W'|]. destruct x; try exact I. contradiction. }
      unfold arg_resolution in *.
      rewrite (collect_ref false (TRef m' x)).
      destruct (collect_derefs (TRef m' x)) as [ops k]. cbn [snd] in K. subst k.
      cbn [fst] in *. rewrite apply_ops_app. cbn [apply_ops apply_op].
      change (knows_debug (TRef false (TRef m' x))) with (knows_debug (TRef m' x)).
      exact IH.
    + (* & / &mut directly over a slice: no token at all *)
      cbn [knows_debug]. unfold arg_resolution. cbn [collect_derefs fst apply_ops].
      unfold resolve, probe_step, cand_proper, cand_nodebug.
      cbn [sized knows_debug andb].
      destruct m, (knows_debug e); reflexivity.
  - discriminate.
Qed.

Lemma try_debug_wf : forall t v, wf_param t = true ->
  render_opt (try_debug t v) = spec_arg t v.
Proof.
  intros t v W. unfold try_debug, spec_arg. rewrite (arg_resolution_wf t W).
  destruct (knows_debug t); reflexivity.
Qed.

Lemma debug_inputs_spec : forall ts vs, forallb wf_param ts = true ->
  map render_opt (debug_inputs ts vs) = spec_args ts vs.
Proof.
  induction ts as [|t ts IH]; intros vs W; [reflexivity|].
  cbn [forallb] in W. apply andb_true_iff in W. destruct W as [Wt Wts].
  destruct vs as [|v vs]; [reflexivity|].
  cbn [debug_inputs map spec_args]. rewrite try_debug_wf by exact Wt. now rewrite IH.
Qed.

Lemma debug_inputs_length : forall ts vs, length ts = length vs ->
  length (debug_inputs ts vs) = length ts.
Proof.
  induction ts as [|t ts IH]; intros [|v vs] H; try reflexivity; try discriminate.
  cbn [debug_inputs length]. f_equal. apply IH. now injection H.
Qed.

Lemma debug_inputs_nth : forall ts vs i t v,
  nth_error ts i = Some t -> nth_error vs i = Some v ->
  nth_error (debug_inputs ts vs) i = Some (try_debug t v).
Proof.
  induction ts as [|t0 ts IH]; intros vs i t v Ht Hv; [destruct i; discriminate|].
  destruct vs as [|v0 vs]; [destruct i; discriminate|].
  destruct i as [|i]; cbn in *.
  - now inversion Ht; inversion Hv.
  - eapply IH; eassumption.
Qed.

(* ---------- error rendering ---------- *)

Section Render.
Variable info : N -> minfo.
Variable names : N -> pat_name.

Lemma render_call_x_contains_path : forall c,
  contains (path_str (info (fc_mid c))) (render_call_x info c).
Proof. intros. unfold render_call_x, fmt_call. apply contains_here. Qed.

Lemma renders_call : forall e ms c, err_call e = Some c ->
  starts_with (render_call_x info c) (render_error_x info names e ms).
Proof.
  intros e ms c H. destruct e; cbn in H; try discriminate; inversion H; subst;
    try (destruct expected); cbn [render_error_x]; eexists; reflexivity.
Qed.

Lemma names_path : forall e ms m, err_mid e = Some m ->
  contains (path_str (info m)) (render_error_x info names e ms).
Proof.
  intros e ms m H.
  destruct (err_call e) as [c|] eqn:C.
  - assert (m = fc_mid c) by (destruct e; cbn in *; try discriminate; congruence). subst m.
    destruct (renders_call e ms c C) as [post ->].
    apply contains_app_l. apply render_call_x_contains_path.
  - destruct e; cbn in C, H; try discriminate; inversion H; subst; cbn [render_error_x].
    + apply (contains_after _ "Mock for ").
    + apply contains_here.
    + apply contains_here.
    + apply contains_here.
Qed.

Lemma names_pattern : forall e ms p, err_pat e = Some p ->
  contains (render_pat_x info names p) (render_error_x info names e ms).
Proof.
  intros e ms p H.
  destruct e; cbn in H; try discriminate; try (inversion H; subst);
    cbn [render_error_x]; apply contains_app_r;
    try (match goal with |- contains ?x (?a ++ ?x ++ ?b) => apply (contains_after x a b) end).
  (* InputsNotMatchedInCallOrder: the call order sits between *)
  exists (": Method invoked in the correct order (" ++ dec (actual + 1) ++ "), but inputs didn't match "),
         (". " ++ render_mismatches ms).
  now rewrite !app_assoc_s.
Qed.

Lemma render_pat_x_named : forall m d,
  render_pat_x info names {| pd_mid := m; pd_loc := LocDebug d |} = spec_pattern_name (info m) (names d).
Proof. intros. unfold render_pat_x, spec_pattern_name, path_str. cbn. now rewrite !app_assoc_s. Qed.

Lemma vfail_names : forall f,
  starts_with (path_str (info (vf_mid f))) (render_vfail info names f)
  /\ contains (render_pat_x info names (vf_pd f)) (render_vfail info names f).
Proof.
  intros. unfold render_vfail. split.
  - eexists. reflexivity.
  - apply contains_app_r. apply (contains_after _ ": Expected ").
Qed.

End Render.

(* the rendering of Model.Verify (used by C03/C07/C08) is this one under the core
   harness' naming convention, without mismatches *)
Definition core_names (d : N) : pat_name := {| pn_text := dbg_text d; pn_file := dbg_file; pn_line := d |}.

Lemma render_error_x_core : forall info e, render_error_x info core_names e [] = render_error info e.
Proof.
  intros. unfold render_error_x, render_error, render_call_x, render_call, fmt_call, render_pat_x, render_pat.
  destruct e; try destruct expected; try destruct (pd_loc p); try destruct (pd_loc p0);
    rewrite ?fmt_inputs_join; cbn [core_names pn_text pn_file pn_line render_mismatches];
    rewrite ?app_nil_s; reflexivity.
Qed.

(* ---------- the mismatch report ---------- *)

Lemma diag_stmt_none : forall i k t p v, diag_stmt i k t p v = None <-> accepts p v = true.
Proof.
  intros. unfold diag_stmt. destruct p; try (destruct (accepts _ v) eqn:A; split; intros; congruence).
  split; reflexivity.
Qed.

Lemma diag_stmt_some : forall i k t p v m, diag_stmt i k t p v = Some m ->
  accepts p v = false /\ mm_input m = i /\
  mm_actual m = (if is_pat_lit p then Some (fmt_debug v) else res_text (resolve (arg_expr_type k t)) v).
Proof.
  intros i k t p v m H. unfold diag_stmt in H.
  destruct p; try discriminate;
    destruct (accepts _ v) eqn:A; try discriminate; inversion H; subst; cbn; auto.
Qed.

Lemma filter_seq_shift : forall (f : nat -> bool) n s,
  filter f (seq (S s) n) = map S (filter (fun i => f (S i)) (seq s n)).
Proof.
  intros f n. induction n as [|n IH]; intros s; [reflexivity|].
  cbn [seq filter]. rewrite IH. destruct (f (S s)); reflexivity.
Qed.

Lemma spec_positions_cons : forall p ps v vs,
  spec_positions (p :: ps) (v :: vs) =
  ((if accepts p v then [] else [O]) ++ map S (spec_positions ps vs))%list.
Proof.
  intros. unfold spec_positions. cbn [length seq filter].
  rewrite filter_seq_shift.
  unfold rejects_at at 1. cbn [nth_error].
  destruct (accepts p v); cbn [negb app]; reflexivity.
Qed.

Lemma diag_from_positions : forall ps ks ts vs i,
  length ks = length ps -> length ts = length ps -> length vs = length ps ->
  map mm_input (diag_from i ks ts ps vs) = map (Nat.add i) (spec_positions ps vs).
Proof.
  induction ps as [|p ps IH]; intros ks ts vs i Hk Ht Hv.
  - destruct ks, ts, vs; reflexivity.
  - destruct ks as [|k ks]; [discriminate|]. destruct ts as [|t ts]; [discriminate|].
    destruct vs as [|v vs]; [discriminate|].
    cbn [diag_from]. rewrite map_app, spec_positions_cons, map_app, map_map.
    rewrite IH by (cbn in *; congruence).
    f_equal.
    + destruct (diag_stmt i k t p v) as [m|] eqn:D.
      * apply diag_stmt_some in D. destruct D as (A & I & _). rewrite A. cbn. now rewrite I, Nat.add_0_r.
      * apply diag_stmt_none in D. rewrite D. reflexivity.
    + apply map_ext. intros. lia.
Qed.

(* per-position independence: the report of a concatenated pattern is the
   concatenation of the reports, the second part shifted by the first part's ARITY *)
Lemma diag_from_app : forall ps1 ks1 ts1 vs1 ps2 ks2 ts2 vs2 i,
  length ks1 = length ps1 -> length ts1 = length ps1 -> length vs1 = length ps1 ->
  diag_from i (ks1 ++ ks2) (ts1 ++ ts2) (ps1 ++ ps2) (vs1 ++ vs2) =
  (diag_from i ks1 ts1 ps1 vs1 ++ diag_from (i + length ps1) ks2 ts2 ps2 vs2)%list.
Proof.
  induction ps1 as [|p ps1 IH]; intros ks1 ts1 vs1 ps2 ks2 ts2 vs2 i Hk Ht Hv.
  - destruct ks1, ts1, vs1; try discriminate. cbn [app length diag_from]. now rewrite Nat.add_0_r.
  - destruct ks1 as [|k ks1]; [discriminate|]. destruct ts1 as [|t ts1]; [discriminate|].
    destruct vs1 as [|v vs1]; [discriminate|].
    cbn [app diag_from length]. rewrite IH by (cbn in *; congruence).
    rewrite <- app_assoc. do 3 f_equal. lia.
Qed.

(* every listed entry is the statement of its own position, run on that position's value *)
Lemma diag_from_entries : forall ps ks ts vs i m,
  In m (diag_from i ks ts ps vs) ->
  exists j k t p v, mm_input m = (i + j)%nat /\
    nth_error ks j = Some k /\ nth_error ts j = Some t /\ nth_error ps j = Some p /\ nth_error vs j = Some v /\
    diag_stmt (i + j) k t p v = Some m.
Proof.
  induction ps as [|p ps IH]; intros ks ts vs i m H.
  - destruct ks, ts, vs; cbn in H; contradiction.
  - destruct ks as [|k ks]; [contradiction|]. destruct ts as [|t ts]; [contradiction|].
    destruct vs as [|v vs]; [contradiction|].
    cbn [diag_from] in H. apply in_app_or in H. destruct H as [H|H].
    + destruct (diag_stmt i k t p v) as [m'|] eqn:D; [|contradiction].
      destruct H as [<-|[]]. exists O, k, t, p, v. rewrite Nat.add_0_r.
      pose proof (diag_stmt_some _ _ _ _ _ _ D) as (_ & I & _). auto 10.
    + apply IH in H. destruct H as (j & k' & t' & p' & v' & I & A & B & C & D & E).
      exists (S j), k', t', p', v'. replace (i + S j)%nat with (S i + j)%nat by lia. auto 10.
Qed.

(* the value shown for a listed position is the rendering the call shows for that argument *)
Lemma resolve_ref_wf : forall t, wf_param t = true -> res_compiles (resolve (TRef false t)) = true ->
  resolve (TRef false t) = if knows_debug t then RProper else RNoDebug.
Proof.
  unfold wf_param. intros t W C.
  unfold resolve, probe_step, cand_proper, cand_nodebug in *.
  destruct t as [b|m t'|e]; [destruct b; try reflexivity; discriminate| |discriminate].
  cbn [sized andb knows_debug] in *.
  destruct m, (knows_debug t'), t' as [b|m'' x|e]; cbn in *; try reflexivity; try discriminate;
    try (destruct b; cbn in *; try reflexivity; discriminate).
Qed.

Lemma knows_debug_slice_elem : forall t, knows_debug (slice_elem t) = knows_debug t.
Proof. induction t; cbn; auto. Qed.

Lemma mismatch_value : forall i k t p v m,
  wf_param t = true ->
  (is_pat_lit p = true -> knows_debug t = true) ->       (* literals are only written for Debug types *)
  (k = AKLitStr -> knows_debug t = true) ->              (* string literals: str / String parameters *)
  stmt_compiles k t p = true ->
  (t = TB BImp -> p = SWild) ->                          (* an Impossible input can only be matched by `_` *)
  diag_stmt i k t p v = Some m ->
  mm_actual m = try_debug t v.
Proof.
  intros i k t p v m W L S C Imp D.
  assert (IV : input_value t v = v).
  { destruct t as [b| |]; try reflexivity. destruct b; try reflexivity.
    rewrite (Imp eq_refl) in D. discriminate. }
  apply diag_stmt_some in D. destruct D as (A & _ & ->).
  unfold try_debug. rewrite IV, (arg_resolution_wf t W).
  destruct (is_pat_lit p) eqn:Lp.
  - now rewrite (L eq_refl).
  - assert (C' : res_compiles (resolve (arg_expr_type k t)) = true).
    { unfold stmt_compiles in C. destruct p; cbn in Lp; try discriminate; try exact C. }
    destruct k; cbn [arg_expr_type] in *.
    + now rewrite (resolve_ref_wf t W C').
    + rewrite (S eq_refl). reflexivity.
    + rewrite <- (knows_debug_slice_elem t).
      unfold resolve, probe_step, cand_proper, cand_nodebug in *. cbn [sized andb knows_debug] in *.
      destruct (knows_debug (slice_elem t)); [reflexivity|discriminate].
Qed.

(* single alternative, no guard: the argument kinds are those of the sub-patterns *)
Lemma kind_at_seq : forall ps (pre : list spat),
  map (fun i => kind_at i (pre ++ ps)%list) (seq (length pre) (length ps)) = map pat_kind ps.
Proof.
  induction ps as [|p ps IH]; intros pre; [reflexivity|].
  cbn [length seq map]. f_equal.
  - unfold kind_at. clear. induction pre; cbn; auto.
  - specialize (IH (pre ++ [p])%list). rewrite <- app_assoc in IH. cbn [app] in IH.
    rewrite app_length in IH. cbn [length] in IH. rewrite Nat.add_1_r in IH. exact IH.
Qed.

Lemma kinds_single : forall ps, kinds_of [ps] (length ps) = map pat_kind ps.
Proof.
  intros. unfold kinds_of.
  assert (G : forall i, guess_arg_kind i [ps] = kind_at i ps).
  { intros. unfold guess_arg_kind. cbn [guess_loop]. destruct (kind_at i ps); reflexivity. }
  rewrite (map_ext _ _ G).
  exact (kind_at_seq ps []).
Qed.

Lemma diag_input_single : forall ts ps vs,
  diag_input ts {| mi_alts := [ps]; mi_guard := None |} vs = diag_from 0 (map pat_kind ps) ts ps vs.
Proof. intros. unfold diag_input. cbn [mi_guard mi_alts last_alt]. now rewrite kinds_single. Qed.

Lemma pat_debug_text_single : forall ps,
  pat_debug_text {| mi_alts := [ps]; mi_guard := None |} = spec_pattern_text ps.
Proof.
  intros. unfold pat_debug_text, spec_pattern_text. cbn [mi_alts mi_guard map join].
  unfold doc_tuple. now rewrite comma_list_join, !app_nil_s.
Qed.

(* typing side conditions of one position, as rustc imposes them on the generated code *)
Definition position_ok (t : pty) (p : spat) : Prop :=
  wf_param t = true /\
  (is_pat_lit p = true -> knows_debug t = true) /\
  (pat_kind p = AKLitStr -> knows_debug t = true) /\
  stmt_compiles (pat_kind p) t p = true /\
  (t = TB BImp -> p = SWild).

Lemma mismatch_values_single : forall ts ps vs m,
  (forall j t p, nth_error ts j = Some t -> nth_error ps j = Some p -> position_ok t p) ->
  In m (diag_input ts {| mi_alts := [ps]; mi_guard := None |} vs) ->
  nth_error (debug_inputs ts vs) (mm_input m) = Some (mm_actual m).
Proof.
  intros ts ps vs m OK H. rewrite diag_input_single in H.
  apply diag_from_entries in H.
  destruct H as (j & k & t & p & v & I & Hk & Ht & Hp & Hv & D).
  cbn [Nat.add] in I, D. rewrite I.
  rewrite (map_nth_error pat_kind j ps Hp) in Hk. inversion Hk; subst k.
  destruct (OK j t p Ht Hp) as (W & L & S & C & Imp).
  rewrite (mismatch_value j (pat_kind p) t p v m W L S C Imp D).
  now apply debug_inputs_nth.
Qed.

Lemma call_text_spec : forall i ts vs, forallb wf_param ts = true ->
  fmt_call (path_str i) (debug_inputs ts vs) = spec_call i ts vs.
Proof.
  intros. unfold fmt_call, spec_call, path_str.
  rewrite fmt_inputs_comma_list, debug_inputs_spec by assumption.
  now rewrite !app_assoc_s.
Qed.

Lemma has_call_or_path_only : forall e,
  path_only e = false -> (forall msg, e <> EFailedVerification msg) -> exists c, err_call e = Some c.
Proof.
  intros e P F. destruct e; cbn in P; try discriminate; cbn; eauto.
  exfalso. eapply F. reflexivity.
Qed.

Lemma inst_nongeneric : forall t, has_generic t = false -> inst t = t.
Proof.
  induction t as [b|m t IH|t IH]; cbn; intros H.
  - destruct b; try discriminate; reflexivity.
  - now rewrite IH.
  - now rewrite IH.
Qed.

Lemma map_inst_nongeneric : forall ts, forallb (fun t => negb (has_generic t)) ts = true -> map inst ts = ts.
Proof.
  induction ts as [|t ts IH]; cbn; intros H; [reflexivity|].
  apply andb_true_iff in H. destruct H as [Ht Hts].
  rewrite inst_nongeneric by (now destruct (has_generic t)). now rewrite IH.
Qed.

(* Unimock.Proofs.Conc -- Layer B: invariants over ALL schedules. *)
From Unimock Require Import Model.Conc Model.Verify Spec.FirstMatch Proofs.Core Proofs.C01 Proofs.C02.
From Coq Require Import Permutation.
Open Scope N_scope.

Section Conc.
Variable info : N -> minfo.
Variable A : Type.
Variable accepts : N -> A -> bool.
Variable debug_args : A -> list (option string).
Variable cfg : config.

Notation call := (call info A accepts debug_args cfg).
Notation eval := (eval info A accepts debug_args cfg).
Notation eval_raw := (eval_raw info A accepts debug_args cfg).
Notation start_call := (start_call info A accepts debug_args cfg).
Notation after_ord := (after_ord A accepts debug_args cfg).
Notation after_cnt := (after_cnt info A debug_args).
Notation exec := (exec info A accepts debug_args cfg).
Notation tstep := (tstep info A accepts debug_args cfg).
Notation astep := (astep info A accepts debug_args cfg).
Notation advance := (advance info A accepts debug_args cfg).
Notation run_sched := (run_sched info A accepts debug_args cfg).
Notation finish_next := (finish_next info A).
Notation pending := (pending A).
Notation thread := (thread A).
Notation glob := (glob A).

(* ---------- (R) a call whose atomic steps run back to back IS the Layer A call ---------- *)
Fixpoint drive (fuel : nat) (g : glob) (nx : next A) : glob * option action :=
  match nx with
  | NDone act => (g, Some act)
  | NPend pd =>
    match fuel with
    | O => (g, None)
    | S f => let '(g', nx', _) := exec g pd in drive f g' nx'
    end
  end.

Lemma drive_S f g pd : drive (S f) g (NPend pd) = let '(g', nx', _) := exec g pd in drive f g' nx'.
Proof. reflexivity. Qed.

Lemma drive_done f g act : drive f g (NDone act) = (g, Some act).
Proof. destruct f; reflexivity. Qed.

(* the further slots of a composite value are empty as long as its first one is full *)
Definition leaves_consistent (g : glob) : Prop :=
  forall m i j l, leaf_taken (g_leaf g) (m, i, j, l) = true -> taken (g_state g) m i j = true.

Lemma leaf_eqb_other m i j l l' : l <> l' -> leaf_eqb (m, i, j, l') (m, i, j, l) = false.
Proof. intros H. cbn. apply andb_false_iff. right. apply Nat.eqb_neq. congruence. Qed.

Lemma leaf_eqb_true x y : leaf_eqb x y = true -> x = y.
Proof.
  destruct x as [[[m i] j] l], y as [[[m' i'] j'] l']. cbn. intros H.
  apply andb_true_iff in H as [H H4]. apply andb_true_iff in H as [H H3]. apply andb_true_iff in H as [H1 H2].
  apply N.eqb_eq in H1. apply Nat.eqb_eq in H2. apply Nat.eqb_eq in H3. apply Nat.eqb_eq in H4. now subst.
Qed.

(* the further slots, taken back to back from the l-th on, all of them still full: the value is returned *)
Lemma drive_leaves m a i p j v : forall n g l extra,
  (forall l', (l <= l')%nat -> leaf_taken (g_leaf g) (m, i, j, l') = false) ->
  (l + n = mi_more_leaves (info m))%nat ->
  snd (drive (S n + extra) g (NPend (PLockLeaf m a i p j v l))) = Some (ActReturn (RVTag v)) /\
  g_state (fst (drive (S n + extra) g (NPend (PLockLeaf m a i p j v l)))) = g_state g.
Proof.
  induction n as [|n IH]; intros g l extra Hfree Hl; cbn [drive Nat.add Conc.exec]; rewrite (Hfree l (le_n l)).
  - replace (Nat.ltb l (mi_more_leaves (info m))) with false by (symmetry; apply Nat.ltb_ge; lia).
    destruct extra; cbn; split; reflexivity.
  - replace (Nat.ltb l (mi_more_leaves (info m))) with true by (symmetry; apply Nat.ltb_lt; lia).
    specialize (IH {| g_state := g_state g; g_order := g_order g; g_log := g_log g; g_deliv := g_deliv g;
                      g_leaf := (m, i, j, l) :: g_leaf g |} (S l) extra).
    cbn [Nat.add] in IH. apply IH; [|lia].
    intros l' Hl'. pose proof (Hfree l' ltac:(lia)) as F. unfold leaf_taken in F |- *. cbn [g_leaf existsb].
    rewrite F, leaf_eqb_other by lia. reflexivity.
Qed.

Theorem atomic_call_is_call g m a : leaves_consistent g ->
  snd (drive (4 + mi_more_leaves (info m)) g (start_call m a)) = Some (snd (call (g_state g) m a)) /\
  g_state (fst (drive (4 + mi_more_leaves (info m)) g (start_call m a))) = fst (call (g_state g) m a).
Proof.
  intros Hcons.
  assert (Hslot : forall g' a0 i p j v extra, g_leaf g' = g_leaf g -> taken (g_state g') = taken (g_state g) ->
            taken (g_state g) m i j = false ->
            snd (drive (2 + extra + mi_more_leaves (info m)) g' (NPend (PLockSlot m a0 i p j v))) = Some (ActReturn (RVTag v)) /\
            g_state (fst (drive (2 + extra + mi_more_leaves (info m)) g' (NPend (PLockSlot m a0 i p j v)))) =
              set_taken (g_state g') (take (taken (g_state g')) m i j)).
  { intros g' a0 i p j v extra Hgl Htk Ht. cbn [drive Nat.add Conc.exec]. rewrite Htk, Ht.
    destruct (mi_more_leaves (info m)) as [|n] eqn:Hm.
    - cbn. split; reflexivity.
    - rewrite <- Htk.
      match goal with |- context [exec ?gg (PLockLeaf m a0 i p j v 1)] =>
        assert (D : snd (drive (S n + S extra) gg (NPend (PLockLeaf m a0 i p j v 1))) = Some (ActReturn (RVTag v)) /\
                    g_state (fst (drive (S n + S extra) gg (NPend (PLockLeaf m a0 i p j v 1)))) = g_state gg);
        [apply (drive_leaves m a0 i p j v n gg 1%nat (S extra)); [|lia]|] end.
      2:{ replace (S n + S extra)%nat with (S (extra + S n))%nat in D by lia. cbn [drive g_state] in D. exact D. }
      intros l' _. cbn [g_leaf]. rewrite Hgl.
      destruct (leaf_taken (g_leaf g) (m, i, j, l')) eqn:E; [|reflexivity]. apply Hcons in E. congruence. }
  change (4 + mi_more_leaves (info m))%nat with (S (S (S (S (mi_more_leaves (info m)))))).
  unfold Conc.start_call, Eval.call, Eval.eval, Eval.eval_raw.
  destruct (lookup m (c_table cfg)) as [mk|].
  2:{ destruct (mi_has_default (info m)) eqn:Hd; [cbn; rewrite Hd; split; reflexivity|].
      destruct (mi_partial_by_default (info m)).
      - cbn. destruct (mi_has_unmock_arm (info m)); split; reflexivity.
      - destruct (c_fallback cfg); cbn; [split; reflexivity|].
        destruct (mi_has_unmock_arm (info m)); split; reflexivity. }
  unfold match_call_pattern. destruct (m_mode mk).
  - (* unordered *)
    destruct (scan A accepts a (m_pats mk) 0) as [[[i p] [b|]]|].
    + (* selected: fetch_add on the counter, then respond *)
      rewrite drive_S. cbn [Conc.exec]. unfold Conc.after_cnt, Eval.respond.
      destruct (find_responder_idx (map fst (p_resps p)) (cnt (g_state g) m i)) as [j|]; [|cbn; split; reflexivity].
      destruct (nth_opt (p_resps p) j) as [[k r]|]; [|cbn; split; reflexivity].
      destruct r as [[|] v| |f|msg| |]; [|cbn; try (split; reflexivity)..].
      * destruct (taken (g_state g) m i j) eqn:Ht.
        -- cbn. rewrite Ht. cbn. split; reflexivity.
        -- match goal with |- context [drive _ ?g1 (NPend (PLockSlot m a i p j v))] =>
             destruct (Hslot g1 a i p j v 1%nat eq_refl eq_refl Ht) as [H1 H2] end.
           cbn [Nat.add] in H1, H2. rewrite H1, H2. cbn. rewrite Ht. cbn. split; reflexivity.
      * destruct (mi_has_unmock_arm (info m)); cbn; split; reflexivity.
      * destruct (mi_has_default (info m)); cbn; split; reflexivity.
    + cbn. split; reflexivity.
    + destruct (c_fallback cfg); cbn; [split; reflexivity|].
      destruct (mi_has_unmock_arm (info m)); cbn; split; reflexivity.
  - (* ordered *)
    rewrite drive_S. cbn [Conc.exec]. unfold Conc.after_ord.
    destruct (find_range (next_ord (g_state g)) (m_pats mk) 0) as [[i p]|]; [|cbn; split; reflexivity].
    destruct (match_inputs A accepts p a) as [[|]|]; try (cbn; split; reflexivity).
    rewrite drive_S. cbn [Conc.exec]. unfold Conc.after_cnt, Eval.respond. cbn [g_state cnt set_next].
    destruct (find_responder_idx (map fst (p_resps p)) (cnt (g_state g) m i)) as [j|]; [|cbn; split; reflexivity].
    destruct (nth_opt (p_resps p) j) as [[k r]|]; [|cbn; split; reflexivity].
    destruct r as [[|] v| |f|msg| |]; [|cbn; try (split; reflexivity)..].
    * destruct (taken (g_state g) m i j) eqn:Ht.
      -- cbn. rewrite Ht. cbn. rewrite !drive_done. split; reflexivity.
      -- match goal with |- context [drive _ ?g1 (NPend (PLockSlot m a i p j v))] =>
           destruct (Hslot g1 a i p j v 0%nat eq_refl eq_refl Ht) as [H1 H2] end.
         cbn [Nat.add] in H1, H2. rewrite H1, H2. cbn. rewrite Ht. cbn. split; reflexivity.
    * destruct (mi_has_unmock_arm (info m)); cbn; split; reflexivity.
    * destruct (mi_has_default (info m)); cbn; split; reflexivity.
Qed.


(* ---------- generic: an invariant of (glob, threads) preserved by tstep holds after every schedule ---------- *)
Lemma nth_opt_updl {X} (l : list X) : forall i x y, nth_opt l i = Some x -> nth_opt (updl l i y) i = Some y.
Proof. induction l as [|h t IH]; intros [|i] x y H; cbn in *; try discriminate; [reflexivity|now apply (IH i x)]. Qed.

Lemma sched_induction (P : glob * list thread -> Prop) :
  (forall g ths tid th, P (g, ths) -> nth_opt ths tid = Some th ->
      P (fst (fst (tstep g th)), updl ths tid (snd (fst (tstep g th))))) ->
  forall sched st, P st -> P (run_sched sched st).
Proof.
  intros Hstep. induction sched as [|tid sched IH]; intros st H; cbn; [exact H|].
  apply IH. destruct st as [g ths]. unfold Conc.astep.
  destruct (nth_opt ths tid) as [th|] eqn:Hn; [|exact H].
  specialize (Hstep g ths tid th H Hn). destruct (tstep g th) as [[g' th'] ol]. exact Hstep.
Qed.

(* ---------- (T1) every fetch_add hands out a fresh position: 0, 1, 2, ... ---------- *)
Definition loc_eqb (a b : loc) : bool :=
  match a, b with
  | LOrd, LOrd | LErrs, LErrs => true
  | LCnt m i, LCnt m' i' => (N.eqb m m' && Nat.eqb i i')%bool
  | LSlot m i j, LSlot m' i' j' => (N.eqb m m' && Nat.eqb i i' && Nat.eqb j j')%bool
  | LLeaf m i j l, LLeaf m' i' j' l' => (N.eqb m m' && Nat.eqb i i' && Nat.eqb j j' && Nat.eqb l l')%bool
  | _, _ => false
  end.

(* values handed out at location l, oldest first *)
Definition obtained (l : loc) (log : list (loc * N)) : list N :=
  map snd (filter (fun e => loc_eqb l (fst e)) log).

Definition nlist (k : N) : list N := map N.of_nat (seq 0 (N.to_nat k)).

Lemma nlist_succ k : nlist (k + 1) = (nlist k ++ [k])%list.
Proof.
  unfold nlist. replace (N.to_nat (k + 1)) with (S (N.to_nat k)) by lia.
  rewrite seq_S, map_app. cbn. now rewrite N2Nat.id.
Qed.

Lemma obtained_app l log e :
  obtained l (log ++ [e]) = (obtained l log ++ (if loc_eqb l (fst e) then [snd e] else []))%list.
Proof. unfold obtained. rewrite filter_app, map_app. cbn. destruct (loc_eqb l (fst e)); reflexivity. Qed.

Definition value_at (s : state) (l : loc) : N :=
  match l with LOrd => next_ord s | LCnt m i => cnt s m i | _ => 0 end.

Definition positions_inv (st : glob * list thread) : Prop :=
  forall l, match l with LOrd | LCnt _ _ => obtained l (g_log (fst st)) = nlist (value_at (g_state (fst st)) l)
                    | _ => True end.

Lemma loc_eqb_cnt m i m' i' : loc_eqb (LCnt m i) (LCnt m' i') = (N.eqb m' m && Nat.eqb i' i)%bool.
Proof. cbn. now rewrite N.eqb_sym, Nat.eqb_sym. Qed.

Lemma exec_positions g pd :
  (forall l, match l with LOrd | LCnt _ _ => obtained l (g_log g) = nlist (value_at (g_state g) l) | _ => True end) ->
  forall l, match l with LOrd | LCnt _ _ =>
      obtained l (g_log (fst (fst (exec g pd)))) = nlist (value_at (g_state (fst (fst (exec g pd)))) l) | _ => True end.
Proof.
  intros H l. destruct pd as [m a mk|m a i p counted|m a i p j v|m a i p j v lf|e]; cbn [Conc.exec fst snd g_log g_state].
  - destruct l as [|m' i'| | |]; try exact I; rewrite obtained_app; cbn [fst snd loc_eqb value_at next_ord set_next cnt].
    + rewrite (H LOrd). cbn [value_at]. now rewrite nlist_succ.
    + rewrite app_nil_r. exact (H (LCnt m' i')).
  - destruct l as [|m' i'| | |]; try exact I; rewrite obtained_app; cbn [fst snd loc_eqb value_at next_ord set_cnt cnt].
    + rewrite app_nil_r. exact (H LOrd).
    + rewrite (H (LCnt m' i')). cbn [value_at]. unfold bump.
      rewrite (N.eqb_sym m' m), (Nat.eqb_sym i' i).
      destruct (N.eqb m m' && Nat.eqb i i')%bool eqn:E.
      * apply andb_true_iff in E as [E1 E2]. apply N.eqb_eq in E1. apply Nat.eqb_eq in E2. subst. now rewrite nlist_succ.
      * now rewrite app_nil_r.
  - destruct (taken (g_state g) m i j); [|destruct (mi_more_leaves (info m))]; cbn [fst snd g_log g_state];
      destruct l as [|m' i'| | |]; try exact I; first [exact (H LOrd)|exact (H (LCnt m' i'))].
  - destruct (leaf_taken (g_leaf g) (m, i, j, lf)); [|destruct (Nat.ltb lf (mi_more_leaves (info m)))]; cbn [fst snd g_log g_state];
      destruct l as [|m' i'| | |]; try exact I; first [exact (H LOrd)|exact (H (LCnt m' i'))].
  - destruct l as [|m' i'| | |]; try exact I; [exact (H LOrd)|exact (H (LCnt m' i'))].
Qed.

Theorem positions_hold sched ths0 : positions_inv (run_sched sched (init_glob, ths0)).
Proof.
  apply sched_induction.
  - intros g ths tid th H _ l. unfold positions_inv in *. cbn [fst] in *.
    unfold Conc.tstep. destruct (t_pend th) as [pd|]; [|exact (H l)].
    pose proof (exec_positions g pd H l) as G.
    destruct (exec g pd) as [[g' nx] lc]. cbn [fst snd] in *. exact G.
  - intros l. destruct l; try exact I; reflexivity.
Qed.

(* ---------- (T3) the error list holds exactly the mock-induced panics of all threads ---------- *)
Definition panic_of (act : action) : list mock_error := match act with ActPanic e => [e] | _ => [] end.
Definition panics_out (th : thread) : list mock_error := flat_map panic_of (t_out th).
Definition all_panics (ths : list thread) : list mock_error := flat_map panics_out ths.

Lemma flat_map_snoc {X Y} (f : X -> list Y) l x : flat_map f (l ++ [x]) = (flat_map f l ++ f x)%list.
Proof. rewrite flat_map_app. cbn. now rewrite app_nil_r. Qed.

Lemma finish_next_done m o act : finish_next m o = NDone act -> panic_of act = [].
Proof.
  destruct o; cbn; try (intros [= <-]; reflexivity).
  - destruct (mi_has_unmock_arm (info m)); [intros [= <-]; reflexivity|discriminate].
  - destruct (mi_has_default (info m)); [intros [= <-]; reflexivity|discriminate].
Qed.

Lemma start_call_done m a act : start_call m a = NDone act -> panic_of act = [].
Proof.
  unfold Conc.start_call. destruct (lookup m (c_table cfg)) as [mk|]; [|apply finish_next_done].
  destruct (m_mode mk); [|discriminate].
  destruct (scan A accepts a (m_pats mk) 0) as [[[i p] [b|]]|]; try discriminate. apply finish_next_done.
Qed.

Lemma advance_panics calls : forall out, panics_out (advance calls out) = flat_map panic_of out.
Proof.
  induction calls as [|[m a] calls IH]; intros out; cbn [Conc.advance]; [reflexivity|].
  destruct (start_call m a) as [act|pd] eqn:Hs; [|reflexivity].
  rewrite IH, flat_map_snoc, (start_call_done m a act Hs). now rewrite app_nil_r.
Qed.

Lemma after_cnt_done m a i p c act : after_cnt m a i p c = NDone act -> panic_of act = [].
Proof.
  unfold Conc.after_cnt. destruct (find_responder_idx _ _) as [j|]; [|discriminate].
  destruct (nth_opt (p_resps p) j) as [[k r]|]; [|discriminate].
  destruct r as [[|] v| |f|msg| |]; try discriminate; try (intros [= <-]; reflexivity); apply finish_next_done.
Qed.

Lemma after_ord_pend m a mk k act : after_ord m a mk k <> NDone act.
Proof.
  unfold Conc.after_ord. destruct (find_range k (m_pats mk) 0) as [[i p]|]; [|discriminate].
  destruct (match_inputs A accepts p a) as [[|]|]; discriminate.
Qed.

(* what one step adds to the error list is what it adds to its thread's panics *)
Lemma tstep_errors g th :
  exists new, errs (g_state (fst (fst (tstep g th)))) = (errs (g_state g) ++ new)%list /\
              panics_out (snd (fst (tstep g th))) = (panics_out th ++ new)%list.
Proof.
  unfold Conc.tstep. destruct (t_pend th) as [pd|] eqn:Hp; [|exists []; cbn; now rewrite !app_nil_r].
  destruct pd as [m a mk|m a i p counted|m a i p j v|m a i p j v lf|e]; cbn [Conc.exec fst snd g_state].
  - exists []. rewrite !app_nil_r. split; [reflexivity|].
    destruct (after_ord m a mk (next_ord (g_state g))) as [act|pd'] eqn:Ha; [now apply after_ord_pend in Ha|reflexivity].
  - exists []. rewrite !app_nil_r. split; [reflexivity|].
    destruct (after_cnt m a i p (cnt (g_state g) m i)) as [act|pd'] eqn:Ha; [|reflexivity].
    rewrite advance_panics, flat_map_snoc, (after_cnt_done _ _ _ _ _ _ Ha). now rewrite app_nil_r.
  - exists []. rewrite !app_nil_r. destruct (taken (g_state g) m i j); [|destruct (mi_more_leaves (info m))];
      cbn [fst snd g_state]; split; try reflexivity.
    rewrite advance_panics, flat_map_snoc. cbn. now rewrite app_nil_r.
  - exists []. rewrite !app_nil_r.
    destruct (leaf_taken (g_leaf g) (m, i, j, lf)); [|destruct (Nat.ltb lf (mi_more_leaves (info m)))];
      cbn [fst snd g_state]; split; try reflexivity.
    rewrite advance_panics, flat_map_snoc. cbn. now rewrite app_nil_r.
  - exists [e]. split; [reflexivity|]. rewrite advance_panics, flat_map_snoc. reflexivity.
Qed.

Lemma all_panics_updl ths : forall tid th th' new,
  nth_opt ths tid = Some th -> panics_out th' = (panics_out th ++ new)%list ->
  Permutation (all_panics (updl ths tid th')) (all_panics ths ++ new).
Proof.
  induction ths as [|h t IH]; intros [|tid] th th' new Hn Hp; cbn in Hn; try discriminate.
  - injection Hn as ->. cbn [updl]. unfold all_panics. cbn [flat_map]. rewrite Hp, <- !app_assoc.
    apply Permutation_app_head, Permutation_app_comm.
  - cbn [updl]. unfold all_panics. cbn [flat_map]. rewrite <- app_assoc. apply Permutation_app_head.
    exact (IH tid th th' new Hn Hp).
Qed.

Definition errors_inv (st : glob * list thread) : Prop :=
  Permutation (errs (g_state (fst st))) (all_panics (snd st)).

Theorem errors_are_panics sched callss :
  errors_inv (run_sched sched (init_glob, map (fun cs => advance cs []) callss)).
Proof.
  apply sched_induction.
  - intros g ths tid th H Hn. unfold errors_inv in *. cbn [fst snd] in *.
    destruct (tstep_errors g th) as (new & He & Hp). rewrite He.
    eapply Permutation_trans; [|apply Permutation_sym, (all_panics_updl ths tid th _ new Hn Hp)].
    now apply Permutation_app_tail.
  - unfold errors_inv. cbn [fst snd g_state init_glob errs init_state].
    induction callss as [|cs callss IH]; cbn; [constructor|].
    unfold all_panics in *. cbn [flat_map]. rewrite advance_panics. cbn. exact IH.
Qed.

(* ---------- (T2) counters and ordered index equal those of the sequential run of the ghost order ---------- *)
Notation run_hist := (run_hist info A accepts debug_args cfg).
Notation selected := (selected A accepts debug_args cfg).

Lemma run_hist_snoc h : forall s m a,
  run_hist s (h ++ [(m, a)])%list = fst (eval (run_hist s h) m a).
Proof. induction h as [|[m' a'] h IH]; intros s m a; cbn; [reflexivity|apply IH]. Qed.

Lemma eval_next_ord s m a :
  next_ord (fst (eval s m a)) =
  match lookup m (c_table cfg) with
  | Some mk => match m_mode mk with InOrder => next_ord s + 1 | InAnyOrder => next_ord s end
  | None => next_ord s
  end.
Proof.
  unfold Eval.eval, Eval.eval_raw. destruct (lookup m (c_table cfg)) as [mk|].
  - unfold match_call_pattern. destruct (m_mode mk).
    + destruct (scan A accepts a (m_pats mk) 0) as [[[i p] [b|]]|].
      * pose proof (respond_cnt A debug_args s m a i p) as (_ & Hn & _).
        destruct (Eval.respond A debug_args s m a i p) as [s2 o]. cbn [fst] in Hn. destruct o; cbn; exact Hn.
      * reflexivity.
      * destruct (c_fallback cfg); reflexivity.
    + destruct (find_range (next_ord s) (m_pats mk) 0) as [[i p]|]; [|reflexivity].
      destruct (match_inputs A accepts p a) as [[|]|]; try reflexivity.
      pose proof (respond_cnt A debug_args (set_next s (next_ord s + 1)) m a i p) as (_ & Hn & _).
      destruct (Eval.respond A debug_args (set_next s (next_ord s + 1)) m a i p) as [s2 o]. cbn [fst] in Hn.
      destruct o; cbn; exact Hn.
  - destruct (mi_has_default (info m)); [reflexivity|]. destruct (mi_partial_by_default (info m)); [reflexivity|].
    destruct (c_fallback cfg); reflexivity.
Qed.

(* well-formed pending operations: they came out of start_call *)
Definition wf_pend (pd : pending) : Prop :=
  match pd with
  | PFetchOrd m a mk => lookup m (c_table cfg) = Some mk /\ m_mode mk = InOrder
  | PFetchCnt m a i p false =>
      exists mk b, lookup m (c_table cfg) = Some mk /\ m_mode mk = InAnyOrder /\
                   scan A accepts a (m_pats mk) 0 = Some (i, p, Some b)
  | _ => True
  end.
Definition wf_thread (th : thread) : Prop :=
  match t_pend th with Some pd => wf_pend pd | None => True end.

(* a bump that is still to come for a call already placed in the ghost order *)
Definition owed (m : N) (i : nat) (th : thread) : N :=
  match t_pend th with
  | Some (PFetchCnt m' _ i' _ true) => if (N.eqb m' m && Nat.eqb i' i)%bool then 1 else 0
  | _ => 0
  end.
Fixpoint nsum (l : list N) : N := match l with [] => 0 | x :: t => x + nsum t end.
Definition owed_all (m : N) (i : nat) (ths : list thread) : N := nsum (map (owed m i) ths).

Lemma nsum_updl {X} (f : X -> N) l : forall i x x', nth_opt l i = Some x ->
  nsum (map f (updl l i x')) + f x = nsum (map f l) + f x'.
Proof.
  induction l as [|h t IH]; intros [|i] x x' H; cbn [nth_opt updl map nsum] in *; try discriminate.
  - injection H as ->. lia.
  - specialize (IH _ _ x' H). lia.
Qed.

Lemma start_call_wf m a pd : start_call m a = NPend pd -> wf_pend pd /\ forall m' i', owed m' i' {| t_calls := []; t_pend := Some pd; t_out := [] |} = 0.
Proof.
  unfold Conc.start_call. destruct (lookup m (c_table cfg)) as [mk|] eqn:Hl.
  - destruct (m_mode mk) eqn:Hm.
    + destruct (scan A accepts a (m_pats mk) 0) as [[[i p] [b|]]|] eqn:Hs.
      * intros [= <-]. split; [exists mk, b; auto|reflexivity].
      * intros [= <-]. split; [exact I|reflexivity].
      * unfold Conc.finish_next. destruct (c_fallback cfg).
        -- intros [= <-]. split; [exact I|reflexivity].
        -- destruct (mi_has_unmock_arm (info m)); [discriminate|]. intros [= <-]. split; [exact I|reflexivity].
    + intros [= <-]. split; [split; assumption|reflexivity].
  - unfold Conc.finish_next.
    destruct (mi_has_default (info m)) eqn:Hd; [discriminate|].
    destruct (mi_partial_by_default (info m)).
    + destruct (mi_has_unmock_arm (info m)); [discriminate|]. intros [= <-]. split; [exact I|reflexivity].
    + destruct (c_fallback cfg).
      * intros [= <-]. split; [exact I|reflexivity].
      * destruct (mi_has_unmock_arm (info m)); [discriminate|]. intros [= <-]. split; [exact I|reflexivity].
Qed.

Lemma advance_wf calls : forall out, wf_thread (advance calls out) /\ forall m i, owed m i (advance calls out) = 0.
Proof.
  induction calls as [|[m a] calls IH]; intros out; cbn [Conc.advance]; [split; [exact I|reflexivity]|].
  destruct (start_call m a) as [act|pd] eqn:Hs; [apply IH|].
  destruct (start_call_wf m a pd Hs) as [Hw Ho]. split; [exact Hw|exact Ho].
Qed.

Definition seq_inv (st : glob * list thread) : Prop :=
  let '(g, ths) := st in
  Forall wf_thread ths /\
  next_ord (g_state g) = next_ord (run_hist init_state (g_order g)) /\
  forall m i, cnt (g_state g) m i + owed_all m i ths = cnt (run_hist init_state (g_order g)) m i.

Lemma Forall_updl {X} (P : X -> Prop) l : forall i x, Forall P l -> P x -> Forall P (updl l i x).
Proof.
  induction l as [|h t IH]; intros [|i] x Hl Hx; cbn; try assumption.
  - inversion Hl; subst. now constructor.
  - inversion Hl; subst. constructor; [assumption|now apply IH].
Qed.

Lemma Forall_nth_opt {X} (P : X -> Prop) l : forall i x, Forall P l -> nth_opt l i = Some x -> P x.
Proof.
  induction l as [|h t IH]; intros [|i] x Hl Hn; cbn in Hn; try discriminate; inversion Hl; subst.
  - now injection Hn as <-.
  - now apply (IH i).
Qed.

Lemma bump_val c m i m' i' : bump c m i m' i' = c m' i' + (if (N.eqb m m' && Nat.eqb i i')%bool then 1 else 0).
Proof. unfold bump. destruct (N.eqb m m' && Nat.eqb i i')%bool; lia. Qed.

Lemma seq_inv_step g ths tid th :
  seq_inv (g, ths) -> nth_opt ths tid = Some th ->
  seq_inv (fst (fst (tstep g th)), updl ths tid (snd (fst (tstep g th)))).
Proof.
  intros (Hwf & Hnx & Hcnt) Hn.
  pose proof (Forall_nth_opt _ _ _ _ Hwf Hn) as Hwt. unfold wf_thread in Hwt.
  unfold Conc.tstep. destruct (t_pend th) as [pd|] eqn:Hp.
  2:{ cbn [fst snd]. unfold seq_inv. split; [apply Forall_updl; [assumption|unfold wf_thread; now rewrite Hp]|]. split; [assumption|].
      intros m i. pose proof (nsum_updl (owed m i) ths tid th th Hn). unfold owed_all. specialize (Hcnt m i). unfold owed_all in Hcnt. lia. }
  assert (Hold : forall m i, owed m i th = match pd with
                   | PFetchCnt m' _ i' _ true => if (N.eqb m' m && Nat.eqb i' i)%bool then 1 else 0 | _ => 0 end).
  { intros m i. unfold owed. now rewrite Hp. }
  destruct pd as [m a mk|m a i p counted|m a i p j v|m a i p j v lf|e]; cbn [Conc.exec fst snd]; unfold seq_inv.
  - (* ordered index *)
    destruct Hwt as [Hl Hmode].
    set (k := next_ord (g_state g)) in *.
    set (R := run_hist init_state (g_order g)) in *.
    assert (Hev_n : next_ord (fst (eval R m a)) = k + 1).
    { rewrite eval_next_ord, Hl, Hmode. now rewrite <- Hnx. }
    assert (Hev_c : cnt (fst (eval R m a)) =
                    match selected R m a with Some i => bump (cnt R) m i | None => cnt R end) by apply eval_cnt.
    assert (Hsel : selected R m a =
                   match after_ord m a mk k with NPend (PFetchCnt _ _ i _ true) => Some i | _ => None end).
    { unfold C02.selected, match_call_pattern, Conc.after_ord. rewrite Hl, Hmode, <- Hnx. fold k.
      destruct (find_range k (m_pats mk) 0) as [[i p]|]; [|reflexivity].
      destruct (match_inputs A accepts p a) as [[|]|]; reflexivity. }
    destruct (after_ord m a mk k) as [act|pd'] eqn:Ha; [now apply after_ord_pend in Ha|].
    cbn [g_state g_order]. rewrite run_hist_snoc. fold R.
    split; [apply Forall_updl; [assumption|]|split].
    + unfold wf_thread. cbn [t_pend]. unfold Conc.after_ord in Ha.
      destruct (find_range k (m_pats mk) 0) as [[i p]|]; [|injection Ha as <-; exact I].
      destruct (match_inputs A accepts p a) as [[|]|]; injection Ha as <-; exact I.
    + cbn [next_ord set_next]. now rewrite Hev_n.
    + intros m' i'. rewrite Hev_c, Hsel. cbn [cnt set_next].
      specialize (Hcnt m' i'). unfold owed_all in *.
      destruct pd' as [m2 a2 mk2|m2 a2 i2 p2 [|]|m2 a2 i2 p2 j2 v2|m2 a2 i2 p2 j2 v2 l2|e2];
        match goal with |- context [updl ths tid ?t] => pose proof (nsum_updl (owed m' i') ths tid th t Hn) as Hs end; rewrite (Hold m' i') in Hs;
        unfold owed in Hs at 3; cbn [t_pend] in Hs; try lia.
      rewrite bump_val. unfold Conc.after_ord in Ha.
      destruct (find_range k (m_pats mk) 0) as [[i0 p0]|]; [|discriminate].
      destruct (match_inputs A accepts p0 a) as [[|]|]; try discriminate. injection Ha as <- <- <- <-.
      destruct (N.eqb m m' && Nat.eqb i0 i')%bool; lia.
  - (* pattern counter *)
    set (R := run_hist init_state (g_order g)) in *.
    set (th' := match after_cnt m a i p (cnt (g_state g) m i) with
                | NDone act => advance (t_calls th) (t_out th ++ [act])
                | NPend pd' => {| t_calls := t_calls th; t_pend := Some pd'; t_out := t_out th |} end).
    assert (Hth' : wf_thread th' /\ forall m' i', owed m' i' th' = 0).
    { unfold th'. destruct (after_cnt m a i p (cnt (g_state g) m i)) as [act|pd'] eqn:Ha; [apply advance_wf|].
      unfold Conc.after_cnt in Ha. unfold wf_thread, owed. cbn [t_pend].
      destruct (find_responder_idx _ _) as [j|]; [|injection Ha as <-; split; [exact I|reflexivity]].
      destruct (nth_opt (p_resps p) j) as [[k r]|]; [|injection Ha as <-; split; [exact I|reflexivity]].
      destruct r as [[|] v| |f|msg| |]; try discriminate; try (injection Ha as <-; split; [exact I|reflexivity]).
      + unfold Conc.finish_next in Ha. destruct (mi_has_unmock_arm (info m)); [discriminate|]. injection Ha as <-. split; [exact I|reflexivity].
      + unfold Conc.finish_next in Ha. destruct (mi_has_default (info m)); [discriminate|]. injection Ha as <-. split; [exact I|reflexivity]. }
    destruct Hth' as [Hw' Ho'].
    split; [apply Forall_updl; assumption|].
    destruct counted.
    + (* ordered call: already in the ghost order *)
      cbn [g_state g_order next_ord set_cnt cnt]. split; [assumption|]. intros m' i'.
      pose proof (nsum_updl (owed m' i') ths tid th th' Hn) as Hs. rewrite (Hold m' i'), (Ho' m' i') in Hs.
      unfold owed_all. specialize (Hcnt m' i'). unfold owed_all in Hcnt. subst R. rewrite bump_val.
      destruct (N.eqb m m' && Nat.eqb i i')%bool; lia.
    + (* unordered call: takes its place in the ghost order now *)
      destruct Hwt as (mk & b & Hl & Hmode & Hscan).
      cbn [g_state g_order next_ord set_cnt cnt]. rewrite run_hist_snoc. fold R.
      assert (Hsel : selected R m a = Some i).
      { unfold C02.selected, match_call_pattern. now rewrite Hl, Hmode, Hscan. }
      split.
      * rewrite eval_next_ord, Hl, Hmode. assumption.
      * intros m' i'. rewrite eval_cnt, Hsel.
        pose proof (nsum_updl (owed m' i') ths tid th th' Hn) as Hs. rewrite (Hold m' i'), (Ho' m' i') in Hs.
        unfold owed_all. specialize (Hcnt m' i'). unfold owed_all in Hcnt. rewrite !bump_val. lia.
  - (* single-use slot *)
    destruct (taken (g_state g) m i j); cbn [fst snd g_state g_order].
    + split; [apply Forall_updl; [assumption|exact I]|]. split; [assumption|]. intros m' i'.
      pose proof (nsum_updl (owed m' i') ths tid th
        {| t_calls := t_calls th; t_pend := Some (PLockErr (ECannotReturnValueMoreThanOnce (call_of A debug_args m a) (debug_pattern m i p)));
           t_out := t_out th |} Hn) as Hs.
      rewrite (Hold m' i') in Hs. unfold owed in Hs at 3. cbn [t_pend] in Hs.
      unfold owed_all. specialize (Hcnt m' i'). unfold owed_all in Hcnt. lia.
    + destruct (advance_wf (t_calls th) (t_out th ++ [ActReturn (RVTag v)])) as [Hw' Ho'].
      destruct (mi_more_leaves (info m)); cbn [fst snd g_state g_order].
      * split; [apply Forall_updl; assumption|]. split; [assumption|]. intros m' i'. cbn [cnt set_taken].
        match goal with |- context [updl ths tid ?t] => pose proof (nsum_updl (owed m' i') ths tid th t Hn) as Hs end. rewrite (Hold m' i'), (Ho' m' i') in Hs.
        unfold owed_all. specialize (Hcnt m' i'). unfold owed_all in Hcnt. lia.
      * split; [apply Forall_updl; [assumption|exact I]|]. split; [assumption|]. intros m' i'. cbn [cnt set_taken].
        match goal with |- context [updl ths tid ?t] => pose proof (nsum_updl (owed m' i') ths tid th t Hn) as Hs end.
        rewrite (Hold m' i') in Hs. unfold owed in Hs at 3. cbn [t_pend] in Hs.
        unfold owed_all. specialize (Hcnt m' i'). unfold owed_all in Hcnt. lia.
  - (* a further slot of a composite single-use value *)
    destruct (advance_wf (t_calls th) (t_out th ++ [ActReturn (RVTag v)])) as [Hw' Ho'].
    destruct (leaf_taken (g_leaf g) (m, i, j, lf)); [|destruct (Nat.ltb lf (mi_more_leaves (info m)))]; cbn [fst snd g_state g_order].
    3:{ split; [apply Forall_updl; assumption|]. split; [assumption|]. intros m' i'.
        match goal with |- context [updl ths tid ?t] => pose proof (nsum_updl (owed m' i') ths tid th t Hn) as Hs end. rewrite (Hold m' i'), (Ho' m' i') in Hs.
        unfold owed_all. specialize (Hcnt m' i'). unfold owed_all in Hcnt. lia. }
    + split; [apply Forall_updl; [assumption|exact I]|]. split; [assumption|]. intros m' i'.
      match goal with |- context [updl ths tid ?t] => pose proof (nsum_updl (owed m' i') ths tid th t Hn) as Hs end.
      rewrite (Hold m' i') in Hs. unfold owed in Hs at 3. cbn [t_pend] in Hs.
      unfold owed_all. specialize (Hcnt m' i'). unfold owed_all in Hcnt. lia.
    + split; [apply Forall_updl; [assumption|exact I]|]. split; [assumption|]. intros m' i'.
      match goal with |- context [updl ths tid ?t] => pose proof (nsum_updl (owed m' i') ths tid th t Hn) as Hs end.
      rewrite (Hold m' i') in Hs. unfold owed in Hs at 3. cbn [t_pend] in Hs.
      unfold owed_all. specialize (Hcnt m' i'). unfold owed_all in Hcnt. lia.
  - (* error list *)
    destruct (advance_wf (t_calls th) (t_out th ++ [ActPanic e])) as [Hw' Ho'].
    cbn [g_state g_order]. split; [apply Forall_updl; assumption|]. split; [assumption|]. intros m' i'. cbn [cnt push_err].
    match goal with |- context [updl ths tid ?t] => pose proof (nsum_updl (owed m' i') ths tid th t Hn) as Hs end. rewrite (Hold m' i'), (Ho' m' i') in Hs.
    unfold owed_all. specialize (Hcnt m' i'). unfold owed_all in Hcnt. lia.
Qed.

Theorem sequential_equivalence sched callss :
  seq_inv (run_sched sched (init_glob, map (fun cs => advance cs []) callss)).
Proof.
  apply sched_induction.
  - intros g ths tid th H Hn. now apply seq_inv_step.
  - cbn. split; [|split; [reflexivity|]].
    + induction callss as [|cs callss IH]; cbn; constructor; [apply advance_wf|exact IH].
    + intros m i. unfold owed_all. induction callss as [|cs callss IH]; cbn; [reflexivity|].
      destruct (advance_wf cs []) as [_ Ho]. rewrite Ho. exact IH.
Qed.

(* when every thread has finished nothing is owed: the counters ARE those of the sequential run *)
Lemma done_owes_nothing ths m i : all_done A ths = true -> owed_all m i ths = 0.
Proof.
  unfold owed_all, all_done. induction ths as [|th ths IH]; cbn; [reflexivity|].
  intros H. apply andb_true_iff in H as [Hd Hr]. rewrite (IH Hr). unfold owed.
  destruct (t_pend th); [discriminate|reflexivity].
Qed.

Corollary joined_equals_sequential sched callss :
  let st := run_sched sched (init_glob, map (fun cs => advance cs []) callss) in
  all_done A (snd st) = true ->
  next_ord (g_state (fst st)) = next_ord (run_hist init_state (g_order (fst st))) /\
  forall m i, cnt (g_state (fst st)) m i = cnt (run_hist init_state (g_order (fst st))) m i.
Proof.
  cbn zeta. pose proof (sequential_equivalence sched callss) as H.
  destruct (run_sched sched _) as [g ths]. cbn [fst snd]. destruct H as (_ & Hn & Hc).
  intros Hd. split; [exact Hn|]. intros m i. rewrite <- (Hc m i), (done_owes_nothing ths m i Hd). lia.
Qed.

(* ---------- the count half of the verdict after the join is the sequential one ---------- *)
Lemma verify_pats_ext m (c c' : nat -> N) ps : forall i, (forall j, c j = c' j) ->
  verify_pats info m c ps i = verify_pats info m c' ps i.
Proof.
  induction ps as [|p ps IH]; intros i H; cbn [verify_pats]; [reflexivity|].
  rewrite (IH (S i) H), (H i). reflexivity.
Qed.

Lemma verify_all_ext s s' : (forall m i, cnt s m i = cnt s' m i) -> verify_all info cfg s = verify_all info cfg s'.
Proof.
  intros H. unfold verify_all. induction (c_table cfg) as [|[m mk] t IH]; cbn [flat_map]; [reflexivity|].
  rewrite IH. f_equal. unfold verify_mocker. now rewrite (verify_pats_ext m (cnt s m) (cnt s' m) (m_pats mk) 0 (H m)).
Qed.

Corollary joined_count_verdict_is_sequential sched callss :
  let st := run_sched sched (init_glob, map (fun cs => advance cs []) callss) in
  all_done A (snd st) = true ->
  verify_all info cfg (g_state (fst st)) = verify_all info cfg (run_hist init_state (g_order (fst st))).
Proof.
  cbn zeta. intros Hd. destruct (joined_equals_sequential sched callss Hd) as [_ Hc]. apply verify_all_ext. exact Hc.
Qed.

(* ---------- (T4) a single-use value has exactly one owner: the request that emptied its first slot ---------- *)
Definition key := (N * nat * nat)%type.
Definition key_eqb (x y : key) : bool :=
  let '(m, i, j) := x in let '(m', i', j') := y in (N.eqb m m' && Nat.eqb i i' && Nat.eqb j j')%bool.

Lemma key_eqb_true x y : key_eqb x y = true -> x = y.
Proof.
  destruct x as [[m i] j], y as [[m' i'] j']. cbn. intros H.
  apply andb_true_iff in H as [H H3]. apply andb_true_iff in H as [H1 H2].
  apply N.eqb_eq in H1. apply Nat.eqb_eq in H2. apply Nat.eqb_eq in H3. now subst.
Qed.
Lemma key_eqb_refl x : key_eqb x x = true.
Proof. destruct x as [[m i] j]. cbn. now rewrite N.eqb_refl, !Nat.eqb_refl. Qed.
Lemma key_eqb_sym x y : key_eqb x y = key_eqb y x.
Proof. destruct x as [[m i] j], y as [[m' i'] j']. cbn. now rewrite (N.eqb_sym m), (Nat.eqb_sym i), (Nat.eqb_sym j). Qed.

Definition kcount (k : key) (l : list key) : N := nsum (map (fun x => if key_eqb x k then 1 else 0) l).

Lemma kcount_snoc k l x : kcount k (l ++ [x]) = kcount k l + (if key_eqb x k then 1 else 0).
Proof. unfold kcount. induction l as [|h t IH]; cbn [app map nsum]; [lia|]. rewrite IH. lia. Qed.

Lemma kcount_in k l : In k l -> 1 <= kcount k l.
Proof.
  unfold kcount. induction l as [|h t IH]; intros H; [destruct H|]. cbn [map nsum]. destruct H as [->|H].
  - rewrite key_eqb_refl. lia.
  - specialize (IH H). lia.
Qed.

Lemma kcount_pos k l : 1 <= kcount k l -> In k l.
Proof.
  unfold kcount. induction l as [|h t IH]; cbn [map nsum]; intros H; [lia|].
  destruct (key_eqb h k) eqn:E; [left; now apply key_eqb_true|right; apply IH; lia].
Qed.

Lemma kcount_nodup l : (forall k, kcount k l <= 1) -> NoDup l.
Proof.
  induction l as [|h t IH]; intros H; constructor.
  - intros Hin. apply kcount_in in Hin. specialize (H h). unfold kcount in H, Hin. cbn [map nsum] in H.
    rewrite key_eqb_refl in H. lia.
  - apply IH. intros k. specialize (H k). unfold kcount in *. cbn [map nsum] in H. destruct (key_eqb h k); lia.
Qed.

(* the thread is between two slots of the composite value k: it has emptied the first one *)
Definition holds (k : key) (th : thread) : N :=
  match t_pend th with Some (PLockLeaf m _ i _ j _ _) => if key_eqb (m, i, j) k then 1 else 0 | _ => 0 end.
Definition holders (k : key) (ths : list thread) : N := nsum (map (holds k) ths).

Definition no_leaf (th : thread) : Prop :=
  match t_pend th with Some (PLockLeaf _ _ _ _ _ _ _) => False | _ => True end.

(* ... and the slots it still has to take are full *)
Definition leaf_ok (g : glob) (th : thread) : Prop :=
  match t_pend th with
  | Some (PLockLeaf m _ i _ j _ l) =>
      (1 <= l <= mi_more_leaves (info m))%nat /\ forall l', (l <= l')%nat -> leaf_taken (g_leaf g) (m, i, j, l') = false
  | _ => True
  end.

Definition b2n (b : bool) : N := if b then 1 else 0.

Definition owner_inv (st : glob * list thread) : Prop :=
  let '(g, ths) := st in
  (forall m i j, kcount (m, i, j) (g_deliv g) + holders (m, i, j) ths = b2n (taken (g_state g) m i j)) /\
  (forall tid th, nth_opt ths tid = Some th -> leaf_ok g th) /\
  leaves_consistent g.

Lemma no_leaf_holds k th : no_leaf th -> holds k th = 0.
Proof. unfold no_leaf, holds. destruct (t_pend th) as [[| | | |]|]; intros H; try reflexivity. destruct H. Qed.
Lemma no_leaf_ok g th : no_leaf th -> leaf_ok g th.
Proof. unfold no_leaf, leaf_ok. destruct (t_pend th) as [[| | | |]|]; intros H; try exact I. destruct H. Qed.

Lemma start_call_no_leaf m a pd : start_call m a = NPend pd -> match pd with PLockLeaf _ _ _ _ _ _ _ => False | _ => True end.
Proof.
  unfold Conc.start_call, Conc.finish_next. destruct (lookup m (c_table cfg)) as [mk|].
  - destruct (m_mode mk); [|intros [= <-]; exact I].
    destruct (scan A accepts a (m_pats mk) 0) as [[[i p] [b|]]|]; try (intros [= <-]; exact I).
    destruct (c_fallback cfg); [intros [= <-]; exact I|].
    destruct (mi_has_unmock_arm (info m)); [discriminate|intros [= <-]; exact I].
  - destruct (mi_has_default (info m)); [discriminate|]. destruct (mi_partial_by_default (info m)).
    + destruct (mi_has_unmock_arm (info m)); [discriminate|intros [= <-]; exact I].
    + destruct (c_fallback cfg); [intros [= <-]; exact I|].
      destruct (mi_has_unmock_arm (info m)); [discriminate|intros [= <-]; exact I].
Qed.

Lemma advance_no_leaf calls : forall out, no_leaf (advance calls out).
Proof.
  induction calls as [|[m a] calls IH]; intros out; cbn [Conc.advance]; [exact I|].
  destruct (start_call m a) as [act|pd] eqn:Hs; [apply IH|].
  apply start_call_no_leaf in Hs. unfold no_leaf. cbn [t_pend]. destruct pd; try exact I. exact Hs.
Qed.

Lemma after_cnt_no_leaf m a i p c pd : after_cnt m a i p c = NPend pd -> match pd with PLockLeaf _ _ _ _ _ _ _ => False | _ => True end.
Proof.
  unfold Conc.after_cnt, Conc.finish_next. destruct (find_responder_idx _ _) as [j|]; [|intros [= <-]; exact I].
  destruct (nth_opt (p_resps p) j) as [[k r]|]; [|intros [= <-]; exact I].
  destruct r as [[|] v| |f|msg| |]; try discriminate; try (intros [= <-]; exact I).
  - destruct (mi_has_unmock_arm (info m)); [discriminate|intros [= <-]; exact I].
  - destruct (mi_has_default (info m)); [discriminate|intros [= <-]; exact I].
Qed.

Lemma after_ord_no_leaf m a mk k pd : after_ord m a mk k = NPend pd -> match pd with PLockLeaf _ _ _ _ _ _ _ => False | _ => True end.
Proof.
  unfold Conc.after_ord. destruct (find_range k (m_pats mk) 0) as [[i p]|]; [|intros [= <-]; exact I].
  destruct (match_inputs A accepts p a) as [[|]|]; intros [= <-]; exact I.
Qed.

Lemma nth_opt_updl_cases {X} (l : list X) : forall i y i' x,
  nth_opt (updl l i y) i' = Some x -> (i' = i /\ x = y) \/ (i' <> i /\ nth_opt l i' = Some x).
Proof.
  induction l as [|h t IH]; intros [|i] y [|i'] x H; cbn [updl nth_opt] in H; try discriminate.
  - injection H as <-. left. split; reflexivity.
  - right. split; [discriminate|exact H].
  - right. split; [discriminate|exact H].
  - destruct (IH i y i' x H) as [[-> ->]|[Hne Hn]]; [left; split; reflexivity|right; split; [congruence|exact Hn]].
Qed.

Lemma holds_le k ths : forall tid th, nth_opt ths tid = Some th -> holds k th <= holders k ths.
Proof.
  unfold holders. induction ths as [|h t IH]; intros [|tid] th H; cbn [nth_opt map nsum] in *; try discriminate.
  - injection H as ->. lia.
  - specialize (IH _ _ H). lia.
Qed.

Lemma holds_two k ths : forall t1 t2 th1 th2, t1 <> t2 -> nth_opt ths t1 = Some th1 -> nth_opt ths t2 = Some th2 ->
  holds k th1 + holds k th2 <= holders k ths.
Proof.
  unfold holders. induction ths as [|h t IH]; intros [|t1] [|t2] th1 th2 Hne H1 H2; cbn [nth_opt map nsum] in *; try discriminate;
    try congruence.
  - injection H1 as ->. pose proof (holds_le k t _ _ H2) as L. unfold holders in L. lia.
  - injection H2 as ->. pose proof (holds_le k t _ _ H1) as L. unfold holders in L. lia.
  - assert (t1 <> t2) as Hne' by congruence. specialize (IH _ _ _ _ Hne' H1 H2). lia.
Qed.

Lemma leaf_ok_ext g g' th : g_leaf g' = g_leaf g -> leaf_ok g th -> leaf_ok g' th.
Proof. unfold leaf_ok. intros ->. exact (fun H => H). Qed.

(* steps that touch neither a slot nor the delivery log *)
Lemma owner_frame g g' ths tid th th' :
  owner_inv (g, ths) -> nth_opt ths tid = Some th -> no_leaf th -> no_leaf th' ->
  g_deliv g' = g_deliv g -> g_leaf g' = g_leaf g -> taken (g_state g') = taken (g_state g) ->
  owner_inv (g', updl ths tid th').
Proof.
  intros (Hc & Hok & Hcons) Hn Hnl Hnl' Hd Hl Ht. split; [|split].
  - intros m i j. rewrite Hd, Ht, <- (Hc m i j).
    pose proof (nsum_updl (holds (m, i, j)) ths tid th th' Hn) as Hs.
    rewrite (no_leaf_holds _ _ Hnl), (no_leaf_holds _ _ Hnl') in Hs. unfold holders. lia.
  - intros tid' x Hx. apply nth_opt_updl_cases in Hx as [[-> ->]|[Hne Hx]]; [now apply no_leaf_ok|].
    apply (leaf_ok_ext g); [exact Hl|exact (Hok _ _ Hx)].
  - intros m i j l. unfold leaves_consistent in Hcons. rewrite Hl, Ht. apply Hcons.
Qed.

Lemma b2n_take tk m i j m' i' j' :
  b2n (take tk m i j m' i' j') = if key_eqb (m, i, j) (m', i', j') then 1 else b2n (tk m' i' j').
Proof. unfold take. cbn [key_eqb]. destruct (N.eqb m m' && Nat.eqb i i' && Nat.eqb j j')%bool; reflexivity. Qed.

Lemma leaf_taken_cons ls x y : leaf_taken (y :: ls) x = (leaf_eqb x y || leaf_taken ls x)%bool.
Proof. reflexivity. Qed.

Lemma owner_inv_step g ths tid th :
  owner_inv (g, ths) -> nth_opt ths tid = Some th ->
  owner_inv (fst (fst (tstep g th)), updl ths tid (snd (fst (tstep g th)))).
Proof.
  intros Hinv Hn. pose proof Hinv as (Hc & Hok & Hcons).
  unfold Conc.tstep. destruct (t_pend th) as [pd|] eqn:Hp.
  2:{ cbn [fst snd]. apply (owner_frame g g ths tid th th); auto; unfold no_leaf; now rewrite Hp. }
  assert (Hth : forall k, holds k th = match pd with PLockLeaf m _ i _ j _ _ => if key_eqb (m, i, j) k then 1 else 0 | _ => 0 end).
  { intros k. unfold holds. now rewrite Hp. }
  destruct pd as [m a mk|m a i p counted|m a i p j v|m a i p j v lf|e]; cbn [Conc.exec fst snd].
  - (* ordered index *)
    apply (owner_frame g _ ths tid th); auto; try reflexivity; [unfold no_leaf; now rewrite Hp|].
    destruct (after_ord m a mk (next_ord (g_state g))) as [act|pd'] eqn:Ha; [apply advance_no_leaf|].
    apply after_ord_no_leaf in Ha. unfold no_leaf. cbn [t_pend]. destruct pd'; try exact I. exact Ha.
  - (* pattern counter *)
    apply (owner_frame g _ ths tid th); auto; try reflexivity; [unfold no_leaf; now rewrite Hp|].
    destruct (after_cnt m a i p (cnt (g_state g) m i)) as [act|pd'] eqn:Ha; [apply advance_no_leaf|].
    apply after_cnt_no_leaf in Ha. unfold no_leaf. cbn [t_pend]. destruct pd'; try exact I. exact Ha.
  - (* first slot *)
    destruct (taken (g_state g) m i j) eqn:Ht.
    { cbn [fst snd]. apply (owner_frame g g ths tid th); auto; [unfold no_leaf; now rewrite Hp|exact I]. }
    assert (Hfree : forall l', leaf_taken (g_leaf g) (m, i, j, l') = false).
    { intros l'. destruct (leaf_taken (g_leaf g) (m, i, j, l')) eqn:E; [|reflexivity]. apply Hcons in E. congruence. }
    destruct (mi_more_leaves (info m)) as [|n] eqn:Hm; cbn [fst snd].
    + (* the whole value: delivered *)
      split; [|split].
      * intros m' i' j'. cbn [g_deliv g_state taken set_taken]. rewrite kcount_snoc, b2n_take.
        pose proof (nsum_updl (holds (m', i', j')) ths tid th (advance (t_calls th) (t_out th ++ [ActReturn (RVTag v)])) Hn) as Hs.
        rewrite (Hth (m', i', j')), (no_leaf_holds _ _ (advance_no_leaf _ _)) in Hs.
        specialize (Hc m' i' j'). unfold holders in *.
        destruct (key_eqb (m, i, j) (m', i', j')) eqn:E.
        -- apply key_eqb_true in E. injection E as <- <- <-. rewrite Ht in Hc. cbn [b2n] in Hc. lia.
        -- lia.
      * intros tid' x Hx. apply nth_opt_updl_cases in Hx as [[-> ->]|[Hne Hx]]; [apply no_leaf_ok, advance_no_leaf|].
        apply (leaf_ok_ext g); [reflexivity|exact (Hok _ _ Hx)].
      * intros m' i' j' l' Hl. cbn [g_leaf g_state taken set_taken] in *. unfold take.
        rewrite (Hcons _ _ _ _ Hl). now destruct (N.eqb m m' && Nat.eqb i i' && Nat.eqb j j')%bool.
    + (* a composite value: the request owns it from now on *)
      split; [|split].
      * intros m' i' j'. cbn [g_deliv g_state taken set_taken]. rewrite b2n_take.
        match goal with |- context [updl ths tid ?t] => pose proof (nsum_updl (holds (m', i', j')) ths tid th t Hn) as Hs end.
        rewrite (Hth (m', i', j')) in Hs. unfold holds in Hs at 3. cbn [t_pend] in Hs.
        specialize (Hc m' i' j'). unfold holders in *.
        destruct (key_eqb (m, i, j) (m', i', j')) eqn:E.
        -- apply key_eqb_true in E. injection E as <- <- <-. rewrite Ht in Hc. cbn [b2n] in Hc. lia.
        -- lia.
      * intros tid' x Hx. apply nth_opt_updl_cases in Hx as [[-> ->]|[Hne Hx]].
        -- unfold leaf_ok. cbn [t_pend g_leaf]. rewrite Hm. split; [lia|]. intros l' _. apply Hfree.
        -- apply (leaf_ok_ext g); [reflexivity|exact (Hok _ _ Hx)].
      * intros m' i' j' l' Hl. cbn [g_leaf g_state taken set_taken] in *. unfold take.
        rewrite (Hcons _ _ _ _ Hl). now destruct (N.eqb m m' && Nat.eqb i i' && Nat.eqb j j')%bool.
  - (* a further slot: never found empty *)
    pose proof (Hok _ _ Hn) as Hl. unfold leaf_ok in Hl. rewrite Hp in Hl. destruct Hl as [Hrange Hfree].
    rewrite (Hfree lf (le_n lf)).
    assert (Hheld : taken (g_state g) m i j = true).
    { pose proof (holds_le (m, i, j) ths tid th Hn) as L. rewrite (Hth (m, i, j)), key_eqb_refl in L.
      specialize (Hc m i j). destruct (taken (g_state g) m i j); [reflexivity|]. cbn [b2n] in Hc. lia. }
    assert (Hothers : forall tid' x, tid' <> tid -> nth_opt ths tid' = Some x ->
              leaf_ok {| g_state := g_state g; g_order := g_order g; g_log := g_log g; g_deliv := g_deliv g;
                         g_leaf := (m, i, j, lf) :: g_leaf g |} x).
    { intros tid' x Hne Hx. pose proof (Hok _ _ Hx) as Hox. unfold leaf_ok in *.
      destruct (t_pend x) as [[| | |m2 a2 i2 p2 j2 v2 l2|]|] eqn:Hpx; try exact I.
      destruct Hox as [Hr2 Hf2]. split; [exact Hr2|]. intros l' Hl'. cbn [g_leaf]. rewrite leaf_taken_cons, (Hf2 l' Hl'), orb_false_r.
      destruct (leaf_eqb (m2, i2, j2, l') (m, i, j, lf)) eqn:E; [|reflexivity]. exfalso.
      apply leaf_eqb_true in E. injection E as -> -> -> ->.
      pose proof (holds_two (m, i, j) ths tid tid' th x ltac:(congruence) Hn Hx) as L2.
      rewrite (Hth (m, i, j)), key_eqb_refl in L2. unfold holds in L2. rewrite Hpx, key_eqb_refl in L2.
      specialize (Hc m i j). rewrite Hheld in Hc. cbn [b2n] in Hc. lia. }
    assert (Hcons' : forall dl, leaves_consistent {| g_state := g_state g; g_order := g_order g; g_log := g_log g; g_deliv := dl;
                                                     g_leaf := (m, i, j, lf) :: g_leaf g |}).
    { intros dl m' i' j' l' Hl. cbn [g_leaf g_state] in *. rewrite leaf_taken_cons in Hl. apply orb_true_iff in Hl as [E|Hl].
      - apply leaf_eqb_true in E. injection E as -> -> -> ->. exact Hheld.
      - exact (Hcons _ _ _ _ Hl). }
    destruct (Nat.ltb lf (mi_more_leaves (info m))) eqn:Hlt; cbn [fst snd].
    + (* on to the next slot *)
      apply Nat.ltb_lt in Hlt. split; [|split].
      * intros m' i' j'. cbn [g_deliv g_state].
        match goal with |- context [updl ths tid ?t] => pose proof (nsum_updl (holds (m', i', j')) ths tid th t Hn) as Hs end.
        rewrite (Hth (m', i', j')) in Hs. unfold holds in Hs at 3. cbn [t_pend] in Hs.
        specialize (Hc m' i' j'). unfold holders in *. lia.
      * intros tid' x Hx. apply nth_opt_updl_cases in Hx as [[-> ->]|[Hne Hx]]; [|exact (Hothers tid' x Hne Hx)].
        unfold leaf_ok. cbn [t_pend g_leaf]. split; [lia|]. intros l' Hl'.
        rewrite leaf_taken_cons, (Hfree l' ltac:(lia)), leaf_eqb_other by lia. reflexivity.
      * apply Hcons'.
    + (* the last slot: delivered *)
      split; [|split].
      * intros m' i' j'. cbn [g_deliv g_state]. rewrite kcount_snoc.
        pose proof (nsum_updl (holds (m', i', j')) ths tid th (advance (t_calls th) (t_out th ++ [ActReturn (RVTag v)])) Hn) as Hs.
        rewrite (Hth (m', i', j')), (no_leaf_holds _ _ (advance_no_leaf _ _)) in Hs.
        specialize (Hc m' i' j'). unfold holders in *. destruct (key_eqb (m, i, j) (m', i', j')); lia.
      * intros tid' x Hx. apply nth_opt_updl_cases in Hx as [[-> ->]|[Hne Hx]]; [apply no_leaf_ok, advance_no_leaf|].
        apply (leaf_ok_ext {| g_state := g_state g; g_order := g_order g; g_log := g_log g; g_deliv := g_deliv g;
                              g_leaf := (m, i, j, lf) :: g_leaf g |}); [reflexivity|exact (Hothers tid' x Hne Hx)].
      * apply Hcons'.
  - (* error list *)
    apply (owner_frame g _ ths tid th); auto; try reflexivity; [unfold no_leaf; now rewrite Hp|apply advance_no_leaf].
Qed.

Theorem single_use_one_owner sched callss :
  owner_inv (run_sched sched (init_glob, map (fun cs => advance cs []) callss)).
Proof.
  apply sched_induction.
  - intros g ths tid th H Hn. now apply owner_inv_step.
  - split; [|split].
    + intros m i j. cbn [init_glob g_deliv g_state init_state taken b2n]. unfold kcount. cbn [map nsum].
      unfold holders. induction callss as [|cs callss IH]; cbn [map nsum]; [reflexivity|].
      rewrite (no_leaf_holds _ _ (advance_no_leaf cs [])). exact IH.
    + intros tid th Hn. apply no_leaf_ok. revert tid Hn. induction callss as [|cs callss IH]; intros [|tid] Hn; cbn [map nth_opt] in Hn;
        try discriminate; [injection Hn as <-; apply advance_no_leaf|exact (IH _ Hn)].
    + intros m i j l Hl. discriminate Hl.
Qed.

(* at most once ... *)
Corollary single_use_once sched callss :
  let g := fst (run_sched sched (init_glob, map (fun cs => advance cs []) callss)) in
  NoDup (g_deliv g) /\ forall m i j, In (m, i, j) (g_deliv g) -> taken (g_state g) m i j = true.
Proof.
  cbn zeta. pose proof (single_use_one_owner sched callss) as H.
  destruct (run_sched sched _) as [g ths]. cbn [fst]. destruct H as (Hc & _ & _). split.
  - apply kcount_nodup. intros [[m i] j]. specialize (Hc m i j). destruct (taken (g_state g) m i j); cbn [b2n] in Hc; lia.
  - intros m i j Hin. apply kcount_in in Hin. specialize (Hc m i j). destruct (taken (g_state g) m i j); [reflexivity|]. cbn [b2n] in Hc. lia.
Qed.

Lemma done_holds_nothing ths k : all_done A ths = true -> holders k ths = 0.
Proof.
  unfold holders, all_done. induction ths as [|th ths IH]; cbn; [reflexivity|].
  intros H. apply andb_true_iff in H as [Hd Hr]. rewrite (IH Hr). unfold holds.
  destruct (t_pend th); [discriminate|reflexivity].
Qed.

(* ... and never lost: when all requests have ended, every emptied slot's value was handed out *)
Corollary single_use_not_lost sched callss :
  let st := run_sched sched (init_glob, map (fun cs => advance cs []) callss) in
  all_done A (snd st) = true ->
  forall m i j, taken (g_state (fst st)) m i j = true -> In (m, i, j) (g_deliv (fst st)).
Proof.
  cbn zeta. pose proof (single_use_one_owner sched callss) as H.
  destruct (run_sched sched _) as [g ths]. cbn [fst snd]. destruct H as (Hc & _ & _).
  intros Hd m i j Ht. apply kcount_pos. specialize (Hc m i j). rewrite Ht, (done_holds_nothing ths _ Hd) in Hc. cbn [b2n] in Hc. lia.
Qed.

(* a request that has emptied the first slot of a composite value finds all the further ones full *)
Corollary further_slots_never_refused sched callss tid th m a i p j v l :
  let st := run_sched sched (init_glob, map (fun cs => advance cs []) callss) in
  nth_opt (snd st) tid = Some th -> t_pend th = Some (PLockLeaf m a i p j v l) ->
  leaf_taken (g_leaf (fst st)) (m, i, j, l) = false.
Proof.
  cbn zeta. pose proof (single_use_one_owner sched callss) as H.
  destruct (run_sched sched _) as [g ths]. cbn [fst snd]. destruct H as (_ & Hok & _).
  intros Hn Hp. specialize (Hok _ _ Hn). unfold leaf_ok in Hok. rewrite Hp in Hok. destruct Hok as [_ Hf]. apply Hf. lia.
Qed.


(* the invariant spelled out (for Props/C12.v) *)
Corollary single_use_one_owner_explicit sched callss :
  let st := run_sched sched (init_glob, map (fun cs => advance cs []) callss) in
  (forall m i j, kcount (m, i, j) (g_deliv (fst st)) + holders (m, i, j) (snd st) =
                 if taken (g_state (fst st)) m i j then 1 else 0) /\
  (forall tid th m a i p j v l, nth_opt (snd st) tid = Some th -> t_pend th = Some (PLockLeaf m a i p j v l) ->
     (1 <= l <= mi_more_leaves (info m))%nat /\
     forall l', (l <= l')%nat -> leaf_taken (g_leaf (fst st)) (m, i, j, l') = false) /\
  (forall m i j l, leaf_taken (g_leaf (fst st)) (m, i, j, l) = true -> taken (g_state (fst st)) m i j = true).
Proof.
  cbn zeta. pose proof (single_use_one_owner sched callss) as H.
  destruct (run_sched sched _) as [g ths]. cbn [fst snd]. destruct H as (Hc & Hok & Hcons). split; [|split].
  - intros m i j. rewrite (Hc m i j). now destruct (taken (g_state g) m i j).
  - intros tid th m a i p j v l Hn Hp. specialize (Hok _ _ Hn). unfold leaf_ok in Hok. now rewrite Hp in Hok.
  - exact Hcons.
Qed.

(* ---------- (T4') who receives it: every delivery is one step of one thread, which returns the value to its caller ---------- *)
Lemma exec_deliv_suffix g pd : exists new, g_deliv (fst (fst (exec g pd))) = (g_deliv g ++ new)%list /\ (length new <= 1)%nat.
Proof.
  destruct pd as [m a mk|m a i p counted|m a i p j v|m a i p j v lf|e]; cbn [Conc.exec fst snd g_deliv].
  - exists []. now rewrite app_nil_r; split; [|cbn; lia].
  - exists []. now rewrite app_nil_r; split; [|cbn; lia].
  - destruct (taken (g_state g) m i j); [|destruct (mi_more_leaves (info m))]; cbn [fst snd g_deliv].
    + exists []. rewrite app_nil_r. split; [reflexivity|cbn; lia].
    + exists [(m, i, j)]. split; [reflexivity|cbn; lia].
    + exists []. rewrite app_nil_r. split; [reflexivity|cbn; lia].
  - destruct (leaf_taken (g_leaf g) (m, i, j, lf)); [|destruct (Nat.ltb lf (mi_more_leaves (info m)))]; cbn [fst snd g_deliv].
    + exists []. rewrite app_nil_r. split; [reflexivity|cbn; lia].
    + exists []. rewrite app_nil_r. split; [reflexivity|cbn; lia].
    + exists [(m, i, j)]. split; [reflexivity|cbn; lia].
  - exists []. rewrite app_nil_r. split; [reflexivity|cbn; lia].
Qed.

Lemma astep_deliv_suffix st tid : exists new, g_deliv (fst (astep st tid)) = (g_deliv (fst st) ++ new)%list.
Proof.
  destruct st as [g ths]. unfold Conc.astep. destruct (nth_opt ths tid) as [th|]; [|exists []; cbn; now rewrite app_nil_r].
  unfold Conc.tstep. destruct (t_pend th) as [pd|]; [|exists []; cbn; now rewrite app_nil_r].
  destruct (exec_deliv_suffix g pd) as (new & Hn & _). destruct (exec g pd) as [[g' nx] l]. cbn [fst snd] in *. now exists new.
Qed.

Lemma skipn_app_exact {X} (l new : list X) : skipn (length l) (l ++ new) = new.
Proof. induction l as [|x l IH]; cbn; [reflexivity|exact IH]. Qed.

(* the receivers' log IS the delivery log: nothing is handed out except by a step of some thread, in this order *)
Theorem deliveries_are_the_log sched : forall st,
  g_deliv (fst (run_sched sched st)) = (g_deliv (fst st) ++ map snd (deliveries info A accepts debug_args cfg sched st))%list.
Proof.
  induction sched as [|tid sched IH]; intros st; cbn [Conc.run_sched fold_left Conc.deliveries map]; [now rewrite app_nil_r|].
  fold (run_sched sched (astep st tid)). rewrite (IH (astep st tid)).
  destruct (astep_deliv_suffix st tid) as (new & Hn). rewrite Hn, skipn_app_exact, map_app, map_map. cbn [snd].
  rewrite map_id, app_assoc. reflexivity.
Qed.

Lemma advance_out_prefix calls : forall out, exists more, t_out (advance calls out) = (out ++ more)%list.
Proof.
  induction calls as [|[m a] calls IH]; intros out; cbn [Conc.advance]; [exists []; cbn; now rewrite app_nil_r|].
  destruct (start_call m a) as [act|pd]; [|exists []; cbn; now rewrite app_nil_r].
  destruct (IH (out ++ [act])%list) as (more & Hm). exists (act :: more). rewrite Hm, <- app_assoc. reflexivity.
Qed.

(* ... and the step that hands a value out is the step at which its thread's request returns a value (never a panic) *)
Theorem delivering_step_returns g th m i j :
  g_deliv (fst (fst (tstep g th))) = (g_deliv g ++ [(m, i, j)])%list ->
  exists v more, t_out (snd (fst (tstep g th))) = (t_out th ++ ActReturn (RVTag v) :: more)%list.
Proof.
  unfold Conc.tstep. destruct (t_pend th) as [pd|]; cbn [fst snd].
  2:{ intros H. exfalso. apply (f_equal (@length _)) in H. rewrite app_length in H. cbn in H. lia. }
  assert (Hno : forall l : list (N * nat * nat), l = (l ++ [(m, i, j)])%list -> False).
  { intros l H. apply (f_equal (@length _)) in H. rewrite app_length in H. cbn in H. lia. }
  destruct pd as [m0 a mk|m0 a i0 p counted|m0 a i0 p j0 v|m0 a i0 p j0 v lf|e]; cbn [Conc.exec fst snd g_deliv].
  - intros H. exfalso. exact (Hno _ H).
  - intros H. exfalso. exact (Hno _ H).
  - destruct (taken (g_state g) m0 i0 j0); [|destruct (mi_more_leaves (info m0))]; cbn [fst snd g_deliv]; intros H;
      try (exfalso; exact (Hno _ H)).
    destruct (advance_out_prefix (t_calls th) (t_out th ++ [ActReturn (RVTag v)])) as (more & Hm).
    exists v, more. rewrite Hm, <- app_assoc. reflexivity.
  - destruct (leaf_taken (g_leaf g) (m0, i0, j0, lf)); [|destruct (Nat.ltb lf (mi_more_leaves (info m0)))]; cbn [fst snd g_deliv]; intros H;
      try (exfalso; exact (Hno _ H)).
    destruct (advance_out_prefix (t_calls th) (t_out th ++ [ActReturn (RVTag v)])) as (more & Hm).
    exists v, more. rewrite Hm, <- app_assoc. reflexivity.
  - intros H. exfalso. exact (Hno _ H).
Qed.

(* so: each single-use value has at most ONE receiving (thread, step) over any schedule *)
Corollary one_receiver sched callss :
  NoDup (map snd (deliveries info A accepts debug_args cfg sched (init_glob, map (fun cs => advance cs []) callss))).
Proof.
  pose proof (single_use_once sched callss) as [Hnd _]. cbn zeta in Hnd.
  rewrite (deliveries_are_the_log sched (init_glob, map (fun cs => advance cs []) callss)) in Hnd. exact Hnd.
Qed.

End Conc.

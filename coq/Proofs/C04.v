(* Unimock.Proofs.C04 -- next_call patterns are consumed strictly in
   declaration order across methods. *)
From Unimock Require Import Model.Eval Spec.FirstMatch Spec.Slots Proofs.Core Proofs.C01 Proofs.C02.
Open Scope N_scope.

(* ---------- find_range: the first pattern whose range contains k ---------- *)

Definition in_range (p : pattern) (k : N) : bool := ((p_lo p <=? k) && (k <? p_hi p))%bool.

Lemma find_range_app k ps qs : forall i,
  find_range k (ps ++ qs) i =
  match find_range k ps i with
  | Some r => Some r
  | None => find_range k qs (i + length ps)
  end.
Proof.
  induction ps as [|p ps IH]; intros i; cbn [app find_range length].
  - now rewrite Nat.add_0_r.
  - fold (in_range p k). destruct (in_range p k); [reflexivity|].
    rewrite IH. replace (S i + length ps)%nat with (i + S (length ps))%nat by lia. reflexivity.
Qed.

Lemma find_range_none k ps : forall i,
  (forall p, In p ps -> in_range p k = false) -> find_range k ps i = None.
Proof.
  induction ps as [|p ps IH]; intros i H; cbn [find_range]; [reflexivity|].
  fold (in_range p k). rewrite (H p (or_introl eq_refl)). apply IH. intros q Hq. apply H. now right.
Qed.

Lemma find_range_some k ps : forall i j p,
  find_range k ps i = Some (j, p) -> (i <= j)%nat /\ nth_opt ps (j - i) = Some p /\ in_range p k = true.
Proof.
  induction ps as [|q ps IH]; intros i j p H; cbn [find_range] in H; [discriminate|].
  fold (in_range q k) in H. destruct (in_range q k) eqn:Hq.
  - injection H as <- <-. rewrite Nat.sub_diag. repeat split; [lia|assumption].
  - destruct (IH _ _ _ H) as (Hle & Hn & Hr). split; [lia|]. split; [|assumption].
    replace (j - i)%nat with (S (j - S i)) by lia. exact Hn.
Qed.

(* ---------- assembly assigns consecutive slot ranges ---------- *)

Section Ranges.
Variable info : N -> minfo.

(* everything registered so far lies below the current call index *)
Definition below (a : assembler) : Prop :=
  forall m p, In p (pats_of m (a_table a)) -> p_hi p <= a_cur a.

Lemma pats_of_In_lookup m tb mk : lookup m tb = Some mk -> pats_of m tb = m_pats mk.
Proof. unfold pats_of. now intros ->. Qed.

Lemma new_call_pattern_range cur b p cur' :
  new_call_pattern cur b = Some (p, cur') ->
  cur' = cur + slot_count b /\
  (forall k, in_range p k = ((cur <=? k) && (k <? cur + slot_count b))%bool) /\ p_hi p <= cur'.
Proof.
  unfold new_call_pattern, slot_count. destruct (b_mode b).
  - intros [= <- <-]. split; [lia|]. split; [|cbn; lia].
    intros k. unfold in_range. cbn. rewrite N.add_0_r.
    destruct (N.leb_spec 0 k), (N.ltb_spec k 0), (N.leb_spec cur k), (N.ltb_spec k cur); cbn; try reflexivity; lia.
  - destruct (exact_calls (b_exp b)) as [n|]; [|discriminate]. intros [= <- <-].
    split; [reflexivity|]. split; [reflexivity|cbn; lia].
Qed.

(* one push: where slot k goes afterwards *)
Lemma asm_push_owner a m0 b a' :
  asm_push info a m0 b = inl a' -> below a ->
  below a' /\ a_cur a' = a_cur a + slot_count b /\
  forall m k,
    option_map fst (find_range k (pats_of m (a_table a')) 0) =
    match option_map fst (find_range k (pats_of m (a_table a)) 0) with
    | Some i => Some i
    | None => if (N.eqb m0 m && (a_cur a <=? k) && (k <? a_cur a + slot_count b))%bool
              then Some (length (pats_of m (a_table a))) else None
    end.
Proof.
  intros Hp Hb. unfold asm_push in Hp. destruct (b_err b); [discriminate|].
  destruct (new_call_pattern (a_cur a) b) as [[p cur']|] eqn:Hn; [|discriminate].
  destruct (new_call_pattern_range _ _ _ _ Hn) as (Hcur & Hin & Hhi).
  assert (Hpats : forall m, pats_of m (a_table a') =
            if N.eqb m0 m then (pats_of m (a_table a) ++ [p])%list else pats_of m (a_table a)).
  { intros m. destruct (lookup m0 (a_table a)) as [mk|] eqn:Hl.
    - destruct (mode_eqb (m_mode mk) (b_mode b)); [|discriminate]. injection Hp as <-. cbn [a_table].
      unfold pats_of. destruct (N.eqb_spec m0 m) as [->|Hne].
      + now rewrite lookup_update_same, Hl.
      + now rewrite lookup_update_other.
    - injection Hp as <-. cbn [a_table]. unfold pats_of. destruct (N.eqb_spec m0 m) as [->|Hne].
      + now rewrite lookup_update_same, Hl.
      + now rewrite lookup_update_other. }
  assert (Hc : a_cur a' = cur').
  { destruct (lookup m0 (a_table a)) as [mk|]; [destruct (mode_eqb (m_mode mk) (b_mode b)); [|discriminate]|];
      injection Hp as <-; reflexivity. }
  split; [|split].
  - intros m q Hq. rewrite Hpats in Hq. rewrite Hc. destruct (N.eqb m0 m).
    + apply in_app_or in Hq as [Hq|[<-|[]]]; [|assumption]. specialize (Hb m q Hq). lia.
    + specialize (Hb m q Hq). lia.
  - lia.
  - intros m k. rewrite Hpats. destruct (N.eqb m0 m); cbn [andb].
    + rewrite find_range_app. destruct (find_range k (pats_of m (a_table a)) 0) as [[i q]|]; [reflexivity|].
      cbn [option_map find_range Nat.add]. fold (in_range p k). rewrite Hin.
      destruct ((a_cur a <=? k) && (k <? a_cur a + slot_count b))%bool; reflexivity.
    + destruct (option_map fst (find_range k (pats_of m (a_table a)) 0)); reflexivity.
Qed.

Lemma below_no_owner a m k : below a -> a_cur a <= k -> find_range k (pats_of m (a_table a)) 0 = None.
Proof.
  intros Hb Hk. apply find_range_none. intros p Hp. specialize (Hb m p Hp). unfold in_range.
  destruct (N.ltb_spec k (p_hi p)); [lia|apply andb_false_r].
Qed.

Lemma declared_length m ps a a' :
  asm_pushes info a ps = inl a' ->
  length (pats_of m (a_table a')) = (length (pats_of m (a_table a)) + count_mid m ps)%nat.
Proof.
  intros H. pose proof (assemble_declaration_order info ps a a' m H) as Hd.
  apply (f_equal (@length _)) in Hd. rewrite !map_length, app_length, !map_length in Hd. rewrite Hd. f_equal.
  clear. induction ps as [|[m' b|e] ps IH]; cbn; [reflexivity| |assumption].
  destruct (N.eqb m' m); cbn; now rewrite IH.
Qed.

(* the whole clause list: slot k is owned by the pattern the spec says *)
Theorem assemble_owner ps : forall a a',
  asm_pushes info a ps = inl a' -> below a ->
  below a' /\ a_cur a' = a_cur a + n_slots ps /\
  forall m k,
    option_map fst (find_range k (pats_of m (a_table a')) 0) =
    match option_map fst (find_range k (pats_of m (a_table a)) 0) with
    | Some i => Some i
    | None => owner_in m (a_cur a) (length (pats_of m (a_table a))) ps k
    end.
Proof.
  induction ps as [|[m0 b|e] ps IH]; intros a a' H Hb; cbn [asm_pushes] in H.
  - injection H as <-. split; [assumption|]. split; [cbn; lia|].
    intros m k. cbn [owner_in]. destruct (option_map fst (find_range k (pats_of m (a_table a)) 0)); reflexivity.
  - destruct (asm_push info a m0 b) as [a1|] eqn:Hp; [|discriminate].
    destruct (asm_push_owner a m0 b a1 Hp Hb) as (Hb1 & Hc1 & Ho1).
    destruct (IH a1 a' H Hb1) as (Hb' & Hc' & Ho').
    split; [assumption|]. split; [cbn [n_slots]; lia|].
    intros m k. rewrite Ho', Ho1. cbn [owner_in].
    destruct (option_map fst (find_range k (pats_of m (a_table a)) 0)) as [i|]; [reflexivity|].
    pose proof (declared_length m [Pushed m0 b] a a1) as Hlen. cbn [asm_pushes] in Hlen. rewrite Hp in Hlen.
    specialize (Hlen eq_refl). cbn [count_mid] in Hlen. rewrite Hc1.
    destruct (N.eqb_spec m0 m) as [->|Hne]; cbn [andb].
    + destruct ((a_cur a <=? k) && (k <? a_cur a + slot_count b))%bool; [reflexivity|].
      rewrite Hlen. f_equal. lia.
    + rewrite Hlen. f_equal. lia.
  - discriminate.
Qed.

End Ranges.

(* ---------- ranges are pairwise disjoint ---------- *)

Definition disjoint (tb : table) : Prop :=
  forall m i p m' i' q k,
    nth_opt (pats_of m tb) i = Some p -> nth_opt (pats_of m' tb) i' = Some q ->
    in_range p k = true -> in_range q k = true -> m = m' /\ i = i'.

Lemma nth_opt_In {X} (l : list X) : forall i x, nth_opt l i = Some x -> In x l.
Proof. induction l as [|y l IH]; intros [|i] x H; cbn in *; try discriminate; [left; congruence|right; eauto]. Qed.

Lemma nth_opt_app {X} (l1 l2 : list X) i :
  nth_opt (l1 ++ l2) i = if (i <? length l1)%nat then nth_opt l1 i else nth_opt l2 (i - length l1).
Proof.
  revert i. induction l1 as [|x l1 IH]; intros i; cbn [app length].
  - cbn. now rewrite Nat.sub_0_r.
  - destruct i as [|i]; [reflexivity|]. cbn [nth_opt]. rewrite IH.
    change (S i <? S (length l1))%nat with (i <? length l1)%nat. reflexivity.
Qed.

Section Disjoint.
Variable info : N -> minfo.

Lemma asm_push_disjoint a m0 b a' :
  asm_push info a m0 b = inl a' -> below a -> disjoint (a_table a) -> disjoint (a_table a').
Proof.
  intros Hp Hb Hd. pose proof Hp as Hp0. unfold asm_push in Hp. destruct (b_err b); [discriminate|].
  destruct (new_call_pattern (a_cur a) b) as [[p cur']|] eqn:Hn; [|discriminate].
  destruct (new_call_pattern_range _ _ _ _ Hn) as (Hcur & Hin & Hhi).
  assert (Hpats : forall m, pats_of m (a_table a') =
            if N.eqb m0 m then (pats_of m (a_table a) ++ [p])%list else pats_of m (a_table a)).
  { intros m. destruct (lookup m0 (a_table a)) as [mk|] eqn:Hl.
    - destruct (mode_eqb (m_mode mk) (b_mode b)); [|discriminate]. injection Hp as <-. cbn [a_table].
      unfold pats_of. destruct (N.eqb_spec m0 m) as [->|Hne].
      + now rewrite lookup_update_same, Hl.
      + now rewrite lookup_update_other.
    - injection Hp as <-. cbn [a_table]. unfold pats_of. destruct (N.eqb_spec m0 m) as [->|Hne].
      + now rewrite lookup_update_same, Hl.
      + now rewrite lookup_update_other. }
  (* classify an entry of the new table: old entry, or the new pattern *)
  assert (Hcls : forall m i q, nth_opt (pats_of m (a_table a')) i = Some q ->
            nth_opt (pats_of m (a_table a)) i = Some q \/
            (m = m0 /\ i = length (pats_of m (a_table a)) /\ q = p)).
  { intros m i q Hq. rewrite Hpats in Hq. destruct (N.eqb_spec m0 m) as [<-|Hne]; [|now left].
    rewrite nth_opt_app in Hq. destruct (Nat.ltb_spec i (length (pats_of m0 (a_table a)))); [now left|].
    right. destruct (i - length (pats_of m0 (a_table a)))%nat as [|d] eqn:Hd0; cbn in Hq; [|destruct d; discriminate].
    injection Hq as <-. repeat split. lia. }
  assert (Hold : forall m i q k, nth_opt (pats_of m (a_table a)) i = Some q -> in_range q k = true -> k < a_cur a).
  { intros m i q k Hq Hr. apply nth_opt_In in Hq. specialize (Hb m q Hq). unfold in_range in Hr.
    apply andb_true_iff in Hr as [_ Hr]. apply N.ltb_lt in Hr. lia. }
  assert (Hnew : forall k, in_range p k = true -> a_cur a <= k).
  { intros k Hr. rewrite Hin in Hr. apply andb_true_iff in Hr as [Hr _]. now apply N.leb_le in Hr. }
  intros m i q m' i' q' k Hq Hq' Hr Hr'.
  destruct (Hcls _ _ _ Hq) as [Ho|(-> & -> & ->)], (Hcls _ _ _ Hq') as [Ho'|(-> & -> & ->)].
  - exact (Hd _ _ _ _ _ _ _ Ho Ho' Hr Hr').
  - specialize (Hold _ _ _ _ Ho Hr). specialize (Hnew _ Hr'). lia.
  - specialize (Hold _ _ _ _ Ho' Hr'). specialize (Hnew _ Hr). lia.
  - split; reflexivity.
Qed.

Theorem assemble_disjoint ps : forall a a',
  asm_pushes info a ps = inl a' -> below a -> disjoint (a_table a) -> disjoint (a_table a').
Proof.
  induction ps as [|[m0 b|e] ps IH]; intros a a' H Hb Hd; cbn [asm_pushes] in H.
  - now injection H as <-.
  - destruct (asm_push info a m0 b) as [a1|] eqn:Hp; [|discriminate].
    destruct (asm_push_owner info a m0 b a1 Hp Hb) as (Hb1 & _ & _).
    exact (IH a1 a' H Hb1 (asm_push_disjoint a m0 b a1 Hp Hb Hd)).
  - discriminate.
Qed.

Lemma below_new : below new_assembler.
Proof. intros m p []. Qed.
Lemma disjoint_new : disjoint (a_table new_assembler).
Proof. intros m i p m' i' q k H. destruct i; discriminate. Qed.

End Disjoint.

(* ---------- evaluation of ordered methods ---------- *)

Section OrderedEval.
Variable info : N -> minfo.
Variable A : Type.
Variable accepts : N -> A -> bool.
Variable debug_args : A -> list (option string).
Notation eval_raw := (eval_raw info A accepts debug_args).
Notation eval := (eval info A accepts debug_args).
Notation respond := (respond A debug_args).
Notation call_of := (call_of A debug_args).

Lemma eval_fst_raw cfg s m a :
  cnt (fst (eval cfg s m a)) = cnt (fst (eval_raw cfg s m a)) /\
  next_ord (fst (eval cfg s m a)) = next_ord (fst (eval_raw cfg s m a)).
Proof. unfold Eval.eval. destruct (eval_raw cfg s m a) as [s1 o]. destruct o; split; reflexivity. Qed.

(* the i-th ordered call: accepted iff slot i belongs to a pattern of the called
   method and that pattern's matcher accepts; every case consumes the slot *)
Theorem ordered_call cfg s m a mk :
  lookup m (c_table cfg) = Some mk -> m_mode mk = InOrder ->
  let k := next_ord s in
  let s1 := set_next s (k + 1) in
  eval_raw cfg s m a =
  match find_range k (m_pats mk) 0 with
  | None => (s1, OutErr (ECallOrderNotMatched (call_of m a) k (find_expected k (c_table cfg))))
  | Some (i, p) =>
    match p_matcher p with
    | None => (s1, OutErr (ENoMatcherFunction (call_of m a) (debug_pattern m i p)))
    | Some f =>
      if accepts f a then respond s1 m a i p
      else (s1, OutErr (EInputsNotMatchedInCallOrder (call_of m a) k (debug_pattern m i p)))
    end
  end.
Proof.
  intros Hl Hm. cbn zeta. unfold Eval.eval_raw. rewrite Hl. unfold match_call_pattern. rewrite Hm.
  destruct (find_range (next_ord s) (m_pats mk) 0) as [[i p]|]; [|reflexivity].
  unfold match_inputs. destruct (p_matcher p) as [f|]; [|reflexivity].
  destruct (accepts f a); reflexivity.
Qed.

(* calls to unordered or unmentioned methods never consume or disturb slots *)
Theorem unordered_call_keeps_order cfg s m a :
  (forall mk, lookup m (c_table cfg) = Some mk -> m_mode mk = InAnyOrder) ->
  next_ord (fst (eval cfg s m a)) = next_ord s /\
  (forall m' i', m' <> m -> cnt (fst (eval cfg s m a)) m' i' = cnt s m' i').
Proof.
  intros Hmode. split.
  - unfold Eval.eval, Eval.eval_raw. destruct (lookup m (c_table cfg)) as [mk|].
    + unfold match_call_pattern. rewrite (Hmode mk eq_refl).
      destruct (scan A accepts a (m_pats mk) 0) as [[[i p] [b|]]|]; try reflexivity.
      * pose proof (respond_cnt A debug_args s m a i p) as (_ & Hn & _).
        destruct (Eval.respond A debug_args s m a i p) as [s2 o]. cbn [fst] in Hn. destruct o; cbn; assumption.
      * destruct (c_fallback cfg); reflexivity.
    + destruct (mi_has_default (info m)); [reflexivity|].
      destruct (mi_partial_by_default (info m)); [reflexivity|]. destruct (c_fallback cfg); reflexivity.
  - intros m' i' Hne. rewrite (eval_cnt info A accepts debug_args).
    destruct (selected A accepts debug_args cfg s m a) as [i|]; [|reflexivity].
    apply bump_other. intros [= ->]. now contradiction Hne.
Qed.

(* while every ordered call so far was accepted, the counter of an ordered
   pattern is the number of its slots already consumed *)
Definition ord_inv (cfg : config) (s : state) : Prop :=
  forall m mk i p, lookup m (c_table cfg) = Some mk -> m_mode mk = InOrder ->
    nth_opt (m_pats mk) i = Some p ->
    cnt s m i = N.min (next_ord s - p_lo p) (p_hi p - p_lo p).

Lemma ord_inv_init cfg : ord_inv cfg init_state.
Proof. intros m mk i p _ _ _. cbn. lia. Qed.

Definition accepted (o : outcome) : Prop :=
  match o with
  | OutErr (ECallOrderNotMatched _ _ _) | OutErr (EInputsNotMatchedInCallOrder _ _ _)
  | OutErr (ENoMatcherFunction _ _) => False
  | _ => True
  end.

(* an accepted ordered call in slot k gets position k - lo of its pattern's chain
   and keeps the invariant *)
Theorem ordered_call_position cfg s m a mk :
  disjoint (c_table cfg) -> ord_inv cfg s ->
  lookup m (c_table cfg) = Some mk -> m_mode mk = InOrder ->
  accepted (snd (eval_raw cfg s m a)) ->
  exists i p, find_range (next_ord s) (m_pats mk) 0 = Some (i, p) /\
    eval_raw cfg s m a = respond (set_next s (next_ord s + 1)) m a i p /\
    cnt s m i = next_ord s - p_lo p /\
    ord_inv cfg (fst (eval cfg s m a)).
Proof.
  intros Hd Hinv Hl Hm Hacc. pose proof (ordered_call cfg s m a mk Hl Hm) as He. cbn zeta in He.
  destruct (find_range (next_ord s) (m_pats mk) 0) as [[i p]|] eqn:Hf.
  2:{ rewrite He in Hacc. contradiction. }
  destruct (find_range_some _ _ _ _ _ Hf) as (_ & Hn & Hr). rewrite Nat.sub_0_r in Hn.
  destruct (p_matcher p) as [f|] eqn:Hpm. 2:{ rewrite He in Hacc. contradiction. }
  destruct (accepts f a) eqn:Hfa. 2:{ rewrite He in Hacc. contradiction. }
  exists i, p. split; [reflexivity|]. split; [exact He|].
  unfold in_range in Hr. apply andb_true_iff in Hr as [Hlo Hhi]. apply N.leb_le in Hlo. apply N.ltb_lt in Hhi.
  pose proof (Hinv m mk i p Hl Hm Hn) as Hci.
  split; [lia|].
  (* invariant afterwards *)
  destruct (eval_fst_raw cfg s m a) as [Hcs Hns]. rewrite He in Hcs, Hns.
  pose proof (respond_cnt A debug_args (set_next s (next_ord s + 1)) m a i p) as (Hc & Hnx & _).
  intros m' mk' i' q Hl' Hm' Hn'. rewrite Hcs, Hns, Hc, Hnx. cbn [cnt next_ord set_next].
  pose proof (Hinv m' mk' i' q Hl' Hm' Hn') as Hq.
  destruct (N.eq_dec m m') as [<-|Hne].
  - rewrite Hl in Hl'. injection Hl' as <-. destruct (Nat.eq_dec i i') as [<-|Hni].
    + rewrite bump_same. rewrite Hn in Hn'. injection Hn' as <-. lia.
    + rewrite bump_other by (intros Heq; inversion Heq; contradiction). rewrite Hq.
      (* q is another pattern: slot k is not in its range *)
      assert (Hnot : in_range q (next_ord s) = false).
      { destruct (in_range q (next_ord s)) eqn:Hrq; [|reflexivity].
        assert (Hp1 : nth_opt (pats_of m (c_table cfg)) i = Some p) by (unfold pats_of; now rewrite Hl).
        assert (Hp2 : nth_opt (pats_of m (c_table cfg)) i' = Some q) by (unfold pats_of; now rewrite Hl).
        assert (Hrp : in_range p (next_ord s) = true).
        { unfold in_range. apply andb_true_iff. split; [now apply N.leb_le|now apply N.ltb_lt]. }
        destruct (Hd _ _ _ _ _ _ _ Hp1 Hp2 Hrp Hrq) as [_ Hii]. contradiction. }
      unfold in_range in Hnot. apply andb_false_iff in Hnot as [Hx|Hx];
        [apply N.leb_gt in Hx|apply N.ltb_ge in Hx]; lia.
  - rewrite bump_other by (intros Heq; inversion Heq; contradiction). rewrite Hq.
    assert (Hnot : in_range q (next_ord s) = false).
    { destruct (in_range q (next_ord s)) eqn:Hrq; [|reflexivity].
      assert (Hp1 : nth_opt (pats_of m (c_table cfg)) i = Some p) by (unfold pats_of; now rewrite Hl).
      assert (Hp2 : nth_opt (pats_of m' (c_table cfg)) i' = Some q) by (unfold pats_of; now rewrite Hl').
      assert (Hrp : in_range p (next_ord s) = true).
      { unfold in_range. apply andb_true_iff. split; [now apply N.leb_le|now apply N.ltb_lt]. }
      destruct (Hd _ _ _ _ _ _ _ Hp1 Hp2 Hrp Hrq) as [Hmm _]. contradiction. }
    unfold in_range in Hnot. apply andb_false_iff in Hnot as [Hx|Hx];
      [apply N.leb_gt in Hx|apply N.ltb_ge in Hx]; lia.
Qed.

(* unordered / unmentioned calls keep the invariant *)
Theorem unordered_call_keeps_inv cfg s m a :
  (forall mk, lookup m (c_table cfg) = Some mk -> m_mode mk = InAnyOrder) ->
  ord_inv cfg s -> ord_inv cfg (fst (eval cfg s m a)).
Proof.
  intros Hmode Hinv. destruct (unordered_call_keeps_order cfg s m a Hmode) as [Hn Hc].
  intros m' mk' i' q Hl' Hm' Hn'. rewrite Hn.
  assert (Hne : m' <> m).
  { intros ->. rewrite (Hmode mk' Hl') in Hm'. discriminate. }
  rewrite (Hc m' i' Hne). exact (Hinv m' mk' i' q Hl' Hm' Hn').
Qed.

End OrderedEval.

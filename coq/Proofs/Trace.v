(* Unimock.Proofs.Trace -- which matcher functions a call consults (Model/Run.v [matcher_trace]). *)
From Unimock Require Import Model.Run Proofs.Core.
Open Scope N_scope.

Definition ids (ps : list pattern) : list (N * bool) := map (fun p => (pat_id p, false)) ps.

(* an unordered call consults the patterns of its method from the first declared one up to and including the one that
   answers it, each once, without diagnostics - and none after it (like the arms of a Rust match) *)
Lemma scan_trace_answer a : forall ps j i p,
  scan N haccepts a ps j = Some (i, p, Some true) ->
  (j <= i)%nat /\ scan_trace a ps = (ids (firstn (S (i - j)) ps), true).
Proof.
  induction ps as [|q ps IH]; intros j i p H; cbn [scan] in H; [discriminate|].
  unfold match_inputs in H. cbn [scan_trace]. destruct (p_matcher q) as [f|]; [|discriminate].
  destruct (haccepts f a) eqn:E.
  - injection H as <- <-. split; [lia|]. replace (j - j)%nat with 0%nat by lia. reflexivity.
  - destruct (IH (S j) i p H) as [Hle Ht]. split; [lia|]. rewrite Ht.
    replace (S (i - j)) with (S (S (i - S j))) by lia. reflexivity.
Qed.

Lemma scan_trace_none a : forall ps j,
  scan N haccepts a ps j = None -> scan_trace a ps = (ids ps, false).
Proof.
  induction ps as [|q ps IH]; intros j H; cbn [scan] in H; [reflexivity|].
  unfold match_inputs in H. cbn [scan_trace]. destruct (p_matcher q) as [f|]; [|discriminate].
  destruct (haccepts f a); [discriminate|]. now rewrite (IH (S j) H).
Qed.

Theorem trace_stops_at_the_answering_pattern cfg s m a mk i p :
  lookup m (c_table cfg) = Some mk -> m_mode mk = InAnyOrder ->
  scan N haccepts a (m_pats mk) 0 = Some (i, p, Some true) ->
  matcher_trace cfg s m a = ids (firstn (S i) (m_pats mk)).
Proof.
  intros Hl Hm Hs. unfold matcher_trace. rewrite Hl, Hm.
  destruct (scan_trace_answer a _ _ _ _ Hs) as [_ Ht]. rewrite Ht. now replace (i - 0)%nat with i by lia.
Qed.

(* when every pattern rejects: a strict mock consults every matcher once to decide and once more, with diagnostics, for the
   message; a partial mock (the call goes to the real function) only to decide *)
Theorem trace_when_all_reject cfg s m a mk :
  lookup m (c_table cfg) = Some mk -> m_mode mk = InAnyOrder ->
  scan N haccepts a (m_pats mk) 0 = None ->
  matcher_trace cfg s m a =
  match c_fallback cfg with
  | FbError => (ids (m_pats mk) ++ map (fun p => (pat_id p, true)) (m_pats mk))%list
  | FbUnmock => ids (m_pats mk)
  end.
Proof.
  intros Hl Hm Hs. unfold matcher_trace. rewrite Hl, Hm, (scan_trace_none a _ _ Hs).
  destruct (c_fallback cfg); [|reflexivity]. unfold ids. now rewrite map_map.
Qed.

(* diagnostics are collected only after the decision has been made: every entry of the trace that decides is diagnostics-free
   for an unordered method, and an ordered call consults exactly one matcher *)
Theorem ordered_call_consults_one_matcher cfg s m a mk :
  lookup m (c_table cfg) = Some mk -> m_mode mk = InOrder ->
  (length (matcher_trace cfg s m a) <= 1)%nat.
Proof.
  intros Hl Hm. unfold matcher_trace. rewrite Hl, Hm.
  destruct (find_range (next_ord s) (m_pats mk) 0) as [[i p]|]; [|cbn; lia].
  destruct (p_matcher p); cbn; lia.
Qed.

Theorem unmentioned_call_consults_nothing cfg s m a :
  lookup m (c_table cfg) = None -> matcher_trace cfg s m a = [].
Proof. intros Hl. unfold matcher_trace. now rewrite Hl. Qed.

(* user code in the arguments' Debug impls runs only to render a call into an error message: never for a call that is answered *)
Theorem debug_runs_spec act :
  debug_runs act = 1 <-> exists e, act = ActPanic e /\ renders_call e = true.
Proof.
  unfold debug_runs. destruct act as [v|f| | |e]; try (split; [discriminate|intros (e0 & H & _); discriminate]).
  destruct (renders_call e) eqn:R; split.
  - intros _. exists e. split; [reflexivity|exact R].
  - reflexivity.
  - discriminate.
  - intros (e0 & [= <-] & H). congruence.
Qed.

Theorem answered_call_runs_no_debug act : (forall e, act <> ActPanic e) -> debug_runs act = 0.
Proof. destruct act; intros H; try reflexivity. now contradiction (H e). Qed.

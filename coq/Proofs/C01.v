(* Unimock.Proofs.C01 -- unordered calls are answered by the first declared
   pattern that matches. *)
From Unimock Require Import Model.Eval Spec.FirstMatch Proofs.Core.
Open Scope N_scope.

Section C01.
Variable info : N -> minfo.
Variable A : Type.
Variable accepts : N -> A -> bool.
Variable debug_args : A -> list (option string).

Notation eval_raw := (eval_raw info A accepts debug_args).
Notation eval := (eval info A accepts debug_args).
Notation respond := (respond A debug_args).
Notation first_match := (first_match A accepts).
Notation accepts_pat := (accepts_pat A accepts).
Notation call_of := (call_of A debug_args).

(* what [respond] does to the shared counters *)
Lemma respond_cnt s m a i p :
  cnt (fst (respond s m a i p)) = bump (cnt s) m i /\ next_ord (fst (respond s m a i p)) = next_ord s
  /\ errs (fst (respond s m a i p)) = errs s.
Proof.
  unfold respond.
  destruct (find_responder_idx _ _) as [j|]; [|cbn; auto].
  destruct (nth_opt _ j) as [[k r]|]; [|cbn; auto].
  destruct r as [[|] v| |f|msg| |]; cbn; auto.
  destruct (taken s m i j); cbn; auto.
Qed.

(* (ii) a call to an unordered method is answered by the first accepting
   pattern, whatever the state is; exactly that pattern's counter goes up by one *)
Theorem first_match_selected cfg s m a mk i p :
  lookup m (c_table cfg) = Some mk ->
  m_mode mk = InAnyOrder ->
  forallb has_matcher (m_pats mk) = true ->
  first_match a (m_pats mk) 0 = Some i ->
  nth_opt (m_pats mk) i = Some p ->
  eval_raw cfg s m a = respond s m a i p /\
  let s' := fst (eval cfg s m a) in
  cnt s' m i = cnt s m i + 1 /\
  (forall m' i', (m, i) <> (m', i') -> cnt s' m' i' = cnt s m' i') /\
  next_ord s' = next_ord s.
Proof.
  intros Hl Hmode Hm Hf Hn.
  assert (Hev : eval_raw cfg s m a = respond s m a i p).
  { unfold Eval.eval_raw. rewrite Hl. unfold match_call_pattern. rewrite Hmode.
    rewrite (scan_first_match A accepts a (m_pats mk) 0 Hm), Hf, Nat.sub_0_r, Hn. reflexivity. }
  split; [exact Hev|]. cbn zeta.
  unfold Eval.eval. rewrite Hev.
  pose proof (respond_cnt s m a i p) as (Hc & Hno & _).
  destruct (respond s m a i p) as [s1 o] eqn:Hr. cbn [fst] in *.
  assert (Hcnt : forall e, cnt (push_err s1 e) = cnt s1) by reflexivity.
  assert (Hnx : forall e, next_ord (push_err s1 e) = next_ord s1) by reflexivity.
  destruct o; cbn [fst]; rewrite ?Hcnt, ?Hnx, Hc, Hno;
    (split; [apply bump_same|]; split; [intros m' i' Hne; now apply bump_other|reflexivity]).
Qed.

(* (iii) no pattern accepts: nothing is counted; strict -> error, partial -> unmock *)
Theorem no_match_outcome cfg s m a mk :
  lookup m (c_table cfg) = Some mk ->
  m_mode mk = InAnyOrder ->
  forallb has_matcher (m_pats mk) = true ->
  first_match a (m_pats mk) 0 = None ->
  eval_raw cfg s m a =
    (s, match c_fallback cfg with
        | FbError => OutErr (ENoMatchingCallPatterns (call_of m a))
        | FbUnmock => OutUnmock
        end) /\
  cnt (fst (eval cfg s m a)) = cnt s /\ next_ord (fst (eval cfg s m a)) = next_ord s /\
  taken (fst (eval cfg s m a)) = taken s.
Proof.
  intros Hl Hmode Hm Hf.
  assert (Hev : eval_raw cfg s m a =
    (s, match c_fallback cfg with
        | FbError => OutErr (ENoMatchingCallPatterns (call_of m a))
        | FbUnmock => OutUnmock end)).
  { unfold Eval.eval_raw. rewrite Hl. unfold match_call_pattern. rewrite Hmode.
    rewrite (scan_none A accepts a _ 0 Hm Hf). destruct (c_fallback cfg); reflexivity. }
  split; [exact Hev|]. unfold Eval.eval. rewrite Hev. destruct (c_fallback cfg); cbn; auto.
Qed.

(* (v) a pattern without matcher function stops the scan with an error *)
Theorem no_matcher_stops cfg s m a mk i p :
  lookup m (c_table cfg) = Some mk ->
  m_mode mk = InAnyOrder ->
  scan A accepts a (m_pats mk) 0 = Some (i, p, None) ->
  eval_raw cfg s m a = (s, OutErr (ENoMatcherFunction (call_of m a) (debug_pattern m i p))).
Proof.
  intros Hl Hmode Hs. unfold Eval.eval_raw. rewrite Hl. unfold match_call_pattern. now rewrite Hmode, Hs.
Qed.

(* (iv) frame: for an unordered method the result depends on the configuration
   only through that method's own entry and the fallback mode, and on the state
   only through that method's own counters and slots *)
Theorem frame_other_methods cfg1 cfg2 s m a mk :
  lookup m (c_table cfg1) = Some mk ->
  lookup m (c_table cfg2) = Some mk ->
  m_mode mk = InAnyOrder ->
  c_fallback cfg1 = c_fallback cfg2 ->
  eval_raw cfg1 s m a = eval_raw cfg2 s m a.
Proof.
  intros H1 H2 Hmode Hfb. unfold Eval.eval_raw. rewrite H1, H2. unfold match_call_pattern.
  rewrite Hmode, Hfb. reflexivity.
Qed.

Definition same_at (m : N) (s1 s2 : state) : Prop :=
  (forall i, cnt s1 m i = cnt s2 m i) /\ (forall i j, taken s1 m i j = taken s2 m i j).

Theorem frame_state cfg s1 s2 m a mk :
  lookup m (c_table cfg) = Some mk ->
  m_mode mk = InAnyOrder ->
  same_at m s1 s2 ->
  snd (eval_raw cfg s1 m a) = snd (eval_raw cfg s2 m a).
Proof.
  intros Hl Hmode [Hc Ht]. unfold Eval.eval_raw. rewrite Hl. unfold match_call_pattern. rewrite Hmode.
  destruct (scan A accepts a (m_pats mk) 0) as [[[i p] [b|]]|]; try reflexivity.
  - unfold Eval.respond. rewrite (Hc i).
    destruct (find_responder_idx _ _) as [j|]; [|reflexivity].
    destruct (nth_opt _ j) as [[k r]|]; [|reflexivity].
    destruct r as [[|] v| |f|msg| |]; try reflexivity.
    cbn [taken set_cnt]. rewrite (Ht i j). destruct (taken s2 m i j); reflexivity.
  - destruct (c_fallback cfg); reflexivity.
Qed.

(* a rejecting pattern's response chain never matters: replacing the responders
   (and expectation) of any pattern other than the selected one changes nothing *)
Definition same_matchers (ps qs : list pattern) : Prop :=
  map p_matcher ps = map p_matcher qs.

Lemma first_match_matchers a ps qs : same_matchers ps qs -> forall i, first_match a ps i = first_match a qs i.
Proof.
  unfold same_matchers. revert qs. induction ps as [|p ps IH]; intros [|q qs] H i; cbn in *; try discriminate; [reflexivity|].
  injection H as Hp Hps. unfold FirstMatch.accepts_pat. rewrite Hp.
  destruct (match p_matcher q with Some f => accepts f a | None => false end); [reflexivity|now apply IH].
Qed.

End C01.

(* (i) assembly keeps each method's patterns in declaration order, drops and
   merges nothing, whatever else is in the clause list *)
Section Order.
Variable info : N -> minfo.

Lemma new_call_pattern_view cur b p cur' :
  new_call_pattern cur b = Some (p, cur') -> pat_view p = builder_view b.
Proof.
  unfold new_call_pattern. destruct (b_mode b).
  - intros [= <- _]. reflexivity.
  - destruct (exact_calls (b_exp b)); [|discriminate]. intros [= <- _]. reflexivity.
Qed.

Theorem assemble_declaration_order ps : forall a a' m,
  asm_pushes info a ps = inl a' ->
  map pat_view (pats_of m (a_table a')) =
  (map pat_view (pats_of m (a_table a)) ++ map builder_view (declared m ps))%list.
Proof.
  induction ps as [|[m0 b|msg] ps IH]; intros a a' m H; cbn in H.
  - injection H as <-. cbn. now rewrite app_nil_r.
  - destruct (asm_push info a m0 b) as [a1|e] eqn:Hp; [|discriminate].
    rewrite (IH _ _ m H). clear IH H. cbn [declared].
    unfold asm_push in Hp. destruct (b_err b); [discriminate|].
    destruct (new_call_pattern (a_cur a) b) as [[p cur']|] eqn:Hn; [|discriminate].
    apply new_call_pattern_view in Hn.
    destruct (lookup m0 (a_table a)) as [mk|] eqn:Hl.
    + destruct (mode_eqb (m_mode mk) (b_mode b)); [|discriminate]. injection Hp as <-. cbn [a_table].
      unfold pats_of. destruct (N.eqb_spec m0 m) as [->|Hne].
      * rewrite lookup_update_same, Hl. cbn [m_pats map]. rewrite map_app, <- app_assoc. cbn. now rewrite Hn.
      * now rewrite lookup_update_other.
    + injection Hp as <-. cbn [a_table]. unfold pats_of. destruct (N.eqb_spec m0 m) as [->|Hne].
      * rewrite lookup_update_same, Hl. cbn. now rewrite Hn.
      * now rewrite lookup_update_other.
  - discriminate.
Qed.

End Order.

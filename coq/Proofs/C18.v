(* Unimock.Proofs.C18 -- behaviour depends only on clauses and history. *)
From Unimock Require Import Model.Run Spec.Leaves Spec.Slots Spec.Layout Spec.FirstMatch Proofs.Core Proofs.C14.
Open Scope N_scope.

Section Layout.
Variable info : N -> minfo.
Notation asm_push := (asm_push info).
Notation asm_pushes := (asm_pushes info).
Notation offence := (offence info).
Notation first_offence := (first_offence info).

Lemma new_call_pattern_spec cur b p cur' :
  new_call_pattern cur b = Some (p, cur') -> p = pat_at cur b /\ cur' = cur + slot_count b.
Proof.
  unfold new_call_pattern, pat_at, slot_count. destruct (b_mode b).
  - intros [= <- <-]. split; [reflexivity|lia].
  - destruct (exact_calls (b_exp b)) as [n|]; [|discriminate]. intros [= <- <-]. split; reflexivity.
Qed.

(* the patterns of every method after assembling: its own clauses, each at the
   slot offset given by the ordered clauses before it *)
Theorem assemble_spec_pats ps : forall a a' m,
  asm_pushes a ps = inl a' ->
  pats_of m (a_table a') = (pats_of m (a_table a) ++ spec_pats m (a_cur a) ps)%list.
Proof.
  induction ps as [|[m0 b|msg] ps IH]; intros a a' m H; cbn in H.
  - injection H as <-. cbn. now rewrite app_nil_r.
  - destruct (asm_push a m0 b) as [a1|e] eqn:Hp; [|discriminate].
    rewrite (IH _ _ m H). clear IH H. cbn [spec_pats].
    unfold Assemble.asm_push in Hp. destruct (b_err b); [discriminate|].
    destruct (new_call_pattern (a_cur a) b) as [[p cur']|] eqn:Hn; [|discriminate].
    apply new_call_pattern_spec in Hn as [-> ->].
    destruct (lookup m0 (a_table a)) as [mk|] eqn:Hl.
    + destruct (mode_eqb (m_mode mk) (b_mode b)); [|discriminate]. injection Hp as <-. cbn [a_table a_cur].
      unfold pats_of. destruct (N.eqb_spec m0 m) as [->|Hne].
      * rewrite lookup_update_same, Hl. cbn [m_pats]. now rewrite <- !app_assoc.
      * now rewrite lookup_update_other.
    + injection Hp as <-. cbn [a_table a_cur]. unfold pats_of. destruct (N.eqb_spec m0 m) as [->|Hne].
      * rewrite lookup_update_same, Hl. reflexivity.
      * now rewrite lookup_update_other.
  - discriminate.
Qed.

(* ---- an admissible exchange changes no method's patterns ---- *)
Lemma slot_count_any b : b_mode b = InAnyOrder -> slot_count b = 0.
Proof. unfold slot_count. now intros ->. Qed.

Lemma pat_at_any cur cur' b : b_mode b = InAnyOrder -> pat_at cur b = pat_at cur' b.
Proof. unfold pat_at. now intros ->. Qed.

Lemma spec_pats_swap m cur x y l : swap_ok x y ->
  spec_pats m cur (x :: y :: l) = spec_pats m cur (y :: x :: l).
Proof.
  destruct x as [mx bx|ex], y as [my by_|ey]; cbn [swap_ok]; try contradiction.
  intros [Hne Hany]. cbn [spec_pats].
  replace (cur + slot_count bx + slot_count by_) with (cur + slot_count by_ + slot_count bx) by lia.
  destruct (N.eqb_spec mx m) as [Hx|Hx], (N.eqb_spec my m) as [Hy|Hy]; try (subst; now contradiction Hne); cbn [app].
  - f_equal. destruct Hany as [Ha|Ha].
    + now apply pat_at_any.
    + now rewrite (slot_count_any _ Ha), N.add_0_r.
  - f_equal. destruct Hany as [Ha|Ha].
    + now rewrite (slot_count_any _ Ha), N.add_0_r.
    + now apply pat_at_any.
  - reflexivity.
Qed.

Lemma spec_pats_app m l1 : forall cur l2,
  spec_pats m cur (l1 ++ l2) = (spec_pats m cur l1 ++ spec_pats m (cur + n_slots l1) l2)%list.
Proof.
  induction l1 as [|[m' b|e] l1 IH]; intros cur l2; cbn [app spec_pats n_slots].
  - now rewrite N.add_0_r.
  - rewrite IH, <- app_assoc. now rewrite N.add_assoc.
  - apply IH.
Qed.

Theorem spec_pats_adm ps ps' : adm ps ps' -> forall m, spec_pats m 0 ps = spec_pats m 0 ps'.
Proof.
  induction 1 as [l|l1 x y l2 Hs|l1 l2 l3 _ IH1 _ IH2]; intros m.
  - reflexivity.
  - rewrite !spec_pats_app. f_equal. now apply spec_pats_swap.
  - now rewrite IH1.
Qed.

(* ---- ... nor any method's mode, nor whether the clause list is accepted ---- *)
Definition same_modes (s1 s2 : list pushed) : Prop := forall m, first_mode m s1 = first_mode m s2.

Lemma same_modes_snoc s1 s2 x : same_modes s1 s2 -> same_modes (s1 ++ [x]) (s2 ++ [x]).
Proof. intros H m. now rewrite !first_mode_app, (H m). Qed.

Lemma offence_same_modes s1 s2 x : same_modes s1 s2 -> offence s1 x = offence s2 x.
Proof. intros H. destruct x as [m b|e]; cbn; [|reflexivity]. now rewrite (H m). Qed.

Lemma first_offence_same_modes ps : forall s1 s2, same_modes s1 s2 -> first_offence s1 ps = first_offence s2 ps.
Proof.
  induction ps as [|x ps IH]; intros s1 s2 H; cbn; [reflexivity|].
  rewrite (offence_same_modes s1 s2 x H). destruct (offence s2 x); [reflexivity|].
  apply IH. now apply same_modes_snoc.
Qed.

Lemma offence_other_mid seen mx bx y :
  match y with Pushed my _ => mx <> my | PushErr _ => True end ->
  offence (seen ++ [Pushed mx bx]) y = offence seen y.
Proof.
  destruct y as [my by_|e]; cbn; [|reflexivity]. intros Hne. rewrite first_mode_app.
  destruct (first_mode my seen); [reflexivity|]. destruct (N.eqb_spec mx my); [contradiction|reflexivity].
Qed.

Lemma same_modes_swap seen mx bx my by_ : mx <> my ->
  same_modes ((seen ++ [Pushed mx bx]) ++ [Pushed my by_]) ((seen ++ [Pushed my by_]) ++ [Pushed mx bx]).
Proof.
  intros Hne m. rewrite !first_mode_app. destruct (first_mode m seen); [reflexivity|].
  destruct (N.eqb_spec mx m), (N.eqb_spec my m); subst; try reflexivity. now contradiction Hne.
Qed.

Lemma accepted_swap seen x y l : swap_ok x y ->
  first_offence seen (x :: y :: l) = None -> first_offence seen (y :: x :: l) = None.
Proof.
  destruct x as [mx bx|ex], y as [my by_|ey]; cbn [swap_ok]; try contradiction.
  intros [Hne _]. cbn [Leaves.first_offence].
  destruct (offence seen (Pushed mx bx)) eqn:Hx; [discriminate|].
  rewrite (offence_other_mid seen mx bx (Pushed my by_) Hne).
  destruct (offence seen (Pushed my by_)) eqn:Hy; [discriminate|].
  rewrite (offence_other_mid seen my by_ (Pushed mx bx) (fun E => Hne (eq_sym E))), Hx.
  intros H. rewrite <- H. apply first_offence_same_modes. now apply same_modes_swap, not_eq_sym.
Qed.

Lemma swap_ok_sym x y : swap_ok x y -> swap_ok y x.
Proof. destruct x, y; cbn; try contradiction. intros [H [A|A]]; split; auto. Qed.

Lemma accepted_prefix l1 : forall seen l l',
  (forall s, first_offence s l = None -> first_offence s l' = None) ->
  first_offence seen (l1 ++ l) = None -> first_offence seen (l1 ++ l') = None.
Proof.
  induction l1 as [|x l1 IH]; intros seen l l' H; cbn [app]; [apply H|].
  cbn [Leaves.first_offence]. destruct (offence seen x); [discriminate|]. now apply IH.
Qed.

Theorem accepted_adm ps ps' : adm ps ps' ->
  forall s, first_offence s ps = None <-> first_offence s ps' = None.
Proof.
  induction 1 as [l|l1 x y l2 Hs|l1 l2 l3 _ IH1 _ IH2]; intros s.
  - reflexivity.
  - split; apply accepted_prefix; intros s'; apply accepted_swap; [exact Hs|now apply swap_ok_sym].
  - now rewrite IH1.
Qed.

Lemma first_mode_adm ps ps' : adm ps ps' -> forall m, first_mode m ps = first_mode m ps'.
Proof.
  induction 1 as [l|l1 x y l2 Hs|l1 l2 l3 _ IH1 _ IH2]; intros m.
  - reflexivity.
  - destruct x as [mx bx|ex], y as [my by_|ey]; cbn [swap_ok] in Hs; try contradiction. destruct Hs as [Hne _].
    induction l1 as [|[m' b'|e'] l1 IHl]; cbn [app first_mode].
    + destruct (N.eqb_spec mx m), (N.eqb_spec my m); subst; try reflexivity. now contradiction Hne.
    + destruct (N.eqb m' m); [reflexivity|exact IHl].
    + exact IHl.
  - now rewrite IH1.
Qed.

(* the configuration, extensionally: mode and pattern list of every method *)
Lemma modes_after ps a : asm_pushes new_assembler ps = inl a -> forall m, mode_of m (a_table a) = first_mode m ps.
Proof.
  assert (G : forall ps a0 seen a, modes_agree a0 seen -> asm_pushes a0 ps = inl a -> modes_agree a (seen ++ ps)).
  { clear. induction ps as [|[m b|e] ps IH]; intros a0 seen a Hag H; cbn in H.
    - injection H as <-. now rewrite app_nil_r.
    - pose proof (asm_push_offence info a0 seen m b Hag) as Hp.
      destruct (Assemble.asm_push info a0 m b) as [a1|]; [|discriminate]. destruct Hp as [_ Hag1].
      specialize (IH a1 _ a Hag1 H). now rewrite <- app_assoc in IH.
    - discriminate. }
  intros H. exact (G ps new_assembler [] a (modes_agree_new) H).
Qed.

Theorem layout_independent ps ps' a :
  adm ps ps' -> asm_pushes new_assembler ps = inl a ->
  exists a', asm_pushes new_assembler ps' = inl a' /\
    forall m, mode_of m (a_table a') = mode_of m (a_table a) /\ pats_of m (a_table a') = pats_of m (a_table a).
Proof.
  intros Hadm Ha.
  assert (Hacc : first_offence [] ps' = None).
  { apply (accepted_adm ps ps' Hadm []). apply accepted_iff. now exists a. }
  apply accepted_iff in Hacc as [a' Ha']. exists a'. split; [exact Ha'|]. intros m. split.
  - rewrite (modes_after ps' a' Ha'), (modes_after ps a Ha). symmetry. now apply first_mode_adm.
  - rewrite (assemble_spec_pats ps' _ _ m Ha'), (assemble_spec_pats ps _ _ m Ha). cbn.
    symmetry. now apply spec_pats_adm.
Qed.

Theorem layout_rejected_together ps ps' :
  adm ps ps' ->
  ((exists e, asm_pushes new_assembler ps = inr e) <-> (exists e, asm_pushes new_assembler ps' = inr e)).
Proof.
  intros Hadm.
  assert (G : forall l, (exists e, asm_pushes new_assembler l = inr e) <-> first_offence [] l <> None).
  { intros l. pose proof (asm_pushes_offence info l new_assembler [] modes_agree_new) as H.
    destruct (asm_pushes new_assembler l) as [x|e]; split.
    - intros [e He]. discriminate.
    - intros Hn. congruence.
    - intros _. congruence.
    - intros _. now exists e. }
  rewrite !G. pose proof (accepted_adm ps ps' Hadm []) as H. tauto.
Qed.

End Layout.

(* ---- lookup is determined by mode_of and pats_of ---- *)
Lemma lookup_ext tb1 tb2 m :
  mode_of m tb1 = mode_of m tb2 -> pats_of m tb1 = pats_of m tb2 ->
  lookup m tb1 = lookup m tb2.
Proof.
  unfold mode_of, pats_of. destruct (lookup m tb1) as [[md1 p1]|], (lookup m tb2) as [[md2 p2]|]; cbn; congruence.
Qed.

(* ---- routing: a call's outcome and effect on the shared state do not depend
   on the instance it is made through ---- *)
Theorem routing_independent w x i j m a it jt :
  live_inst w i = Some it -> live_inst w j = Some jt ->
  snd (step w {| ev_ctx := x; ev_base := BCall i m a |}) = snd (step w {| ev_ctx := x; ev_base := BCall j m a |}) /\
  w_state (fst (step w {| ev_ctx := x; ev_base := BCall i m a |})) =
  w_state (fst (step w {| ev_ctx := x; ev_base := BCall j m a |})).
Proof.
  intros Hi Hj. unfold step, step_core. cbn [ev_base ev_ctx releasing]. rewrite Hi, Hj.
  destruct (matcher_panics (w_cfg w) (w_state w) m a) as [sp|]; [split; reflexivity|].
  destruct (debug_panics (w_cfg w) (w_state w) m a) as [sd|]; [split; reflexivity|].
  destruct (call hinfo N haccepts hdebug (w_cfg w) (w_state w) m a) as [s' act].
  destruct act; cbn; split; reflexivity.
Qed.

(* Unimock.Proofs.C02 -- the k-th match of a pattern yields the response its
   quantifier chain assigns. *)
From Unimock Require Import Model.Eval Spec.Chain Proofs.Core Proofs.C01.
Open Scope N_scope.

(* ================= (b) the lookup ================= *)

Definition sorted (keys : list N) : Prop :=
  forall i j, (i <= j)%nat -> (j < length keys)%nat -> nth i keys 0 <= nth j keys 0.

(* the loop of core::slice::binary_search_by maintains: keys[base] <= t and
   everything at or beyond base+size is > t *)
Lemma bs_loop_spec fuel keys t : sorted keys ->
  forall base size, (size <= fuel)%nat -> (1 <= size)%nat -> (base + size <= length keys)%nat ->
  nth base keys 0 <= t ->
  (forall j, (base + size <= j)%nat -> (j < length keys)%nat -> t < nth j keys 0) ->
  let r := bs_loop fuel keys t base size in
  (r < length keys)%nat /\ nth r keys 0 <= t /\
  (forall j, (r < j)%nat -> (j < length keys)%nat -> t < nth j keys 0).
Proof.
  intros Hs. induction fuel as [|fuel IH]; intros base size Hf H1 Hb Hlo Hhi; [lia|].
  cbn [bs_loop]. destruct (Nat.leb_spec size 1) as [Hle|Hgt].
  - assert (size = 1)%nat by lia. subst size. split; [lia|]. split; [assumption|].
    intros j Hj Hjl. apply Hhi; lia.
  - pose proof (Nat.div2_odd size) as Hodd.
    assert (Hhalf : (1 <= Nat.div2 size /\ Nat.div2 size < size /\ 2 * Nat.div2 size <= size)%nat).
    { destruct (Nat.odd size); cbn in Hodd; lia. }
    set (half := Nat.div2 size) in *.
    destruct (N.ltb_spec t (nth (base + half) keys 0)) as [Hlt|Hge].
    + apply IH; try lia; try assumption.
      intros j Hj Hjl. destruct (Nat.lt_ge_cases j (base + size)) as [Hin|Hout].
      * assert (base + half <= j)%nat by lia.
        eapply N.lt_le_trans; [exact Hlt|]. apply Hs; lia.
      * apply Hhi; lia.
    + apply IH; try lia; try assumption.
      intros j Hj Hjl. apply Hhi; lia.
Qed.

(* find_responder_by_call_index = the greatest index whose start is <= the call index,
   duplicates (zero counts) included *)
Theorem find_responder_greatest keys t :
  sorted keys -> keys <> [] -> nth 0 keys 0 <= t ->
  exists r, find_responder_idx keys t = Some r /\
    (r < length keys)%nat /\ nth r keys 0 <= t /\
    (forall j, (r < j)%nat -> (j < length keys)%nat -> t < nth j keys 0).
Proof.
  intros Hs Hne H0. unfold find_responder_idx, binary_search.
  destruct keys as [|k0 keys']; [contradiction|]. set (keys := k0 :: keys') in *.
  pose proof (bs_loop_spec (length keys) keys t Hs 0 (length keys)) as H.
  assert (Hlen : (1 <= length keys)%nat) by (cbn; lia).
  specialize (H (Nat.le_refl _) Hlen (Nat.le_refl _) H0).
  assert (Hhi : forall j, (0 + length keys <= j)%nat -> (j < length keys)%nat -> t < nth j keys 0) by (intros; lia).
  specialize (H Hhi). cbn zeta in H. set (b := bs_loop (length keys) keys t 0 (length keys)) in *.
  destruct H as (Hb & Hle & Hgt).
  destruct (N.eqb_spec (nth b keys 0) t) as [Heq|Hneq].
  - exists b. repeat split; try assumption.
  - destruct (N.ltb_spec (nth b keys 0) t) as [Hlt|Hge]; [|lia].
    exists b. replace (b + 1 - 1)%nat with b by lia. repeat split; try assumption.
Qed.

(* such an index is unique *)
Lemma greatest_unique keys t r1 r2 :
  (r1 < length keys)%nat -> nth r1 keys 0 <= t -> (forall j, (r1 < j)%nat -> (j < length keys)%nat -> t < nth j keys 0) ->
  (r2 < length keys)%nat -> nth r2 keys 0 <= t -> (forall j, (r2 < j)%nat -> (j < length keys)%nat -> t < nth j keys 0) ->
  r1 = r2.
Proof.
  intros L1 A1 B1 L2 A2 B2.
  destruct (Nat.lt_trichotomy r1 r2) as [H|[H|H]]; [|assumption|].
  - specialize (B1 r2 H L2). lia.
  - specialize (B2 r1 H L1). lia.
Qed.

(* ---------- start indexes are prefix sums ---------- *)

Lemma starts_length counts from : length (starts counts from) = length counts.
Proof. revert from. induction counts as [|n rest IH]; intros from; cbn; [reflexivity|now rewrite IH]. Qed.

Lemma starts_ge counts : forall from j, (j < length counts)%nat -> from <= nth j (starts counts from) 0.
Proof.
  induction counts as [|n rest IH]; intros from j Hj; cbn in *; [lia|].
  destruct j as [|j]; [lia|]. specialize (IH (from + n) j). assert (j < length rest)%nat by lia. specialize (IH H). lia.
Qed.

Lemma starts_sorted counts from : sorted (starts counts from).
Proof.
  revert from. induction counts as [|n rest IH]; intros from i j Hij Hj; cbn in *; [lia|].
  destruct i as [|i], j as [|j]; try lia.
  - rewrite starts_length in Hj. pose proof (starts_ge rest (from + n) j). assert (j < length rest)%nat by lia. specialize (H H0). lia.
  - apply IH; lia.
Qed.

Lemma seg_of_cons2 n n2 rest k i :
  seg_of (n :: n2 :: rest) k i = if k <=? n then i else seg_of (n2 :: rest) (k - n) (S i).
Proof. reflexivity. Qed.

Lemma starts_cons n rest from : starts (n :: rest) from = from :: starts rest (from + n).
Proof. reflexivity. Qed.

(* the spec function computes exactly that greatest index *)
Lemma seg_of_greatest counts : forall from k i,
  counts <> [] -> from < k ->
  let r := (seg_of counts (k - from) i - i)%nat in
  (i <= seg_of counts (k - from) i)%nat /\
  (r < length counts)%nat /\ nth r (starts counts from) 0 <= k - 1 /\
  (forall j, (r < j)%nat -> (j < length counts)%nat -> k - 1 < nth j (starts counts from) 0).
Proof.
  induction counts as [|n rest IH]; intros from k i Hne Hk; [contradiction|].
  destruct rest as [|n2 rest'].
  - cbn. rewrite Nat.sub_diag. repeat split; try lia; intros; lia.
  - rewrite seg_of_cons2. destruct (N.leb_spec (k - from) n) as [Hle|Hgt].
    + rewrite Nat.sub_diag, starts_cons. cbn [nth length]. repeat split; try lia.
      intros j Hj Hj2. destruct j as [|j]; [lia|]. cbn [nth].
      pose proof (starts_ge (n2 :: rest') (from + n) j) as H. cbn [length] in *.
      assert (H0 : (j < S (length rest'))%nat) by lia.
      specialize (H H0). clear IH. lia.
    + assert (Hne2 : n2 :: rest' <> []) by discriminate.
      assert (Hk2 : from + n < k) by lia.
      specialize (IH (from + n) k (S i) Hne2 Hk2). cbn zeta in IH.
      replace (k - (from + n)) with (k - from - n) in IH by lia.
      set (s := seg_of (n2 :: rest') (k - from - n) (S i)) in *.
      destruct IH as (Hi & Hr & Hle & Hgt2).
      replace (s - i)%nat with (S (s - S i)) by lia. rewrite starts_cons. cbn [nth].
      cbn [length] in *.
      split; [lia|]. split; [lia|]. split; [exact Hle|].
      intros j Hj Hj2. destruct j as [|j]; [lia|]. cbn [nth]. apply Hgt2; lia.
Qed.

(* (b) the responder chosen for the k-th match (call index k-1) is the chain's segment *)
Theorem find_responder_is_segment counts k :
  counts <> [] -> 1 <= k ->
  find_responder_idx (starts counts 0) (k - 1) = Some (seg_of counts k 0).
Proof.
  intros Hne Hk.
  assert (Hne' : starts counts 0 <> []) by (destruct counts; [contradiction|discriminate]).
  assert (H0 : nth 0 (starts counts 0) 0 <= k - 1) by (destruct counts; [contradiction|cbn; lia]).
  destruct (find_responder_greatest (starts counts 0) (k - 1) (starts_sorted counts 0) Hne' H0)
    as (r & Hr & Hlen & Hle & Hgt).
  rewrite Hr. f_equal.
  assert (Hlt : 0 < k) by lia.
  pose proof (seg_of_greatest counts 0 k 0 Hne Hlt) as H. cbn zeta in H.
  rewrite N.sub_0_r, Nat.sub_0_r in H. destruct H as (_ & Hr2 & Hle2 & Hgt2).
  rewrite starts_length in *.
  eapply greatest_unique with (keys := starts counts 0) (t := k - 1); rewrite ?starts_length; eauto.
Qed.

(* the spec function in the words of the property: the first i with n1+...+ni >= k, else the last *)
Fixpoint prefix_sum (counts : list N) (i : nat) : N :=
  match counts, i with
  | n :: rest, S i' => n + prefix_sum rest i'
  | n :: _, O => n
  | [], _ => 0
  end.

Lemma seg_of_first counts : forall k i,
  counts <> [] ->
  let r := (seg_of counts k i - i)%nat in
  (i <= seg_of counts k i)%nat /\ (r < length counts)%nat /\
  (forall j, (j < r)%nat -> prefix_sum counts j < k) /\
  (k <= prefix_sum counts r \/ r = (length counts - 1)%nat).
Proof.
  induction counts as [|n rest IH]; intros k i Hne; [contradiction|].
  destruct rest as [|n2 rest'].
  - cbn. rewrite Nat.sub_diag. split; [lia|]. split; [lia|]. split; [intros j Hj; lia|now right].
  - rewrite seg_of_cons2. destruct (N.leb_spec k n) as [Hle|Hgt].
    + rewrite Nat.sub_diag. cbn [length prefix_sum]. split; [lia|]. split; [lia|]. split; [intros j Hj; lia|now left].
    + assert (Hne2 : n2 :: rest' <> []) by discriminate.
      specialize (IH (k - n) (S i) Hne2). cbn zeta in IH.
      set (s := seg_of (n2 :: rest') (k - n) (S i)) in *.
      destruct IH as (Hi & Hr & Hlt & Hlast).
      replace (s - i)%nat with (S (s - S i)) by lia.
      change (length (n :: n2 :: rest')) with (S (length (n2 :: rest'))).
      change (prefix_sum (n :: n2 :: rest') (S (s - S i))) with (n + prefix_sum (n2 :: rest') (s - S i)).
      split; [lia|]. split; [lia|]. split.
      * intros j Hj. destruct j as [|j]; [cbn; lia|].
        change (prefix_sum (n :: n2 :: rest') (S j)) with (n + prefix_sum (n2 :: rest') j).
        assert (Hj' : (j < s - S i)%nat) by lia. specialize (Hlt j Hj'). lia.
      * destruct Hlast as [Hl|Hl].
        -- left. change (prefix_sum (n :: n2 :: rest') (S (s - S i))) with (n + prefix_sum (n2 :: rest') (s - S i)). lia.
        -- right. cbn [length] in *. lia.
Qed.

(* ================= (c), (d): what respond does with counter value k-1 ================= *)

Lemma nth_opt_map_snd {X Y} (l : list (X * Y)) : forall j r,
  nth_opt (map snd l) j = Some r -> exists key, nth_opt l j = Some (key, r).
Proof.
  induction l as [|[k0 r0] l IH]; intros [|j] r H; cbn in *; try discriminate.
  - injection H as ->. now exists k0.
  - now apply IH.
Qed.

Section Respond.
Variable A : Type.
Variable debug_args : A -> list (option string).
Notation respond := (respond A debug_args).

Definition resp_outcome (r : resp) : option outcome :=
  match r with
  | RReturn false v => Some (OutReturn (RVTag v))
  | RReturnDefault => Some (OutReturn RVDefault)
  | RAnswer f => Some (OutAnswer f)
  | RUnmock => Some OutUnmock
  | RDefaultImpl => Some OutDefaultImpl
  | _ => None
  end.

(* the k-th match (counter value k-1) of a pattern whose responders start at the
   prefix sums of [counts] is answered by responder [seg_of counts k] *)
Theorem respond_kth s m a i p counts k r :
  map fst (p_resps p) = starts counts 0 -> counts <> [] -> 1 <= k ->
  cnt s m i = k - 1 ->
  nth_opt (map snd (p_resps p)) (seg_of counts k 0) = Some r ->
  match r with
  | RReturn true v =>
      if taken s m i (seg_of counts k 0)
      then snd (respond s m a i p) = OutErr (ECannotReturnValueMoreThanOnce (call_of A debug_args m a) (debug_pattern m i p))
      else snd (respond s m a i p) = OutReturn (RVTag v) /\
           taken (fst (respond s m a i p)) m i (seg_of counts k 0) = true
  | RPanic msg => snd (respond s m a i p) = OutErr (EExplicitPanic (call_of A debug_args m a) (debug_pattern m i p) msg)
  | _ => Some (snd (respond s m a i p)) = resp_outcome r
  end.
Proof.
  intros Hkeys Hne Hk Hc Hr. unfold Eval.respond. rewrite Hkeys, Hc, (find_responder_is_segment counts k Hne Hk).
  set (j := seg_of counts k 0) in *.
  destruct (nth_opt_map_snd _ _ _ Hr) as [key Hn]. rewrite Hn.
  destruct r as [[|] v| |f|msg| |]; cbn; try reflexivity.
  destruct (taken s m i j) eqn:Ht; cbn; [reflexivity|]. split; [reflexivity|apply take_same].
Qed.

(* a pattern without responders: NoOutputAvailable *)
Theorem respond_empty s m a i p :
  p_resps p = [] ->
  snd (respond s m a i p) = OutErr (ENoOutputAvailable (call_of A debug_args m a) (debug_pattern m i p)).
Proof. intros H. unfold Eval.respond. now rewrite H. Qed.

End Respond.

(* ================= (a) the builder produces prefix sums ================= *)

(* invariant of every builder reachable from new_builder:
   - responder keys = the start indexes recorded when each responder was pushed
   - current_response_index = minimum of the expectation *)
Definition resp_of_rspec (once : bool) (r : rspec) : resp :=
  match r with
  | SRet v => RReturn once v
  | SRetDefault => RReturnDefault
  | SAns f | SAnsArc f => RAnswer f
  | SPanic k => RPanic k
  | SUnmock => RUnmock
  | SDefault => RDefaultImpl
  end.

(* a value is stored single-use exactly when it went through
   DefineResponse::returns followed by once() or by no quantifier *)
Definition seg_once (in_dr : bool) (s : seg) : bool :=
  match sg_r s, sg_q s with
  | SRet _, (QOnce | QOpen) => in_dr
  | _, _ => false
  end.

Fixpoint chain_resps (in_dr : bool) (ch : list seg) : list resp :=
  match ch with
  | [] => []
  | s :: rest => resp_of_rspec (seg_once in_dr s) (sg_r s) :: chain_resps false rest
  end.

(* the builder after one segment, as a function *)
Definition q_ex (q : quant) : exactness := match q with QAtLeast _ => AtLeast | _ => Exact end.

Definition seg_apply (in_dr : bool) (b : builder) (s : seg) : builder :=
  quantify (push_responder b (resp_of_rspec (seg_once in_dr s) (sg_r s))) (q_count (sg_q s)) (q_ex (sg_q s)).

(* ... and after the last segment including what deconstruct adds *)
Definition last_apply (in_dr : bool) (b : builder) (s : seg) : builder :=
  let b1 := push_responder b (resp_of_rspec (seg_once in_dr s) (sg_r s)) in
  match sg_q s with
  | QOpen =>
    match sg_r s, in_dr with
    | SRet _, true => quantify b1 1 Exact
    | _, _ => match b_mode b with InOrder => quantify b1 1 Exact | InAnyOrder => b1 end
    end
  | q => quantify b1 (q_count q) (q_ex q)
  end.

Fixpoint chain_apply (in_dr : bool) (b : builder) (ch : list seg) : builder :=
  match ch with
  | [] => b
  | [s] => last_apply in_dr b s
  | s :: rest => chain_apply false (then_ (seg_apply in_dr b s)) rest
  end.

(* side conditions of the type-state discipline for a chain *)
Definition seg_ok (md : mode) (clone_ok in_dr : bool) (s : seg) : bool :=
  match sg_q s with
  | QAtLeast _ => match md with InAnyOrder => true | InOrder => false end
  | _ => true
  end &&
  match sg_r s with
  | SRet _ => clone_ok || (in_dr && match sg_q s with QOnce | QOpen => true | _ => false end)
  | _ => true
  end.

Fixpoint chain_ok (md : mode) (clone_ok in_dr : bool) (ch : list seg) : bool :=
  match ch with
  | [] => false
  | [s] => seg_ok md clone_ok in_dr s
  | s :: rest => q_exact (sg_q s) && seg_ok md clone_ok in_dr s && chain_ok md clone_ok false rest
  end.

Definition start_of (in_dr : bool) : tstate := if in_dr then TS_DR else TS_DMR.

Arguments quantify : simpl never.
Arguments push_responder : simpl never.
Arguments then_ : simpl never.

Lemma push_mode b r : b_mode (push_responder b r) = b_mode b. Proof. reflexivity. Qed.
Lemma quantify_mode b n e : b_mode (quantify b n e) = b_mode b. Proof. reflexivity. Qed.
Lemma then_mode b : b_mode (then_ b) = b_mode b. Proof. reflexivity. Qed.

(* one exactly-quantified segment followed by then() *)
Lemma bsteps_seg_then bc clone_ok in_dr b s rest_ops :
  bc_mutex_api bc = true ->
  q_exact (sg_q s) = true -> seg_ok (b_mode b) clone_ok in_dr s = true ->
  bsteps bc clone_ok (start_of in_dr, b) ((rspec_op (sg_r s) :: quant_ops (sg_q s)) ++ OThen :: rest_ops)%list =
  bsteps bc clone_ok (TS_DMR, then_ (seg_apply in_dr b s)) rest_ops.
Proof.
  intros Hmx Hex Hok. destruct s as [r q]. unfold seg_ok, seg_apply, seg_once in *. cbn [sg_r sg_q] in *.
  destruct q as [|n|n|]; try discriminate; clear Hex;
  destruct r as [v| |f|f|k| |]; destruct in_dr; cbn [andb orb] in Hok;
  rewrite ?orb_false_r, ?orb_true_r in Hok; try discriminate; try subst clone_ok;
  simpl; unfold into_return_once, into_return, push_returner_result; rewrite ?Hmx; try reflexivity.
Qed.

(* the last segment and the implicit finaliser of `impl Clause` *)
Lemma build_last bc clone_ok in_dr b s :
  bc_mutex_api bc = true ->
  seg_ok (b_mode b) clone_ok in_dr s = true ->
  match bsteps bc clone_ok (start_of in_dr, b) (rspec_op (sg_r s) :: quant_ops (sg_q s)) with
  | Some st => finalize_clause bc st
  | None => None
  end = Some (last_apply in_dr b s).
Proof.
  intros Hmx Hok. destruct s as [r q]. unfold seg_ok, last_apply, seg_once in *. cbn [sg_r sg_q] in *.
  destruct q as [|n|n|]; destruct r as [v| |f|f|k| |]; destruct in_dr; destruct (b_mode b) eqn:Hmd;
  cbn [andb orb] in Hok; rewrite ?orb_false_r, ?orb_true_r in Hok; try discriminate; try subst clone_ok;
  simpl; unfold into_return_once, into_return, push_returner_result;
  rewrite ?Hmx, ?push_mode, ?quantify_mode, ?Hmd; simpl; rewrite ?push_mode, ?quantify_mode, ?Hmd; try reflexivity.
Qed.

Lemma chain_ok_cons md c d s s2 rest :
  chain_ok md c d (s :: s2 :: rest) = q_exact (sg_q s) && seg_ok md c d s && chain_ok md c false (s2 :: rest).
Proof. reflexivity. Qed.

(* (a) every well-typed chain builds exactly [chain_apply] *)
Theorem build_chain bc clone_ok ch : forall in_dr b,
  bc_mutex_api bc = true ->
  chain_ok (b_mode b) clone_ok in_dr ch = true ->
  match bsteps bc clone_ok (start_of in_dr, b) (chain_ops ch) with
  | Some st => finalize_clause bc st
  | None => None
  end = Some (chain_apply in_dr b ch).
Proof.
  induction ch as [|s rest IH]; intros in_dr b Hmx Hok; [discriminate|].
  destruct rest as [|s2 rest'].
  - cbn [chain_ops chain_apply]. now apply build_last.
  - rewrite chain_ok_cons in Hok. apply andb_true_iff in Hok as [Hok Hrest]. apply andb_true_iff in Hok as [Hex Hseg].
    change (chain_ops (s :: s2 :: rest')) with (((rspec_op (sg_r s) :: quant_ops (sg_q s)) ++ OThen :: chain_ops (s2 :: rest'))%list).
    rewrite (bsteps_seg_then bc clone_ok in_dr b s _ Hmx Hex Hseg).
    change (chain_apply in_dr b (s :: s2 :: rest')) with (chain_apply false (then_ (seg_apply in_dr b s)) (s2 :: rest')).
    apply (IH false); [assumption|]. now rewrite then_mode.
Qed.

(* ---------- consequences: start indexes and the accumulated expectation ---------- *)

Definition expect_of (e : expectation) : expect :=
  match e_ex e with
  | Exact => ExactlyN (e_min e)
  | AtLeast => AtLeastN (e_min e)
  | AtLeastPlusOne => AtLeastN (e_min e + 1)
  end.

Lemma seg_apply_resps d b s :
  b_resps (seg_apply d b s) = (b_resps b ++ [(b_idx b, resp_of_rspec (seg_once d s) (sg_r s))])%list.
Proof. reflexivity. Qed.
Lemma seg_apply_idx d b s : b_idx (seg_apply d b s) = b_idx b + q_count (sg_q s).
Proof. reflexivity. Qed.
Lemma push_exp b r : b_exp (push_responder b r) = b_exp b. Proof. reflexivity. Qed.
Lemma then_resps b : b_resps (then_ b) = b_resps b. Proof. reflexivity. Qed.
Lemma then_idx b : b_idx (then_ b) = b_idx b. Proof. reflexivity. Qed.

Lemma last_apply_resps d b s :
  b_resps (last_apply d b s) = (b_resps b ++ [(b_idx b, resp_of_rspec (seg_once d s) (sg_r s))])%list.
Proof.
  unfold last_apply. destruct (sg_q s); try reflexivity.
  destruct (sg_r s), d, (b_mode b); reflexivity.
Qed.

Lemma chain_apply_cons2 d b s s2 rest :
  chain_apply d b (s :: s2 :: rest) = chain_apply false (then_ (seg_apply d b s)) (s2 :: rest).
Proof. reflexivity. Qed.

(* responders are the chain's responses, keyed by the prefix sums of the counts *)
Theorem chain_apply_resps ch : forall d b,
  b_resps (chain_apply d b ch) =
  (b_resps b ++ combine (starts (counts_of ch) (b_idx b)) (chain_resps d ch))%list.
Proof.
  induction ch as [|s rest IH]; intros d b; [cbn; now rewrite app_nil_r|].
  destruct rest as [|s2 rest'].
  - cbn [chain_apply]. rewrite last_apply_resps. reflexivity.
  - rewrite chain_apply_cons2, IH, then_resps, then_idx, seg_apply_resps, seg_apply_idx, <- app_assoc. reflexivity.
Qed.

Lemma combine_fst {X Y} (l1 : list X) : forall (l2 : list Y), length l1 = length l2 -> map fst (combine l1 l2) = l1.
Proof. induction l1 as [|x l1 IH]; intros [|y l2] H; cbn in *; try discriminate; [reflexivity|]. f_equal. apply IH. lia. Qed.
Lemma combine_snd {X Y} (l1 : list X) : forall (l2 : list Y), length l1 = length l2 -> map snd (combine l1 l2) = l2.
Proof. induction l1 as [|x l1 IH]; intros [|y l2] H; cbn in *; try discriminate; [reflexivity|]. f_equal. apply IH. lia. Qed.

Lemma chain_resps_length ch : forall d, length (chain_resps d ch) = length ch.
Proof. induction ch as [|s rest IH]; intros d; cbn; [reflexivity|now rewrite IH]. Qed.

Corollary chain_keys d md matcher dbg ch :
  map fst (b_resps (chain_apply d (new_builder md matcher dbg) ch)) = starts (counts_of ch) 0 /\
  map snd (b_resps (chain_apply d (new_builder md matcher dbg) ch)) = chain_resps d ch.
Proof.
  rewrite chain_apply_resps. cbn [b_resps new_builder b_idx app].
  assert (L : length (starts (counts_of ch) 0) = length (chain_resps d ch)).
  { rewrite starts_length, chain_resps_length. unfold counts_of. now rewrite map_length. }
  split; [now apply combine_fst|now apply combine_snd].
Qed.

(* the expectation: after at least one then() *)
Lemma expect_after_then ch : forall b,
  ch <> [] -> e_ex (b_exp b) = AtLeastPlusOne ->
  expect_of (b_exp (chain_apply false b ch)) =
  let total := e_min (b_exp b) + sum (counts_of ch) in
  match last_q ch with
  | QOnce | QN _ => ExactlyN total
  | QAtLeast _ => AtLeastN total
  | QOpen => match b_mode b with InOrder => ExactlyN (total + 1) | InAnyOrder => AtLeastN (total + 1) end
  end.
Proof.
  induction ch as [|s rest IH]; intros b Hne Hex; [contradiction|].
  destruct rest as [|s2 rest'].
  - cbn [chain_apply]. unfold last_q, counts_of. cbn [last_seg map sum]. unfold last_apply, expect_of.
    destruct s as [r q]. cbn [sg_r sg_q].
    destruct q as [|n|n|]; cbn; rewrite ?N.add_0_r; try reflexivity.
    destruct r; destruct (b_mode b); cbn; rewrite ?push_exp, ?Hex, ?N.add_0_r; reflexivity.
  - rewrite chain_apply_cons2, IH; [|discriminate|reflexivity].
    cbn zeta. unfold last_q. change (last_seg (s :: s2 :: rest')) with (last_seg (s2 :: rest')).
    rewrite then_mode. unfold seg_apply. rewrite quantify_mode, push_mode.
    change (e_min (b_exp (then_ (quantify (push_responder b (resp_of_rspec (seg_once false s) (sg_r s))) (q_count (sg_q s)) (q_ex (sg_q s))))))
      with (e_min (b_exp b) + q_count (sg_q s) + 0).
    unfold counts_of. cbn [map sum]. rewrite N.add_0_r, !N.add_assoc. reflexivity.
Qed.

(* the expectation a well-typed chain accumulates is the documented one *)
Theorem expectation_chain d md matcher dbg ch :
  ch <> [] ->
  expect_of (b_exp (chain_apply d (new_builder md matcher dbg) ch)) =
  expectation_of_chain (match md with InOrder => true | InAnyOrder => false end) d ch.
Proof.
  intros Hne. destruct ch as [|s rest]; [contradiction|]. destruct rest as [|s2 rest'].
  - cbn [chain_apply]. unfold expectation_of_chain, last_q, last_r, counts_of. cbn [last_seg map sum].
    unfold last_apply, expect_of. destruct s as [r q]. cbn [sg_r sg_q].
    destruct q as [|n|n|]; cbn; rewrite ?N.add_0_r; try reflexivity.
    destruct r, d, md; reflexivity.
  - rewrite chain_apply_cons2, expect_after_then; [|discriminate|reflexivity].
    cbn zeta. unfold expectation_of_chain, last_q, last_r.
    change (last_seg (s :: s2 :: rest')) with (last_seg (s2 :: rest')).
    rewrite then_mode. unfold seg_apply. rewrite quantify_mode, push_mode. cbn [b_mode new_builder].
    change (e_min (b_exp (then_ (quantify (push_responder (new_builder md matcher dbg) (resp_of_rspec (seg_once d s) (sg_r s))) (q_count (sg_q s)) (q_ex (sg_q s))))))
      with (0 + q_count (sg_q s) + 0).
    unfold counts_of. cbn [map sum]. rewrite N.add_0_r, N.add_0_l.
    destruct (match last_seg (s2 :: rest') with Some s0 => sg_q s0 | None => QOpen end); try reflexivity.
    destruct md; reflexivity.
Qed.

(* ================= (c) counting over histories ================= *)

Section Counting.
Variable info : N -> minfo.
Variable A : Type.
Variable accepts : N -> A -> bool.
Variable debug_args : A -> list (option string).
Notation eval := (eval info A accepts debug_args).
Notation eval_raw := (eval_raw info A accepts debug_args).

(* which pattern (of method m) the call selects, i.e. whose next_responder() is called *)
Definition selected (cfg : config) (s : state) (m : N) (a : A) : option nat :=
  match lookup m (c_table cfg) with
  | None => None
  | Some mk =>
    match match_call_pattern A accepts debug_args cfg s m mk a with
    | (_, Selected i _) => Some i
    | _ => None
    end
  end.

Lemma eval_cnt cfg s m a :
  cnt (fst (eval cfg s m a)) =
  match selected cfg s m a with Some i => bump (cnt s) m i | None => cnt s end.
Proof.
  unfold Eval.eval, Eval.eval_raw, selected.
  destruct (lookup m (c_table cfg)) as [mk|].
  - assert (Hm : cnt (fst (match_call_pattern A accepts debug_args cfg s m mk a)) = cnt s).
    { unfold match_call_pattern. destruct (m_mode mk).
      - destruct (scan A accepts a (m_pats mk) 0) as [[[i p] [b|]]|]; reflexivity.
      - destruct (find_range _ _ _) as [[i p]|]; [|reflexivity].
        destruct (match_inputs A accepts p a) as [[|]|]; reflexivity. }
    destruct (match_call_pattern A accepts debug_args cfg s m mk a) as [s1 [i p| |e]]; cbn [fst] in Hm.
    + pose proof (respond_cnt A debug_args s1 m a i p) as (Hc & _ & _).
      destruct (Eval.respond A debug_args s1 m a i p) as [s2 o]. cbn [fst] in Hc.
      destruct o; cbn [fst]; try (change (cnt (push_err s2 e)) with (cnt s2)); rewrite Hc, Hm; reflexivity.
    + destruct (c_fallback cfg); cbn; assumption.
    + cbn. assumption.
  - destruct (mi_has_default (info m)); [reflexivity|].
    destruct (mi_partial_by_default (info m)); [reflexivity|].
    destruct (c_fallback cfg); reflexivity.
Qed.

(* the counter value the selected pattern's chain lookup is given *)
Lemma eval_reads_counter cfg s m a mk i p s1 :
  lookup m (c_table cfg) = Some mk ->
  match_call_pattern A accepts debug_args cfg s m mk a = (s1, Selected i p) ->
  eval_raw cfg s m a = Eval.respond A debug_args s1 m a i p /\ cnt s1 m i = cnt s m i.
Proof.
  intros Hl Hm. unfold Eval.eval_raw. rewrite Hl, Hm. split; [reflexivity|].
  unfold match_call_pattern in Hm. destruct (m_mode mk).
  - destruct (scan A accepts a (m_pats mk) 0) as [[[i' p'] [b|]]|]; inversion Hm; reflexivity.
  - destruct (find_range _ _ _) as [[i' p']|]; [|inversion Hm].
    destruct (match_inputs A accepts p' a) as [[|]|]; inversion Hm; reflexivity.
Qed.

Definition hist := list (N * A).

Fixpoint run_hist (cfg : config) (s : state) (h : hist) : state :=
  match h with
  | [] => s
  | (m, a) :: h' => run_hist cfg (fst (eval cfg s m a)) h'
  end.

(* number of calls of the history that selected pattern (m, i) *)
Fixpoint matches_of (cfg : config) (s : state) (h : hist) (m : N) (i : nat) : N :=
  match h with
  | [] => 0
  | (m', a) :: h' =>
    (match selected cfg s m' a with
     | Some i' => if (N.eqb m' m && Nat.eqb i' i)%bool then 1 else 0
     | None => 0
     end) + matches_of cfg (fst (eval cfg s m' a)) h' m i
  end.

(* the counter of a pattern IS the number of times it has been matched so far:
   the k-th match therefore reads k-1 *)
Theorem counter_counts_matches cfg h : forall s m i,
  cnt (run_hist cfg s h) m i = cnt s m i + matches_of cfg s h m i.
Proof.
  induction h as [|[m' a] h IH]; intros s m i; cbn [run_hist matches_of]; [lia|].
  rewrite IH, eval_cnt. destruct (selected cfg s m' a) as [i'|]; [|lia].
  unfold bump. destruct (N.eqb m' m && Nat.eqb i' i)%bool; lia.
Qed.

End Counting.

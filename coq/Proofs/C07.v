(* Unimock.Proofs.C07 -- calls without an applicable pattern. *)
From Unimock Require Import Model.Eval Spec.FirstMatch Spec.Fallthrough Proofs.Core Proofs.C01.
Open Scope N_scope.

Section C07.
Variable info : N -> minfo.
Variable A : Type.
Variable accepts : N -> A -> bool.
Variable debug_args : A -> list (option string).

Notation eval_raw := (eval_raw info A accepts debug_args).
Notation eval := (eval info A accepts debug_args).
Notation call := (call info A accepts debug_args).
Notation first_match := (first_match A accepts).
Notation call_of := (call_of A debug_args).

(* what a fate looks like at the level of the generated method body *)
Definition fate_result (s : state) (m : N) (a : A) (f : fate) : state * action :=
  match f with
  | FDefaultBody => (s, ActDefault)
  | FReal => (s, ActReal)
  | FPanicNoImpl =>
      (push_err s (ENoMockImplementation (call_of m a)), ActPanic (ENoMockImplementation (call_of m a)))
  | FPanicNoMatch =>
      (push_err s (ENoMatchingCallPatterns (call_of m a)), ActPanic (ENoMatchingCallPatterns (call_of m a)))
  | FPanicCannotUnmock => (push_err s (ECannotUnmock m), ActPanic (ECannotUnmock m))
  end.

Theorem unmentioned_call cfg s m a :
  lookup m (c_table cfg) = None ->
  call cfg s m a = fate_result s m a (unmentioned_fate (info m) (c_fallback cfg)).
Proof.
  intros Hl. unfold Eval.call, Eval.eval, Eval.eval_raw, unmentioned_fate, real_or_panic. rewrite Hl.
  destruct (mi_has_default (info m)) eqn:Hd.
  - cbn. now rewrite Hd.
  - destruct (mi_partial_by_default (info m)).
    + cbn. destruct (mi_has_unmock_arm (info m)); reflexivity.
    + destruct (c_fallback cfg); cbn; [reflexivity|]. destruct (mi_has_unmock_arm (info m)); reflexivity.
Qed.

Theorem unmatched_call cfg s m a mk :
  lookup m (c_table cfg) = Some mk ->
  m_mode mk = InAnyOrder ->
  forallb has_matcher (m_pats mk) = true ->
  first_match a (m_pats mk) 0 = None ->
  call cfg s m a = fate_result s m a (unmatched_fate (info m) (c_fallback cfg)).
Proof.
  intros Hl Hmode Hm Hf.
  destruct (no_match_outcome info A accepts debug_args cfg s m a mk Hl Hmode Hm Hf) as [Hev _].
  unfold Eval.call, Eval.eval. rewrite Hev. unfold unmatched_fate, real_or_panic.
  destruct (c_fallback cfg); cbn; [reflexivity|]. destruct (mi_has_unmock_arm (info m)); reflexivity.
Qed.

(* no fate touches a counter, the ordered index or a single-use slot; the error
   list grows by exactly the panic's error; and no fate produces a value *)
Definition quiet (s s' : state) : Prop :=
  cnt s' = cnt s /\ next_ord s' = next_ord s /\ taken s' = taken s.

Lemma fate_quiet s m a f : quiet s (fst (fate_result s m a f)).
Proof. destruct f; cbn; repeat split. Qed.

Lemma fate_no_value s m a f : forall v g,
  snd (fate_result s m a f) <> ActReturn v /\ snd (fate_result s m a f) <> ActAnswer g.
Proof. intros v g. destruct f; cbn; split; discriminate. Qed.

Lemma fate_errs s m a f :
  errs (fst (fate_result s m a f)) =
  match snd (fate_result s m a f) with ActPanic e => (errs s ++ [e])%list | _ => errs s end.
Proof. destruct f; reflexivity. Qed.

(* ---- over histories: fall-through calls are invisible to the counters ---- *)
Definition falls_through (cfg : config) (m : N) (a : A) : Prop :=
  lookup m (c_table cfg) = None \/
  exists mk, lookup m (c_table cfg) = Some mk /\ m_mode mk = InAnyOrder /\
             forallb has_matcher (m_pats mk) = true /\ first_match a (m_pats mk) 0 = None.

Theorem fallthrough_quiet cfg s m a :
  falls_through cfg m a -> quiet s (fst (call cfg s m a)) /\
  forall v g, snd (call cfg s m a) <> ActReturn v /\ snd (call cfg s m a) <> ActAnswer g.
Proof.
  intros [Hl|(mk & Hl & Hmode & Hm & Hf)].
  - rewrite (unmentioned_call cfg s m a Hl). split; [apply fate_quiet|apply fate_no_value].
  - rewrite (unmatched_call cfg s m a mk Hl Hmode Hm Hf). split; [apply fate_quiet|apply fate_no_value].
Qed.

Definition run_calls (cfg : config) (s : state) (h : list (N * A)) : state :=
  fold_left (fun s c => fst (call cfg s (fst c) (snd c))) h s.

Theorem fallthrough_history_quiet cfg h : forall s,
  Forall (fun c => falls_through cfg (fst c) (snd c)) h -> quiet s (run_calls cfg s h).
Proof.
  induction h as [|[m a] h IH]; intros s Hall; cbn.
  - repeat split.
  - inversion Hall as [|x l Hx Hl]; subst. cbn [fst snd] in *.
    destruct (fallthrough_quiet cfg s m a Hx) as [(Hc & Hn & Ht) _].
    destruct (IH (fst (call cfg s m a)) Hl) as (Hc' & Hn' & Ht').
    unfold quiet, run_calls in *. cbn [fst snd]. rewrite Hc', Hn', Ht'. now rewrite Hc, Hn, Ht.
Qed.

End C07.

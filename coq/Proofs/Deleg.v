(* Unimock.Proofs.Deleg -- default-method delegation (C15) and unmocking (C16):
   re-entrant user code evaluated on the shared state in program order. *)
From Unimock Require Import Model.Run Spec.Fallthrough Proofs.Core Proofs.C01 Proofs.C07.
Open Scope N_scope.

Notation hcall := (call hinfo N haccepts hdebug).

(* ---------- direct calls: what a caller making the calls [cs] itself observes ---------- *)
Fixpoint direct_calls (fuel : nat) (cfg : config) (armed : N) (st : state) (cs : list (N * N)) (acc : list string)
  : state * N * (list string + string) :=
  match cs with
  | [] => (st, armed, inl acc)
  | (mj, aj) :: cs' =>
    let '(s2, act2) := hcall cfg st mj aj in
    let '(s3, ar3, r) := eval_act fuel cfg armed s2 mj aj (aj + 1) act2 in
    match r with
    | inl t => direct_calls fuel cfg ar3 s3 cs' (acc ++ [t])%list
    | inr p => (s3, ar3, inr p)
    end
  end.

Definition is_d_provided (m : N) : bool :=
  (14 <=? m) && (m <=? 19).

Definition body_text (m a : N) (parts : list string) : string :=
  ("dflt" ++ dec m ++ "(" ++ dec a ++ ")[" ++ join "," parts ++ "]")%string.

(* C15: running the default body through the mock IS making its required calls directly,
   one after the other on the same shared state: same responses, same final state (counters,
   ordered index, single-use slots, recorded errors), and the body's own result on top *)
Theorem delegation_is_direct_calls fuel cfg armed s1 m a b :
  is_d_provided m = true -> armed <> 2 ->
  eval_act (S fuel) cfg armed s1 m a b ActDefault =
  let '(st, ar, r) := direct_calls fuel cfg armed s1 (body_calls a) [] in
  (st, ar, match r with inl parts => inl (body_text m a parts) | inr p => inr p end).
Proof.
  intros Hm Har. cbn [eval_act user_panic].
  destruct (N.eqb_spec armed 2) as [E|_]; [contradiction|].
  assert (H23 : ((m =? 2) || (m =? 3))%bool = false).
  { unfold is_d_provided in Hm. apply andb_true_iff in Hm as [H1 _]. apply N.leb_le in H1.
    destruct (N.eqb_spec m 2), (N.eqb_spec m 3); try reflexivity; lia. }
  rewrite H23.
  assert (Hbc : body_calls_of m a = body_calls a).
  { unfold body_calls_of. unfold is_d_provided in Hm. apply andb_true_iff in Hm as [_ H2]. apply N.leb_le in H2.
    destruct (N.eqb_spec m 24); [lia|reflexivity]. }
  rewrite Hbc.
  match goal with |- ?loop (body_calls a) s1 armed [] = _ =>
    assert (G : forall cs st ar acc, loop cs st ar acc =
              let '(st', ar', r) := direct_calls fuel cfg ar st cs acc in
              (st', ar', match r with inl parts => inl (body_text m a parts) | inr p => inr p end))
  end.
  { induction cs as [|[mj aj] cs IH]; intros st ar acc; cbn [direct_calls]; [reflexivity|].
    destruct (hcall cfg st mj aj) as [s2 act2].
    destruct (eval_act fuel cfg ar s2 mj aj (aj + 1) act2) as [[s3 ar3] [t|p]]; [apply IH|reflexivity]. }
  apply G.
Qed.

(* the body calls exactly the required methods, with the caller's argument carried along *)
Lemma body_calls_spec a : length (body_calls a) = N.to_nat (a mod 4) /\
  forall c, In c (body_calls a) -> (fst c = 10 \/ fst c = 11) /\ snd c < 8.
Proof.
  unfold body_calls. split; [now rewrite map_length, seq_length|].
  intros c Hin. apply in_map_iff in Hin as (j & <- & _). cbn. split.
  - destruct (Nat.even j); auto.
  - apply N.mod_lt. discriminate.
Qed.

(* a provided method nobody mentions falls through to its default body in any state (C07) *)
Lemma provided_unmentioned_runs_default cfg s m a :
  lookup m (c_table cfg) = None -> mi_has_default (hinfo m) = true -> hcall cfg s m a = (s, ActDefault).
Proof.
  intros Hl Hd. rewrite (unmentioned_call hinfo N haccepts hdebug cfg s m a Hl).
  unfold unmentioned_fate. now rewrite Hd.
Qed.

(* ---------- C16: unmocking ---------- *)

(* an Unmock continuation reaches the registered function iff the generated body has the arm;
   otherwise the call records and panics CannotUnmock naming the method *)
Theorem unmock_reaches_real_function s m :
  finish hinfo s m OutUnmock =
  if mi_has_unmock_arm (hinfo m) then (s, ActReal)
  else (push_err s (ECannotUnmock m), ActPanic (ECannotUnmock m)).
Proof. reflexivity. Qed.

Theorem cannot_unmock_names_method m :
  render_error hinfo (ECannotUnmock m) =
  (path_str (hinfo m) ++ " cannot be unmocked as there is no function available to call.")%string.
Proof. reflexivity. Qed.

(* the registered function is applied once, to the caller's arguments in the listed order:
   default form (self, a, b) for r0/u3, explicit form real_u2(b, a) for u2 *)
Theorem real_function_arguments fuel cfg armed s1 a b :
  armed <> 1 ->
  eval_act fuel cfg armed s1 10 a b ActReal = (s1, armed, inl ("real10(" ++ dec a ++ ")")%string) /\
  eval_act fuel cfg armed s1 12 a b ActReal = (s1, armed, inl ("real12(" ++ dec b ++ "," ++ dec a ++ ")")%string).
Proof.
  intros Har. destruct fuel; cbn [eval_act user_panic]; destruct (N.eqb_spec armed 1); try contradiction; split; reflexivity.
Qed.

(* re-entrancy: the real function of u3 calls back into the mock; when those calls are
   unmocked again the recursion runs to depth a on the same shared state, in program order *)
Fixpoint rec_text (n : nat) (base : string) : string :=
  match n with O => base | S n' => ("rec(" ++ rec_text n' base ++ ")")%string end.

Theorem recursion_through_the_mock cfg armed b :
  armed <> 1 ->
  (forall s k, hcall cfg s 13 k = (s, ActReal)) ->
  forall n fuel s, (n <= fuel)%nat ->
  eval_act fuel cfg armed s 13 (N.of_nat n) b ActReal = (s, armed, inl (rec_text n ("base(" ++ dec b ++ ")")%string)).
Proof.
  intros Har Hreal. induction n as [|n IH]; intros fuel s Hle.
  - destruct fuel; cbn [eval_act user_panic]; destruct (N.eqb_spec armed 1); try contradiction; reflexivity.
  - destruct fuel as [|fuel]; [lia|]. cbn [eval_act user_panic]. destruct (N.eqb_spec armed 1); [contradiction|].
    replace (13 =? 13) with true by reflexivity.
    destruct (N.eqb_spec (N.of_nat (S n)) 0) as [E|_]; [lia|].
    replace (N.of_nat (S n) - 1) with (N.of_nat n) by lia.
    rewrite Hreal, (IH fuel s) by lia. reflexivity.
Qed.

(* a nested call that is answered by a pattern ends the recursion there with that response *)
Theorem recursion_stops_at_a_mocked_level cfg armed b fuel s a s2 v :
  armed <> 1 -> a <> 0 ->
  hcall cfg s 13 (a - 1) = (s2, ActReturn (RVTag v)) -> v < 1000 ->
  eval_act (S fuel) cfg armed s 13 a b ActReal = (s2, armed, inl ("rec(r" ++ dec v ++ ")")%string).
Proof.
  intros Har Ha Hc Hv. cbn [eval_act user_panic]. destruct (N.eqb_spec armed 1); [contradiction|].
  replace (13 =? 13) with true by reflexivity. destruct (N.eqb_spec a 0); [contradiction|].
  rewrite Hc. destruct fuel; cbn [eval_act user_panic]; destruct (N.leb_spec 1000 v); try lia; reflexivity.
Qed.

(* finding F1: `&mut self` (and Pin<&mut Self>) methods get no unmock arm from the macro,
   although a function is registered: the call records and panics CannotUnmock *)
Lemma known_F1_refuted :
  mi_has_unmock_arm (hinfo 20) = false /\
  forall s a, hcall {| c_fallback := FbUnmock; c_table := [] |} s 20 a =
              (push_err s (ECannotUnmock 20), ActPanic (ECannotUnmock 20)).
Proof. split; reflexivity. Qed.

(* Unimock.Proofs.Deleg -- default-method delegation (C15) and unmocking (C16):
   re-entrant user code evaluated on the shared state in program order. *)
From Unimock Require Import Model.Run Spec.Fallthrough Proofs.Core Proofs.C01 Proofs.C07.
Open Scope N_scope.

Notation hcall := (call hinfo N haccepts hdebug).

(* ---------- the loop of a default body ---------- *)
Lemma body_loop_ext step1 step2 finish :
  (forall st ar mj aj, fst (step1 st ar mj aj) = fst (step2 st ar mj aj)) ->
  forall cs st ar acc hl hl',
  fst (body_loop step1 finish cs st ar acc hl) = fst (body_loop step2 finish cs st ar acc hl').
Proof.
  intros Hs. induction cs as [|[mj aj] cs IH]; intros st ar acc hl hl'; cbn [body_loop]; [reflexivity|].
  specialize (Hs st ar mj aj).
  destruct (step1 st ar mj aj) as [[[s3 ar3] r] h]. destruct (step2 st ar mj aj) as [[[s3' ar3'] r'] h'].
  cbn [fst] in Hs. injection Hs as -> -> ->. destruct r' as [t|p]; [apply IH|reflexivity].
Qed.

(* the helper depth only feeds the last component: outcome, state and armed flag do not depend on it *)
Lemma eval_act_h_depth fuel : forall cfg armed s1 m a b act d d',
  fst (eval_act_h fuel cfg armed s1 m a b act d) = fst (eval_act_h fuel cfg armed s1 m a b act d').
Proof.
  induction fuel as [|f IH]; intros cfg armed s1 m a b act d d'; cbn [eval_act_h].
  - destruct (user_panic armed act); [reflexivity|].
    destruct act as [rv|g| | |e].
    + destruct rv; reflexivity.
    + destruct (2000 <=? g); reflexivity.
    + destruct (m =? 13); [destruct (a =? 0); reflexivity|]. destruct (m =? 12); reflexivity.
    + destruct ((m =? 2) || (m =? 3))%bool; reflexivity.
    + reflexivity.
  - destruct (user_panic armed act); [reflexivity|].
    destruct act as [rv|g| | |e].
    + destruct rv; reflexivity.
    + destruct (2000 <=? g); [|reflexivity].
      destruct (hcall cfg s1 14 0) as [s2 act2]. specialize (IH cfg armed s2 14 0 1 act2 d d').
      destruct (eval_act_h f cfg armed s2 14 0 1 act2 d) as [[[s3 ar3] r] h].
      destruct (eval_act_h f cfg armed s2 14 0 1 act2 d') as [[[s3' ar3'] r'] h']. cbn [fst] in *.
      injection IH as -> -> ->. reflexivity.
    + destruct (m =? 13).
      * destruct (a =? 0); [reflexivity|].
        destruct (hcall cfg s1 13 (a - 1)) as [s2 act2]. specialize (IH cfg armed s2 13 (a - 1) b act2 d d').
        destruct (eval_act_h f cfg armed s2 13 (a - 1) b act2 d) as [[[s3 ar3] r] h].
        destruct (eval_act_h f cfg armed s2 13 (a - 1) b act2 d') as [[[s3' ar3'] r'] h']. cbn [fst] in *.
        injection IH as -> -> ->. reflexivity.
      * destruct (m =? 12); reflexivity.
    + destruct ((m =? 2) || (m =? 3))%bool; [reflexivity|].
      apply body_loop_ext. intros st ar mj aj. destruct (hcall cfg st mj aj) as [s2 act2]. apply IH.
    + reflexivity.
Qed.

(* ---------- direct calls: what a caller making the calls [cs] itself observes ---------- *)
Definition direct_step (fuel : nat) (cfg : config) (st : state) (ar mj aj : N) : state * N * (string + string) * N :=
  let '(s2, act2) := hcall cfg st mj aj in
  (eval_act fuel cfg ar s2 mj aj (aj + 1) act2, 0).

(* the responses joined by ",", or the first panic *)
Definition direct_calls (fuel : nat) (cfg : config) (armed : N) (st : state) (cs : list (N * N))
  : state * N * (string + string) :=
  fst (body_loop (direct_step fuel cfg) (join ",") cs st armed [] 0).

Definition is_d_provided (m : N) : bool :=
  (14 <=? m) && (m <=? 19).

Definition body_text (m a : N) (parts : string) : string :=
  ("dflt" ++ dec m ++ "(" ++ dec a ++ ")[" ++ parts ++ "]")%string.

(* C15: running the default body through the mock IS making its required calls directly,
   one after the other on the same shared state: same responses (joined by ","), same final
   state (counters, ordered index, single-use slots, recorded errors), the same panic if one of
   them panics, and the body's own result on top *)
(* the general form: any provided method of the inventory whose body is the harness' loop over [body_calls_of m a] *)
Lemma delegation_is_direct_calls_of fuel cfg armed s1 m a b :
  ((m =? 2) || (m =? 3))%bool = false -> armed <> 2 ->
  eval_act (S fuel) cfg armed s1 m a b ActDefault =
  let '(st, ar, r) := direct_calls fuel cfg armed s1 (body_calls_of m a) in
  (st, ar, match r with inl parts => inl (body_text m a parts) | inr p => inr p end).
Proof.
  intros H23 Har. unfold eval_act. cbn [eval_act_h user_panic].
  destruct (N.eqb_spec armed 2) as [E|_]; [contradiction|].
  rewrite H23.
  (* the two loops differ only in what they do with the finished list and in the ghost level *)
  assert (G : forall cs st ar acc hl hl',
    fst (body_loop (fun st ar mj aj => let '(s2, act2) := hcall cfg st mj aj in eval_act_h fuel cfg ar s2 mj aj (aj + 1) act2 (0 + 1))
                   (fun acc => ("dflt" ++ dec m ++ "(" ++ dec a ++ ")[" ++ join "," acc ++ "]")%string) cs st ar acc hl) =
    let '(st', ar', r) := fst (body_loop (direct_step fuel cfg) (join ",") cs st ar acc hl') in
    (st', ar', match r with inl parts => inl (body_text m a parts) | inr p => inr p end)).
  { induction cs as [|[mj aj] cs IH]; intros st ar acc hl hl'; cbn [body_loop]; [reflexivity|].
    unfold direct_step at 1. destruct (hcall cfg st mj aj) as [s2 act2].
    pose proof (eval_act_h_depth fuel cfg ar s2 mj aj (aj + 1) act2 (0 + 1) 0) as E. unfold eval_act.
    destruct (eval_act_h fuel cfg ar s2 mj aj (aj + 1) act2 (0 + 1)) as [[[s3 ar3] r] h].
    destruct (eval_act_h fuel cfg ar s2 mj aj (aj + 1) act2 0) as [[[s3' ar3'] r'] h']. cbn [fst] in E |- *.
    injection E as -> -> ->. destruct r' as [t|p]; [apply IH|reflexivity]. }
  unfold direct_calls. apply G.
Qed.

Theorem delegation_is_direct_calls fuel cfg armed s1 m a b :
  is_d_provided m = true -> armed <> 2 ->
  eval_act (S fuel) cfg armed s1 m a b ActDefault =
  let '(st, ar, r) := direct_calls fuel cfg armed s1 (body_calls a) in
  (st, ar, match r with inl parts => inl (body_text m a parts) | inr p => inr p end).
Proof.
  intros Hm Har.
  assert (H23 : ((m =? 2) || (m =? 3))%bool = false).
  { unfold is_d_provided in Hm. apply andb_true_iff in Hm as [H1 _]. apply N.leb_le in H1.
    destruct (N.eqb_spec m 2), (N.eqb_spec m 3); try reflexivity; lia. }
  assert (Hbc : body_calls_of m a = body_calls a).
  { unfold body_calls_of. unfold is_d_provided in Hm. apply andb_true_iff in Hm as [_ H2]. apply N.leb_le in H2.
    destruct (N.eqb_spec m 24); [lia|]. destruct (N.eqb_spec m 35); [lia|]. cbn [orb]. destruct (N.eqb_spec m 30); [lia|]. destruct (N.eqb_spec m 34); [lia|]. destruct (N.eqb_spec m 37); [lia|reflexivity]. }
  rewrite <- Hbc. apply delegation_is_direct_calls_of; assumption.
Qed.

(* the provided methods whose body makes ONE required call with the same receiver kind - p_rc2 / p_rc3 (Rc<Self>),
   p_arc2 (Arc<Self>), p_val2 (self), and hprov of the hidden-API trait (&self): the instance travels into the helper, the required method gets it back
   (from_delegator), and the outcome is that of calling the required method directly with the caller's argument *)
Definition pair_partner (m : N) : option N :=
  if (m =? 24) || (m =? 35) then Some 23 else if m =? 30 then Some 29 else if m =? 34 then Some 33 else if m =? 37 then Some 36 else None.

Theorem pair_delegation_is_one_direct_call fuel cfg armed s1 m r a b :
  pair_partner m = Some r -> armed <> 2 ->
  eval_act (S fuel) cfg armed s1 m a b ActDefault =
  let '(st, ar, res) := direct_calls fuel cfg armed s1 [(r, a)] in
  (st, ar, match res with inl parts => inl (body_text m a parts) | inr p => inr p end).
Proof.
  intros Hp Har.
  assert (H23 : ((m =? 2) || (m =? 3))%bool = false /\ body_calls_of m a = [(r, a)]).
  { unfold pair_partner in Hp. unfold body_calls_of.
    destruct (N.eqb_spec m 24) as [->|N24]; [injection Hp as <-; split; reflexivity|].
    destruct (N.eqb_spec m 35) as [->|N35]; [injection Hp as <-; split; reflexivity|]. cbn [orb] in *.
    destruct (N.eqb_spec m 30) as [->|N30]; [injection Hp as <-; split; reflexivity|].
    destruct (N.eqb_spec m 34) as [->|N34]; [injection Hp as <-; split; reflexivity|].
    destruct (N.eqb_spec m 37) as [->|N37]; [injection Hp as <-; split; reflexivity|]. discriminate. }
  destruct H23 as [H23 Hbc]. rewrite <- Hbc. apply delegation_is_direct_calls_of; assumption.
Qed.

(* the body calls exactly the required methods, with the caller's argument carried along *)
Lemma body_calls_spec a : length (body_calls a) = N.to_nat (a mod 4) /\
  forall c, In c (body_calls a) -> (fst c = 10 \/ fst c = 11) /\ snd c < 8.
Proof.
  unfold body_calls. split; [now rewrite map_length, seq_length|].
  intros c Hin. apply in_map_iff in Hin as (j & <- & _). cbn. split.
  - destruct (Nat.even j); auto.
  - apply N.mod_lt. discriminate.
Qed.

(* a provided method nobody mentions falls through to its default body in any state (C07) *)
Lemma provided_unmentioned_runs_default cfg s m a :
  lookup m (c_table cfg) = None -> mi_has_default (hinfo m) = true -> hcall cfg s m a = (s, ActDefault).
Proof.
  intros Hl Hd. rewrite (unmentioned_call hinfo N haccepts hdebug cfg s m a Hl).
  unfold unmentioned_fate. now rewrite Hd.
Qed.

(* ---------- C16: unmocking ---------- *)

(* an Unmock continuation reaches the registered function iff the generated body has the arm;
   otherwise the call records and panics CannotUnmock naming the method *)
Theorem unmock_reaches_real_function s m :
  finish hinfo s m OutUnmock =
  if mi_has_unmock_arm (hinfo m) then (s, ActReal)
  else (push_err s (ECannotUnmock m), ActPanic (ECannotUnmock m)).
Proof. reflexivity. Qed.

Theorem cannot_unmock_names_method m :
  render_error hinfo (ECannotUnmock m) =
  (path_str (hinfo m) ++ " cannot be unmocked as there is no function available to call.")%string.
Proof. reflexivity. Qed.

(* the registered function is applied once, to the caller's arguments in the listed order:
   default form (self, a, b) for r0/u3, explicit form real_u2(b, a) for u2 *)
Theorem real_function_arguments fuel cfg armed s1 a b :
  armed <> 1 ->
  eval_act fuel cfg armed s1 10 a b ActReal = (s1, armed, inl ("real10(" ++ dec a ++ ")")%string) /\
  eval_act fuel cfg armed s1 12 a b ActReal = (s1, armed, inl ("real12(" ++ dec b ++ "," ++ dec a ++ ")")%string).
Proof.
  intros Har. unfold eval_act. destruct fuel; cbn [eval_act_h user_panic]; destruct (N.eqb_spec armed 1); try contradiction; split; reflexivity.
Qed.

(* re-entrancy: the real function of u3 calls back into the mock; when those calls are
   unmocked again the recursion runs to depth a on the same shared state, in program order *)
Fixpoint rec_text (n : nat) (base : string) : string :=
  match n with O => base | S n' => ("rec(" ++ rec_text n' base ++ ")")%string end.

Theorem recursion_through_the_mock cfg armed b :
  armed <> 1 ->
  (forall s k, hcall cfg s 13 k = (s, ActReal)) ->
  forall n fuel s, (n <= fuel)%nat ->
  eval_act fuel cfg armed s 13 (N.of_nat n) b ActReal = (s, armed, inl (rec_text n ("base(" ++ dec b ++ ")")%string)).
Proof.
  intros Har Hreal. unfold eval_act. induction n as [|n IH]; intros fuel s Hle.
  - destruct fuel; cbn [eval_act_h user_panic]; destruct (N.eqb_spec armed 1); try contradiction; reflexivity.
  - destruct fuel as [|fuel]; [lia|]. cbn [eval_act_h user_panic]. destruct (N.eqb_spec armed 1); [contradiction|].
    replace (13 =? 13) with true by reflexivity.
    destruct (N.eqb_spec (N.of_nat (S n)) 0) as [E|_]; [lia|].
    replace (N.of_nat (S n) - 1) with (N.of_nat n) by lia.
    rewrite Hreal. specialize (IH fuel s ltac:(lia)).
    destruct (eval_act_h fuel cfg armed s 13 (N.of_nat n) b ActReal 0) as [[[s3 ar3] r] h]. cbn [fst] in IH |- *.
    injection IH as -> -> ->. reflexivity.
Qed.

(* a nested call that is answered by a pattern ends the recursion there with that response *)
Theorem recursion_stops_at_a_mocked_level cfg armed b fuel s a s2 v :
  armed <> 1 -> a <> 0 ->
  hcall cfg s 13 (a - 1) = (s2, ActReturn (RVTag v)) -> v < 1000 ->
  eval_act (S fuel) cfg armed s 13 a b ActReal = (s2, armed, inl ("rec(r" ++ dec v ++ ")")%string).
Proof.
  intros Har Ha Hc Hv. unfold eval_act. cbn [eval_act_h user_panic]. destruct (N.eqb_spec armed 1); [contradiction|].
  replace (13 =? 13) with true by reflexivity. destruct (N.eqb_spec a 0); [contradiction|].
  rewrite Hc. destruct fuel; cbn [eval_act_h user_panic]; destruct (N.leb_spec 1000 v); try lia; reflexivity.
Qed.

(* finding F1: `&mut self` (and Pin<&mut Self>) methods get no unmock arm from the macro,
   although a function is registered: the call records and panics CannotUnmock *)
Lemma known_F1_refuted :
  mi_has_unmock_arm (hinfo 20) = false /\
  forall s a, hcall {| c_fallback := FbUnmock; c_table := [] |} s 20 a =
              (push_err s (ECannotUnmock 20), ActPanic (ECannotUnmock 20)).
Proof. split; reflexivity. Qed.

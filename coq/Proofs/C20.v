(* Unimock.Proofs.C20 -- a mock whose required methods replay a script by ordered
   answer clauses, driven through upstream default bodies, behaves like the plain
   scripted struct: parametric in the body (any program) and in the script. *)
From Unimock Require Import Macro.Mirror Spec.FirstMatch Spec.Slots Proofs.Core Proofs.C04.
Open Scope N_scope.

(* ---------- what the script's clause list assembles to ---------- *)

Definition script_builder (k : nat) : builder :=
  {| b_mode := InOrder; b_matcher := Some any_matcher; b_dbg := Some (N.of_nat k);
     b_resps := [(0, RAnswer (N.of_nat k))]; b_exp := {| e_min := 1; e_ex := Exact |};
     b_idx := 1; b_err := None |}.

Definition script_pattern (k : nat) : pattern :=
  {| p_matcher := Some any_matcher; p_dbg := Some (N.of_nat k); p_resps := [(0, RAnswer (N.of_nat k))];
     p_lo := N.of_nat k; p_hi := N.of_nat k + 1; p_exp := {| e_min := 1; e_ex := Exact |} |}.

Fixpoint script_pushed {R} (off : nat) (sc : list (N * R)) : list pushed :=
  match sc with
  | [] => []
  | (m, _) :: t => Pushed m (script_builder off) :: script_pushed (S off) t
  end.

(* the patterns of method m, in order *)
Fixpoint script_pats {R} (m : N) (off : nat) (sc : list (N * R)) : list pattern :=
  match sc with
  | [] => []
  | (m', _) :: t =>
    if N.eqb m' m then script_pattern off :: script_pats m (S off) t else script_pats m (S off) t
  end.

Lemma build_script_pat bc c k : build_call bc c NextCall (script_pat k) = Some (script_builder k).
Proof. reflexivity. Qed.

Section Assemble.
Variable R : Type.
Variable info : N -> minfo.

Lemma flatten_script bc (sc : list (N * R)) : forall off,
  flatten_terminals info bc (script_terminals off sc) = Some (script_pushed off sc).
Proof.
  unfold flatten_terminals.
  induction sc as [|[m r] t IH]; intros off; [reflexivity|].
  cbn [script_terminals map deconstruct all_some script_pushed].
  rewrite build_script_pat. cbn [all_some].
  specialize (IH (S off)).
  destruct (all_some (map (deconstruct bc (fun m0 => mi_out_clone (info m0))) (script_terminals (S off) t))) as [pss|];
    [|discriminate].
  injection IH as IH. cbn [concat app]. now rewrite IH.
Qed.

Definition ext (o : option mocker) (ps : list pattern) : option mocker :=
  match o, ps with
  | Some mk, _ => Some {| m_mode := m_mode mk; m_pats := (m_pats mk ++ ps)%list |}
  | None, [] => None
  | None, _ => Some {| m_mode := InOrder; m_pats := ps |}
  end.

Definition all_ordered (tb : table) : Prop :=
  forall m mk, lookup m tb = Some mk -> m_mode mk = InOrder.

Lemma new_call_pattern_script off :
  new_call_pattern (N.of_nat off) (script_builder off) = Some (script_pattern off, N.of_nat (S off)).
Proof.
  unfold new_call_pattern, script_builder, script_pattern. cbn.
  do 2 f_equal. lia.
Qed.

Lemma asm_script (sc : list (N * R)) : forall off a,
  a_cur a = N.of_nat off -> all_ordered (a_table a) ->
  exists a', asm_pushes info a (script_pushed off sc) = inl a' /\
    forall m, lookup m (a_table a') = ext (lookup m (a_table a)) (script_pats m off sc).
Proof.
  induction sc as [|[m0 r] t IH]; intros off a Hc Ho.
  - exists a. split; [reflexivity|]. intros m. cbn [script_pats]. unfold ext.
    destruct (lookup m (a_table a)) as [[md ps]|] eqn:E; [|reflexivity]. cbn. now rewrite app_nil_r.
  - cbn [script_pushed asm_pushes]. unfold asm_push. cbn [b_err script_builder].
    fold (script_builder off). rewrite Hc, new_call_pattern_script.
    set (p := script_pattern off).
    assert (Hstep : exists a1, (match lookup m0 (a_table a) with
        | Some mk => if mode_eqb (m_mode mk) (b_mode (script_builder off))
            then inl {| a_table := update m0 {| m_mode := m_mode mk; m_pats := (m_pats mk ++ [p])%list |} (a_table a);
                        a_cur := N.of_nat (S off) |}
            else inr (mode_conflict_msg info m0 (m_mode mk) (b_mode (script_builder off)))
        | None => inl {| a_table := update m0 {| m_mode := b_mode (script_builder off); m_pats := [p] |} (a_table a);
                         a_cur := N.of_nat (S off) |}
        end) = inl a1 /\ a_cur a1 = N.of_nat (S off) /\ all_ordered (a_table a1) /\
        forall m, lookup m (a_table a1) = if N.eqb m0 m then ext (lookup m (a_table a)) [p] else lookup m (a_table a)).
    { destruct (lookup m0 (a_table a)) as [mk|] eqn:El.
      - rewrite (Ho _ _ El). cbn [mode_eqb b_mode script_builder].
        eexists. split; [reflexivity|]. split; [reflexivity|]. cbn [a_table]. split.
        + intros m mk'. destruct (N.eqb_spec m0 m) as [<-|Hne].
          * rewrite lookup_update_same. now intros [= <-].
          * rewrite lookup_update_other by assumption. apply Ho.
        + intros m. destruct (N.eqb_spec m0 m) as [<-|Hne].
          * rewrite lookup_update_same, El. cbn. now rewrite (Ho _ _ El).
          * now rewrite lookup_update_other.
      - eexists. split; [reflexivity|]. split; [reflexivity|]. cbn [a_table]. split.
        + intros m mk'. destruct (N.eqb_spec m0 m) as [<-|Hne].
          * rewrite lookup_update_same. now intros [= <-].
          * rewrite lookup_update_other by assumption. apply Ho.
        + intros m. destruct (N.eqb_spec m0 m) as [<-|Hne].
          * now rewrite lookup_update_same, El.
          * now rewrite lookup_update_other. }
    destruct Hstep as (a1 & -> & Hc1 & Ho1 & Hl1).
    destruct (IH (S off) a1 Hc1 Ho1) as (a' & Hp & Hl').
    exists a'. split; [exact Hp|]. intros m. rewrite Hl', Hl1. cbn [script_pats].
    destruct (N.eqb_spec m0 m) as [<-|Hne]; [|reflexivity].
    fold p. unfold ext. destruct (lookup m0 (a_table a)) as [mk|].
    + cbn [m_mode m_pats]. now rewrite <- app_assoc.
    + reflexivity.
Qed.

Theorem assemble_script bc fb (sc : list (N * R)) :
  exists cfg, assemble info bc fb (script_terminals 0 sc) = Some (inl cfg) /\
    c_fallback cfg = fb /\
    forall m, lookup m (c_table cfg) = ext None (script_pats m 0 sc).
Proof.
  unfold assemble. rewrite flatten_script.
  destruct (asm_script sc 0 new_assembler eq_refl) as (a' & -> & Hl).
  { intros m mk. cbn. discriminate. }
  eexists. split; [reflexivity|]. split; [reflexivity|]. exact Hl.
Qed.

(* ---------- where slot k lives ---------- *)

Lemma script_pats_In m p (sc : list (N * R)) : forall off,
  In p (script_pats m off sc) -> exists j, (off <= j < off + length sc)%nat /\ p = script_pattern j.
Proof.
  induction sc as [|[m' r] t IH]; intros off H; cbn [script_pats] in H; [destruct H|].
  destruct (N.eqb m' m).
  - destruct H as [<-|H].
    + exists off. cbn [length]. split; [lia|reflexivity].
    + destruct (IH _ H) as (j & Hj & ->). exists j. cbn [length]. split; [lia|reflexivity].
  - destruct (IH _ H) as (j & Hj & ->). exists j. cbn [length]. split; [lia|reflexivity].
Qed.

Lemma script_pats_app m (l1 l2 : list (N * R)) : forall off,
  script_pats m off (l1 ++ l2) = (script_pats m off l1 ++ script_pats m (off + length l1) l2)%list.
Proof.
  induction l1 as [|[m' r] t IH]; intros off; cbn [app script_pats length].
  - now rewrite Nat.add_0_r.
  - rewrite IH. replace (S off + length t)%nat with (off + S (length t))%nat by lia.
    destruct (N.eqb m' m); reflexivity.
Qed.

Lemma in_range_script j k : in_range (script_pattern j) (N.of_nat k) = Nat.eqb j k.
Proof.
  unfold in_range, script_pattern. cbn [p_lo p_hi].
  destruct (Nat.eqb_spec j k) as [->|Hne].
  - destruct (N.leb_spec (N.of_nat k) (N.of_nat k)); [|lia].
    destruct (N.ltb_spec (N.of_nat k) (N.of_nat k + 1)); [reflexivity|lia].
  - destruct (N.leb_spec (N.of_nat j) (N.of_nat k)); [|reflexivity].
    destruct (N.ltb_spec (N.of_nat k) (N.of_nat j + 1)); [lia|reflexivity].
Qed.

(* slot k = length done: owned by the head of the rest of the script, if its method is m *)
Lemma find_slot m (done todo : list (N * R)) :
  find_range (N.of_nat (length done)) (script_pats m 0 (done ++ todo)) 0 =
  match todo with
  | (m', _) :: _ =>
    if N.eqb m' m then Some (length (script_pats m 0 done), script_pattern (length done)) else None
  | [] => None
  end.
Proof.
  rewrite script_pats_app, find_range_app, find_range_none.
  2:{ intros p Hp. destruct (script_pats_In _ _ _ _ Hp) as (j & Hj & ->). rewrite in_range_script.
      apply Nat.eqb_neq. lia. }
  cbn [Nat.add]. destruct todo as [|[m' r] t]; [reflexivity|]. cbn [script_pats].
  destruct (N.eqb m' m).
  - cbn [find_range]. fold (in_range (script_pattern (length done)) (N.of_nat (length done))).
    now rewrite in_range_script, Nat.eqb_refl.
  - apply find_range_none. intros p Hp. destruct (script_pats_In _ _ _ _ Hp) as (j & Hj & ->).
    rewrite in_range_script. apply Nat.eqb_neq. lia.
Qed.

End Assemble.

(* ---------- the simulation ---------- *)

Section Sim.
Variables A R : Type.
Variable info : N -> minfo.
Variable accepts : N -> A -> bool.
Variable debug_args : A -> list (option string).
Hypothesis accepts_any : forall a, accepts any_matcher a = true.

Notation call := (Eval.call info A accepts debug_args).
Notation run_mock := (run_mock info accepts debug_args).

Variable sc : script R.
Variable cfg : config.
Hypothesis cfg_table : forall m, lookup m (c_table cfg) = ext None (script_pats m 0 sc).

Lemma pats_of_cfg m : pats_of m (c_table cfg) = script_pats m 0 sc.
Proof.
  unfold pats_of. rewrite cfg_table. unfold ext. destruct (script_pats m 0 sc); reflexivity.
Qed.

(* the shared state after the first k script entries have been consumed *)
Definition at_pos (k : nat) (s : state) : Prop :=
  next_ord s = N.of_nat k /\
  forall m i p, nth_opt (pats_of m (c_table cfg)) i = Some p -> N.of_nat k <= p_lo p -> cnt s m i = 0.

Lemma at_pos_init : at_pos 0 init_state.
Proof. split; [reflexivity|]. intros; reflexivity. Qed.

Definition is_answer (act : action) : bool := match act with ActAnswer _ => true | _ => false end.

(* a call that the script does not expect next is never answered *)
Lemma call_unexpected done todo s m a :
  sc = (done ++ todo)%list -> at_pos (length done) s ->
  match todo with (m', _) :: _ => N.eqb m' m = false | [] => True end ->
  is_answer (snd (call cfg s m a)) = false.
Proof.
  intros Hsc [Hn _] Hhead.
  unfold Eval.call, Eval.eval, Eval.eval_raw. rewrite cfg_table.
  destruct (script_pats m 0 sc) as [|p0 ps] eqn:Eps; cbn [ext].
  - destruct (mi_has_default (info m)) eqn:Hd.
    + cbn. now rewrite Hd.
    + destruct (mi_partial_by_default (info m)).
      * cbn. destruct (mi_has_unmock_arm (info m)); reflexivity.
      * destruct (c_fallback cfg); cbn; [reflexivity|]. destruct (mi_has_unmock_arm (info m)); reflexivity.
  - unfold match_call_pattern. cbn [m_mode m_pats]. rewrite <- Eps, Hn, Hsc, find_slot.
    destruct todo as [|[m' r] t]; [reflexivity|]. now rewrite Hhead.
Qed.

(* the call the script expects next reaches clause k, whatever the argument *)
Lemma call_expected done r todo s m a :
  sc = (done ++ (m, r) :: todo)%list -> at_pos (length done) s ->
  exists s1, call cfg s m a = (s1, ActAnswer (N.of_nat (length done))) /\ at_pos (S (length done)) s1.
Proof.
  intros Hsc [Hn Hc].
  pose proof (find_slot R m done ((m, r) :: todo)) as Hf. cbv beta iota in Hf. rewrite N.eqb_refl, <- Hsc in Hf.
  set (k := length done) in *. set (i := length (script_pats m 0 done)) in *.
  assert (Hnth : nth_opt (pats_of m (c_table cfg)) i = Some (script_pattern k)).
  { rewrite pats_of_cfg. destruct (find_range_some _ _ _ _ _ Hf) as (_ & Hx & _). now rewrite Nat.sub_0_r in Hx. }
  assert (Hcnt : cnt s m i = 0). { apply (Hc m i _ Hnth). cbn. lia. }
  unfold Eval.call, Eval.eval, Eval.eval_raw. rewrite cfg_table.
  destruct (script_pats m 0 sc) as [|p0 ps] eqn:Eps; [discriminate Hf|]. cbn [ext].
  unfold match_call_pattern. cbn [m_mode m_pats]. rewrite Hn, Hf.
  unfold match_inputs. cbn [p_matcher script_pattern]. rewrite accepts_any.
  unfold respond. cbn [set_next cnt]. rewrite Hcnt. cbn [p_resps script_pattern map fst].
  cbn [find_responder_idx binary_search bs_loop length Nat.leb nth N.eqb nth_opt finish].
  eexists. split; [reflexivity|]. split; [cbn; lia|].
  intros m' i' p' Hp' Hlo. cbn [cnt set_cnt set_next].
  destruct (N.eq_dec m m') as [<-|Hm].
  - destruct (Nat.eq_dec i i') as [<-|Hi].
    + rewrite Hnth in Hp'. injection Hp' as <-. cbn in Hlo. lia.
    + rewrite bump_other by congruence. apply (Hc _ _ _ Hp'). lia.
  - rewrite bump_other by congruence. apply (Hc _ _ _ Hp'). lia.
Qed.

Lemma nth_error_mid (done todo : script R) e : nth_error (done ++ e :: todo) (length done) = Some e.
Proof. induction done; cbn; [reflexivity|assumption]. Qed.

(* a default body on the mock = the same body on the scripted struct *)
Theorem run_mock_plain X (b : prog A R X) : forall done todo s log,
  sc = (done ++ todo)%list -> at_pos (length done) s ->
  exists s',
    run_mock cfg sc s b log = (s', fst (fst (run_plain todo b log)), snd (run_plain todo b log)) /\
    (snd (run_plain todo b log) <> None ->
     exists done', sc = (done' ++ snd (fst (run_plain todo b log)))%list /\ at_pos (length done') s').
Proof.
  induction b as [x|m a k IH]; intros done todo s log Hsc Hat.
  - exists s. split; [reflexivity|]. intros _. exists done. split; assumption.
  - cbn [Mirror.run_mock run_plain].
    destruct todo as [|[m' r] t].
    + pose proof (call_unexpected done [] s m a Hsc Hat I) as Hna.
      destruct (call cfg s m a) as [s1 act]. exists s1. cbn [fst snd] in *.
      split; [destruct act; try reflexivity; discriminate|]. intros H; now contradiction H.
    + destruct (N.eqb_spec m' m) as [->|Hne].
      * destruct (call_expected done r t s m a Hsc Hat) as (s1 & -> & Hat1).
        rewrite Nat2N.id, Hsc, nth_error_mid.
        assert (Hsc1 : sc = ((done ++ [(m, r)]) ++ t)%list) by now rewrite <- app_assoc.
        assert (Hat1' : at_pos (length (done ++ [(m, r)])) s1).
        { rewrite app_length. cbn [length]. now rewrite Nat.add_1_r. }
        rewrite <- Hsc. exact (IH r (done ++ [(m, r)])%list t s1 _ Hsc1 Hat1').
      * assert (Hh : N.eqb m' m = false) by now apply N.eqb_neq.
        pose proof (call_unexpected done ((m', r) :: t) s m a Hsc Hat Hh) as Hna.
        destruct (call cfg s m a) as [s1 act]. exists s1. cbn [fst snd] in *.
        split; [destruct act; try reflexivity; discriminate|]. intros H; now contradiction H.
Qed.

(* ---------- whole tests: provided and required methods called on the mock ---------- *)

Variable bodies : N -> option (A -> prog A R R).
Hypothesis info_bodies : forall m,
  mi_has_default (info m) = match bodies m with Some _ => true | None => false end.
Hypothesis script_required : Forall (fun e => bodies (fst e) = None) sc.

Notation drive_mock := (drive_mock info accepts debug_args bodies).

Lemma provided_unmentioned m body : bodies m = Some body -> script_pats m 0 sc = [].
Proof.
  intros Hb. clear cfg_table. revert script_required. generalize 0%nat.
  induction sc as [|[m' r] t IH]; intros off Hf; [reflexivity|]. cbn [script_pats].
  inversion Hf as [|? ? Hh Ht]; subst. cbn [fst] in Hh.
  destruct (N.eqb_spec m' m) as [->|_]; [congruence|]. now apply IH.
Qed.

(* an unmentioned provided method evaluates to CallDefaultImpl and leaves the state alone *)
Lemma call_provided s m a body : bodies m = Some body -> call cfg s m a = (s, ActDefault).
Proof.
  intros Hb. unfold Eval.call, Eval.eval, Eval.eval_raw.
  rewrite cfg_table, (provided_unmentioned m body Hb). cbn [ext].
  pose proof (info_bodies m) as Hi. rewrite Hb in Hi. rewrite Hi. cbn. now rewrite Hi.
Qed.

Lemma call_required_not_default s m a : bodies m = None -> snd (call cfg s m a) <> ActDefault.
Proof.
  intros Hb. pose proof (info_bodies m) as Hi. rewrite Hb in Hi.
  unfold Eval.call, Eval.eval, Eval.eval_raw.
  destruct (lookup m (c_table cfg)) as [mk|].
  - destruct (match_call_pattern A accepts debug_args cfg s m mk a) as [s1 [i p| |e]].
    + unfold respond.
      destruct (find_responder_idx (map fst (p_resps p)) (cnt s1 m i)) as [j|]; [|cbn; discriminate].
      destruct (nth_opt (p_resps p) j) as [[? [once v| |f|msg| |]]|]; cbn; try discriminate.
      * destruct once; [destruct (taken _ m i j)|]; cbn; discriminate.
      * destruct (mi_has_unmock_arm (info m)); cbn; discriminate.
      * rewrite Hi. cbn. discriminate.
    + destruct (c_fallback cfg); cbn; [discriminate|]. destruct (mi_has_unmock_arm (info m)); cbn; discriminate.
    + cbn. discriminate.
  - rewrite Hi. destruct (mi_partial_by_default (info m)).
    + cbn. destruct (mi_has_unmock_arm (info m)); cbn; discriminate.
    + destruct (c_fallback cfg); cbn; [discriminate|]. destruct (mi_has_unmock_arm (info m)); cbn; discriminate.
Qed.

Theorem drive_mock_plain X (d : dprog A R X) : forall done todo s log,
  sc = (done ++ todo)%list -> at_pos (length done) s ->
  exists s',
    drive_mock cfg sc s d log =
      (s', fst (fst (drive_plain bodies todo d log)), snd (drive_plain bodies todo d log)) /\
    (snd (drive_plain bodies todo d log) <> None ->
     exists done', sc = (done' ++ snd (fst (drive_plain bodies todo d log)))%list /\ at_pos (length done') s').
Proof.
  induction d as [x|m a k IH]; intros done todo s log Hsc Hat.
  - exists s. split; [reflexivity|]. intros _. exists done. split; assumption.
  - cbn [Mirror.drive_mock drive_plain]. unfold body_of.
    destruct (bodies m) as [body|] eqn:Hb.
    + rewrite (call_provided s m a body Hb).
      destruct (run_mock_plain R (body a) done todo s log Hsc Hat) as (s2 & Hrun & Hpost).
      rewrite Hrun. destruct (run_plain todo (body a) log) as [[log1 rest] [r|]]; cbn [fst snd] in *.
      * destruct (Hpost ltac:(discriminate)) as (done' & Hsc' & Hat').
        exact (IH r done' rest s2 log1 Hsc' Hat').
      * exists s2. split; [reflexivity|]. intros H; now contradiction H.
    + pose proof (call_required_not_default s m a Hb) as Hnd.
      cbn [run_plain].
      destruct todo as [|[m' r] t].
      * pose proof (call_unexpected done [] s m a Hsc Hat I) as Hna.
        destruct (call cfg s m a) as [s1 act]. exists s1. cbn [fst snd] in *.
        split; [destruct act; try reflexivity; try discriminate; now contradiction Hnd|].
        intros H; now contradiction H.
      * destruct (N.eqb_spec m' m) as [->|Hne].
        -- destruct (call_expected done r t s m a Hsc Hat) as (s1 & -> & Hat1).
           rewrite Nat2N.id, Hsc, nth_error_mid.
           assert (Hsc1 : sc = ((done ++ [(m, r)]) ++ t)%list) by now rewrite <- app_assoc.
           assert (Hat1' : at_pos (length (done ++ [(m, r)])) s1).
           { rewrite app_length. cbn [length]. now rewrite Nat.add_1_r. }
           rewrite <- Hsc. exact (IH r (done ++ [(m, r)])%list t s1 _ Hsc1 Hat1').
        -- assert (Hh : N.eqb m' m = false) by now apply N.eqb_neq.
           pose proof (call_unexpected done ((m', r) :: t) s m a Hsc Hat Hh) as Hna.
           destruct (call cfg s m a) as [s1 act]. exists s1. cbn [fst snd] in *.
           split; [destruct act; try reflexivity; try discriminate; now contradiction Hnd|].
           intros H; now contradiction H.
Qed.

End Sim.

(* ---------- end to end, from the initial state ---------- *)

Section EndToEnd.
Variables A R : Type.
Variable info : N -> minfo.
Variable accepts : N -> A -> bool.
Variable debug_args : A -> list (option string).
Hypothesis accepts_any : forall a, accepts any_matcher a = true.

Theorem body_end_to_end bc fb (sc : script R) :
  exists cfg, assemble info bc fb (script_terminals 0 sc) = Some (inl cfg) /\ c_fallback cfg = fb /\
    forall X (b : prog A R X),
      exists s, run_mock info accepts debug_args cfg sc init_state b [] =
                  (s, fst (fst (run_plain sc b [])), snd (run_plain sc b [])) /\
        (snd (run_plain sc b []) <> None ->
         next_ord s = N.of_nat (length sc - length (snd (fst (run_plain sc b []))))).
Proof.
  destruct (assemble_script R info bc fb sc) as (cfg & Ha & Hfb & Ht).
  exists cfg. split; [exact Ha|]. split; [exact Hfb|]. intros X b.
  destruct (run_mock_plain A R info accepts debug_args accepts_any sc cfg Ht X b [] sc init_state [] eq_refl
              (at_pos_init cfg)) as (s & Hr & Hp).
  exists s. split; [exact Hr|]. intros Hs. destruct (Hp Hs) as (done' & Hsc & [Hn _]).
  rewrite Hn. f_equal. rewrite Hsc at 1. rewrite app_length. lia.
Qed.

Variable bodies : N -> option (A -> prog A R R).
Hypothesis info_bodies : forall m,
  mi_has_default (info m) = match bodies m with Some _ => true | None => false end.

Theorem test_end_to_end bc fb (sc : script R) :
  Forall (fun e => bodies (fst e) = None) sc ->
  exists cfg, assemble info bc fb (script_terminals 0 sc) = Some (inl cfg) /\ c_fallback cfg = fb /\
    (forall m a s body, bodies m = Some body -> Eval.call info A accepts debug_args cfg s m a = (s, ActDefault)) /\
    forall X (d : dprog A R X),
      exists s, drive_mock info accepts debug_args bodies cfg sc init_state d [] =
                  (s, fst (fst (drive_plain bodies sc d [])), snd (drive_plain bodies sc d [])) /\
        (snd (drive_plain bodies sc d []) <> None ->
         next_ord s = N.of_nat (length sc - length (snd (fst (drive_plain bodies sc d []))))).
Proof.
  intros Hreq.
  destruct (assemble_script R info bc fb sc) as (cfg & Ha & Hfb & Ht).
  exists cfg. split; [exact Ha|]. split; [exact Hfb|]. split.
  { intros m a s body Hb. exact (call_provided A R info accepts debug_args sc cfg Ht bodies info_bodies Hreq s m a body Hb). }
  intros X d.
  destruct (drive_mock_plain A R info accepts debug_args accepts_any sc cfg Ht bodies info_bodies Hreq X d [] sc
              init_state [] eq_refl (at_pos_init cfg)) as (s & Hr & Hp).
  exists s. split; [exact Hr|]. intros Hs. destruct (Hp Hs) as (done' & Hsc & [Hn _]).
  rewrite Hn. f_equal. rewrite Hsc at 1. rewrite app_length. lia.
Qed.

(* Termination::report: not mentioned => the real report, in a strict mock too *)
Theorem partial_by_default_call cfg s m a :
  lookup m (c_table cfg) = None ->
  mi_has_default (info m) = false -> mi_partial_by_default (info m) = true ->
  Eval.call info A accepts debug_args cfg s m a =
    if mi_has_unmock_arm (info m) then (s, ActReal)
    else (push_err s (ECannotUnmock m), ActPanic (ECannotUnmock m)).
Proof.
  intros Hl Hd Hp. unfold Eval.call, Eval.eval, Eval.eval_raw. rewrite Hl, Hd, Hp. cbn.
  destruct (mi_has_unmock_arm (info m)); reflexivity.
Qed.

End EndToEnd.

(* ---------- the wiring table ---------- *)

Lemma model_obs_table tr me prov pbd o1 o2 o3 o4 :
  let r := {| w_trait := tr; w_method := me; w_provided := prov; w_partial_by_default := pbd;
              w_mentioned_strict := o1; w_mentioned_partial := o2;
              w_unmentioned_strict := o3; w_unmentioned_partial := o4 |} in
  model_obs r FbError true = [WClause] /\ model_obs r FbUnmock true = [WClause] /\
  model_obs r FbError false =
    (if prov then [WBodyReq; WBodyReturned] else if pbd then [WReal] else [WNoImpl]) /\
  model_obs r FbUnmock false =
    (if prov then [WBodyReq; WBodyReturned] else if pbd then [WReal] else [WCannotUnmock]).
Proof. destruct prov, pbd; cbv; repeat split. Qed.

Lemma obs_in_1 o x : obs_in o [x] = true -> o = x.
Proof. destruct o, x; cbn; intros H; try discriminate; reflexivity. Qed.

Lemma obs_in_body o : obs_in o [WBodyReq; WBodyReturned] = true -> body_ran o.
Proof. unfold body_ran. destruct o; cbn; intros H; try discriminate; auto. Qed.

Theorem wiring_sound rows : forallb wrow_ok rows = true -> Forall row_wired rows.
Proof.
  intros H. apply Forall_forall. intros r Hr. rewrite forallb_forall in H. specialize (H r Hr).
  destruct r as [tr me prov pbd o1 o2 o3 o4].
  destruct (model_obs_table tr me prov pbd o1 o2 o3 o4) as (M1 & M2 & M3 & M4).
  unfold wrow_ok in H. cbv zeta in M1, M2, M3, M4. rewrite M1, M2, M3, M4 in H.
  cbn [w_mentioned_strict w_mentioned_partial w_unmentioned_strict w_unmentioned_partial] in H.
  apply andb_prop in H as [H H4]. apply andb_prop in H as [H H3]. apply andb_prop in H as [H1 H2].
  unfold row_wired. cbn [w_mentioned_strict w_mentioned_partial w_unmentioned_strict w_unmentioned_partial
                         w_provided w_partial_by_default].
  split; [now apply obs_in_1|]. split; [now apply obs_in_1|].
  destruct prov; [split; now apply obs_in_body|].
  destruct pbd; split; now apply obs_in_1.
Qed.

(* Unimock.Proofs.Life -- life cycle (C09), recorded errors (C08), unwinding (C11). *)
From Unimock Require Import Model.Run Spec.FirstMatch Proofs.Core Proofs.C01.
Open Scope N_scope.

(* ================= C08: the error list ================= *)
Section Errors.
Variable info : N -> minfo.
Variable A : Type.
Variable accepts : N -> A -> bool.
Variable debug_args : A -> list (option string).
Notation eval_raw := (eval_raw info A accepts debug_args).
Notation eval := (eval info A accepts debug_args).
Notation call := (call info A accepts debug_args).

Lemma eval_raw_errs cfg s m a : errs (fst (eval_raw cfg s m a)) = errs s.
Proof.
  unfold Eval.eval_raw. destruct (lookup m (c_table cfg)) as [mk|].
  - unfold match_call_pattern. destruct (m_mode mk).
    + destruct (scan A accepts a (m_pats mk) 0) as [[[i p] [b|]]|]; cbn [fst].
      * now destruct (respond_cnt A debug_args s m a i p) as (_ & _ & ->).
      * reflexivity.
      * destruct (c_fallback cfg); reflexivity.
    + destruct (find_range (next_ord s) (m_pats mk) 0) as [[i p]|]; [|reflexivity].
      destruct (match_inputs A accepts p a) as [[|]|]; try reflexivity.
      now destruct (respond_cnt A debug_args (set_next s (next_ord s + 1)) m a i p) as (_ & _ & ->).
  - destruct (mi_has_default (info m)); [reflexivity|]. destruct (mi_partial_by_default (info m)); [reflexivity|].
    destruct (c_fallback cfg); reflexivity.
Qed.

(* the error a call panics with, if it is a mock-induced panic *)
Definition panic_of (act : action) : list mock_error :=
  match act with ActPanic e => [e] | _ => [] end.

(* every mock-induced panic is appended before it is raised; nothing else is *)
Theorem call_records cfg s m a :
  errs (fst (call cfg s m a)) = (errs s ++ panic_of (snd (call cfg s m a)))%list.
Proof.
  unfold Eval.call, Eval.eval. pose proof (eval_raw_errs cfg s m a) as H.
  destruct (eval_raw cfg s m a) as [s1 o]. cbn [fst] in H.
  destruct o; cbn; rewrite ?H, ?app_nil_r; try reflexivity.
  - destruct (mi_has_unmock_arm (info m)); cbn; now rewrite ?H, ?app_nil_r.
  - destruct (mi_has_default (info m)); cbn; now rewrite ?H, ?app_nil_r.
Qed.

(* over a history, through any instances: the list is exactly the mock-induced
   panics so far, in order *)
Fixpoint run_calls (cfg : config) (s : state) (h : list (N * A)) : state :=
  match h with
  | [] => s
  | (m, a) :: h' => run_calls cfg (fst (call cfg s m a)) h'
  end.

Fixpoint panics_of (cfg : config) (s : state) (h : list (N * A)) : list mock_error :=
  match h with
  | [] => []
  | (m, a) :: h' => (panic_of (snd (call cfg s m a)) ++ panics_of cfg (fst (call cfg s m a)) h')%list
  end.

Theorem history_records cfg h : forall s,
  errs (run_calls cfg s h) = (errs s ++ panics_of cfg s h)%list.
Proof.
  induction h as [|[m a] h IH]; intros s; cbn; [now rewrite app_nil_r|].
  now rewrite IH, call_records, <- app_assoc.
Qed.

End Errors.

(* teardown forwards recorded errors instead of judging the counts *)
Theorem recorded_errors_fail info bc cfg s i e es :
  errs s = e :: es -> i_original i = true -> i_panicked i = false ->
  teardown info bc cfg s here i 1 = TdErrs (errs s) /\
  teardown_panic info bc cfg s here i 1 = Some (verdict_text info (errs s)).
Proof.
  intros He Ho Hp. unfold teardown_panic, teardown, verdict, here. cbn. rewrite Ho, Hp, He. cbn.
  rewrite !andb_false_r. cbn. split; reflexivity.
Qed.

Lemma In_text_line info es e : In e es -> In (render_error info e) (map (render_error info) es).
Proof. apply in_map. Qed.

(* ================= C09 / C11: instances ================= *)
Section Instances.
Variable info : N -> minfo.

(* a clone never verifies and never panics when dropped, whatever the expectations *)
Theorem clone_teardown_silent bc cfg s x i live :
  i_original i = false -> teardown info bc cfg s x i live = TdOk.
Proof. intros H. unfold teardown. now rewrite H. Qed.

Theorem clone_drop_silent bc cfg s x i live :
  i_original i = false -> drop_panic info bc cfg s x i live = None.
Proof.
  intros H. unfold drop_panic, teardown_panic. rewrite (clone_teardown_silent bc cfg s x i live H).
  destruct (i_torn i), (i_vid i); reflexivity.
Qed.

Lemma clone_not_original i : i_original (clone_of i) = false.
Proof. reflexivity. Qed.

(* the original's teardown: the order of its checks *)
Theorem original_teardown_order bc cfg s x i live :
  i_original i = true ->
  teardown info bc cfg s x i live =
    if (negb (bc_std bc) && i_panicked i)%bool then TdOk
    else if (bc_std bc && x_unwinding x)%bool then TdOk
    else if 1 <? live then TdPanic msg_clones_alive
    else if (bc_std bc && x_other_thread x)%bool then TdPanic msg_wrong_thread
    else match verdict info cfg s with [] => TdOk | es => TdErrs es end.
Proof. intros H. unfold teardown. now rewrite H. Qed.

(* report() and verify()/drop map the same teardown result *)
Theorem report_matches_verify bc cfg s x i live :
  (teardown info bc cfg s x i live = TdOk <-> teardown_panic info bc cfg s x i live = None) /\
  (forall es, teardown info bc cfg s x i live = TdErrs es ->
              teardown_panic info bc cfg s x i live = Some (verdict_text info es)) /\
  (forall msg, teardown info bc cfg s x i live = TdPanic msg ->
               teardown_panic info bc cfg s x i live = Some msg).
Proof.
  unfold teardown_panic. destruct (teardown info bc cfg s x i live); repeat split; intros; try congruence; try discriminate.
Qed.

(* C11: while the thread is unwinding no drop panics (std) *)
Theorem unwinding_drop_silent bc cfg s x i live :
  bc_std bc = true -> x_unwinding x = true -> drop_panic info bc cfg s x i live = None.
Proof.
  intros Hs Hu. unfold drop_panic, teardown_panic, teardown. rewrite Hs, Hu. cbn.
  destruct (i_torn i), (i_vid i), (i_original i); reflexivity.
Qed.

(* verify_in_drop off / already torn down: drop is silent *)
Theorem disabled_drop_silent bc cfg s x i live :
  (i_torn i = true \/ i_vid i = false) -> drop_panic info bc cfg s x i live = None.
Proof. unfold drop_panic. intros [->| ->]; [reflexivity|]. destruct (i_torn i); reflexivity. Qed.

End Instances.

(* ---- handles: Arc::strong_count ---- *)
Lemma strong_count_app a b : strong_count (a ++ b) = strong_count a + strong_count b.
Proof. induction a as [|i a IH]; cbn; [reflexivity|]. rewrite IH. lia. Qed.

Lemma clone_adds_one insts it : strong_count (insts ++ [clone_of it]) = strong_count insts + 1.
Proof. rewrite strong_count_app. cbn. lia. Qed.

Lemma strong_count_upd insts : forall i it it',
  nth_opt insts i = Some it ->
  strong_count (upd insts i it') + handles it = strong_count insts + handles it'.
Proof.
  induction insts as [|x insts IH]; intros [|i] it it' H; cbn in *; try discriminate.
  - injection H as ->. lia.
  - specialize (IH i it it' H). lia.
Qed.

(* ---- at most one original, and it verifies at most once ---- *)
Definition is_live_original (i : inst) : bool := (i_alive i && i_original i)%bool.
Definition originals (w : world) : nat := length (filter is_live_original (w_insts w)).

Lemma filter_upd_dead insts : forall i it,
  nth_opt insts i = Some it ->
  length (filter is_live_original (upd insts i (set_dead (set_torn it)))) =
  (length (filter is_live_original insts) - (if is_live_original it then 1 else 0))%nat.
Proof.
  induction insts as [|x insts IH]; intros [|i] it H; cbn in *; try discriminate.
  - injection H as ->. destruct (is_live_original it); cbn; lia.
  - destruct (is_live_original x) eqn:Hx; cbn [length]; rewrite (IH i it H); [|reflexivity].
    destruct (is_live_original it) eqn:Hit; [|lia].
    assert (0 < length (filter is_live_original insts))%nat; [|lia].
    clear -H Hit. revert i H. induction insts as [|y insts IH]; intros [|i] H; cbn in *; try discriminate.
    + injection H as ->. rewrite Hit. cbn. lia.
    + specialize (IH i H). destruct (is_live_original y); cbn; lia.
Qed.

Lemma filter_upd_same_flags insts : forall i it it',
  nth_opt insts i = Some it -> is_live_original it' = is_live_original it ->
  True /\
  length (filter is_live_original (upd insts i it')) = length (filter is_live_original insts).
Proof.
  induction insts as [|x insts IH]; intros [|i] it it' H Hf; cbn in *; try discriminate; split; try exact I.
  - injection H as ->. rewrite Hf. destruct (is_live_original it); reflexivity.
  - destruct (IH i it it' H Hf) as [_ IH']. destruct (is_live_original x); cbn; now rewrite IH'.
Qed.

Lemma filter_upd_nonorig insts : forall i it',
  is_live_original it' = false ->
  (length (filter is_live_original (upd insts i it')) <= length (filter is_live_original insts))%nat.
Proof.
  induction insts as [|x insts IH]; intros [|i] it' H; cbn [upd filter]; try lia.
  - rewrite H. destruct (is_live_original x); cbn [length]; lia.
  - specialize (IH i it' H). destruct (is_live_original x); cbn [length]; lia.
Qed.

Lemma live_inst_nth w i it : live_inst w i = Some it -> nth_opt (w_insts w) i = Some it /\ i_alive it = true.
Proof.
  unfold live_inst. destruct (nth_opt (w_insts w) i) as [x|]; [|discriminate].
  destruct (i_alive x) eqn:Ha; [|discriminate]. intros [= <-]. now split.
Qed.

Lemma originals_kill w i it :
  nth_opt (w_insts w) i = Some it ->
  originals (kill w i it) = (originals w - (if is_live_original it then 1 else 0))%nat.
Proof. intros H. unfold originals, kill. cbn. now apply filter_upd_dead. Qed.

(* no event creates an original; every event that runs the original's teardown
   (drop, verify, report, leaving its scope) also consumes it *)
Lemma originals_core w e : (originals (fst (step_core w e)) <= originals w)%nat.
Proof.
  unfold step_core. destruct e as [x b]. cbn [ev_base ev_ctx].
  assert (Hupd : forall insts i it it', nth_opt insts i = Some it -> is_live_original it' = is_live_original it ->
            length (filter is_live_original (upd insts i it')) = length (filter is_live_original insts)).
  { intros. now apply (filter_upd_same_flags insts i it it'). }
  destruct b as [i m a|i|i|i|i|i|i|i|i m a|n| |i m a|i j|i m a|i m a].
  15: { (* an observed call: the world changes as for a call *)
    destruct (live_inst w i) as [it|] eqn:Hl; [|cbn; lia]. apply live_inst_nth in Hl as [Hn _].
    destruct (matcher_panics (w_cfg w) (w_state w) m a) as [sp|]; [cbn [fst]; unfold originals, set_state; cbn [w_insts]; lia|].
    destruct (debug_panics (w_cfg w) (w_state w) m a) as [sd|]; [cbn [fst]; unfold originals, set_state; cbn [w_insts]; lia|].
    destruct (call _ _ _ _ _ _ _ _) as [s' act]. cbn [fst]. unfold after_call, originals.
    destruct act; cbn; try lia; rewrite (Hupd _ i it); try lia; try assumption; reflexivity. }
  14: { (* a value that calls the mock from its Drop is lent *)
    destruct (live_inst w i) as [it|] eqn:Hl; [|cbn; lia]. apply live_inst_nth in Hl as [Hn _].
    cbn. unfold originals. cbn. rewrite (Hupd _ i it); [lia|assumption|reflexivity]. }
  13: { (* clone_from: a clone is appended, the old value is killed, two slots are overwritten with non-originals *)
    destruct (Nat.eqb i j); [cbn; lia|].
    destruct (live_inst w i) as [it|]; [|cbn; lia]. destruct (live_inst w j) as [src|]; [|cbn; lia].
    cbn [fst]. unfold originals, set_insts. cbn [w_insts].
    apply filter_upd_nonorig. reflexivity. }
  - (* call *)
    destruct (live_inst w i) as [it|] eqn:Hl; [|cbn; lia]. apply live_inst_nth in Hl as [Hn _].
    destruct (matcher_panics (w_cfg w) (w_state w) m a) as [sp|]; [cbn [fst]; unfold originals, set_state; cbn [w_insts]; lia|].
    destruct (debug_panics (w_cfg w) (w_state w) m a) as [sd|]; [cbn [fst]; unfold originals, set_state; cbn [w_insts]; lia|].
    destruct (call _ _ _ _ _ _ _ _) as [s' act]. cbn [fst]. unfold after_call, originals.
    destruct act; cbn; try lia; rewrite (Hupd _ i it); try lia; try assumption; reflexivity.
  - (* clone *)
    destruct (live_inst w i) as [it|]; [|cbn; lia]. cbn. unfold originals. cbn.
    rewrite filter_app, app_length. cbn. lia.
  - (* drop *)
    destruct (live_inst w i) as [it|] eqn:Hl; [|cbn; lia]. apply live_inst_nth in Hl as [Hn _].
    destruct (x_unwinding x); cbn [fst]; rewrite (originals_kill w i it Hn); lia.
  - (* verify *)
    destruct (live_inst w i) as [it|] eqn:Hl; [|cbn; lia]. apply live_inst_nth in Hl as [Hn _].
    destruct (x_unwinding x); destruct (negb (i_original it)); cbn [fst]; rewrite (originals_kill w i it Hn); lia.
  - (* no_verify_in_drop *)
    destruct (live_inst w i) as [it|] eqn:Hl; [|cbn; lia]. apply live_inst_nth in Hl as [Hn _].
    destruct (negb (i_original it)); cbn [fst].
    + rewrite (originals_kill w i it Hn); lia.
    + unfold originals. cbn. rewrite (Hupd _ i it); [lia|assumption|reflexivity].
  - (* report *)
    destruct (live_inst w i) as [it|] eqn:Hl; [|cbn; lia]. apply live_inst_nth in Hl as [Hn _].
    destruct (call _ _ _ _ _ _ _ _) as [s' act].
    assert (Hk : forall w', w_insts w' = w_insts w -> (originals (kill w' i it) <= originals w)%nat).
    { intros w' Hw. unfold originals, kill, set_insts. cbn [w_insts]. rewrite Hw, (filter_upd_dead _ i it Hn). lia. }
    destruct act; cbn [fst]; apply Hk; reflexivity.
  - (* lend *)
    destruct (live_inst w i) as [it|] eqn:Hl; [|cbn; lia]. apply live_inst_nth in Hl as [Hn _].
    cbn. unfold originals. cbn. rewrite (Hupd _ i it); [lia|assumption|reflexivity].
  - (* count *)
    destruct (live_inst w i) as [it|]; cbn; lia.
  - (* callown *)
    destruct (live_inst w i) as [it|] eqn:Hl; [|cbn; lia]. apply live_inst_nth in Hl as [Hn _].
    destruct (matcher_panics (w_cfg w) (w_state w) m a) as [sp|].
    { cbn [fst]. unfold originals, kill, set_insts, set_state. cbn [w_insts]. rewrite (filter_upd_dead _ i it Hn). lia. }
    destruct (debug_panics (w_cfg w) (w_state w) m a) as [sd|].
    { cbn [fst]. unfold originals, kill, set_insts, set_state. cbn [w_insts]. rewrite (filter_upd_dead _ i it Hn). lia. }
    destruct (call _ _ _ _ _ _ _ _) as [s' act].
    set (w1 := after_call w i it s' act).
    assert (Ho : (originals w1 <= originals w)%nat).
    { unfold w1, after_call, originals. destruct act; cbn; try lia; rewrite (Hupd _ i it); try lia; try assumption; reflexivity. }
    destruct (nth_opt (w_insts w1) i) as [it1|] eqn:Hn1; cbn [fst]; [|exact Ho].
    rewrite (originals_kill w1 i it1 Hn1). lia.
  - cbn [fst]. unfold originals, set_armed. cbn [w_insts]. lia.
  - destruct (live_values _ _ _). cbn. lia.
  - (* call through a receiver kind *)
    destruct (live_inst w i) as [it|] eqn:Hl; [|cbn; lia]. apply live_inst_nth in Hl as [Hn _].
    destruct (call _ _ _ _ _ _ _ _) as [s1 act].
    assert (Hk : forall w', w_insts w' = w_insts w -> (originals (kill w' i it) <= originals w)%nat).
    { intros w' Hw. unfold originals, kill, set_insts. cbn [w_insts]. rewrite Hw, (filter_upd_dead _ i it Hn). lia. }
    assert (Hh : forall w' n, w_insts w' = w_insts w ->
               (originals (set_insts w' (upd (w_insts w') i (set_helper_levels it n))) <= originals w)%nat).
    { intros w' n Hw. unfold originals, set_insts. cbn [w_insts]. rewrite Hw, (Hupd _ i it); [lia|assumption|reflexivity]. }
    assert (Hs : forall w', w_insts w' = w_insts w -> (originals w' <= originals w)%nat).
    { intros w' Hw. unfold originals. rewrite Hw. lia. }
    destruct (eval_act _ _ _ _ _ _ _ _) as [[s2 ar2] r].
    destruct (recv_of m).
    + cbn [fst]. apply Hh. reflexivity.
    + cbn [fst]. apply Hh. reflexivity.
    + destruct r; [|cbn [fst]; apply Hk; reflexivity].
      destruct act; try (match goal with |- context [match ?d with Some _ => _ | None => _ end] => destruct d end); cbn [fst]; apply Hk; reflexivity.
    + destruct r; [|cbn [fst]; apply Hk; reflexivity].
      destruct act; try (match goal with |- context [match ?d with Some _ => _ | None => _ end] => destruct d end); cbn [fst]; apply Hk; reflexivity.
    + cbn [fst]. apply Hs. reflexivity.
    + cbn [fst]. apply Hh. reflexivity.
Qed.

Lemma releasing_live w b i it early : releasing w b = Some (i, it, early) -> live_inst w i = Some it.
Proof.
  assert (P : forall j e, match live_inst w j with
                          | Some it0 => match i_calls it0 with [] => None | _ :: _ => Some (j, it0, e) end
                          | None => None end = Some (i, it, early) -> live_inst w i = Some it).
  { intros j e. destruct (live_inst w j) as [it0|] eqn:Hl; [|discriminate]. destruct (i_calls it0); [discriminate|].
    intros [= <- <- _]. exact Hl. }
  unfold releasing. destruct b; try discriminate; try apply P.
  - destruct (live_inst w i0) as [it0|] eqn:Hl; [|discriminate]. destruct (i_calls it0); [discriminate|].
    destruct (i_original it0); [discriminate|]. intros [= <- <- _]. exact Hl.
  - destruct (Nat.eqb i0 j); [discriminate|]. destruct (live_inst w j); [apply P|discriminate].
Qed.

Lemma nth_opt_upd_same {X} (l : list X) : forall k (y z : X), nth_opt l k = Some y -> nth_opt (upd l k z) k = Some z.
Proof. induction l as [|q l IH]; intros [|k] y z Hy; cbn in *; try discriminate; [reflexivity|now apply (IH k y)]. Qed.

(* releasing the value chain changes the shared state (the swallowed calls) and nothing else about the instance *)
Lemma live_inst_release w i it : live_inst w i = Some it -> live_inst (release w i it) i = Some (clear_calls it).
Proof.
  intros Hl. apply live_inst_nth in Hl as [Hn Ha]. unfold release. destruct (fold_left _ _ _) as [s ar].
  unfold live_inst, set_insts. cbn [w_insts]. rewrite (nth_opt_upd_same _ i it _ Hn). cbn [clear_calls i_alive]. now rewrite Ha.
Qed.

Lemma originals_release w i it : live_inst w i = Some it -> originals (release w i it) = originals w.
Proof.
  intros Hl. apply live_inst_nth in Hl as [Hn _]. unfold release.
  destruct (fold_left _ _ _) as [s ar]. unfold originals, set_insts. cbn [w_insts].
  now apply (filter_upd_same_flags (w_insts w) i it (clear_calls it)).
Qed.

(* no event creates an original; every event that runs the original's teardown
   (drop, verify, report, leaving its scope) also consumes it *)
Theorem originals_never_increase w e : (originals (fst (step w e)) <= originals w)%nat.
Proof.
  unfold step. destruct (releasing w (ev_base e)) as [[[i it] [|]]|] eqn:R; [| cbn; lia | apply originals_core].
  pose proof (originals_core (release w i it) e) as H. rewrite (originals_release w i it (releasing_live _ _ _ _ _ R)) in H. exact H.
Qed.

(* teardown order: what the Drop of a lent value records while the original's value chain is released is part of the verdict *)
Theorem release_errors_reported w i it e es :
  live_inst w i = Some it -> i_calls it <> [] -> i_original it = true -> i_panicked it = false ->
  i_torn it = false -> i_vid it = true -> count_after_release (w_insts w) it = 1 ->
  errs (w_state (release w i it)) = e :: es ->
  snd (step w {| ev_ctx := here; ev_base := BDrop i |}) = ("P:" ++ verdict_text hinfo (e :: es))%string /\
  snd (step w {| ev_ctx := here; ev_base := BVerify i |}) = ("P:" ++ verdict_text hinfo (e :: es))%string.
Proof.
  intros Hl Hc Ho Hp Ht Hv Hcnt He.
  assert (Hcount : count_after_release (w_insts (release w i it)) (clear_calls it) = 1).
  { pose proof Hl as Hl'. apply live_inst_nth in Hl' as [Hn _]. unfold release. destruct (fold_left _ _ _) as [s ar].
    unfold set_insts. cbn [w_insts]. unfold count_after_release in *.
    pose proof (strong_count_upd (w_insts w) i it (clear_calls it) Hn) as Hs.
    assert (handles (clear_calls it) = handles it) as Hh by reflexivity. rewrite Hh in *. lia. }
  assert (Hbc : w_bc (release w i it) = w_bc w /\ w_cfg (release w i it) = w_cfg w).
  { unfold release. destruct (fold_left _ _ _) as [s ar]. split; reflexivity. }
  destruct Hbc as [Hbc Hcfg].
  pose proof (recorded_errors_fail hinfo (w_bc w) (w_cfg w) (w_state (release w i it)) (clear_calls it) e es He Ho Hp) as [_ Htd].
  unfold step, releasing. cbn [ev_base ev_ctx]. rewrite Hl. destruct (i_calls it) as [|c cs]; [contradiction|].
  unfold step_core. cbn [ev_base ev_ctx]. rewrite (live_inst_release w i it Hl). cbn [x_unwinding here].
  unfold drop_panic. cbn [clear_calls i_torn i_vid i_original]. rewrite Ht, Hv, Ho. cbn [negb].
  fold (clear_calls it). rewrite Hcount, Hbc, Hcfg, Htd, He. split; reflexivity.
Qed.

Theorem originals_run es : forall w, (originals (fold_left (fun w e => fst (step w e)) es w) <= originals w)%nat.
Proof.
  induction es as [|e es IH]; intros w; cbn; [lia|].
  specialize (IH (fst (step w e))). pose proof (originals_never_increase w e). lia.
Qed.

(* a consuming event on the live original leaves no live original behind *)
Theorem original_consumed w i it :
  originals w = 1%nat -> nth_opt (w_insts w) i = Some it -> is_live_original it = true ->
  originals (kill w i it) = 0%nat.
Proof. intros H1 Hn Ho. rewrite (originals_kill w i it Hn), Ho, H1. reflexivity. Qed.

(* a dead instance is never used again: every event on it is refused, nothing changes *)
Theorem dead_instance_inert w x b :
  (forall i, match b with
             | BCall j _ _ | BCallOwn j _ _ | BCallD j _ _ => j = i | BClone j | BDrop j | BVerify j | BNvid j | BReport j
             | BLend j | BCount j => j = i | BCloneFrom j _ => j = i | BLendCall j _ _ | BCallM j _ _ => j = i | BArm _ | BLive => False end ->
             live_inst w i = None) ->
  (match b with BArm _ | BLive => False | _ => True end) ->
  step w {| ev_ctx := x; ev_base := b |} = (w, "invalid"%string).
Proof.
  intros H Hb. unfold step, step_core, releasing. cbn [ev_base ev_ctx].
  destruct b as [i m a|i|i|i|i|i|i|i|i m a|n| |i m a|i j|i m a|i m a]; try contradiction; try now rewrite (H i eq_refl).
  rewrite (H i eq_refl). destruct (Nat.eqb i j); [reflexivity|]. destruct (live_inst w j); reflexivity.
Qed.

(* Unimock.Proofs.C03 -- verification fails exactly when an expectation is
   unmet, and names each one. *)
From Unimock Require Import Model.Lifecycle Spec.Chain Proofs.Core Proofs.C02.
Open Scope N_scope.

Section C03.
Variable info : N -> minfo.
Notation verify_counter := (verify_counter info).
Notation verify_pats := (verify_pats info).
Notation verify_mocker := (verify_mocker info).
Notation verify_all := (verify_all info).
Notation verdict := (verdict info).

(* a counter line appears iff the documented expectation is violated *)
Theorem verify_counter_iff m pd e actual :
  verify_counter m pd e actual = None <-> expect_holds (expect_of e) actual = true.
Proof.
  unfold Verify.verify_counter, expect_of, lower_bound, expect_holds.
  destruct (e_ex e).
  - destruct (N.eqb_spec actual (e_min e)); split; intros Hx; congruence.
  - destruct (N.ltb_spec actual (e_min e)), (N.leb_spec (e_min e) actual); split; intros Hx; try congruence; lia.
  - destruct (N.ltb_spec actual (e_min e + 1)), (N.leb_spec (e_min e + 1) actual); split; intros Hx; try congruence; lia.
Qed.

Definition pd_of (m : N) (i : nat) (p : pattern) : pat_debug :=
  {| pd_mid := m; pd_loc := match p_dbg p with Some d => LocDebug d | None => LocIndex i end |}.

Definition opt_list {X} (o : option X) : list X := match o with Some x => [x] | None => [] end.

(* the lines of one method: one per violated pattern, in pattern order *)
Fixpoint pattern_lines (m : N) (c : nat -> N) (ps : list pattern) (i : nat) : list mock_error :=
  match ps with
  | [] => []
  | p :: ps' => (opt_list (verify_counter m (pd_of m i p) (p_exp p) (c i)) ++ pattern_lines m c ps' (S i))%list
  end.

Fixpoint total_calls (c : nat -> N) (n i : nat) : N :=
  match n with O => 0 | S n' => c i + total_calls c n' (S i) end.

Lemma verify_pats_spec m c ps : forall i,
  verify_pats m c ps i = (pattern_lines m c ps i, total_calls c (length ps) i).
Proof.
  induction ps as [|p ps IH]; intros i; cbn [Verify.verify_pats pattern_lines total_calls length]; [reflexivity|].
  rewrite IH. fold (pd_of m i p). destruct (verify_counter m (pd_of m i p) (p_exp p) (c i)); reflexivity.
Qed.

Theorem verify_mocker_spec s m mk :
  verify_mocker s m mk =
  (pattern_lines m (cnt s m) (m_pats mk) 0 ++
   (if total_calls (cnt s m) (length (m_pats mk)) 0 =? 0 then [EMockNeverCalled m] else []))%list.
Proof.
  unfold Verify.verify_mocker. rewrite verify_pats_spec.
  destruct (total_calls _ _ _ =? 0); [reflexivity|now rewrite app_nil_r].
Qed.

Lemma pattern_lines_nil m c ps : forall i,
  pattern_lines m c ps i = [] <->
  (forall j p, nth_opt ps j = Some p -> expect_holds (expect_of (p_exp p)) (c (i + j)%nat) = true).
Proof.
  induction ps as [|p ps IH]; intros i; cbn [pattern_lines].
  - split; [intros _ [|j] q H; discriminate|reflexivity].
  - split.
    + intros H. apply app_eq_nil in H as [H1 H2].
      assert (Hv : verify_counter m (pd_of m i p) (p_exp p) (c i) = None).
      { destruct (verify_counter m (pd_of m i p) (p_exp p) (c i)); [discriminate|reflexivity]. }
      intros [|j] q Hq; cbn in Hq.
      * injection Hq as <-. rewrite Nat.add_0_r. now apply verify_counter_iff in Hv.
      * replace (i + S j)%nat with (S i + j)%nat by lia. now apply (proj1 (IH (S i)) H2).
    + intros H. pose proof (H 0%nat p eq_refl) as H0. rewrite Nat.add_0_r in H0.
      apply verify_counter_iff with (m := m) (pd := pd_of m i p) in H0. rewrite H0. cbn [opt_list app].
      apply IH. intros j q Hq. replace (S i + j)%nat with (i + S j)%nat by lia. now apply H.
Qed.

(* a method is judged satisfied iff every pattern holds and it was matched at all *)
Definition mocker_ok (s : state) (m : N) (mk : mocker) : Prop :=
  (forall j p, nth_opt (m_pats mk) j = Some p -> expect_holds (expect_of (p_exp p)) (cnt s m j) = true) /\
  total_calls (cnt s m) (length (m_pats mk)) 0 <> 0.

Theorem verify_mocker_silent_iff s m mk : verify_mocker s m mk = [] <-> mocker_ok s m mk.
Proof.
  rewrite verify_mocker_spec. unfold mocker_ok. split.
  - intros H. apply app_eq_nil in H as [H1 H2]. split.
    + intros j p Hp. exact (proj1 (pattern_lines_nil m (cnt s m) (m_pats mk) 0) H1 j p Hp).
    + destruct (N.eqb_spec (total_calls (cnt s m) (length (m_pats mk)) 0) 0); [discriminate|assumption].
  - intros [H1 H2]. rewrite (proj2 (pattern_lines_nil m (cnt s m) (m_pats mk) 0) H1).
    destruct (N.eqb_spec (total_calls (cnt s m) (length (m_pats mk)) 0) 0); [contradiction|reflexivity].
Qed.

(* the whole verdict, after a history without mock-induced panics *)
Theorem verdict_silent_iff cfg s :
  errs s = [] ->
  (verdict cfg s = [] <-> forall m mk, In (m, mk) (c_table cfg) -> mocker_ok s m mk).
Proof.
  intros He. unfold Verify.verdict. rewrite He. unfold Verify.verify_all.
  induction (c_table cfg) as [|[m mk] tb IH]; cbn [flat_map].
  - split; [intros _ m mk []|reflexivity].
  - split.
    + intros H. apply app_eq_nil in H as [H1 H2]. intros m' mk' [Heq|Hin].
      * injection Heq as <- <-. now apply verify_mocker_silent_iff.
      * now apply (proj1 IH H2).
    + intros H. rewrite (proj2 (verify_mocker_silent_iff s m mk) (H m mk (or_introl eq_refl))).
      apply IH. intros m' mk' Hin. apply H. now right.
Qed.

(* exactly one line per violated expectation (as lists, in table order) *)
Theorem verdict_lines cfg s :
  errs s = [] ->
  verdict cfg s =
  flat_map (fun '(m, mk) =>
    (pattern_lines m (cnt s m) (m_pats mk) 0 ++
     (if total_calls (cnt s m) (length (m_pats mk)) 0 =? 0 then [EMockNeverCalled m] else []))%list)
    (c_table cfg).
Proof.
  intros He. unfold Verify.verdict. rewrite He. unfold Verify.verify_all.
  induction (c_table cfg) as [|[m mk] tb IH]; cbn [flat_map]; [reflexivity|].
  now rewrite IH, verify_mocker_spec.
Qed.

(* each pattern line names the method path and the pattern *)
Theorem counter_line_names m pd e actual err :
  verify_counter m pd e actual = Some err ->
  exists pre post, render_error info err = (path_str (info m) ++ pre ++ render_pat info pd ++ post)%string.
Proof.
  unfold Verify.verify_counter. destruct (e_ex e).
  - destruct (actual =? lower_bound e); [discriminate|]. intros [= <-]. cbn [render_error].
    eexists ": Expected "%string, _. reflexivity.
  - destruct (actual <? lower_bound e); [|discriminate]. intros [= <-]. cbn [render_error].
    eexists ": Expected "%string, _. reflexivity.
  - destruct (actual <? lower_bound e); [|discriminate]. intros [= <-]. cbn [render_error].
    eexists ": Expected "%string, _. reflexivity.
Qed.

Theorem never_called_names m :
  render_error info (EMockNeverCalled m) =
  ("Mock for " ++ path_str (info m) ++ " was never called. Dead mocks should be removed.")%string.
Proof. reflexivity. Qed.

(* drop / verify() / report() of the original, in the situation the property
   talks about: not unwinding, no clone alive, creator thread *)
Theorem teardown_original_verdict bc cfg s i :
  i_original i = true -> i_panicked i = false ->
  teardown info bc cfg s here i 1 =
  match verdict cfg s with [] => TdOk | es => TdErrs es end.
Proof.
  intros Ho Hp. unfold teardown, here. rewrite Ho, Hp. cbn. rewrite !andb_false_r. reflexivity.
Qed.

End C03.

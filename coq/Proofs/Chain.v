(* Unimock.Proofs.Chain -- C13: lent references stay valid, distinct and unmodified. *)
From Unimock Require Import Model.Chain.
From Coq Require Import Permutation.

Lemma nth_opt_app_l {X} (l1 l2 : list X) : forall i, (i < length l1)%nat -> nth_opt (l1 ++ l2) i = nth_opt l1 i.
Proof. induction l1 as [|h t IH]; intros [|i] H; cbn in *; try lia; [reflexivity|apply IH; lia]. Qed.

Lemma nth_opt_app_r {X} (l1 l2 : list X) : nth_opt (l1 ++ l2) (length l1) = nth_opt l2 0.
Proof. induction l1 as [|h t IH]; cbn; [reflexivity|exact IH]. Qed.

Lemma nth_opt_lt {X} (l : list X) : forall i x, nth_opt l i = Some x -> (i < length l)%nat.
Proof. induction l as [|h t IH]; intros [|i] x H; cbn in *; try discriminate; [lia|]. apply IH in H. lia. Qed.

Lemma NoDup_app_snoc {X} (l : list X) x : NoDup l -> ~ In x l -> NoDup (l ++ [x]).
Proof.
  induction 1 as [|y l Hy Hnd IH]; intros Hx; cbn.
  - constructor; [intros []|constructor].
  - constructor.
    + intros Hin. apply in_app_or in Hin as [Hin|[<-|[]]]; [contradiction|]. apply Hx. now left.
    + apply IH. intros Hin. apply Hx. now right.
Qed.

(* ---- sequential ---- *)
Theorem push_returns_own_value c v : get (fst (push c v)) (snd (push c v)) = Some v.
Proof. unfold get, push. cbn. now rewrite nth_opt_app_r. Qed.

Theorem push_keeps_earlier c v i x : get c i = Some x -> get (fst (push c v)) i = Some x.
Proof. unfold get, push. cbn. intros H. rewrite nth_opt_app_l; [exact H|]. eapply nth_opt_lt; eauto. Qed.

Definition pushes (c : vchain) (vs : list lval) : vchain := fold_left (fun c v => fst (push c v)) vs c.

Theorem pushes_keep_earlier vs : forall c i x, get c i = Some x -> get (pushes c vs) i = Some x.
Proof.
  induction vs as [|v vs IH]; intros c i x H; cbn; [exact H|]. apply IH. now apply push_keeps_earlier.
Qed.

Theorem push_index_fresh c v : snd (push c v) = length (cells c) /\ get c (snd (push c v)) = None.
Proof.
  split; [reflexivity|]. unfold get. cbn. destruct (nth_opt (cells c) (length (cells c))) eqn:E; [|reflexivity].
  apply nth_opt_lt in E. lia.
Qed.

(* nothing is dropped by a push; make_mut and drop release every value exactly once *)
Definition all_values (c : vchain) : list lval := (released c ++ cells c)%list.

Theorem push_conserves c v : released (fst (push c v)) = released c /\ all_values (fst (push c v)) = (all_values c ++ [v])%list.
Proof. unfold all_values, push. cbn. split; [reflexivity|now rewrite app_assoc]. Qed.

Theorem push_mut_conserves c v :
  released (fst (push_mut c v)) = all_values c /\ cells (fst (push_mut c v)) = [v].
Proof. split; reflexivity. Qed.

Theorem drop_releases_all c : cells (drop_chain c) = [] /\ released (drop_chain c) = all_values c.
Proof. split; reflexivity. Qed.

(* ---- concurrent pushes: invariants over ALL schedules ---- *)
Definition got_all (ps : list pusher) : list (nat * lval) := flat_map p_got ps.

Definition chain_inv (st : list lval * list pusher) : Prop :=
  let '(cs, ps) := st in
  (forall i v, In (i, v) (got_all ps) -> nth_opt cs i = Some v) /\      (* every reference still shows its own value *)
  NoDup (map fst (got_all ps)) /\                                        (* no two references share a cell *)
  Permutation cs (map snd (got_all ps)).                                 (* nothing lost, nothing invented *)

Lemma got_all_updp ps : forall tid p p' new,
  nth_opt ps tid = Some p -> p_got p' = (p_got p ++ new)%list ->
  Permutation (got_all (updp ps tid p')) (got_all ps ++ new).
Proof.
  induction ps as [|h t IH]; intros [|tid] p p' new Hn Hg; cbn in Hn; try discriminate.
  - injection Hn as ->. cbn [updp]. unfold got_all. cbn [flat_map]. rewrite Hg, <- !app_assoc.
    apply Permutation_app_head, Permutation_app_comm.
  - cbn [updp]. unfold got_all. cbn [flat_map]. rewrite <- app_assoc. apply Permutation_app_head.
    exact (IH tid p p' new Hn Hg).
Qed.

Lemma pstep_spec cs p :
  (exists v rest, p_todo p = v :: rest /\ p_cur p = length cs /\
     fst (fst (pstep cs p)) = (cs ++ [v])%list /\ p_got (snd (fst (pstep cs p))) = (p_got p ++ [(length cs, v)])%list) \/
  (fst (fst (pstep cs p)) = cs /\ p_got (snd (fst (pstep cs p))) = p_got p).
Proof.
  unfold pstep. destruct (p_todo p) as [|v rest] eqn:Ht; [right; split; reflexivity|].
  destruct (Nat.eqb_spec (p_cur p) (length cs)) as [E|E]; cbn.
  - left. exists v, rest. rewrite E. repeat split; reflexivity.
  - right. split; reflexivity.
Qed.

Theorem chain_inv_step cs ps tid p :
  chain_inv (cs, ps) -> nth_opt ps tid = Some p ->
  chain_inv (fst (fst (pstep cs p)), updp ps tid (snd (fst (pstep cs p)))).
Proof.
  intros (Hval & Hnd & Hperm) Hn.
  destruct (pstep_spec cs p) as [(v & rest & Ht & Hc & Hcs & Hg)|[Hcs Hg]]; rewrite Hcs.
  - pose proof (got_all_updp ps tid p _ [(length cs, v)] Hn Hg) as HP.
    assert (Hlt : forall i w, In (i, w) (got_all ps) -> (i < length cs)%nat).
    { intros i w Hin. eapply nth_opt_lt. exact (Hval i w Hin). }
    split; [|split].
    + intros i w Hin. apply (Permutation_in _ HP) in Hin. apply in_app_or in Hin as [Hin|[Heq|[]]].
      * rewrite nth_opt_app_l; [now apply Hval|now apply (Hlt i w)].
      * injection Heq as <- <-. now rewrite nth_opt_app_r.
    + apply (Permutation_NoDup (l := map fst (got_all ps ++ [(length cs, v)]))).
      * apply Permutation_map, Permutation_sym, HP.
      * rewrite map_app. cbn. apply NoDup_app_snoc; [exact Hnd|].
        intros Hin. apply in_map_iff in Hin as ([i w] & Hi & Hin). cbn in Hi. subst i. apply Hlt in Hin. lia.
    + eapply Permutation_trans; [|apply Permutation_map, Permutation_sym, HP].
      rewrite map_app. cbn. now apply Permutation_app_tail.
  - pose proof (got_all_updp ps tid p _ [] Hn (eq_trans Hg (eq_sym (app_nil_r _)))) as HP. rewrite app_nil_r in HP.
    split; [|split].
    + intros i w Hin. apply Hval. now apply (Permutation_in _ HP).
    + apply (Permutation_NoDup (l := map fst (got_all ps))); [apply Permutation_map, Permutation_sym, HP|exact Hnd].
    + eapply Permutation_trans; [exact Hperm|apply Permutation_map, Permutation_sym, HP].
Qed.

Theorem chain_inv_holds sched vss : chain_inv (run_pushers sched ([], map new_pusher vss)).
Proof.
  assert (G : forall sched st, chain_inv st -> chain_inv (run_pushers sched st)).
  { induction sched0 as [|tid sched0 IH]; intros st H; cbn; [exact H|]. apply IH.
    destruct st as [cs ps]. unfold cstep. destruct (nth_opt ps tid) as [p|] eqn:Hn; [|exact H].
    pose proof (chain_inv_step cs ps tid p H Hn) as S. destruct (pstep cs p) as [[cs' p'] o]. exact S. }
  apply G. cbn. assert (E : got_all (map new_pusher vss) = []).
  { induction vss as [|vs vss IH]; [reflexivity|]. unfold got_all in *. cbn. exact IH. }
  rewrite E. split; [intros i v []|]. split; [constructor|constructor].
Qed.

(* the chain only grows: a reference obtained at any time keeps showing its value after any further steps *)
Lemma cstep_appends cs ps tid : exists e, fst (cstep (cs, ps) tid) = (cs ++ e)%list.
Proof.
  unfold cstep. destruct (nth_opt ps tid) as [p|]; [|exists []; cbn; now rewrite app_nil_r].
  destruct (pstep_spec cs p) as [(v & rest & _ & _ & Hcs & _)|[Hcs _]];
    destruct (pstep cs p) as [[cs' p'] o]; cbn [fst snd] in *; subst cs'.
  - now exists [v].
  - exists []. now rewrite app_nil_r.
Qed.

Theorem pushers_only_append sched : forall cs ps, exists ext, fst (run_pushers sched (cs, ps)) = (cs ++ ext)%list.
Proof.
  induction sched as [|tid sched IH]; intros cs ps; cbn [run_pushers fold_left].
  - exists []. cbn. now rewrite app_nil_r.
  - destruct (cstep_appends cs ps tid) as [e He]. destruct (cstep (cs, ps) tid) as [cs' ps']. cbn [fst] in He. subst cs'.
    destruct (IH (cs ++ e)%list ps') as [ext E]. exists (e ++ ext)%list. unfold run_pushers in E. now rewrite E, <- app_assoc.
Qed.

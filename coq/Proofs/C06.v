(* Unimock.Proofs.C06 -- lemmas behind Props/C06.v *)
From Unimock Require Import Model.Base Macro.RustPat Macro.Matching Spec.RustMatch.

(* ---------- values ---------- *)

Lemma view_idem : forall v, view (view v) = view v.
Proof. destruct v; reflexivity. Qed.

Lemma view_coerce : forall k v, view (coerce k v) = view v.
Proof. destruct k, v; reflexivity. Qed.

Lemma coerce_plainly : forall k v, plainly k v = true -> coerce k v = view v.
Proof. destruct k, v as [| |[]|[]| |]; simpl; intros H; try reflexivity; discriminate. Qed.

Lemma veqb_view : forall v o, veqb (view v) o = veqb v o.
Proof. destruct v; reflexivity. Qed.

Lemma vcmp_view : forall ne v o, vcmp ne (view v) o = vcmp ne v o.
Proof. intros ne v o. destruct v; reflexivity. Qed.

(* ---------- patterns that do not look inside strings ---------- *)

Lemma match_first_ext : forall (f g : pat -> value -> option env) ps v,
  Forall (fun p => f p v = g p v) ps -> match_first f ps v = match_first g ps v.
Proof. induction 1; simpl; [reflexivity|]. rewrite H, IHForall. reflexivity. Qed.

Lemma pmatch_lit_free : forall p v, lit_free p = true -> pmatch p v = pmatch p (view v).
Proof.
  fix IH 1. intros p v H. destruct p; simpl in *; try discriminate;
    try (rewrite view_idem; reflexivity); try (destruct v; reflexivity).
  - rewrite view_idem, (IH p v H). reflexivity.
  - (* POr *)
    revert H. induction ps as [|q qs IHq]; simpl; intros H; [reflexivity|].
    apply andb_true_iff in H. destruct H as [H1 H2].
    rewrite (IH q v H1), (IHq H2). reflexivity.
  - apply IH, H.
Qed.

(* ---------- environments ---------- *)

Lemma mlookup_app : forall x a b,
  mlookup x (a ++ b)%list = match mlookup x a with Some v => Some v | None => mlookup x b end.
Proof. induction a as [|[y v] a IH]; simpl; intros; [reflexivity|]. destruct (ident_eqb x y); auto. Qed.

Lemma lookup_app : forall x a b,
  lookup x (a ++ b)%list = match lookup x a with Some v => Some v | None => lookup x b end.
Proof. induction a as [|[y v] a IH]; simpl; intros; [reflexivity|]. destruct (String.eqb x y); auto. Qed.

Lemma mlookup_tag_U : forall x e, mlookup (U x) (tag_user e) = lookup x e.
Proof. induction e as [|[y v] e IH]; simpl; [reflexivity|]. rewrite IH. reflexivity. Qed.

Lemma mlookup_tag_M : forall i e, mlookup (M i) (tag_user e) = None.
Proof. induction e as [|[y v] e IH]; simpl; auto. Qed.

(* ---------- guards ---------- *)

Lemma beval_ext : forall A (f g : A -> bool) b, (forall a, f a = g a) -> beval f b = beval g b.
Proof. induction b; simpl; intros; auto; try (rewrite IHb by auto; reflexivity); rewrite IHb1, IHb2 by auto; reflexivity. Qed.

Lemma beval_bmap : forall A B (f : A -> B) (ev : B -> bool) b, beval ev (bmap f b) = beval (fun a => ev (f a)) b.
Proof. induction b; simpl; auto; try (rewrite IHb; reflexivity); rewrite IHb1, IHb2; reflexivity. Qed.

Lemma uatom_eval_ext : forall l1 l2 a, (forall x, l1 x = l2 x) -> uatom_eval l1 a = uatom_eval l2 a.
Proof.
  intros l1 l2 a H. assert (O : forall o, operand_z l1 o = operand_z l2 o) by (destruct o; simpl; rewrite ?H; reflexivity).
  destruct a; simpl; rewrite ?H, ?O; reflexivity.
Qed.

(* joining with && is conjunction as long as the left stream is not a bare `||` *)
Lemma fold_concat_and : forall A (ev : A -> bool) ls acc,
  is_or acc = false ->
  beval ev (fold_left concat_and ls acc) = beval ev acc && forallb (beval ev) ls.
Proof.
  induction ls as [|l ls IH]; simpl; intros acc H.
  - rewrite andb_true_r. reflexivity.
  - assert (E : concat_and acc l = BAnd acc l) by (destruct acc; try reflexivity; discriminate).
    rewrite E, IH by reflexivity. simpl. rewrite andb_assoc. reflexivity.
Qed.

(* ... and it is NOT conjunction otherwise: the F3 mechanism, for any guards *)
Lemma concat_and_or : forall A (ev : A -> bool) x y c,
  beval ev (concat_and (BOr x y) c) = beval ev x || beval ev (concat_and y c).
Proof. reflexivity. Qed.

(* ---------- local definitions: l<k> counters never collide ---------- *)

Definition defs_of (ms : list arg_matcher) : list (nat * value) :=
  flat_map (fun m => match m with AMCompare _ _ k o => [(k, o)] | _ => [] end) ms.

Lemma arg_matchers_not_cmp : forall i c p ps, is_cmp p = false ->
  arg_matchers i c (p :: ps) = let (ms, c') := arg_matchers (S i) c ps in (AMPattern p :: ms, c').
Proof. intros. destruct p; try reflexivity; discriminate. Qed.

Lemma arg_matchers_keys : forall ps i c,
  c <= snd (arg_matchers i c ps) /\
  map fst (defs_of (fst (arg_matchers i c ps))) = seq c (snd (arg_matchers i c ps) - c).
Proof.
  induction ps as [|p ps IH]; intros i c.
  - simpl. rewrite Nat.sub_diag. split; [lia|reflexivity].
  - destruct (is_cmp p) eqn:E.
    + destruct p; try discriminate. simpl.
      specialize (IH (S i) (S c)). destruct (arg_matchers (S i) (S c) ps) as [ms c'] eqn:Em. simpl in *.
      destruct IH as [L K]. split; [lia|]. rewrite K.
      replace (c' - c) with (S (c' - S c)) by lia. reflexivity.
    + rewrite arg_matchers_not_cmp by exact E.
      specialize (IH (S i) c). destruct (arg_matchers (S i) c ps) as [ms c'] eqn:Em. simpl in *. exact IH.
Qed.

Lemma arg_matchers_length : forall ps i c, length (fst (arg_matchers i c ps)) = length ps.
Proof.
  induction ps as [|p ps IH]; intros i c; [reflexivity|].
  destruct (is_cmp p) eqn:E.
  - destruct p; try discriminate. simpl. specialize (IH (S i) (S c)).
    destruct (arg_matchers (S i) (S c) ps). simpl in *. congruence.
  - rewrite arg_matchers_not_cmp by exact E. specialize (IH (S i) c).
    destruct (arg_matchers (S i) c ps). simpl in *. congruence.
Qed.

Lemma local_defs_cons : forall ms rest, local_defs (ms :: rest) = (defs_of ms ++ local_defs rest)%list.
Proof. reflexivity. Qed.

Lemma all_matchers_keys : forall alts c, exists n, map fst (local_defs (all_matchers c alts)) = seq c n.
Proof.
  induction alts as [|ps alts IH]; intros c; cbn [all_matchers].
  - exists 0. reflexivity.
  - pose proof (arg_matchers_keys ps 0 c) as [L K].
    destruct (arg_matchers 0 c ps) as [ms c'] eqn:E. simpl in *.
    destruct (IH c') as [n Hn]. exists ((c' - c) + n).
    fold (defs_of ms). rewrite map_app, K, Hn, seq_app. replace (c + (c' - c)) with c' by lia. reflexivity.
Qed.

Lemma local_value_none : forall k defs, ~ In k (map fst defs) -> local_value k defs = None.
Proof.
  induction defs as [|[j v] defs IH]; simpl; intros H; [reflexivity|].
  rewrite IH by tauto. destruct (Nat.eqb_spec j k); [exfalso; tauto|reflexivity].
Qed.

Lemma local_value_in : forall k o defs, NoDup (map fst defs) -> In (k, o) defs -> local_value k defs = Some o.
Proof.
  induction defs as [|[j v] defs IH]; simpl; intros ND H; [tauto|].
  inversion ND; subst. destruct H as [H|H].
  - inversion H; subst. rewrite local_value_none by assumption. rewrite Nat.eqb_refl. reflexivity.
  - rewrite (IH H3 H). reflexivity.
Qed.

Lemma in_defs_of : forall ne i k o ms, In (AMCompare ne i k o) ms -> In (k, o) (defs_of ms).
Proof.
  intros. unfold defs_of. apply in_flat_map. eexists. split; [eassumption|]. simpl. auto.
Qed.

(* ---------- one alternative ---------- *)

Inductive pos_ok : list pat -> list value -> list value -> Prop :=
| pos_nil : pos_ok [] [] []
| pos_cons : forall p ps v vs cv cvs,
    view cv = view v ->
    (is_cmp p = false -> pmatch p cv = pmatch p (view v)) ->
    pos_ok ps vs cvs -> pos_ok (p :: ps) (v :: vs) (cv :: cvs).

Lemma coerced_ok_pos_ok : forall ks ps vs, coerced_ok ks ps vs = true -> pos_ok ps vs (coerce_all ks vs).
Proof.
  induction ks as [|k ks IH]; intros ps vs H.
  - destruct ps, vs; try discriminate. constructor.
  - destruct ps as [|p ps], vs as [|v vs]; try discriminate. simpl in H.
    apply andb_true_iff in H. destruct H as [H1 H2]. simpl. constructor; [apply view_coerce| |apply IH, H2].
    intros NC. rewrite NC in H1. simpl in H1. apply orb_true_iff in H1. destruct H1 as [H1|H1].
    + rewrite coerce_plainly by exact H1. reflexivity.
    + rewrite (pmatch_lit_free p (coerce k v) H1), view_coerce. reflexivity.
Qed.

Lemma not_cmp_bindings : forall p v, is_cmp p = false -> pos_bindings p v = pmatch p (view v) /\ pos_compare p v = true.
Proof. destruct p; simpl; intros; try discriminate; split; reflexivity. Qed.

Lemma alt_match : forall ps vs cvs, pos_ok ps vs cvs -> forall i c locals,
  (forall ne idx k o, In (AMCompare ne idx k o) (fst (arg_matchers i c ps)) -> local_value k locals = Some o) ->
  match match_all pos_bindings ps vs with
  | None => matchers_match (fst (arg_matchers i c ps)) cvs = None
  | Some e =>
      exists em, matchers_match (fst (arg_matchers i c ps)) cvs = Some em /\
        (forall x, mlookup (U x) em = lookup x e) /\
        (forall pre, (forall idx, i <= idx -> mlookup (M idx) pre = None) ->
           forallb (beval (matom_eval locals (pre ++ em)%list)) (local_guards (fst (arg_matchers i c ps)))
           = compares_hold ps vs)
  end.
Proof.
  induction 1 as [|p ps v vs cv cvs HV HP HR IH]; intros i c locals HL.
  - simpl. exists []. repeat split; reflexivity.
  - destruct (is_cmp p) eqn:E.
    + (* eq!/ne! *)
      destruct p; try discriminate. clear HP.
      assert (HL' : forall ne0 idx k o, In (AMCompare ne0 idx k o) (fst (arg_matchers (S i) (S c) ps)) -> local_value k locals = Some o).
      { intros ne0 idx k o HI. apply (HL ne0 idx k o). simpl.
        destruct (arg_matchers (S i) (S c) ps). simpl in *. right. exact HI. }
      assert (H0 : local_value c locals = Some operand).
      { apply (HL ne i c operand). simpl. destruct (arg_matchers (S i) (S c) ps). simpl. left. reflexivity. }
      specialize (IH (S i) (S c) locals HL').
      cbn [match_all pos_bindings arg_matchers].
      destruct (arg_matchers (S i) (S c) ps) as [ms c'] eqn:Em. cbn [fst] in *.
      cbn [matchers_match matcher_match].
      destruct (match_all pos_bindings ps vs) as [e|].
      * destruct IH as [em [M1 [M2 M3]]]. rewrite M1. exists ((M i, view cv) :: em). split; [reflexivity|]. split.
        -- intros x. simpl. apply M2.
        -- intros pre Hpre. cbn [local_guards flat_map app forallb beval matom_eval compares_hold pos_compare].
           rewrite mlookup_app, (Hpre i (le_n i)). cbn [mlookup ident_eqb]. rewrite Nat.eqb_refl, H0, HV, vcmp_view.
           f_equal.
           replace (pre ++ (M i, view v) :: em)%list with ((pre ++ [(M i, view v)]) ++ em)%list
             by (rewrite <- app_assoc; reflexivity).
           apply M3. intros idx Hi. rewrite mlookup_app, (Hpre idx) by lia. simpl.
           destruct (Nat.eqb_spec idx i); [lia|reflexivity].
      * rewrite IH. reflexivity.
    + specialize (HP eq_refl). destruct (not_cmp_bindings p v E) as [B1 B2].
      rewrite arg_matchers_not_cmp by exact E.
      assert (HL' : forall ne0 idx k o, In (AMCompare ne0 idx k o) (fst (arg_matchers (S i) c ps)) -> local_value k locals = Some o).
      { intros ne0 idx k o HI. apply (HL ne0 idx k o). rewrite arg_matchers_not_cmp by exact E.
        destruct (arg_matchers (S i) c ps). simpl in *. right. exact HI. }
      specialize (IH (S i) c locals HL').
      cbn [match_all compares_hold]. rewrite B1, B2.
      destruct (arg_matchers (S i) c ps) as [ms c'] eqn:Em. cbn [fst] in *.
      cbn [matchers_match matcher_match]. rewrite HP.
      destruct (pmatch p (view v)) as [e1|]; cbn [option_map]; [|destruct (match_all pos_bindings ps vs); reflexivity].
      destruct (match_all pos_bindings ps vs) as [e|].
      * destruct IH as [em [M1 [M2 M3]]]. rewrite M1. exists (tag_user e1 ++ em)%list. split; [reflexivity|]. split.
        -- intros x. rewrite mlookup_app, lookup_app, mlookup_tag_U, M2. reflexivity.
        -- intros pre Hpre. cbn [local_guards flat_map app andb].
           rewrite app_assoc. apply M3. intros idx Hi.
           rewrite mlookup_app, (Hpre idx) by lia. apply mlookup_tag_M.
      * rewrite IH. reflexivity.
Qed.

Lemma pos_ok_length : forall ps vs cvs, pos_ok ps vs cvs -> length ps = length cvs.
Proof. induction 1; simpl; congruence. Qed.

(* single- versus multi-argument packing *)
Lemma packed_is_positional : forall ms vs, length ms = length vs -> packed_match ms vs = matchers_match ms vs.
Proof.
  intros ms vs H. destruct ms as [|m [|m' ms]], vs as [|v [|v' vs]]; try discriminate; try reflexivity.
  simpl. destruct (matcher_match m v); [rewrite app_nil_r|]; reflexivity.
Qed.

(* whether a success arm fires: no reference to the reporter *)
Definition arm_fires (gg : list (bexp matom)) (locals : list (nat * value)) (cvs : list value) (ms : list arg_matcher) : bool :=
  match packed_match ms cvs with
  | None => false
  | Some e => match join_guards (gg ++ local_guards ms)%list with
              | Some g => beval (matom_eval locals e) g
              | None => true
              end
  end.

Lemma run_success_arms : forall gg locals cvs en mss tail,
  fst (run_arms (map (success_arm gg) mss ++ tail)%list en locals cvs)
  = existsb (arm_fires gg locals cvs) mss || fst (run_arms tail en locals cvs).
Proof.
  induction mss as [|ms mss IH]; intros tail; [reflexivity|].
  cbn [map app run_arms success_arm arm_wild arm_elems arm_guard_ arm_body_ existsb]. unfold arm_fires at 1.
  destruct (packed_match ms cvs) as [e|]; [|apply IH].
  destruct (join_guards (gg ++ local_guards ms)%list) as [g|].
  - destruct (beval (matom_eval locals e) g); [reflexivity|apply IH].
  - reflexivity.
Qed.

Lemma tail_rejects : forall diag en locals cvs,
  fst (run_arms ((match diag with Some m => [diagnostics_arm m] | None => [] end) ++ [catch_all])%list en locals cvs) = false.
Proof.
  intros [m|] en locals cvs; simpl; [|reflexivity].
  destruct en; simpl; [|reflexivity]. destruct (last (map Some m) None); reflexivity.
Qed.

Lemma generate_arms : forall a alts g,
  generate (a :: alts, g) =
  CMatch (analyze_args (a :: alts)) (local_defs (all_matchers 0 (a :: alts)))
    (map (success_arm (match g with Some g => [BParen (bmap MUser g)] | None => [] end)) (all_matchers 0 (a :: alts))
     ++ (match (match g with None => Some (all_matchers 0 (a :: alts)) | Some _ => None end) with
         | Some m => [diagnostics_arm m] | None => [] end) ++ [catch_all])%list.
Proof. intros. destruct g; reflexivity. Qed.

Lemma accepts_existsb : forall a alts g en args,
  accepts (a :: alts, g) en args =
  existsb (arm_fires (match g with Some g => [BParen (bmap MUser g)] | None => [] end)
                     (local_defs (all_matchers 0 (a :: alts))) (coerce_all (analyze_args (a :: alts)) args))
          (all_matchers 0 (a :: alts)).
Proof.
  intros. unfold accepts. rewrite generate_arms. cbn [run].
  rewrite run_success_arms, tail_rejects, orb_false_r. reflexivity.
Qed.

(* ---------- the decision does not depend on the reporter ---------- *)

Lemma diagnostics_independent : forall input args, accepts input true args = accepts input false args.
Proof.
  intros [[|a alts] g] args; [reflexivity|]. rewrite !accepts_existsb. reflexivity.
Qed.

(* ---------- all alternatives ---------- *)

Lemma join_eval : forall (g : option gexpr) locals em e ms,
  (forall x, mlookup (U x) em = lookup x e) ->
  match join_guards ((match g with Some g => [BParen (bmap MUser g)] | None => [] end) ++ local_guards ms)%list with
  | Some j => beval (matom_eval locals em) j
  | None => true
  end = (match g with Some g => geval e g | None => true end) && forallb (beval (matom_eval locals em)) (local_guards ms).
Proof.
  intros g locals em e ms HU.
  assert (UG : forall u, beval (matom_eval locals em) (bmap MUser u) = geval e u).
  { intros u. rewrite beval_bmap. unfold geval. apply beval_ext. intros a. simpl. apply uatom_eval_ext. exact HU. }
  destruct g as [g|]; cbn [app join_guards].
  - rewrite fold_concat_and by reflexivity. cbn [beval]. rewrite UG. reflexivity.
  - destruct (local_guards ms) as [|l ls] eqn:El; [reflexivity|]. cbn [join_guards].
    assert (NL : is_or l = false).
    { clear - El. induction ms as [|[p|ne i k o] ms IH]; simpl in El; [discriminate|auto|].
      inversion El. reflexivity. }
    rewrite fold_concat_and by exact NL. reflexivity.
Qed.

Lemma no_compare_no_guards : forall ps i c, has_compare ps = false -> local_guards (fst (arg_matchers i c ps)) = [].
Proof.
  induction ps as [|p ps IH]; intros i c H; [reflexivity|].
  simpl in H. apply orb_false_iff in H. destruct H as [H1 H2].
  assert (E : is_cmp p = false) by (destruct p; try reflexivity; discriminate).
  rewrite arg_matchers_not_cmp by exact E. specialize (IH (S i) c H2).
  destruct (arg_matchers (S i) c ps). simpl in *. exact IH.
Qed.

Lemma alts_existsb : forall g args cvs locals alts c,
  Forall (fun ps => pos_ok ps args cvs) alts ->
  NoDup (map fst locals) ->
  incl (local_defs (all_matchers c alts)) locals ->
  existsb (arm_fires (match g with Some g => [BParen (bmap MUser g)] | None => [] end) locals cvs) (all_matchers c alts)
  = existsb (alt_accepts g args) alts.
Proof.
  intros g args cvs locals. induction alts as [|ps alts IH]; intros c HP ND HI; [reflexivity|].
  inversion HP as [|? ? P1 P2]; subst.
  cbn [all_matchers]. pose proof (arg_matchers_length ps 0 c) as HLen.
  destruct (arg_matchers 0 c ps) as [ms c'] eqn:Em. cbn [fst] in HLen. cbn [existsb].
  simpl in HI. rewrite Em in HI. rewrite local_defs_cons in HI.
  f_equal.
  - (* this alternative *)
    assert (HL : forall ne idx k o, In (AMCompare ne idx k o) (fst (arg_matchers 0 c ps)) -> local_value k locals = Some o).
    { intros ne idx k o H. rewrite Em in H. simpl in H. apply local_value_in; [exact ND|].
      apply HI, in_or_app. left. eapply in_defs_of. exact H. }
    pose proof (alt_match ps args cvs P1 0 c locals HL) as A. rewrite Em in A. cbn [fst] in A.
    unfold arm_fires, alt_accepts.
    rewrite packed_is_positional by (rewrite HLen; apply (pos_ok_length _ _ _ P1)).
    destruct (match_all pos_bindings ps args) as [e|].
    + destruct A as [em [M1 [M2 M3]]]. rewrite M1.
      etransitivity; [apply (join_eval g locals em e ms); exact M2|].
      pose proof (M3 [] (fun _ _ => eq_refl)) as M4. cbn [app] in M4. rewrite M4, andb_comm. reflexivity.
    + rewrite A, andb_false_r. reflexivity.
  - apply IH; [assumption | assumption |].
    intros x Hx. apply HI, in_or_app. right. exact Hx.
Qed.

Lemma seq_keys_nodup : forall alts, NoDup (map fst (local_defs (all_matchers 0 alts))).
Proof. intros. destruct (all_matchers_keys alts 0) as [n H]. rewrite H. apply seq_NoDup. Qed.

Lemma compile_is_rust_match : forall alts g args enabled,
  well_coerced alts args = true ->
  accepts (alts, g) enabled args = rust_match (alts, g) args.
Proof.
  intros [|a alts] g args en HW; [reflexivity|].
  rewrite accepts_existsb. unfold rust_match. cbn [fst snd].
  apply alts_existsb.
  - unfold well_coerced in HW. rewrite forallb_forall in HW. apply Forall_forall. intros ps Hin.
    apply coerced_ok_pos_ok, HW, Hin.
  - apply seq_keys_nodup.
  - apply incl_refl.
Qed.

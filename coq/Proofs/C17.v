(* Unimock.Proofs.C17 -- lemmas behind Props/C17.v *)
From Unimock Require Import Macro.Output Spec.Output.

(* ---------- induction principles for the nested types ---------- *)
Section KdInd.
  Variable P : kd -> Prop.
  Hypothesis Hown : forall t, P (DOwning t).
  Hypothesis Hlend : forall l, P (DLending l).
  Hypothesis Hstat : forall l, P (DStaticRef l).
  Hypothesis Hso : forall l, P (DShOpt l).
  Hypothesis Hsr : forall l e, P (DShRes l e).
  Hypothesis Hsv : forall l, P (DShVec l).
  Hypothesis Hopt : forall k, P k -> P (DOpt k).
  Hypothesis Hpoll : forall k, P k -> P (DPoll k).
  Hypothesis Hvec : forall k, P k -> P (DVec k).
  Hypothesis Hres : forall a b, P a -> P b -> P (DRes a b).
  Hypothesis Htup : forall ks, Forall P ks -> P (DTup ks).
  Fixpoint kd_ind' (d : kd) : P d :=
    match d with
    | DOwning t => Hown t
    | DLending l => Hlend l
    | DStaticRef l => Hstat l
    | DShOpt l => Hso l
    | DShRes l e => Hsr l e
    | DShVec l => Hsv l
    | DOpt k => Hopt k (kd_ind' k)
    | DPoll k => Hpoll k (kd_ind' k)
    | DVec k => Hvec k (kd_ind' k)
    | DRes a b => Hres a b (kd_ind' a) (kd_ind' b)
    | DTup ks => Htup ks ((fix go (l : list kd) : Forall P l :=
                             match l with
                             | [] => Forall_nil P
                             | x :: r => Forall_cons x (kd_ind' x) (go r)
                             end) ks)
    end.
End KdInd.

Section TyInd.
  Variable P : ty -> Prop.
  Hypothesis Hown : forall l, P (TOwn l).
  Hypothesis Href : forall s l, P (TRef s l).
  Hypothesis Hopt : forall a, P a -> P (TOpt a).
  Hypothesis Hres : forall a b, P a -> P b -> P (TRes a b).
  Hypothesis Hvec : forall a, P a -> P (TVec a).
  Hypothesis Hpoll : forall a, P a -> P (TPoll a).
  Hypothesis Htup : forall ts, Forall P ts -> P (TTup ts).
  Fixpoint ty_ind' (t : ty) : P t :=
    match t with
    | TOwn l => Hown l
    | TRef s l => Href s l
    | TOpt a => Hopt a (ty_ind' a)
    | TRes a b => Hres a b (ty_ind' a) (ty_ind' b)
    | TVec a => Hvec a (ty_ind' a)
    | TPoll a => Hpoll a (ty_ind' a)
    | TTup ts => Htup ts ((fix go (l : list ty) : Forall P l :=
                             match l with
                             | [] => Forall_nil P
                             | x :: r => Forall_cons x (ty_ind' x) (go r)
                             end) ts)
    end.
End TyInd.

(* ---------- names for the local loops of the model ---------- *)
Fixpoint outputs (rs : list ret) : option (list val) * list ret :=
  match rs with
  | [] => (Some [], [])
  | x :: rest =>
    let (o, x') := output x in
    match o with
    | None => (None, x' :: rest)
    | Some y => let (os, rest') := outputs rest in (option_map (cons y) os, x' :: rest')
    end
  end.

Lemma output_vec rs : output (RVec rs) = let (o, rs') := outputs rs in (option_map VVec o, RVec rs').
Proof. reflexivity. Qed.
Lemma output_tup rs : output (RTup rs) = let (o, rs') := outputs rs in (option_map VTup o, RTup rs').
Proof. reflexivity. Qed.

Definition zip_ret (m : storing) : list kd -> list val -> list ret :=
  fix go (ks : list kd) (xs : list val) : list ret :=
    match ks, xs with
    | k :: ks', x :: xs' => into_ret m k x :: go ks' xs'
    | _, _ => []
    end.
Lemma zip_ret_cons m k ks x xs : zip_ret m (k :: ks) (x :: xs) = into_ret m k x :: zip_ret m ks xs.
Proof. reflexivity. Qed.
Lemma zip_ret_nil m : zip_ret m [] [] = [].
Proof. reflexivity. Qed.
Lemma into_ret_tup m ks xs : into_ret m (DTup ks) (VTup xs) = RTup (zip_ret m ks xs).
Proof. reflexivity. Qed.

Fixpoint zip_wt (ks : list kd) (xs : list val) : bool :=
  match ks, xs with
  | [], [] => true
  | k :: ks', x :: xs' => wt k x && zip_wt ks' xs'
  | _, _ => false
  end.
Lemma wt_tup ks xs : wt (DTup ks) (VTup xs) = zip_wt ks xs.
Proof. reflexivity. Qed.

Fixpoint zip_view (ks : list kd) (xs : list val) : list val :=
  match ks, xs with
  | k :: ks', x :: xs' => view k x :: zip_view ks' xs'
  | _, xs' => xs'
  end.
Lemma view_tup ks xs : view (DTup ks) (VTup xs) = VTup (zip_view ks xs).
Proof. reflexivity. Qed.

Fixpoint zip_owned (ks : list kd) (xs : list val) : bool :=
  match ks, xs with
  | k :: ks', x :: xs' => owned_on_path k x || zip_owned ks' xs'
  | _, _ => false
  end.
Lemma owned_tup ks xs : owned_on_path (DTup ks) (VTup xs) = zip_owned ks xs.
Proof. reflexivity. Qed.

(* ---------- one request ---------- *)

(* what a request yields from a response stored in mode m, and the mode afterwards *)
Definition expect (m : storing) (d : kd) (v : val) : option val :=
  match m with
  | Drained => later_single_use d v
  | _ => Some (view d v)
  end.
Definition after (m : storing) : storing :=
  match m with OneShot => Drained | x => x end.

Lemma outputs_map m k xs :
  (forall v, wt k v = true -> output (into_ret m k v) = (expect m k v, into_ret (after m) k v)) ->
  forallb (wt k) xs = true ->
  outputs (map (into_ret m k) xs) =
  (match m with
   | Drained => if existsb (owned_on_path k) xs then None else Some (map (view k) xs)
   | _ => Some (map (view k) xs)
   end, map (into_ret (after m) k) xs).
Proof.
  intros IH. induction xs as [|x xs IHxs]; intros Hwt.
  - destruct m; reflexivity.
  - cbn [forallb] in Hwt. apply andb_true_iff in Hwt. destruct Hwt as [Hx Hxs].
    cbn [map outputs]. rewrite (IH x Hx). specialize (IHxs Hxs).
    destruct m; cbn [expect after] in *.
    + rewrite IHxs. reflexivity.
    + rewrite IHxs. reflexivity.
    + unfold later_single_use. cbn [existsb]. destruct (owned_on_path k x); cbn [orb].
      * reflexivity.
      * rewrite IHxs. destruct (existsb (owned_on_path k) xs); reflexivity.
Qed.

Lemma outputs_zip m ks : 
  Forall (fun k => forall m v, wt k v = true ->
                   output (into_ret m k v) = (expect m k v, into_ret (after m) k v)) ks ->
  forall xs, zip_wt ks xs = true ->
  outputs (zip_ret m ks xs) =
  (match m with
   | Drained => if zip_owned ks xs then None else Some (zip_view ks xs)
   | _ => Some (zip_view ks xs)
   end, zip_ret (after m) ks xs).
Proof.
  induction 1 as [|k ks IHk _ IHks]; intros [|x xs] Hwt; cbn [zip_wt] in Hwt; try discriminate.
  - destruct m; reflexivity.
  - apply andb_true_iff in Hwt. destruct Hwt as [Hx Hxs].
    rewrite !zip_ret_cons. cbn [outputs zip_view zip_owned]. rewrite (IHk m x Hx). specialize (IHks xs Hxs).
    destruct m; cbn [expect after] in *.
    + rewrite IHks. reflexivity.
    + rewrite IHks. reflexivity.
    + unfold later_single_use. destruct (owned_on_path k x); cbn [orb].
      * reflexivity.
      * rewrite IHks. destruct (zip_owned ks xs); reflexivity.
Qed.

Lemma output_into_ret : forall d m v, wt d v = true ->
  output (into_ret m d v) = (expect m d v, into_ret (after m) d v).
Proof.
  induction d as [t|l|l|l|l e|l|k IH|k IH|k IH|a b IHa IHb|ks IH] using kd_ind'; intros m v Hwt.
  - destruct m; reflexivity.
  - destruct m; reflexivity.
  - destruct m; reflexivity.
  - destruct v; try discriminate; destruct m; reflexivity.
  - destruct v; try discriminate; destruct m; reflexivity.
  - destruct v; try discriminate; destruct m; reflexivity.
  - destruct v; try discriminate; cbn in Hwt |- *.
    + rewrite (IH m v Hwt). destruct m; cbn; unfold later_single_use; cbn;
        try destruct (owned_on_path k v); reflexivity.
    + destruct m; reflexivity.
  - destruct v; try discriminate; cbn in Hwt |- *.
    + rewrite (IH m v Hwt). destruct m; cbn; unfold later_single_use; cbn;
        try destruct (owned_on_path k v); reflexivity.
    + destruct m; reflexivity.
  - destruct v; try discriminate.
    change (into_ret m (DVec k) (VVec l)) with (RVec (map (into_ret m k) l)).
    change (into_ret (after m) (DVec k) (VVec l)) with (RVec (map (into_ret (after m) k) l)).
    rewrite output_vec. change (wt (DVec k) (VVec l)) with (forallb (wt k) l) in Hwt.
    rewrite (outputs_map m k l (IH m) Hwt).
    destruct m; cbn; unfold later_single_use; cbn; try destruct (existsb (owned_on_path k) l); reflexivity.
  - destruct v; try discriminate; cbn in Hwt |- *.
    + rewrite (IHa m v Hwt). destruct m; cbn; unfold later_single_use; cbn;
        try destruct (owned_on_path a v); reflexivity.
    + rewrite (IHb m v Hwt). destruct m; cbn; unfold later_single_use; cbn;
        try destruct (owned_on_path b v); reflexivity.
  - destruct v; try discriminate.
    rewrite !into_ret_tup, output_tup. rewrite wt_tup in Hwt.
    rewrite (outputs_zip m ks IH l Hwt).
    destruct m; cbn [expect]; unfold later_single_use; rewrite ?view_tup, ?owned_tup;
      try destruct (zip_owned ks l); reflexivity.
Qed.

(* ---------- any number of requests ---------- *)
Lemma requests_fix m d v n : wt d v = true -> after m = m ->
  requests n (into_ret m d v) = repeat (expect m d v) n.
Proof.
  intros Hwt Hm. induction n as [|n IH]; [reflexivity|].
  cbn [requests repeat]. rewrite (output_into_ret d m v Hwt), Hm, IH. reflexivity.
Qed.

Lemma requests_multi d v n : wt d v = true ->
  requests n (into_return d v) = repeat (Some (view d v)) n.
Proof. intros H. exact (requests_fix Cloning d v n H eq_refl). Qed.

Lemma requests_single d v n : wt d v = true ->
  requests (S n) (into_return_once d v) = Some (view d v) :: repeat (later_single_use d v) n.
Proof.
  intros H. unfold into_return_once. cbn [requests]. rewrite (output_into_ret d OneShot v H).
  cbn [after expect]. rewrite (requests_fix Drained d v n H eq_refl). reflexivity.
Qed.

(* ---------- the observation has the shape of the configured value ---------- *)
Lemma map_strip_ref xs : map strip (map VRef xs) = map strip xs.
Proof. induction xs as [|x xs IH]; cbn; [reflexivity|]. rewrite IH. reflexivity. Qed.

Lemma view_shape : forall d v, strip (view d v) = strip v.
Proof.
  induction d as [t|l|l|l|l e|l|k IH|k IH|k IH|a b IHa IHb|ks IH] using kd_ind'; intros v;
    try (destruct v; cbn; rewrite ?IH, ?IHa, ?IHb, ?map_strip_ref; reflexivity).
  - destruct v; try reflexivity. cbn. f_equal.
    induction l as [|x l IHl]; cbn; [reflexivity|]. rewrite IH, IHl. reflexivity.
  - destruct v; try reflexivity. rewrite view_tup. cbn [strip]. f_equal.
    revert l. induction IH as [|k ks Hk _ IHks]; intros [|x xs]; cbn; try reflexivity.
    rewrite Hk, IHks. reflexivity.
Qed.

(* ---------- the kind tree reads the value as the declared type does ---------- *)
Fixpoint zip_wtp (ts : list ty) (xs : list val) : bool :=
  match ts, xs with
  | [], [] => true
  | t' :: ts', x :: xs' => wt_plain t' x && zip_wtp ts' xs'
  | _, _ => false
  end.
Lemma wtp_tup ts xs : wt_plain (TTup ts) (VTup xs) = zip_wtp ts xs.
Proof. reflexivity. Qed.

Fixpoint zip_view_ty (ts : list ty) (xs : list val) : list val :=
  match ts, xs with
  | t' :: ts', x :: xs' => view_ty t' x :: zip_view_ty ts' xs'
  | _, xs' => xs'
  end.
Lemma view_ty_tup ts xs : view_ty (TTup ts) (VTup xs) = VTup (zip_view_ty ts xs).
Proof. reflexivity. Qed.

Lemma view_ty_atom s l l' v : atom l v = true -> view_ty (TRef s l') v = VRef v.
Proof. destruct l, v; cbn; intros H; try discriminate; reflexivity. Qed.

Lemma wt_plain_rename : forall t v, wt_plain (rename_static t) v = wt_plain t v.
Proof.
  induction t as [l|s l|a IH|a b IHa IHb|a IH|a IH|ts IH] using ty_ind'; intros v;
    try (destruct v; cbn; rewrite ?IH, ?IHa, ?IHb; reflexivity).
  - destruct v; try reflexivity. cbn. induction l as [|x l IHl]; cbn; [reflexivity|].
    rewrite IH, IHl. reflexivity.
  - destruct v; try reflexivity. cbn [rename_static]. rewrite !wtp_tup.
    revert l. induction IH as [|t ts Ht _ IHts]; intros [|x xs]; cbn; try reflexivity.
    rewrite Ht, IHts. reflexivity.
Qed.

Lemma view_ty_plain : forall t v, wt_plain t v = true -> view_ty t v = v.
Proof.
  induction t as [l|s l|a IH|a b IHa IHb|a IH|a IH|ts IH] using ty_ind'; intros v H.
  - destruct v; reflexivity.
  - destruct v; try discriminate. reflexivity.
  - destruct v; try discriminate; cbn in *; rewrite ?IH; auto.
  - destruct v; try discriminate; cbn in *; rewrite ?IHa, ?IHb; auto.
  - destruct v; try discriminate. cbn in *. f_equal.
    induction l as [|x l IHl]; cbn in *; [reflexivity|].
    apply andb_true_iff in H. destruct H as [Hx Hl]. rewrite IH, IHl; auto.
  - destruct v; try discriminate; cbn in *; rewrite ?IH; auto.
  - destruct v; try discriminate. rewrite wtp_tup in H. rewrite view_ty_tup. f_equal.
    revert l H. induction IH as [|t ts Ht _ IHts]; intros [|x xs] H; cbn in *; try discriminate; try reflexivity.
    apply andb_true_iff in H. destruct H as [Hx Hl]. rewrite Ht, IHts; auto.
Qed.

Definition resolved (r : okind * kt) : option kd := resolve (fst r) (snd r).

Lemma map_view_atom s l xs : forallb (atom l) xs = true -> map (view_ty (TRef s l)) xs = map VRef xs.
Proof.
  induction xs as [|x xs IH]; cbn [map forallb]; intros H; [reflexivity|].
  apply andb_true_iff in H. destruct H as [Hx Hxs]. rewrite (view_ty_atom s l l x Hx), IH; auto.
Qed.

Lemma map_view_ext k a xs :
  (forall v, wt k v = true -> view k v = view_ty a v) ->
  forallb (wt k) xs = true -> map (view k) xs = map (view_ty a) xs.
Proof.
  intros E. induction xs as [|x xs IH]; cbn [map forallb]; intros H; [reflexivity|].
  apply andb_true_iff in H. destruct H as [Hx Hxs]. rewrite (E x Hx), IH; auto.
Qed.

(* one generic argument: either it was wrapped and resolves recursively, or it is a
   `&T` of a shallow impl *)
Lemma arg_step_cases a :
  (is_generic_kind (fst (make_generic_kind a)) = true /\
   arg_step (make_generic_kind a) a = (Deep, KWrap (fst (make_generic_kind a)) (snd (make_generic_kind a)))) \/
  (is_generic_kind (fst (make_generic_kind a)) = false /\
   arg_step (make_generic_kind a) a = (Shallow, KPlain (rename_static a))).
Proof. unfold arg_step. destruct (is_generic_kind (fst (make_generic_kind a))); [left|right]; split; reflexivity. Qed.

Lemma rename_is_ref a l : rename_static a = TRef LtStatic l -> exists s, a = TRef s l.
Proof. destruct a; cbn; intros H; try discriminate. injection H as ->. eexists; reflexivity. Qed.

Lemma view_ty_some a x : view_ty (TOpt a) (VSome x) = VSome (view_ty a x). Proof. reflexivity. Qed.
Lemma view_ty_ok a b x : view_ty (TRes a b) (VOk x) = VOk (view_ty a x). Proof. reflexivity. Qed.
Lemma view_ty_err a b x : view_ty (TRes a b) (VErr x) = VErr (view_ty b x). Proof. reflexivity. Qed.
Lemma view_ty_ready a x : view_ty (TPoll a) (VReady x) = VReady (view_ty a x). Proof. reflexivity. Qed.
Lemma view_ty_vec a xs : view_ty (TVec a) (VVec xs) = VVec (map (view_ty a) xs). Proof. reflexivity. Qed.
Ltac vt := rewrite ?view_ty_some, ?view_ty_ok, ?view_ty_err, ?view_ty_ready, ?view_ty_vec.

Lemma mgk_view : forall t d, resolved (make_generic_kind t) = Some d ->
  forall v, wt d v = true -> view d v = view_ty t v.
Proof.
  unfold resolved.
  induction t as [l|s l|a IH|a b IHa IHb|a IH|a IH|ts IH] using ty_ind'; intros d Hd v Hwt.
  - cbn in Hd. injection Hd as <-. destruct v; reflexivity.
  - cbn in Hd. injection Hd as <-. cbn in Hwt. cbn [view]. symmetry. exact (view_ty_atom s l l v Hwt).
  - (* Option *)
    cbn [make_generic_kind] in Hd. destruct (arg_step_cases a) as [[G E]|[G E]]; rewrite E in Hd; cbn in Hd.
    + destruct (resolve (fst (make_generic_kind a)) (snd (make_generic_kind a))) as [d'|] eqn:R; [|discriminate].
      injection Hd as <-. destruct v; try discriminate; cbn [wt view] in *; vt; [|reflexivity].
      rewrite (IH d' eq_refl v Hwt). reflexivity.
    + destruct (rename_static a) as [| [|] l | | | | |] eqn:Ra; try discriminate.
      injection Hd as <-. apply rename_is_ref in Ra. destruct Ra as [s ->].
      destruct v; try discriminate; cbn [wt view] in *; vt; [|reflexivity].
      rewrite (view_ty_atom s l l v Hwt). reflexivity.
  - (* Result *)
    cbn [make_generic_kind] in Hd.
    destruct (arg_step_cases a) as [[Ga Ea]|[Ga Ea]]; rewrite Ea in Hd;
      destruct (arg_step_cases b) as [[Gb Eb]|[Gb Eb]]; rewrite Eb in Hd; cbn in Hd.
    + destruct (resolve (fst (make_generic_kind a)) (snd (make_generic_kind a))) as [da|] eqn:Ra; [|discriminate].
      destruct (resolve (fst (make_generic_kind b)) (snd (make_generic_kind b))) as [db|] eqn:Rb; [|discriminate].
      injection Hd as <-. destruct v; try discriminate; cbn [wt view] in *; vt.
      * rewrite (IHa da eq_refl v Hwt). reflexivity.
      * rewrite (IHb db eq_refl v Hwt). reflexivity.
    + discriminate.
    + destruct (rename_static a) as [| [|] l | | | | |]; discriminate.
    + destruct (rename_static a) as [| [|] l | | | | |] eqn:Ra; try discriminate.
      destruct (has_elided (rename_static b)); [discriminate|].
      injection Hd as <-. apply rename_is_ref in Ra. destruct Ra as [s ->].
      destruct v; try discriminate; cbn [wt view] in *; vt.
      * rewrite (view_ty_atom s l l v Hwt). reflexivity.
      * rewrite wt_plain_rename in Hwt. rewrite (view_ty_plain b v Hwt). reflexivity.
  - (* Vec *)
    cbn [make_generic_kind] in Hd. destruct (arg_step_cases a) as [[G E]|[G E]]; rewrite E in Hd; cbn in Hd.
    + destruct (resolve (fst (make_generic_kind a)) (snd (make_generic_kind a))) as [d'|] eqn:R; [|discriminate].
      injection Hd as <-. destruct v; try discriminate. cbn [wt view] in *; vt. f_equal.
      apply map_view_ext; [exact (IH d' eq_refl)|exact Hwt].
    + destruct (rename_static a) as [| [|] l | | | | |] eqn:Ra; try discriminate.
      injection Hd as <-. apply rename_is_ref in Ra. destruct Ra as [s ->].
      destruct v; try discriminate. cbn [wt view] in *; vt. f_equal. symmetry. apply map_view_atom. exact Hwt.
  - (* Poll *)
    cbn [make_generic_kind] in Hd. destruct (arg_step_cases a) as [[G E]|[G E]]; rewrite E in Hd; cbn in Hd.
    + destruct (resolve (fst (make_generic_kind a)) (snd (make_generic_kind a))) as [d'|] eqn:R; [|discriminate].
      injection Hd as <-. destruct v; try discriminate; cbn [wt view] in *; vt; [|reflexivity].
      rewrite (IH d' eq_refl v Hwt). reflexivity.
    + discriminate.
  - (* a tuple that is an argument / element: owned as a whole *)
    cbn in Hd. destruct (existsb has_elided ts); [discriminate|]. injection Hd as <-.
    cbn [wt view] in *. symmetry. exact (view_ty_plain (TTup ts) v Hwt).
Qed.

Lemma owned_branch_view t d : resolve Owning (KPlain (rename_static t)) = Some d ->
  forall v, wt d v = true -> view d v = view_ty t v.
Proof.
  cbn. destruct (has_elided (rename_static t)); [discriminate|]. intros H. injection H as <-.
  intros v Hwt. cbn [wt view] in *. rewrite wt_plain_rename in Hwt. symmetry. exact (view_ty_plain t v Hwt).
Qed.

Lemma all_some_wrapped ts : forall ds,
  all_some (map (fun e => match e with KWrap k' t' => resolve k' t' | _ => None end)
                (map (fun e => wrap_output_kind (make_generic_kind e)) ts)) = Some ds ->
  Forall2 (fun t d => resolved (make_generic_kind t) = Some d) ts ds.
Proof.
  induction ts as [|t ts IH]; cbn; intros ds H.
  - injection H as <-. constructor.
  - fold (resolved (make_generic_kind t)) in H.
    destruct (resolved (make_generic_kind t)) as [d|] eqn:R; [|discriminate].
    destruct (all_some _) as [ds'|]; [|discriminate]. injection H as <-.
    constructor; [exact R|]. apply IH. reflexivity.
Qed.

Lemma zip_view_bridge ts ds : Forall2 (fun t d => resolved (make_generic_kind t) = Some d) ts ds ->
  forall xs, zip_wt ds xs = true -> zip_view ds xs = zip_view_ty ts xs.
Proof.
  induction 1 as [|t d ts ds R _ IH]; intros [|x xs] H; cbn in *; try discriminate; try reflexivity.
  apply andb_true_iff in H. destruct H as [Hx Hxs].
  rewrite (mgk_view t d R x Hx), (IH xs Hxs). reflexivity.
Qed.

Lemma kind_of_view : forall t d, kd_of t = Some d ->
  forall v, wt d v = true -> view d v = view_ty t v.
Proof.
  unfold kd_of. intros t d Hd v Hwt.
  assert (Hgen : forall t', (if has_elided t' then make_generic_kind t' else (Owning, KPlain (rename_static t'))) = kind_of t ->
                 t = t' -> view d v = view_ty t v).
  { intros t' E ->. rewrite <- E in Hd. destruct (has_elided t').
    - exact (mgk_view t' d Hd v Hwt).
    - exact (owned_branch_view t' d Hd v Hwt). }
  destruct t as [l|s l|a|a b|a|a|ts]; try (match goal with |- _ = view_ty ?t0 _ => apply (Hgen t0 eq_refl eq_refl) end).
  - destruct s; cbn in Hd; injection Hd as <-.
    + cbn in Hwt. cbn [view]. symmetry. exact (view_ty_atom LtElided l l v Hwt).
    + destruct v; try discriminate. reflexivity.
  - unfold kind_of in Hd. destruct (has_elided (TTup ts)) eqn:He.
    + cbn [fst snd resolve] in Hd.
      destruct (Nat.leb 1 (length _) && Nat.leb (length _) 4)%bool; [|discriminate].
      destruct (all_some _) as [ds|] eqn:A; [|discriminate]. injection Hd as <-.
      apply all_some_wrapped in A.
      destruct v; try discriminate. rewrite wt_tup in Hwt. rewrite view_tup, view_ty_tup.
      f_equal. exact (zip_view_bridge ts ds A l Hwt).
    + exact (owned_branch_view (TTup ts) d Hd v Hwt).
Qed.

(* ---------- the statements of Props/C17.v ---------- *)
Lemma accepts_kd t : accepts t = true -> exists d, kd_of t = Some d /\ once_ok d = true.
Proof.
  unfold accepts. destruct (kd_of t) as [d|]; [|discriminate]. intros H.
  apply andb_true_iff in H. exists d. split; [reflexivity|tauto].
Qed.

Lemma multi_use_ty t d v n : kd_of t = Some d -> wt d v = true ->
  requests n (into_return d v) = repeat (Some (view_ty t v)) n.
Proof. intros Hd Hwt. rewrite (requests_multi d v n Hwt), (kind_of_view t d Hd v Hwt). reflexivity. Qed.

Lemma single_use_ty t d v n : kd_of t = Some d -> wt d v = true ->
  requests (S n) (into_return_once d v) =
  Some (view_ty t v) :: repeat (if owned_on_path d v then None else Some (view_ty t v)) n.
Proof.
  intros Hd Hwt. rewrite (requests_single d v n Hwt). unfold later_single_use.
  rewrite (kind_of_view t d Hd v Hwt). reflexivity.
Qed.

Lemma shape_ty t d v : kd_of t = Some d -> wt d v = true -> same_shape (view_ty t v) v.
Proof. intros Hd Hwt. unfold same_shape. rewrite <- (kind_of_view t d Hd v Hwt). apply view_shape. Qed.

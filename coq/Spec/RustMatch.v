(* Unimock.Spec.RustMatch -- what "a Rust match on the argument tuple with the
   same patterns, guard and ==/!= comparisons" decides.  Short on purpose. *)
From Unimock Require Import Model.Base Macro.RustPat.

(* one argument position: an eq!/ne! operand is compared with == / != ;
   anything else is a pattern matched against the argument seen through
   AsRef<str> / AsRef<[T]> (identity for every other type) *)
Definition pos_compare (p : pat) (v : value) : bool :=
  match p with PCmp ne o => vcmp ne v o | _ => true end.

Definition pos_bindings (p : pat) (v : value) : option env :=
  match p with PCmp _ _ => Some [] | _ => pmatch p (view v) end.

Fixpoint compares_hold (ps : list pat) (vs : list value) : bool :=
  match ps, vs with
  | [], [] => true
  | p :: ps', v :: vs' => pos_compare p v && compares_hold ps' vs'
  | _, _ => false
  end.

(* one alternative `(p1, .., pn) if guard`: every position matches, every
   comparison holds, and the guard is true under the bindings *)
Definition alt_accepts (g : option gexpr) (vs : list value) (ps : list pat) : bool :=
  compares_hold ps vs &&
  match match_all pos_bindings ps vs with
  | Some e => match g with Some g => geval e g | None => true end
  | None => false
  end.

(* matching!() accepts everything; otherwise some alternative selects an arm *)
Definition rust_match (input : list (list pat) * option gexpr) (args : list value) : bool :=
  match fst input with
  | [] => true
  | alts => existsb (alt_accepts (snd input) args) alts
  end.

(* Unimock.Spec.Scripted -- the readable side of C20: a plain struct that
   implements a trait by replaying a script, driven through the trait's
   provided (default) methods.

   A default body is a PROGRAM over the trait's required methods: it either
   returns, or calls a required method with an argument and continues with the
   response.  The script is the list of responses, each tagged with the required
   method it belongs to.  The plain struct pops the head of the script on every
   required call; a call that does not fit the head (other method, or script
   exhausted) panics. *)
From Unimock Require Export Model.Base.
Open Scope N_scope.

Section Scripted.
Variables A R : Type.          (* arguments seen by / responses given by required methods *)

Inductive prog (X : Type) : Type :=
| Ret (x : X)
| Call (m : N) (a : A) (k : R -> prog X).
Arguments Ret {X}. Arguments Call {X}.

Definition script := list (N * R).

(* (calls seen so far, rest of the script, result; None = the struct panicked) *)
Fixpoint run_plain {X} (sc : script) (b : prog X) (log : list (N * A)) {struct b}
  : list (N * A) * script * option X :=
  match b with
  | Ret x => (log, sc, Some x)
  | Call m a k =>
    match sc with
    | (m', r) :: sc' =>
      if N.eqb m' m then run_plain sc' (k r) (log ++ [(m, a)])%list else (log, sc, None)
    | [] => (log, sc, None)
    end
  end.

(* A test drives the trait: it calls provided methods (whose upstream bodies
   [bodies m = Some body] run over the required methods) and required methods
   (directly). *)
Variable bodies : N -> option (A -> prog R).

Inductive dprog (X : Type) : Type :=
| DRet (x : X)
| DCall (m : N) (a : A) (k : R -> dprog X).
Arguments DRet {X}. Arguments DCall {X}.

Definition body_of (m : N) (a : A) : prog R :=
  match bodies m with
  | Some body => body a
  | None => Call m a (fun r => Ret r)
  end.

Fixpoint drive_plain {X} (sc : script) (d : dprog X) (log : list (N * A)) {struct d}
  : list (N * A) * script * option X :=
  match d with
  | DRet x => (log, sc, Some x)
  | DCall m a k =>
    match run_plain sc (body_of m a) log with
    | (log1, rest, Some r) => drive_plain rest (k r) log1
    | (log1, rest, None) => (log1, rest, None)
    end
  end.

End Scripted.

Arguments Ret {A R X}. Arguments Call {A R X}.
Arguments DRet {A R X}. Arguments DCall {A R X}.
Arguments run_plain {A R X}. Arguments drive_plain {A R} bodies {X}. Arguments body_of {A R}.

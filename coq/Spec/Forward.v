(* Unimock.Spec.Forward -- what C05 demands of a generated method, independent of how
   the macro writes the body: the matcher is shown the caller's arguments in declaration
   order (with the declared Impossible placeholder for `&mut T<'_>`), the answer function
   receives the receiver and exactly the caller's arguments in order, its result and its
   writes come back unchanged. *)
From Unimock Require Export Macro.Unimock.

(* what the declared Inputs type lets the matcher see of one argument *)
Definition view (c : pclass) (v : aval) : aval :=
  match c with PMutLt => VImp | _ => v end.

Fixpoint views (cs : list pclass) (vs : list aval) : list aval :=
  match cs, vs with
  | c :: cr, v :: vr => view c v :: views cr vr
  | _, _ => []
  end.

(* Inputs packing: a bare value for one parameter, a tuple otherwise *)
Definition pack (vs : list aval) : inputs :=
  match vs with [v] => InOne v | _ => InTup vs end.
Definition unpack (i : inputs) : list aval :=
  match i with InOne v => [v] | InTup vs => vs end.
(* a 1-tuple is not an Inputs value *)
Definition inputs_wf (i : inputs) : Prop :=
  match i with InTup [_] => False | _ => True end.

(* the receiver as the answer function's signature declares it (answer_fn.rs:28-70):
   Pin<&mut Self> arrives as &mut Unimock, everything else as written *)
Definition received_self (r : receiver) : selfv :=
  match r with RcvPin => SelfUnpinned | _ => SelfAsPassed end.

(* the values an explicit unmock parameter list denotes, given the caller's arguments *)
Definition select (l : list uexpr) (args : list aval) : list rarg :=
  map (fun x => match x with USelf => RSelf SelfAsPassed | UParam k => RVal (nth k args VImp) end) l.

(* an explicit list is well-formed for n parameters: identifiers in range, nothing named twice
   (the model's move semantics treats every class as non-Copy) *)
Definition uexpr_in_range (n : nat) (x : uexpr) : Prop :=
  match x with USelf => True | UParam k => (k < n)%nat end.
Definition uexprs_ok (n : nat) (l : list uexpr) : Prop :=
  NoDup l /\ Forall (uexpr_in_range n) l.

Section Spec.
  Variable R : Type.

  Definition resp_wf (n : nat) (resp : responder R) : Prop :=
    match resp with KUnmockArm _ _ (Some l) => uexprs_ok n l | _ => True end.

  Definition forward_spec (sh : shape) (args : list aval) (resp : responder R) (st : store) : outcome R :=
    let i := pack (views (sh_params sh) args) in
    match resp with
    | KReturn o => ([EvEval i], Returned o, st)
    | KAnswer f =>
        let s := received_self (sh_recv sh) in
        ([EvEval i; EvAnswer s args], Returned (fst (f s args st)), snd (f s args st))
    | KUnmock | KDefault => ([EvEval i], Reported, st)
    | KUnmockArm fid f ps =>
        (* C16 in the macro's terms: the registered function gets the mock and the caller's arguments in
           declaration order, or exactly the listed expressions; its result and writes come back unchanged.
           The polonius template (`&mut self`, Pin) has no Unmock arm: the call is reported (finding F1) *)
        match receiver_of (sh_recv sh) with
        | MOwned | MRef =>
            let rargs := match ps with
                         | None => RSelf SelfAsPassed :: map RVal args
                         | Some l => select l args
                         end in
            ([EvEval i; EvReal fid rargs], Returned (fst (f rargs st)), snd (f rargs st))
        | MMutRef | MPin => ([EvEval i], Reported, st)
        end
    end.
End Spec.
Arguments forward_spec {R}. Arguments resp_wf {R}.

(* a write through the k-th received argument, as the caller will observe it *)
Fixpoint write_all (delta : N) (args : list aval) (st : store) : store :=
  match args with
  | [] => st
  | VMutRef l :: r =>
      write_all delta r (map (fun kv => if N.eqb (fst kv) l then (fst kv, snd kv + delta)%N else kv) st)
  | _ :: r => write_all delta r st
  end.

(* Unimock.Spec.Forward -- what C05 demands of a generated method, independent of how
   the macro writes the body: the matcher is shown the caller's arguments in declaration
   order (with the declared Impossible placeholder for `&mut T<'_>`), the answer function
   receives the receiver and exactly the caller's arguments in order, its result and its
   writes come back unchanged. *)
From Unimock Require Export Macro.Unimock.

(* what the declared Inputs type lets the matcher see of one argument *)
Definition view (c : pclass) (v : aval) : aval :=
  match c with PMutLt => VImp | _ => v end.

Fixpoint views (cs : list pclass) (vs : list aval) : list aval :=
  match cs, vs with
  | c :: cr, v :: vr => view c v :: views cr vr
  | _, _ => []
  end.

(* Inputs packing: a bare value for one parameter, a tuple otherwise *)
Definition pack (vs : list aval) : inputs :=
  match vs with [v] => InOne v | _ => InTup vs end.
Definition unpack (i : inputs) : list aval :=
  match i with InOne v => [v] | InTup vs => vs end.
(* a 1-tuple is not an Inputs value *)
Definition inputs_wf (i : inputs) : Prop :=
  match i with InTup [_] => False | _ => True end.

(* the receiver as the answer function's signature declares it (answer_fn.rs:28-70):
   Pin<&mut Self> arrives as &mut Unimock, everything else as written *)
Definition received_self (r : receiver) : selfv :=
  match r with RcvPin => SelfUnpinned | _ => SelfAsPassed end.

Section Spec.
  Variable R : Type.

  Definition forward_spec (sh : shape) (args : list aval) (resp : responder R) (st : store) : outcome R :=
    let i := pack (views (sh_params sh) args) in
    match resp with
    | KReturn o => ([EvEval i], Returned o, st)
    | KAnswer f =>
        let s := received_self (sh_recv sh) in
        ([EvEval i; EvAnswer s args], Returned (fst (f s args st)), snd (f s args st))
    | KUnmock | KDefault => ([EvEval i], Reported, st)
    end.
End Spec.
Arguments forward_spec {R}.

(* a write through the k-th received argument, as the caller will observe it *)
Fixpoint write_all (delta : N) (args : list aval) (st : store) : store :=
  match args with
  | [] => st
  | VMutRef l :: r =>
      write_all delta r (map (fun kv => if N.eqb (fst kv) l then (fst kv, snd kv + delta)%N else kv) st)
  | _ :: r => write_all delta r st
  end.

(* Unimock.Spec.Leaves -- the readable side of C14.
   (order) nesting clauses in tuples is the same as listing their terminal
   clauses left to right;
   (rejection) a clause list is refused iff, reading it left to right, some
   clause cannot produce its return value in this feature set, or is an empty
   stub, or has another mode than the first clause registered for its method. *)
From Unimock Require Import Model.Tree.

Fixpoint leaves (t : ctree) : list terminal :=
  match t with
  | CLeaf x => [x]
  | CUnit => []
  | CNode ts => flat_map leaves ts
  end.

(* mode of the first clause of method m *)
Fixpoint first_mode (m : N) (ps : list pushed) : option mode :=
  match ps with
  | [] => None
  | Pushed m' b :: r => if N.eqb m' m then Some (b_mode b) else first_mode m r
  | PushErr _ :: r => first_mode m r
  end.

Section WithInfo.
Variable info : N -> minfo.

(* why clause x is refused after the clauses [seen] were accepted *)
Definition offence (seen : list pushed) (x : pushed) : option string :=
  match x with
  | PushErr msg => Some msg                              (* empty stub *)
  | Pushed m b =>
    match b_err b with
    | Some e => Some (out_error_msg e)                   (* return value cannot be produced *)
    | None =>
      match b_mode b, exact_calls (b_exp b) with
      | InOrder, None => Some bug_inexact                (* excluded by the type states *)
      | _, _ =>
        match first_mode m seen with
        | Some md => if mode_eqb md (b_mode b) then None
                     else Some (mode_conflict_msg info m md (b_mode b))
        | None => None
        end
      end
    end
  end.

Fixpoint first_offence (seen ps : list pushed) : option string :=
  match ps with
  | [] => None
  | x :: r =>
    match offence seen x with
    | Some e => Some e
    | None => first_offence (seen ++ [x])%list r
    end
  end.

End WithInfo.

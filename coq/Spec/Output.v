(* Unimock.Spec.Output -- the readable side of C17: what a caller must observe of a
   value configured with `returns`. *)
From Unimock Require Export Macro.Output.

(* the bare structure of a value: variants, element order and count, leaf data *)
Fixpoint strip (v : val) : val :=
  match v with
  | VRef x | VStatic x => strip x
  | VSome x => VSome (strip x)
  | VOk x => VOk (strip x)
  | VErr x => VErr (strip x)
  | VReady x => VReady (strip x)
  | VVec l => VVec (map strip l)
  | VTup l => VTup (map strip l)
  | _ => v
  end.

Definition same_shape (a b : val) : Prop := strip a = strip b.

(* Reading the configured value at the DECLARED return type: where the signature says `&T`
   the caller sees the data through a reference into the mock, unless what was configured
   there is itself a `&'static` (then that very reference); everything else is unchanged. *)
Fixpoint view_ty (t : ty) (v : val) : val :=
  match t, v with
  | TRef _ _, VStatic _ => v
  | TRef _ _, _ => VRef v
  | TOpt a, VSome x => VSome (view_ty a x)
  | TRes a _, VOk x => VOk (view_ty a x)
  | TRes _ b, VErr x => VErr (view_ty b x)
  | TVec a, VVec xs => VVec (map (view_ty a) xs)
  | TPoll a, VReady x => VReady (view_ty a x)
  | TTup ts, VTup xs =>
    VTup ((fix go (ts : list ty) (xs : list val) : list val :=
             match ts, xs with
             | t' :: ts', x :: xs' => view_ty t' x :: go ts' xs'
             | _, xs' => xs'
             end) ts xs)
  | _, _ => v
  end.

(* The same reading along the kind tree: lent parts through a reference, owned parts as given. *)
Fixpoint view (d : kd) (v : val) : val :=
  match d, v with
  | DLending _, _ => VRef v
  | DShOpt _, VSome a => VSome (VRef a)
  | DShRes _ _, VOk a => VOk (VRef a)
  | DShVec _, VVec xs => VVec (map VRef xs)
  | DOpt k, VSome x => VSome (view k x)
  | DPoll k, VReady x => VReady (view k x)
  | DVec k, VVec xs => VVec (map (view k) xs)
  | DRes a _, VOk x => VOk (view a x)
  | DRes _ b, VErr x => VErr (view b x)
  | DTup ks, VTup xs =>
    VTup ((fix go (ks : list kd) (xs : list val) : list val :=
             match ks, xs with
             | k :: ks', x :: xs' => view k x :: go ks' xs'
             | _, xs' => xs'
             end) ks xs)
  | _, _ => v
  end.

(* does the value have an OWNED part on the path its variants select?  (Owned parts are
   the Owning nodes of the kind tree: a whole reference-free value, the E of a shallow
   Result<&T, E>, a non-generic tuple element.) *)
Fixpoint owned_on_path (d : kd) (v : val) : bool :=
  match d, v with
  | DOwning _, _ => true
  | DShRes _ _, VErr _ => true
  | DOpt k, VSome x => owned_on_path k x
  | DPoll k, VReady x => owned_on_path k x
  | DVec k, VVec xs => existsb (owned_on_path k) xs
  | DRes a _, VOk x => owned_on_path a x
  | DRes _ b, VErr x => owned_on_path b x
  | DTup ks, VTup xs =>
    (fix go (ks : list kd) (xs : list val) : bool :=
       match ks, xs with
       | k :: ks', x :: xs' => owned_on_path k x || go ks' xs'
       | _, _ => false
       end) ks xs
  | _, _ => false
  end.

(* a response configured through the single-use path, asked again after it was delivered *)
Definition later_single_use (d : kd) (v : val) : option val :=
  if owned_on_path d v then None else Some (view d v).

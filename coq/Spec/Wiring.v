(* Unimock.Spec.Wiring -- the readable side of C20's entry-point table: one row
   per method of a trait mirrored under unimock::mock, with what a harness saw
   when it called that method through the UPSTREAM trait on four mocks:
   strict / partial, mentioning only that method's MockFn / not mentioning it. *)
From Unimock Require Export Model.Base.

Inductive wobs :=
| WClause            (* the panic of the clause registered for the method's own MockFn *)
| WBodyReq           (* a mocked required method of the same trait was reached: the upstream body ran *)
| WBodyReturned      (* returned normally without touching the mock: the upstream body ran *)
| WReal              (* the real implementation ran (Termination::report) *)
| WNoImpl            (* "No mock implementation found" naming this method *)
| WCannotUnmock      (* "cannot be unmocked" naming this method *)
| WOther.            (* anything else *)

Record wrow := {
  w_trait : string; w_method : string;
  w_provided : bool;              (* the copy in src/mock/*.rs gives the method a body *)
  w_partial_by_default : bool;    (* MockFnInfo.partial_by_default (only Termination::report) *)
  w_mentioned_strict : wobs; w_mentioned_partial : wobs;
  w_unmentioned_strict : wobs; w_unmentioned_partial : wobs
}.

Definition body_ran (o : wobs) : Prop := o = WBodyReq \/ o = WBodyReturned.

(* every method is served by its own entry point; an unmentioned provided method
   runs the upstream body; an unmentioned required method fails loudly naming
   itself; Termination::report falls through to the real report *)
Definition row_wired (r : wrow) : Prop :=
  w_mentioned_strict r = WClause /\ w_mentioned_partial r = WClause /\
  if w_provided r then body_ran (w_unmentioned_strict r) /\ body_ran (w_unmentioned_partial r)
  else if w_partial_by_default r then w_unmentioned_strict r = WReal /\ w_unmentioned_partial r = WReal
  else w_unmentioned_strict r = WNoImpl /\ w_unmentioned_partial r = WCannotUnmock.

(* Unimock.Spec.Messages -- what C19 demands of a panic message, readable side. *)
From Unimock Require Export Macro.Messages.
Open Scope N_scope.

(* the text [x] occurs in [s] / [s] begins with [x] *)
Definition contains (x s : string) : Prop := exists pre post, s = pre ++ x ++ post.
Definition starts_with (x s : string) : Prop := exists post, s = x ++ post.

(* one argument: its Debug text, or `?` when the declared type gives rustc no Debug impl; a `&mut L<'a>` argument
   never enters the mock (its Inputs component is the documented `Impossible` placeholder) and is shown as that
   placeholder -- still one entry, at its own position *)
Definition spec_arg (t : pty) (v : value) : string :=
  if knows_debug t then fmt_debug (input_value t v) else "?".

Fixpoint spec_args (ts : list pty) (vs : list value) : list string :=
  match ts, vs with
  | t :: ts', v :: vs' => spec_arg t v :: spec_args ts' vs'
  | _, _ => []
  end.

(* the argument list: the first text, then ", " + text for every further argument --
   a separator exactly between neighbours, none before the first or after the last *)
Fixpoint cat_all (l : list string) : string :=
  match l with [] => "" | x :: rest => x ++ cat_all rest end.

Definition comma_list (l : list string) : string :=
  match l with
  | [] => ""
  | x :: rest => x ++ cat_all (map (fun y => ", " ++ y) rest)
  end.

(* Trait::method(d1, ..., dn), in declaration order *)
Definition spec_call (i : minfo) (ts : list pty) (vs : list value) : string :=
  mi_trait i ++ "::" ++ mi_method i ++ "(" ++ comma_list (spec_args ts vs) ++ ")".

(* a pattern is named by its text and the file:line of its matching! invocation *)
Definition spec_pattern_name (i : minfo) (n : pat_name) : string :=
  mi_trait i ++ "::" ++ mi_method i ++ pn_text n ++ " at " ++ pn_file n ++ ":" ++ dec (pn_line n).

(* source text of a single-alternative, guard-free matching! input *)
Definition spec_pattern_text (ps : list spat) : string := "(" ++ comma_list (map doc ps) ++ ")".

(* the mismatch report lists position i iff sub-pattern i rejects argument i;
   a wildcard never rejects, but it occupies its position *)
Definition rejects_at (ps : list spat) (vs : list value) (i : nat) : bool :=
  match nth_error ps i, nth_error vs i with
  | Some p, Some v => negb (accepts p v)
  | _, _ => false
  end.

Definition spec_positions (ps : list spat) (vs : list value) : list nat :=
  filter (rejects_at ps vs) (seq 0 (length ps)).

(* error kinds that are about a call but, by the property's exception (and because they
   carry no FnActualCall), only name Trait::method *)
Definition path_only (e : mock_error) : bool :=
  match e with
  | ECannotUnmock _ | ENoDefaultImpl _ | ENotAnswered _ | EMockNeverCalled _ => true
  | _ => false
  end.

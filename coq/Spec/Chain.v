(* Unimock.Spec.Chain -- the readable side of C02 and of the expectation half of
   C03: a response chain "r1 x n1, then r2 x n2, ..., then r_last". *)
From Unimock Require Import Model.Builder.
Open Scope N_scope.

(* what the user writes for one segment *)
Inductive rspec :=
| SRet (v : N) | SRetDefault | SAns (f : N) | SAnsArc (f : N) | SPanic (k : N) | SUnmock | SDefault.

Inductive quant :=
| QOnce | QN (n : N) | QAtLeast (n : N)
| QOpen.     (* no quantifier: only possible for the last segment *)

Record seg := { sg_r : rspec; sg_q : quant }.

Definition q_count (q : quant) : N :=
  match q with QOnce => 1 | QN n => n | QAtLeast n => n | QOpen => 0 end.
Definition q_exact (q : quant) : bool :=
  match q with QOnce | QN _ => true | _ => false end.

(* the builder calls of a segment *)
Definition rspec_op (r : rspec) : op :=
  match r with
  | SRet v => OReturns v | SRetDefault => OReturnsDefault | SAns f => OAnswers f
  | SAnsArc f => OAnswersArc f | SPanic k => OPanics k | SUnmock => OUnmocked | SDefault => ODefaultImpl
  end.
Definition quant_ops (q : quant) : list op :=
  match q with QOnce => [OOnce] | QN n => [ONTimes n] | QAtLeast n => [OAtLeastTimes n] | QOpen => [] end.

(* r1.q1.then().r2.q2.then()....r_last[.q_last] *)
Fixpoint chain_ops (ch : list seg) : list op :=
  match ch with
  | [] => []
  | [s] => rspec_op (sg_r s) :: quant_ops (sg_q s)
  | s :: rest => (rspec_op (sg_r s) :: quant_ops (sg_q s)) ++ OThen :: chain_ops rest
  end.

(* ---- C02: which segment answers the k-th match (k >= 1) ----
   "r_i for the first i with n1+...+ni >= k, and r_last for every later match" *)
Fixpoint seg_of (counts : list N) (k : N) (i : nat) : nat :=
  match counts with
  | [] => i
  | [_] => i
  | n :: rest => if k <=? n then i else seg_of rest (k - n) (S i)
  end.

(* start index of every segment: 0, n1, n1+n2, ... *)
Fixpoint starts (counts : list N) (from : N) : list N :=
  match counts with
  | [] => []
  | n :: rest => from :: starts rest (from + n)
  end.

Fixpoint sum (l : list N) : N := match l with [] => 0 | x :: t => x + sum t end.

(* ---- C03: the expectation a chain stands for (documentation of build.rs) ----
   exactly the sum when the last segment is exactly quantified;
   at least the sum when it is at_least;
   unquantified last segment:
     - unordered, single segment            -> at least 0 (each_call/stub)
     - unordered, after a then()            -> at least sum+1
     - ordered (next_call)                  -> exactly sum+1
     - some_call/next_call .returns(v)      -> exactly 1 (a QuantifyReturnValue used as clause is once()) *)
Inductive expect := ExactlyN (n : N) | AtLeastN (n : N).

Definition expect_holds (e : expect) (actual : N) : bool :=
  match e with ExactlyN n => actual =? n | AtLeastN n => n <=? actual end.

Definition counts_of (ch : list seg) : list N := map (fun s => q_count (sg_q s)) ch.

Fixpoint last_seg (ch : list seg) : option seg :=
  match ch with [] => None | [s] => Some s | _ :: rest => last_seg rest end.
Definition last_q (ch : list seg) : quant := match last_seg ch with Some s => sg_q s | None => QOpen end.
Definition last_r (ch : list seg) : rspec := match last_seg ch with Some s => sg_r s | None => SUnmock end.

(* [pending_value]: the chain started in DefineResponse (some_call / next_call)
   and is the single segment `returns(v)` without quantifier *)
Definition expectation_of_chain (ordered : bool) (start_dr : bool) (ch : list seg) : expect :=
  let total := sum (counts_of ch) in
  match last_q ch with
  | QOnce | QN _ => ExactlyN total
  | QAtLeast _ => AtLeastN total
  | QOpen =>
    match ch, last_r ch with
    | [_], SRet _ => if start_dr then ExactlyN 1
                     else if ordered then ExactlyN 1 else AtLeastN 0
    | [_], _ => if ordered then ExactlyN 1 else AtLeastN 0
    | _, _ => if ordered then ExactlyN (total + 1) else AtLeastN (total + 1)
    end
  end.

(* a stub pattern may also end in a dangling then(): at least sum+1 *)
Definition expectation_dangling (ch : list seg) : expect := AtLeastN (sum (counts_of ch) + 1).

(* all segments but the last are exactly quantified *)
Fixpoint chain_wf (ch : list seg) : bool :=
  match ch with
  | [] => false
  | [_] => true
  | s :: rest => q_exact (sg_q s) && chain_wf rest
  end.

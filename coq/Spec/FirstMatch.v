(* Unimock.Spec.FirstMatch -- the readable side of C01.
   "The earliest-declared pattern of that method whose matcher accepts." *)
From Unimock Require Import Model.Eval.

Section Spec.
Variable A : Type.
Variable accepts : N -> A -> bool.

(* does pattern p accept a?  (a pattern without matcher function accepts nothing) *)
Definition accepts_pat (p : pattern) (a : A) : bool :=
  match p_matcher p with Some f => accepts f a | None => false end.

(* index (counted from i) of the first accepting pattern *)
Fixpoint first_match (a : A) (ps : list pattern) (i : nat) : option nat :=
  match ps with
  | [] => None
  | p :: ps' => if accepts_pat p a then Some i else first_match a ps' (S i)
  end.

Definition has_matcher (p : pattern) : bool :=
  match p_matcher p with Some _ => true | None => false end.

(* the patterns a terminal list declares for method m, in declaration order,
   as (matcher, debug, responders, expectation) -- everything but the slot range *)
Definition pat_view (p : pattern) := (p_matcher p, p_dbg p, p_resps p, p_exp p).
Definition builder_view (b : builder) := (b_matcher b, b_dbg b, b_resps b, b_exp b).

Fixpoint declared (m : N) (ps : list pushed) : list builder :=
  match ps with
  | [] => []
  | Pushed m' b :: ps' => if N.eqb m' m then b :: declared m ps' else declared m ps'
  | PushErr _ :: ps' => declared m ps'
  end.

End Spec.

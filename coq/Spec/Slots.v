(* Unimock.Spec.Slots -- the readable side of C04: the ordered patterns of a
   mock, flattened left to right and each repeated by its exact count, form one
   global expected sequence of slots 0, 1, 2, ... *)
From Unimock Require Import Model.Assemble.
Open Scope N_scope.

(* number of slots a pushed builder occupies *)
Definition slot_count (b : builder) : N :=
  match b_mode b with
  | InOrder => match exact_calls (b_exp b) with Some n => n | None => 0 end
  | InAnyOrder => 0
  end.

(* Slot k belongs to the pattern of method m with index [base + j], where j counts
   the clauses of m among [ps] before the owner; [cur] = number of slots taken by
   the clauses to the left. *)
Fixpoint owner_in (m : N) (cur : N) (base : nat) (ps : list pushed) (k : N) : option nat :=
  match ps with
  | [] => None
  | PushErr _ :: r => owner_in m cur base r k
  | Pushed m' b :: r =>
    if N.eqb m' m then
      if ((cur <=? k) && (k <? cur + slot_count b))%bool then Some base
      else owner_in m (cur + slot_count b) (S base) r k
    else owner_in m (cur + slot_count b) base r k
  end.

(* total number of slots *)
Fixpoint n_slots (ps : list pushed) : N :=
  match ps with
  | [] => 0
  | PushErr _ :: r => n_slots r
  | Pushed _ b :: r => slot_count b + n_slots r
  end.

(* the slot sequence itself: (method, index among that method's clauses) *)
Fixpoint count_mid (m : N) (ps : list pushed) : nat :=
  match ps with
  | [] => O
  | Pushed m' _ :: r => if N.eqb m' m then S (count_mid m r) else count_mid m r
  | PushErr _ :: r => count_mid m r
  end.

Fixpoint slots_from (seen : list pushed) (ps : list pushed) : list (N * nat) :=
  match ps with
  | [] => []
  | PushErr e :: r => slots_from (seen ++ [PushErr e]) r
  | Pushed m b :: r =>
    (repeat (m, count_mid m seen) (N.to_nat (slot_count b)) ++ slots_from (seen ++ [Pushed m b]) r)%list
  end.
Definition slots (ps : list pushed) : list (N * nat) := slots_from [] ps.

(* Unimock.Spec.Fallthrough -- the readable side of C07: what happens to a call
   that no pattern answers, in the words of the documentation.

   unmentioned method:   default body  >  real implementation if the mock is
                         partial or the method is partial by default  >  panic
   mentioned, unmatched: panic in a strict mock, real implementation in a
                         partial mock
   "real implementation" is the function registered with unmock_with; if none
   was registered the call panics naming the method. *)
From Unimock Require Import Model.Eval.

Inductive fate :=
| FDefaultBody            (* the trait's own default body runs *)
| FReal                   (* the registered real function runs *)
| FPanicNoImpl            (* "No mock implementation found" *)
| FPanicNoMatch           (* "No matching call patterns" *)
| FPanicCannotUnmock.     (* "cannot be unmocked as there is no function available to call" *)

Definition real_or_panic (i : minfo) : fate :=
  if mi_has_unmock_arm i then FReal else FPanicCannotUnmock.

Definition unmentioned_fate (i : minfo) (fb : fallback) : fate :=
  if mi_has_default i then FDefaultBody
  else if mi_partial_by_default i then real_or_panic i
  else match fb with FbUnmock => real_or_panic i | FbError => FPanicNoImpl end.

Definition unmatched_fate (i : minfo) (fb : fallback) : fate :=
  match fb with FbUnmock => real_or_panic i | FbError => FPanicNoMatch end.

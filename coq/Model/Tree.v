(* Unimock.Model.Tree -- src/clause.rs: clauses nest in tuples; `()` is the
   empty clause.  [flatten ord] is Clause::deconstruct of the tuple impls, with
   [ord n] = the order in which the n-tuple impl visits its elements. *)
From Unimock Require Export Model.Assemble.

Inductive ctree :=
| CLeaf (t : terminal)
| CUnit
| CNode (ts : list ctree).

Fixpoint flatten (ord : nat -> list nat) (t : ctree) : list terminal :=
  match t with
  | CLeaf x => [x]
  | CUnit => []
  | CNode ts =>
    let parts := map (flatten ord) ts in
    concat (map (fun i => nth i parts []) (ord (length ts)))
  end.

(* the visiting order observed from the real impls: arity -> indexes *)
Fixpoint assoc_nat {X} (n : nat) (tb : list (nat * X)) : option X :=
  match tb with
  | [] => None
  | (k, v) :: r => if Nat.eqb k n then Some v else assoc_nat n r
  end.

Definition order_of (tb : list (nat * list nat)) (n : nat) : list nat :=
  match assoc_nat n tb with Some o => o | None => [] end.

Fixpoint list_nat_eqb (a b : list nat) : bool :=
  match a, b with
  | [], [] => true
  | x :: a', y :: b' => (Nat.eqb x y && list_nat_eqb a' b')%bool
  | _, _ => false
  end.

(* every recorded arity visits 0, 1, ..., n-1 in that order *)
Definition table_ok (tb : list (nat * list nat)) : bool :=
  forallb (fun '(n, o) => list_nat_eqb o (seq 0 n)) tb.

Definition has_arity (tb : list (nat * list nat)) (n : nat) : bool :=
  match assoc_nat n tb with Some _ => true | None => false end.

Fixpoint arities_in (tb : list (nat * list nat)) (t : ctree) : bool :=
  match t with
  | CLeaf _ | CUnit => true
  | CNode ts => (has_arity tb (length ts) && forallb (arities_in tb) ts)%bool
  end.

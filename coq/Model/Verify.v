(* Unimock.Model.Verify -- src/counter.rs (verify), src/fn_mocker.rs (verify),
   src/error.rs + src/debug.rs (Display), the verification part of src/teardown.rs. *)
From Unimock Require Export Model.Eval.
Open Scope N_scope.

Section WithInfo.
Variable info : N -> minfo.

(* impl Display for NCalls *)
Definition ncalls (n : N) : string :=
  match n with
  | 0 => "no calls"
  | 1 => "1 call"
  | _ => dec n ++ " calls"
  end.

(* pat_debug text, file and line registered by the harness for debug id d *)
Definition dbg_text (d : N) : string := "(p" ++ dec d ++ ")".
Definition dbg_file : string := "case.rs".

(* impl Display for CallPatternDebug *)
Definition render_pat (p : pat_debug) : string :=
  match pd_loc p with
  | LocDebug d => path_str (info (pd_mid p)) ++ dbg_text d ++ " at " ++ dbg_file ++ ":" ++ dec d
  | LocIndex i => "call pattern " ++ path_str (info (pd_mid p)) ++ "[#" ++ decn i ++ "]"
  end.

(* impl Display for FnActualCall *)
Definition render_arg (a : option string) : string :=
  match a with Some d => d | None => "?" end.
Definition render_call (c : fn_call) : string :=
  path_str (info (fc_mid c)) ++ "(" ++ join ", " (map render_arg (fc_args c)) ++ ")".

(* explicit panic messages registered by the harness for message id k *)
Definition panic_text (k : N) : string := "boom" ++ dec k.

(* impl Display for MockError (mismatch lists are empty for plain closures) *)
Definition render_error (e : mock_error) : string :=
  match e with
  | ENoMockImplementation c => render_call c ++ ": No mock implementation found."
  | ENoMatcherFunction c p =>
      render_call c ++ ": No function supplied for matching inputs for " ++ render_pat p ++ "."
  | ENoMatchingCallPatterns c => render_call c ++ ": No matching call patterns. "
  | ENoOutputAvailable c p =>
      render_call c ++ ": No output available for after matching " ++ render_pat p ++ "."
  | EMockNeverCalled m =>
      "Mock for " ++ path_str (info m) ++ " was never called. Dead mocks should be removed."
  | ECallOrderNotMatched c k (Some p) =>
      render_call c ++ ": Method matched in wrong order. Expected a call matching " ++ render_pat p ++ "."
  | ECallOrderNotMatched c k None =>
      render_call c ++ ": Ordered call (" ++ dec (k + 1)
      ++ ") out of range: There were no more ordered call patterns in line for selection."
  | EInputsNotMatchedInCallOrder c k p =>
      render_call c ++ ": Method invoked in the correct order (" ++ dec (k + 1)
      ++ "), but inputs didn't match " ++ render_pat p ++ ". "
  | ECannotReturnValueMoreThanOnce c p =>
      render_call c ++ ": Cannot return value more than once from " ++ render_pat p
      ++ ", because of missing Clone bound. Try using `.each_call()` or explicitly quantifying the response."
  | EFailedVerification msg => msg
  | ECannotUnmock m =>
      path_str (info m) ++ " cannot be unmocked as there is no function available to call."
  | ENoDefaultImpl m =>
      path_str (info m) ++ " has not been set up with default implementation delegation."
  | ENotAnswered m =>
      path_str (info m) ++ " did not apply the answer function, this is a bug."
  | EExplicitPanic c p k =>
      render_call c ++ ": Explicit panic from " ++ render_pat p ++ ": " ++ panic_text k
  end.

(* CallCounter::verify: the error line, if any *)
Definition verify_counter (m : N) (pd : pat_debug) (e : expectation) (actual : N) : option mock_error :=
  let lb := lower_bound e in
  match e_ex e with
  | Exact =>
    if N.eqb actual lb then None
    else Some (EFailedVerification (path_str (info m) ++ ": Expected " ++ render_pat pd
               ++ " to match exactly " ++ ncalls lb ++ ", but it actually matched " ++ ncalls actual ++ "."))
  | AtLeast | AtLeastPlusOne =>
    if N.ltb actual lb
    then Some (EFailedVerification (path_str (info m) ++ ": Expected " ++ render_pat pd
               ++ " to match at least " ++ ncalls lb ++ ", but it actually matched " ++ ncalls actual ++ "."))
    else None
  end.

(* the loop of FnMocker::verify: (errors, total_calls) *)
Fixpoint verify_pats (m : N) (c : nat -> N) (ps : list pattern) (i : nat) : list mock_error * N :=
  match ps with
  | [] => ([], 0)
  | p :: ps' =>
    let pd := {| pd_mid := m; pd_loc := match p_dbg p with Some d => LocDebug d | None => LocIndex i end |} in
    let '(es, tot) := verify_pats m c ps' (S i) in
    (match verify_counter m pd (p_exp p) (c i) with Some e => e :: es | None => es end, c i + tot)
  end.

Definition verify_mocker (s : state) (m : N) (mk : mocker) : list mock_error :=
  let '(es, tot) := verify_pats m (cnt s m) (m_pats mk) 0 in
  if N.eqb tot 0 then es ++ [EMockNeverCalled m] else es.

(* the loop over shared_state.fn_mockers in teardown (in table order here;
   TypeId order in the implementation: compare as multisets across methods) *)
Definition verify_all (cfg : config) (s : state) : list mock_error :=
  flat_map (fun '(m, mk) => verify_mocker s m mk) (c_table cfg).

(* teardown() from "clone_panic_reasons" on: the verdict *)
Definition verdict (cfg : config) (s : state) : list mock_error :=
  match errs s with
  | [] => verify_all cfg s
  | reasons => reasons
  end.

(* teardown_panic's message *)
Definition verdict_text (es : list mock_error) : string := join (String "010"%char "") (map render_error es).

End WithInfo.

(* Unimock.Model.Builder -- src/build.rs as the state machine it is.
   A terminal clause is an opener, a matcher and a list of builder calls. *)
From Unimock Require Export Model.Base.

(* the builder methods a user can call after the opener *)
Inductive op :=
| OReturns (v : N)
| OReturnsDefault
| OAnswers (f : N)
| OAnswersArc (f : N)
| OPanics (msg : N)
| OUnmocked
| ODefaultImpl
| OOnce
| ONTimes (n : N)
| OAtLeastTimes (n : N)
| OThen.

(* the type states of build.rs *)
Inductive tstate :=
| TS_DR                (* DefineResponse *)
| TS_DMR               (* DefineMultipleResponses *)
| TS_QRV (v : N)       (* QuantifyReturnValue holding a value that is not stored yet *)
| TS_Q                 (* Quantify *)
| TS_QRE               (* QuantifiedResponse<.., Exact> *)
| TS_QRA.              (* QuantifiedResponse<.., AtLeast> *)

Inductive out_error := NoMutexApi | OwnershipRequired.

(* DynCallPatternBuilder *)
Record builder := {
  b_mode : mode;
  b_matcher : option N;            (* dyn_matching_fn: Some mask / None = no m.func() call *)
  b_dbg : option N;                (* matcher_debug *)
  b_resps : list (N * resp);       (* (response_index, responder) *)
  b_exp : expectation;
  b_idx : N;                       (* current_response_index *)
  b_err : option out_error         (* responder_error *)
}.

Definition new_builder (md : mode) (matcher dbg : option N) : builder :=
  {| b_mode := md; b_matcher := matcher; b_dbg := dbg; b_resps := [];
     b_exp := default_expectation; b_idx := 0; b_err := None |}.

(* DynBuilderWrapper::push_responder *)
Definition push_responder (b : builder) (r : resp) : builder :=
  {| b_mode := b_mode b; b_matcher := b_matcher b; b_dbg := b_dbg b;
     b_resps := b_resps b ++ [(b_idx b, r)];
     b_exp := b_exp b; b_idx := b_idx b; b_err := b_err b |}.

(* DynBuilderWrapper::push_returner_result *)
Definition push_returner_result (b : builder) (r : resp + out_error) : builder :=
  match r with
  | inl r => push_responder b r
  | inr e =>
    {| b_mode := b_mode b; b_matcher := b_matcher b; b_dbg := b_dbg b;
       b_resps := b_resps b; b_exp := b_exp b; b_idx := b_idx b;
       b_err := match b_err b with None => Some e | Some e0 => Some e0 end |}
  end.

(* DynBuilderWrapper::quantify *)
Definition quantify (b : builder) (times : N) (ex : exactness) : builder :=
  {| b_mode := b_mode b; b_matcher := b_matcher b; b_dbg := b_dbg b;
     b_resps := b_resps b;
     b_exp := add_to_minimum (b_exp b) times ex;
     b_idx := b_idx b + times; b_err := b_err b |}.

(* QuantifiedResponse::then *)
Definition then_ (b : builder) : builder :=
  {| b_mode := b_mode b; b_matcher := b_matcher b; b_dbg := b_dbg b;
     b_resps := b_resps b;
     b_exp := add_to_minimum (b_exp b) 0 AtLeastPlusOne;
     b_idx := b_idx b; b_err := b_err b |}.

(* output/owning.rs *)
Definition into_return_once (bc : buildcfg) (v : N) : resp + out_error :=
  if bc_mutex_api bc then inl (RReturn true v) else inr NoMutexApi.
Definition into_return (v : N) : resp + out_error := inl (RReturn false v).

Definition responder_of_op (o : op) : option resp :=
  match o with
  | OReturnsDefault => Some RReturnDefault
  | OAnswers f | OAnswersArc f => Some (RAnswer f)
  | OPanics m => Some (RPanic m)
  | OUnmocked => Some RUnmock
  | ODefaultImpl => Some RDefaultImpl
  | _ => None
  end.

(* One builder call.  [None] = the call does not type-check in that state
   ([clone_ok] = the output type implements Clone). *)
Definition bstep (bc : buildcfg) (clone_ok : bool) (st : tstate * builder) (o : op)
  : option (tstate * builder) :=
  let '(ts, b) := st in
  match ts, o with
  | TS_DR, OReturns v => Some (TS_QRV v, b)
  | TS_DMR, OReturns v =>
      if clone_ok then Some (TS_Q, push_returner_result b (into_return v)) else None
  | (TS_DR | TS_DMR), (OReturnsDefault | OAnswers _ | OAnswersArc _ | OPanics _ | OUnmocked | ODefaultImpl) =>
      match responder_of_op o with
      | Some r => Some (TS_Q, push_responder b r)
      | None => None
      end
  | TS_QRV v, OOnce =>
      Some (TS_QRE, quantify (push_returner_result b (into_return_once bc v)) 1 Exact)
  | TS_QRV v, ONTimes n =>
      if clone_ok then Some (TS_QRE, quantify (push_returner_result b (into_return v)) n Exact) else None
  | TS_QRV v, OAtLeastTimes n =>
      if clone_ok then
        match b_mode b with
        | InAnyOrder => Some (TS_QRA, quantify (push_returner_result b (into_return v)) n AtLeast)
        | InOrder => None
        end
      else None
  | TS_Q, OOnce => Some (TS_QRE, quantify b 1 Exact)
  | TS_Q, ONTimes n => Some (TS_QRE, quantify b n Exact)
  | TS_Q, OAtLeastTimes n =>
      match b_mode b with
      | InAnyOrder => Some (TS_QRA, quantify b n AtLeast)
      | InOrder => None
      end
  | TS_QRE, OThen => Some (TS_DMR, then_ b)
  | _, _ => None
  end.

Fixpoint bsteps (bc : buildcfg) (clone_ok : bool) (st : tstate * builder) (ops : list op)
  : option (tstate * builder) :=
  match ops with
  | [] => Some st
  | o :: ops' =>
    match bstep bc clone_ok st o with
    | Some st' => bsteps bc clone_ok st' ops'
    | None => None
    end
  end.

(* `impl Clause for ...`: what deconstruct does before sink.push.
   DefineResponse / DefineMultipleResponses are not clauses. *)
Definition finalize_clause (bc : buildcfg) (st : tstate * builder) : option builder :=
  let '(ts, b) := st in
  match ts with
  | TS_QRV v => Some (quantify (push_returner_result b (into_return_once bc v)) 1 Exact)
  | TS_Q => Some (match b_mode b with InOrder => quantify b 1 Exact | InAnyOrder => b end)
  | TS_QRE | TS_QRA => Some b
  | TS_DR | TS_DMR => None
  end.

(* inside `stub(|each| ...)` the chain value is simply dropped; a
   QuantifyReturnValue cannot arise there (Each::call starts in TS_DMR). *)
Definition finalize_stub (st : tstate * builder) : option builder :=
  let '(ts, b) := st in
  match ts with
  | TS_QRV _ | TS_DR => None
  | _ => Some b
  end.

Inductive opener := SomeCall | EachCall | NextCall.

Definition opener_mode (o : opener) : mode :=
  match o with NextCall => InOrder | _ => InAnyOrder end.
Definition opener_state (o : opener) : tstate :=
  match o with EachCall => TS_DMR | _ => TS_DR end.

(* A terminal clause as the user writes it. *)
Record pat_spec := { ps_matcher : option N; ps_dbg : option N; ps_ops : list op }.

Inductive terminal :=
| TCall (mid : N) (o : opener) (p : pat_spec)
| TStub (mid : N) (ps : list pat_spec).

Definition term_mid (t : terminal) : N :=
  match t with TCall m _ _ => m | TStub m _ => m end.

Definition build_call (bc : buildcfg) (clone_ok : bool) (o : opener) (p : pat_spec) : option builder :=
  match bsteps bc clone_ok (opener_state o, new_builder (opener_mode o) (ps_matcher p) (ps_dbg p)) (ps_ops p) with
  | Some st => finalize_clause bc st
  | None => None
  end.

Definition build_stub_pat (bc : buildcfg) (clone_ok : bool) (p : pat_spec) : option builder :=
  match bsteps bc clone_ok (TS_DMR, new_builder InAnyOrder (ps_matcher p) (ps_dbg p)) (ps_ops p) with
  | Some st => finalize_stub st
  | None => None
  end.

Fixpoint all_some {X} (l : list (option X)) : option (list X) :=
  match l with
  | [] => Some []
  | None :: _ => None
  | Some x :: t => match all_some t with Some t' => Some (x :: t') | None => None end
  end.

(* The type-state discipline: does the terminal type-check? *)
Definition well_typed (bc : buildcfg) (clone_ok : N -> bool) (t : terminal) : bool :=
  match t with
  | TCall m o p => match build_call bc (clone_ok m) o p with Some _ => true | None => false end
  | TStub m ps => match all_some (map (build_stub_pat bc (clone_ok m)) ps) with Some _ => true | None => false end
  end.

(* What a terminal hands to the Sink: Each::deconstruct / Quantify::deconstruct / ...
   [inl msg] = deconstruct returns Err(msg) by itself (empty stub). *)
Inductive pushed := Pushed (mid : N) (b : builder) | PushErr (msg : string).

Definition deconstruct (bc : buildcfg) (clone_ok : N -> bool) (t : terminal) : option (list pushed) :=
  match t with
  | TCall m o p =>
    match build_call bc (clone_ok m) o p with
    | Some b => Some [Pushed m b]
    | None => None
    end
  | TStub m ps =>
    match all_some (map (build_stub_pat bc (clone_ok m)) ps) with
    | Some [] => Some [PushErr "Stub contained no call patterns"]
    | Some bs => Some (map (Pushed m) bs)
    | None => None
    end
  end.

(* Unimock.Model.Conc -- Layer B: the evaluation of a call cut at its atomic
   operations (src/counter.rs fetch_add, src/state.rs bump_ordered_call_index,
   MutexIsh::locked for a single-use slot and for the error list).  A thread is
   a list of calls; [astep] performs one thread's next ATOMIC operation followed
   by its thread-local pure code up to the next one.  Executable; no proofs. *)
From Unimock Require Export Model.Eval.
Open Scope N_scope.

Section Conc.
Variable info : N -> minfo.
Variable A : Type.
Variable accepts : N -> A -> bool.
Variable debug_args : A -> list (option string).
Variable cfg : config.

Notation call_of := (call_of A debug_args).

(* the atomic operation a call is about to perform *)
Inductive pending :=
| PFetchOrd (m : N) (a : A) (mk : mocker)                        (* next_ordered_call_index.fetch_add *)
| PFetchCnt (m : N) (a : A) (i : nat) (p : pattern) (counted : bool)
     (* call_counter.fetch_add; [counted]: the call already took its place in the ghost order (ordered calls) *)
| PLockSlot (m : N) (a : A) (i : nat) (p : pattern) (j : nat) (v : N)   (* take() of a single-use value (its first slot) *)
| PLockLeaf (m : N) (a : A) (i : nat) (p : pattern) (j : nat) (v : N) (l : nat)
     (* take() of the l-th FURTHER single-use slot of a composite value (src/output/deep/tuples.rs: the components' output() one
        after the other, the first empty one ends the request) *)
| PLockErr (e : mock_error).                                     (* panic_reasons.locked(push) *)

Inductive next := NDone (act : action) | NPend (p : pending).

(* the generated body's arms, as far as they need no shared state *)
Definition finish_next (m : N) (o : outcome) : next :=
  match o with
  | OutReturn v => NDone (ActReturn v)
  | OutAnswer f => NDone (ActAnswer f)
  | OutUnmock => if mi_has_unmock_arm (info m) then NDone ActReal else NPend (PLockErr (ECannotUnmock m))
  | OutDefaultImpl => if mi_has_default (info m) then NDone ActDefault else NPend (PLockErr (ENoDefaultImpl m))
  | OutErr e => NPend (PLockErr e)
  end.

(* from the start of a call to its first atomic operation *)
Definition start_call (m : N) (a : A) : next :=
  match lookup m (c_table cfg) with
  | None =>
    finish_next m (if mi_has_default (info m) then OutDefaultImpl
                   else if mi_partial_by_default (info m) then OutUnmock
                   else match c_fallback cfg with
                        | FbError => OutErr (ENoMockImplementation (call_of m a))
                        | FbUnmock => OutUnmock
                        end)
  | Some mk =>
    match m_mode mk with
    | InAnyOrder =>
      match scan A accepts a (m_pats mk) 0 with
      | None => finish_next m (match c_fallback cfg with
                               | FbError => OutErr (ENoMatchingCallPatterns (call_of m a))
                               | FbUnmock => OutUnmock
                               end)
      | Some (i, p, Some _) => NPend (PFetchCnt m a i p false)
      | Some (i, p, None) => NPend (PLockErr (ENoMatcherFunction (call_of m a) (debug_pattern m i p)))
      end
    | InOrder => NPend (PFetchOrd m a mk)
    end
  end.

(* after the ordered index was obtained *)
Definition after_ord (m : N) (a : A) (mk : mocker) (k : N) : next :=
  match find_range k (m_pats mk) 0 with
  | None => NPend (PLockErr (ECallOrderNotMatched (call_of m a) k (find_expected k (c_table cfg))))
  | Some (i, p) =>
    match match_inputs A accepts p a with
    | None => NPend (PLockErr (ENoMatcherFunction (call_of m a) (debug_pattern m i p)))
    | Some false => NPend (PLockErr (EInputsNotMatchedInCallOrder (call_of m a) k (debug_pattern m i p)))
    | Some true => NPend (PFetchCnt m a i p true)
    end
  end.

(* after the pattern's counter was read as c *)
Definition after_cnt (m : N) (a : A) (i : nat) (p : pattern) (c : N) : next :=
  match find_responder_idx (map fst (p_resps p)) c with
  | None => NPend (PLockErr (ENoOutputAvailable (call_of m a) (debug_pattern m i p)))
  | Some j =>
    match nth_opt (p_resps p) j with
    | None => NPend (PLockErr (ENoOutputAvailable (call_of m a) (debug_pattern m i p)))
    | Some (_, r) =>
      match r with
      | RReturn true v => NPend (PLockSlot m a i p j v)
      | RReturn false v => NDone (ActReturn (RVTag v))
      | RReturnDefault => NDone (ActReturn RVDefault)
      | RAnswer f => NDone (ActAnswer f)
      | RPanic msg => NPend (PLockErr (EExplicitPanic (call_of m a) (debug_pattern m i p) msg))
      | RUnmock => finish_next m OutUnmock
      | RDefaultImpl => finish_next m OutDefaultImpl
      end
    end
  end.

(* shared locations, for traces and the position log *)
Inductive loc := LOrd | LCnt (m : N) (i : nat) | LSlot (m : N) (i j : nat) | LLeaf (m : N) (i j l : nat) | LErrs.

Definition leaf_eqb (x y : N * nat * nat * nat) : bool :=
  let '(m, i, j, l) := x in let '(m', i', j', l') := y in
  (N.eqb m m' && Nat.eqb i i' && Nat.eqb j j' && Nat.eqb l l')%bool.
Definition leaf_taken (ls : list (N * nat * nat * nat)) (x : N * nat * nat * nat) : bool := existsb (leaf_eqb x) ls.

Record glob := {
  g_state : state;
  g_order : list (N * A);        (* ghost: calls in the order of their first counting step *)
  g_log : list (loc * N);        (* ghost: value obtained by every fetch_add, oldest first *)
  g_deliv : list (N * nat * nat); (* ghost: single-use values that were handed out (all their slots), oldest first *)
  g_leaf : list (N * nat * nat * nat)   (* the further slots of composite single-use values that are empty *)
}.

Definition init_glob : glob := {| g_state := init_state; g_order := []; g_log := []; g_deliv := []; g_leaf := [] |}.

(* one atomic operation *)
Definition exec (g : glob) (pd : pending) : glob * next * loc :=
  let s := g_state g in
  match pd with
  | PFetchOrd m a mk =>
    let k := next_ord s in
    ({| g_state := set_next s (k + 1); g_order := g_order g ++ [(m, a)]; g_log := g_log g ++ [(LOrd, k)];
        g_deliv := g_deliv g; g_leaf := g_leaf g |},
     after_ord m a mk k, LOrd)
  | PFetchCnt m a i p counted =>
    let c := cnt s m i in
    ({| g_state := set_cnt s (bump (cnt s) m i);
        g_order := if counted then g_order g else g_order g ++ [(m, a)];
        g_log := g_log g ++ [(LCnt m i, c)]; g_deliv := g_deliv g; g_leaf := g_leaf g |},
     after_cnt m a i p c, LCnt m i)
  | PLockSlot m a i p j v =>
    if taken s m i j
    then (g, NPend (PLockErr (ECannotReturnValueMoreThanOnce (call_of m a) (debug_pattern m i p))), LSlot m i j)
    else match mi_more_leaves (info m) with
         | O => ({| g_state := set_taken s (take (taken s) m i j); g_order := g_order g; g_log := g_log g;
                    g_deliv := g_deliv g ++ [(m, i, j)]; g_leaf := g_leaf g |},
                 NDone (ActReturn (RVTag v)), LSlot m i j)
         | S _ => ({| g_state := set_taken s (take (taken s) m i j); g_order := g_order g; g_log := g_log g;
                      g_deliv := g_deliv g; g_leaf := g_leaf g |},
                   NPend (PLockLeaf m a i p j v 1), LSlot m i j)
         end
  | PLockLeaf m a i p j v l =>
    if leaf_taken (g_leaf g) (m, i, j, l)
    then (g, NPend (PLockErr (ECannotReturnValueMoreThanOnce (call_of m a) (debug_pattern m i p))), LLeaf m i j l)
    else if Nat.ltb l (mi_more_leaves (info m))
         then ({| g_state := s; g_order := g_order g; g_log := g_log g; g_deliv := g_deliv g;
                  g_leaf := (m, i, j, l) :: g_leaf g |},
               NPend (PLockLeaf m a i p j v (S l)), LLeaf m i j l)
         else ({| g_state := s; g_order := g_order g; g_log := g_log g; g_deliv := g_deliv g ++ [(m, i, j)];
                  g_leaf := (m, i, j, l) :: g_leaf g |},
               NDone (ActReturn (RVTag v)), LLeaf m i j l)
  | PLockErr e =>
    ({| g_state := push_err s e; g_order := g_order g; g_log := g_log g; g_deliv := g_deliv g; g_leaf := g_leaf g |},
     NDone (ActPanic e), LErrs)
  end.

Record thread := {
  t_calls : list (N * A);       (* calls not yet started *)
  t_pend : option pending;      (* the atomic operation the running call waits to perform *)
  t_out : list action           (* results of the finished calls *)
}.

(* run thread-local code until the next atomic operation (or the end) *)
Fixpoint advance (calls : list (N * A)) (out : list action) : thread :=
  match calls with
  | [] => {| t_calls := []; t_pend := None; t_out := out |}
  | (m, a) :: rest =>
    match start_call m a with
    | NDone act => advance rest (out ++ [act])
    | NPend pd => {| t_calls := rest; t_pend := Some pd; t_out := out |}
    end
  end.

Definition new_thread (calls : list (N * A)) : thread := advance calls [].

Definition tstep (g : glob) (th : thread) : glob * thread * option loc :=
  match t_pend th with
  | None => (g, th, None)
  | Some pd =>
    let '(g', nx, l) := exec g pd in
    (g', match nx with
         | NDone act => advance (t_calls th) (t_out th ++ [act])
         | NPend pd' => {| t_calls := t_calls th; t_pend := Some pd'; t_out := t_out th |}
         end, Some l)
  end.

Fixpoint updl {X} (l : list X) (i : nat) (x : X) : list X :=
  match l, i with
  | [], _ => []
  | _ :: t, O => x :: t
  | h :: t, S i' => h :: updl t i' x
  end.

(* [astep st tid]: thread tid performs its next atomic operation *)
Definition astep (st : glob * list thread) (tid : nat) : glob * list thread :=
  let '(g, ths) := st in
  match nth_opt ths tid with
  | None => st
  | Some th => let '(g', th', _) := tstep g th in (g', updl ths tid th')
  end.

Definition run_sched (sched : list nat) (st : glob * list thread) : glob * list thread :=
  fold_left astep sched st.

Definition all_done (ths : list thread) : bool :=
  forallb (fun th => match t_pend th with None => true | Some _ => false end) ths.

(* the trace of a schedule: (thread, location) of every operation actually performed *)
Fixpoint trace (sched : list nat) (st : glob * list thread) : list (nat * loc) :=
  match sched with
  | [] => []
  | tid :: rest =>
    let '(g, ths) := st in
    match nth_opt ths tid with
    | None => trace rest st
    | Some th =>
      let '(g', th', ol) := tstep g th in
      match ol with
      | Some l => (tid, l) :: trace rest (g', updl ths tid th')
      | None => trace rest (g', updl ths tid th')
      end
    end
  end.

(* who receives a single-use value: (thread, value) for every step that hands one out, oldest first *)
Fixpoint deliveries (sched : list nat) (st : glob * list thread) : list (nat * (N * nat * nat)) :=
  match sched with
  | [] => []
  | tid :: rest =>
    let st' := astep st tid in
    (map (pair tid) (skipn (length (g_deliv (fst st))) (g_deliv (fst st'))) ++ deliveries rest st')%list
  end.

End Conc.

Arguments PFetchOrd {A}. Arguments PFetchCnt {A}. Arguments PLockSlot {A}. Arguments PLockLeaf {A}. Arguments PLockErr {A}.
Arguments NDone {A}. Arguments NPend {A}.
Arguments g_state {A}. Arguments g_order {A}. Arguments g_log {A}. Arguments g_deliv {A}. Arguments g_leaf {A}. Arguments Build_glob {A}.
Arguments t_calls {A}. Arguments t_pend {A}. Arguments t_out {A}. Arguments Build_thread {A}.
Arguments init_glob {A}.

(* Unimock.Model.RunConc -- Layer B case interpreter for co-execution with the
   controlled-scheduler harness (/verif/harness/sched). *)
From Unimock Require Export Model.Run Model.Conc.
Open Scope N_scope.

Record ccase := {
  cc_partial : bool;
  cc_terms : list terminal;
  cc_threads : list (list (N * N));   (* per thread: calls (method, argument) *)
  cc_sched : list nat;
  cc_report : bool                    (* the original is ended by Termination::report() instead of verify() *)
}.

Definition show_loc (l : loc) : string :=
  match l with
  | LOrd => "FetchAdd ord"
  | LCnt m i => "FetchAdd cnt:" ++ dec m ++ ":" ++ decn i
  | LSlot m i j => "Lock slot:" ++ dec m ++ ":" ++ decn i ++ ":" ++ decn j
  | LLeaf m i j l => "Lock leaf:" ++ dec m ++ ":" ++ decn i ++ ":" ++ decn j ++ ":" ++ decn l
  | LErrs => "Lock errs"
  end.

(* after the schedule: the remaining threads run to completion in thread order
   (a call performs at most 4 atomic operations, plus one per further slot of a composite single-use value) *)
Definition completion (threads : list (list (N * N))) : list nat :=
  concat (map (fun '(tid, cs) => repeat tid (6 * length cs)%nat) (combine (seq 0 (length threads)) threads)).

Definition show_thread_out (m_a : list (N * N)) (out : list action) : string :=
  join "|" (map (fun '((m, a), act) => show_action m a act) (combine m_a out)).

Definition run_ccase (k : ccase) : list string :=
  match assemble hinfo cfg_std (if cc_partial k then FbUnmock else FbError) (cc_terms k) with
  | None => ["illtyped"]
  | Some (inr msg) => ["new:P:" ++ msg]
  | Some (inl cfg) =>
    let ths0 := map (fun cs => advance hinfo N haccepts hdebug cfg cs []) (cc_threads k) in
    let sched := (cc_sched k ++ completion (cc_threads k))%list in
    let tr := trace hinfo N haccepts hdebug cfg sched (init_glob, ths0) in
    let '(g, ths) := run_sched hinfo N haccepts hdebug cfg sched (init_glob, ths0) in
    let l1 := map (fun '(tid, l) => ("t" ++ decn tid ++ " " ++ show_loc l)%string) tr in
    let l2 := map (fun '(tid, (cs, th)) => ("T" ++ decn tid ++ " " ++ show_thread_out cs (t_out th))%string)
                  (combine (seq 0 (length ths)) (combine (cc_threads k) ths)) in
    (* the original is ended on the creator thread after all threads were joined: Layer A's verify() / report() on the final state *)
    let w := {| w_bc := cfg_std; w_cfg := cfg; w_state := g_state g; w_insts := [new_original]; w_armed := 0 |} in
    let l3 := ("verify:" ++ snd (step w {| ev_ctx := here; ev_base := if cc_report k then BReport 0 else BVerify 0 |}))%string in
    ("new:ok" :: l1 ++ l2 ++ [l3])%list
  end.

Definition CKase (partial : bool) (ts : list terminal) (ths : list (list (N * N))) (sched : list N) : ccase :=
  {| cc_partial := partial; cc_terms := ts; cc_threads := ths; cc_sched := map N.to_nat sched; cc_report := false |}.
Definition CKaseR (partial : bool) (ts : list terminal) (ths : list (list (N * N))) (sched : list N) : ccase :=
  {| cc_partial := partial; cc_terms := ts; cc_threads := ths; cc_sched := map N.to_nat sched; cc_report := true |}.

Definition lines_of_ccase (k : ccase) : list string := map escape (run_ccase k) ++ ["--"].
Definition lines_of_ccases (ks : list ccase) : list string := flat_map lines_of_ccase ks.

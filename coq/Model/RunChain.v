(* Unimock.Model.RunChain -- case interpreter for the value-chain co-execution
   (/verif/harness/chain). *)
From Unimock Require Export Model.Base Model.Chain.
Open Scope N_scope.
Open Scope string_scope.

Inductive cop := CRef (ty v : N) | CMut (ty v : N) | CLive.

Definition show_lval (x : lval) : string := dec (fst x) ++ ":" ++ dec (snd x).
Definition show_held (l : list lval) : string := "[" ++ join "," (map show_lval l) ++ "]".

(* one instance: its chain and the index from which the harness still holds references *)
Record cinst := { ci_chain : vchain; ci_from : nat }.

Definition line (held : list lval) (live : N) : string := show_held held ++ " live=" ++ dec live.

(* [others]: values alive in the chains of the earlier instances *)
Fixpoint session (others : N) (ci : cinst) (ops : list cop) : cinst * list string :=
  match ops with
  | [] => (ci, [])
  | o :: rest =>
    let '(ci', out) :=
      match o with
      | CRef ty v =>
        let c := fst (push (ci_chain ci) (ty, v)) in
        ({| ci_chain := c; ci_from := ci_from ci |},
         line (skipn (ci_from ci) (cells c)) (others + N.of_nat (length (cells c))))
      | CMut ty v =>
        (* the value is changed through the &mut reference before it is read back *)
        let v' := if N.ltb ty 2 then (v + 1000)%N else 0%N in
        let c := fst (push_mut (ci_chain ci) (ty, v')) in
        ({| ci_chain := c; ci_from := 1 |}, line [(ty, v')] (others + 1))
      | CLive =>
        (ci, line (skipn (ci_from ci) (cells (ci_chain ci))) (others + N.of_nat (length (cells (ci_chain ci)))))
      end in
    let '(ci'', outs) := session others ci' rest in
    (ci'', out :: outs)
  end.

Fixpoint sessions (others : N) (sizes : list N) (ss : list (list cop)) : list string * list N :=
  match ss with
  | [] => ([], sizes)
  | ops :: rest =>
    let '(ci, out) := session others {| ci_chain := empty_chain; ci_from := 0 |} ops in
    let n := N.of_nat (length (cells (ci_chain ci))) in
    let '(outs, sizes') := sessions (others + n) (sizes ++ [n]) rest in
    ((out ++ outs)%list, sizes')
  end.

Fixpoint nsum (l : list N) : N := match l with [] => 0 | x :: t => x + nsum t end.

(* instances are dropped last to first *)
Fixpoint drops (sizes_rev : list N) (live : N) : list string :=
  match sizes_rev with
  | [] => []
  | n :: rest => ("dropped live=" ++ dec (live - n)) :: drops rest (live - n)
  end.

Definition run_seq_case (ss : list (list cop)) : list string :=
  let '(outs, sizes) := sessions 0 [] ss in
  let e := "end live=" ++ dec (nsum sizes) in
  (outs ++ [e] ++ drops (rev sizes) (nsum sizes))%list.

(* threads lending values of type 0 through one shared instance *)
Definition run_thread_case (vss : list (list N)) (sched : list nat) : list string :=
  let total := length (concat vss) in
  let completion := concat (map (fun tid => repeat tid (total * S total)) (seq 0 (length vss))) in
  let st0 := ([], map (fun vs => new_pusher (map (fun v => (0, v)) vs)) vss) in
  let sch := (sched ++ completion)%list in
  let tr := ptrace sch st0 in
  let '(cs, ps) := run_pushers sch st0 in
  let idx := map fst (concat (map p_got ps)) in
  let l1 := map (fun '(tid, k) => "t" ++ decn tid ++ " TryInsert cell" ++ decn k) tr in
  let l2 := map (fun '(tid, p) => "T" ++ decn tid ++ " [" ++ join "," (map (fun '(_, x) => dec (snd x)) (p_got p)) ++ "]")
                (combine (seq 0 (length ps)) ps) in
  let d := "distinct=" ++ decn (length (nodup Nat.eq_dec idx)) ++ " of " ++ decn total in
  let e := "end live=" ++ decn (length cs) in
  (l1 ++ l2 ++ [d; e; "dropped live=0"])%list.

Inductive chcase := ChSeq (ss : list (list cop)) | ChThreads (vss : list (list N)) (sched : list N).

Definition lines_of_chcase (k : chcase) : list string :=
  (match k with
   | ChSeq ss => run_seq_case ss
   | ChThreads vss sched => run_thread_case vss (map N.to_nat sched)
   end ++ ["--"])%list.
Definition lines_of_chcases (ks : list chcase) : list string := flat_map lines_of_chcase ks.

(* Unimock.Model.RunChain -- case interpreter for the value-chain co-execution
   (/verif/harness/chain). *)
From Unimock Require Export Model.Base Model.Chain.
Open Scope N_scope.
Open Scope string_scope.

(* CHelp: lend through the delegation helper of the instance (a `&self` provided method whose default body calls a
   required method answered with make_ref: the value lives in the HELPER's chain, which belongs to the instance and is
   released with it).  CTouch: a `&mut self` provided method (AsMut<DefaultImplDelegator>): needs exclusive access,
   so the harness gives up its references, but nothing is released.
   CNvid: the builder call no_verify_in_drop() made late (it takes the instance by value: references are given up;
   nothing is released). *)
Inductive cop := CRef (ty v : N) | CMut (ty v : N) | CLive | CHelp (ty v : N) | CTouch | CNvid | CConsume
  | CMutM (ty v : N).   (* a mocked `&mut self` method with a `&mut` result (kind MutLending, or Mixed with a `&mut` leaf), answered
                           with `u.make_mut(..)`: src/output/mut_lending.rs + the polonius template of the attribute *)

Definition show_lval (x : lval) : string := dec (fst x) ++ ":" ++ dec (snd x).
Definition show_held (l : list lval) : string := "[" ++ join "," (map show_lval l) ++ "]".

(* one instance: its own chain, the chain of its delegation helper, and the values the harness still holds
   references to (in the order it obtained them) *)
Record cinst := { ci_chain : vchain; ci_helper : vchain; ci_held : list lval }.
Definition ci_size (ci : cinst) : N := N.of_nat (length (cells (ci_chain ci)) + length (cells (ci_helper ci))).

Definition line (held : list lval) (live : N) : string := show_held held ++ " live=" ++ dec live.

(* one operation; [others]: values alive in the chains of the earlier instances *)
Definition cop_step (others : N) (ci : cinst) (o : cop) : cinst * string :=
  match o with
  | CRef ty v =>
    let ci1 := {| ci_chain := fst (push (ci_chain ci) (ty, v)); ci_helper := ci_helper ci;
                  ci_held := (ci_held ci ++ [(ty, v)])%list |} in
    (ci1, line (ci_held ci1) (others + ci_size ci1))
  | CHelp ty v =>
    let ci1 := {| ci_chain := ci_chain ci; ci_helper := fst (push (ci_helper ci) (ty, v));
                  ci_held := (ci_held ci ++ [(ty, v)])%list |} in
    (ci1, line (ci_held ci1) (others + ci_size ci1))
  | CMut ty v =>
    (* the value is changed through the &mut reference before it is read back; only the instance's OWN
       chain is replaced *)
    let v' := if N.ltb ty 2 then (v + 1000)%N else 0%N in
    let ci1 := {| ci_chain := fst (push_mut (ci_chain ci) (ty, v')); ci_helper := ci_helper ci; ci_held := [] |} in
    (ci1, line [(ty, v')] (others + ci_size ci1))
  | CMutM ty v =>
    (* the answer function is handed the caller's `&mut Unimock`: the value goes to the instance's OWN chain, which it replaces;
       the reference the caller gets is the one make_mut returned (written through, then read back) *)
    let v' := (v + 1000)%N in
    let ci1 := {| ci_chain := fst (push_mut (ci_chain ci) (ty, v')); ci_helper := ci_helper ci; ci_held := [] |} in
    (ci1, line [(ty, v')] (others + ci_size ci1))
  | CTouch =>
    let ci1 := {| ci_chain := ci_chain ci; ci_helper := ci_helper ci; ci_held := [] |} in
    (ci1, "[touch7] live=" ++ dec (others + ci_size ci1))
  | CNvid =>
    let ci1 := {| ci_chain := ci_chain ci; ci_helper := ci_helper ci; ci_held := [] |} in
    (ci1, "[nvid] live=" ++ dec (others + ci_size ci1))
  | CLive => (ci, line (ci_held ci) (others + ci_size ci))
  | CConsume =>
    (* a provided method with a by-value receiver (only on a clone, as its last operation): the instance is moved into the
       delegation helper and dropped when the call returns; while the body runs everything it lent is still alive (the body's
       required call reports the number of live values), afterwards all of it is released *)
    (* (the END of the instance: [sessions] counts nothing for it afterwards; within the session model nothing is released) *)
    ({| ci_chain := ci_chain ci; ci_helper := ci_helper ci; ci_held := [] |},
     "[consume" ++ dec (others + ci_size ci) ++ "] live=" ++ dec others)
  end.

Fixpoint session (others : N) (ci : cinst) (ops : list cop) : cinst * list string :=
  match ops with
  | [] => (ci, [])
  | o :: rest =>
    let '(ci', out) := cop_step others ci o in
    let '(ci'', outs) := session others ci' rest in
    (ci'', out :: outs)
  end.

Definition consumed (ops : list cop) : bool := match rev ops with CConsume :: _ => true | _ => false end.

Fixpoint sessions (others : N) (sizes : list N) (ss : list (list cop)) : list string * list N :=
  match ss with
  | [] => ([], sizes)
  | ops :: rest =>
    let '(ci, out) := session others {| ci_chain := empty_chain; ci_helper := empty_chain; ci_held := [] |} ops in
    let n := if consumed ops then 0 else ci_size ci in
    let '(outs, sizes') := sessions (others + n) (sizes ++ [n]) rest in
    ((out ++ outs)%list, sizes')
  end.

Fixpoint nsum (l : list N) : N := match l with [] => 0 | x :: t => x + nsum t end.

(* instances are dropped last to first -- by an ordinary drop or while their thread is unwinding from a panic
   of the code under test: either way every value lent through the instance or its helper is released *)
Fixpoint drops (sizes_rev : list N) (live : N) : list string :=
  match sizes_rev with
  | [] => []
  | n :: rest => ("dropped live=" ++ dec (live - n)) :: drops rest (live - n)
  end.

(* the harness' mock also holds ONE borrowed-return value configured with returns(): it lives in the shared call
   pattern, i.e. from construction until the last instance (the original: clones go first) is dropped or verified *)
Definition shared_values : N := 1.

Fixpoint drops_shared (sizes_rev : list N) (live : N) : list string :=
  match sizes_rev with
  | [] => []
  | [n] => ["dropped live=" ++ dec (live - n - shared_values)]
  | n :: rest => ("dropped live=" ++ dec (live - n)) :: drops_shared rest (live - n)
  end.

Definition run_seq_case (ss : list (list cop)) : list string :=
  let '(outs, sizes) := sessions shared_values [] ss in
  let e := "end live=" ++ dec (shared_values + nsum sizes) in
  (outs ++ [e] ++ drops_shared (rev sizes) (shared_values + nsum sizes))%list.

(* threads lending values of type 0 through one shared instance *)
Definition run_thread_case (vss : list (list N)) (sched : list nat) : list string :=
  let total := length (concat vss) in
  let completion := concat (map (fun tid => repeat tid (total * S total)) (seq 0 (length vss))) in
  let st0 := ([], map (fun vs => new_pusher (map (fun v => (0, v)) vs)) vss) in
  let sch := (sched ++ completion)%list in
  let tr := ptrace sch st0 in
  let '(cs, ps) := run_pushers sch st0 in
  let idx := map fst (concat (map p_got ps)) in
  let l1 := map (fun '(tid, k) => "t" ++ decn tid ++ " TryInsert cell" ++ decn k) tr in
  let l2 := map (fun '(tid, p) => "T" ++ decn tid ++ " [" ++ join "," (map (fun '(_, x) => dec (snd x)) (p_got p)) ++ "]")
                (combine (seq 0 (length ps)) ps) in
  let d := "distinct=" ++ decn (length (nodup Nat.eq_dec idx)) ++ " of " ++ decn total in
  let e := "end live=" ++ decn (length cs) in
  (l1 ++ l2 ++ [d; e; "dropped live=0"])%list.

Inductive chcase := ChSeq (ss : list (list cop)) | ChThreads (vss : list (list N)) (sched : list N).

Definition lines_of_chcase (k : chcase) : list string :=
  (match k with
   | ChSeq ss => run_seq_case ss
   | ChThreads vss sched => run_thread_case vss (map N.to_nat sched)
   end ++ ["--"])%list.
Definition lines_of_chcases (ks : list chcase) : list string := flat_map lines_of_chcase ks.

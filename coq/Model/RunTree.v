(* Unimock.Model.RunTree -- cases whose clause is a tree of tuples.  The model
   side of the C14 co-execution runs the SPEC order (leaves, left to right), so
   that an implementation which reorders, drops or duplicates a clause shows up
   as a disagreement with a concrete replay. *)
From Unimock Require Export Model.Run Model.Tree Spec.Leaves.

Definition KaseT (bc : buildcfg) (partial : bool) (t : ctree) (es : list event) : case :=
  Kase bc partial (leaves t) es.

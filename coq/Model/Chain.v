(* Unimock.Model.Chain -- src/value_chain.rs: an append-only chain of write-once
   cells.  [push] (make_ref) walks from the root to the first empty cell and
   inserts there; [push_mut] (make_mut, exclusive access) replaces the chain.
   Concurrent pushes through a shared &Unimock: every try_insert is one atomic
   step of the cursor walk.  Executable; no proofs. *)
From Unimock Require Export Model.Base.
Close Scope string_scope.
Open Scope list_scope.

(* a lent value: (type tag, contents) *)
Definition lval := (N * N)%type.

Record vchain := {
  cells : list lval;        (* filled cells from the root on *)
  released : list lval      (* values dropped so far (ghost) *)
}.
Definition empty_chain : vchain := {| cells := []; released := [] |}.

(* make_ref: returns the index of the node just inserted *)
Definition push (c : vchain) (v : lval) : vchain * nat :=
  ({| cells := cells c ++ [v]; released := released c |}, length (cells c)).

(* make_mut: the old chain is released (nobody can hold a reference: &mut self) *)
Definition push_mut (c : vchain) (v : lval) : vchain * nat :=
  ({| cells := [v]; released := released c ++ cells c |}, O).

(* Drop for ValueChain / teardown: every value is dropped, front to back *)
Definition drop_chain (c : vchain) : vchain :=
  {| cells := []; released := released c ++ cells c |}.

Definition get (c : vchain) (i : nat) : option lval := nth_opt (cells c) i.

(* ---- concurrent pushes (shared &Unimock): the cursor walk ---- *)
Record pusher := {
  p_todo : list lval;            (* values still to lend *)
  p_cur : nat;                   (* cell the next try_insert targets *)
  p_got : list (nat * lval)      (* (index, value) of the references obtained so far *)
}.
Definition new_pusher (vs : list lval) : pusher := {| p_todo := vs; p_cur := O; p_got := [] |}.

(* one try_insert *)
Definition pstep (cs : list lval) (p : pusher) : list lval * pusher * option nat :=
  match p_todo p with
  | [] => (cs, p, None)
  | v :: rest =>
    if Nat.eqb (p_cur p) (length cs)
    then (cs ++ [v], {| p_todo := rest; p_cur := O; p_got := p_got p ++ [(p_cur p, v)] |}, Some (p_cur p))
    else (cs, {| p_todo := p_todo p; p_cur := S (p_cur p); p_got := p_got p |}, Some (p_cur p))
  end.

Fixpoint updp (l : list pusher) (i : nat) (x : pusher) : list pusher :=
  match l, i with
  | [], _ => []
  | _ :: t, O => x :: t
  | h :: t, S i' => h :: updp t i' x
  end.

Definition cstep (st : list lval * list pusher) (tid : nat) : list lval * list pusher :=
  let '(cs, ps) := st in
  match nth_opt ps tid with
  | None => st
  | Some p => let '(cs', p', _) := pstep cs p in (cs', updp ps tid p')
  end.

Definition run_pushers (sched : list nat) (st : list lval * list pusher) := fold_left cstep sched st.

Fixpoint ptrace (sched : list nat) (st : list lval * list pusher) : list (nat * nat) :=
  match sched with
  | [] => []
  | tid :: rest =>
    let '(cs, ps) := st in
    match nth_opt ps tid with
    | None => ptrace rest st
    | Some p =>
      let '(cs', p', o) := pstep cs p in
      match o with
      | Some k => (tid, k) :: ptrace rest (cs', updp ps tid p')
      | None => ptrace rest (cs', updp ps tid p')
      end
    end
  end.

(* Unimock.Model.Run -- the case interpreter used for co-execution with the
   Rust harness (/verif/harness/core).  A case is a build configuration, a
   clause list and a list of events; the result is one observation string per
   event, in the same format the harness prints. *)
From Unimock Require Export Model.Lifecycle.
Open Scope N_scope.

(* ---------- the harness inventory (keep in sync with harness/core/src/inventory.rs) ---------- *)

Definition mk_info (tr me : string) (dflt unmock clone : bool) : minfo :=
  {| mi_trait := tr; mi_method := me; mi_has_default := dflt; mi_partial_by_default := false;
     mi_has_unmock_arm := unmock; mi_out_clone := clone; mi_more_leaves := 0 |}.

Definition hinfo (m : N) : minfo :=
  match m with
  | 0 => mk_info "T" "m0" false true true
  | 1 => mk_info "T" "m1" false false true
  | 2 => mk_info "T" "m2" true true true
  | 3 => mk_info "T" "m3" true false true
  | 4 => mk_info "T" "m4" false true false
  | 5 => mk_info "T" "m5" false false false
  | 6 => mk_info "G" "g" false false true        (* G<u8>::g *)
  | 7 => mk_info "G" "g" false false true        (* G<u16>::g *)
  (* mock::std::process::TerminationMock::report: partial by default; the
     hand-written impl in lib.rs handles Unmock by running the real report *)
  | 8 => {| mi_trait := "Termination"; mi_method := "report"; mi_has_default := false;
            mi_partial_by_default := true; mi_has_unmock_arm := true; mi_out_clone := true; mi_more_leaves := 0 |}
  (* trait P: `fn mt(&self, a: u8) -> (Uniq, &str, Uniq)`: a single-use response is TWO single-use slots, taken one after the other *)
  | 9 => {| mi_trait := "P"; mi_method := "mt"; mi_has_default := false; mi_partial_by_default := false;
            mi_has_unmock_arm := false; mi_out_clone := false; mi_more_leaves := 1 |}
  (* trait HD: the hidden-API form (no `api=`): no clause can mention its methods *)
  | 36 => mk_info "HD" "hreq" false true true
  | 37 => mk_info "HD" "hprov" true false true
  (* DB::db(a: A8): the argument's Debug impl counts its invocations *)
  | 40 => mk_info "DB" "db" false true true
  (* R1::get<u8>, R2::get<u8>: same-named method-generic methods of two traits in one module *)
  | 38 => mk_info "R1" "get" false false true
  | 39 => mk_info "R2" "get" false false true
  (* trait D: delegation and unmocking inventory (harness/core/src/inventory.rs) *)
  | 10 => mk_info "D" "r0" false true true
  | 11 => mk_info "D" "r1" false false true
  | 12 => mk_info "D" "u2" false true true        (* unmock_with entry real_u2(b, a) *)
  | 13 => mk_info "D" "u3" false true true        (* real function recurses through the mock *)
  | 14 => mk_info "D" "p_ref" true false true
  | 15 => mk_info "D" "p_mut" true false true
  | 16 => mk_info "D" "p_val" true false true
  | 17 => mk_info "D" "p_rc" true false true
  | 18 => mk_info "D" "p_arc" true false true
  | 19 => mk_info "D" "p_pin" true false true
  (* &mut self with an unmock_with entry: the polonius template emits NO unmock arm (finding F1) *)
  | 20 => mk_info "D" "m_mut" false false true
  | 23 => mk_info "D" "r_rc" false false true     (* required, Rc<Self> receiver *)
  | 24 => mk_info "D" "p_rc2" true false true     (* provided, Rc<Self>: the body calls r_rc, consuming the pointer *)
  | 29 => mk_info "D" "r_arc" false false true    (* the same pair with Arc<Self> receivers *)
  | 30 => mk_info "D" "p_arc2" true false true
  | 33 => mk_info "D" "r_val" false false true    (* the same pair with by-value receivers *)
  | 34 => mk_info "D" "p_val2" true false true
  (* like p_rc2, but the body holds a second Rc to the helper across the required call: from_delegator clones the mock out
     of the shared helper, the original is released when the body drops its pointer - before the body returns either way *)
  | 35 => mk_info "D" "p_rc3" true false true
  | _ => mk_info "?" "?" false false true
  end.

(* matchers are bit masks over the argument domain: every predicate *)
Definition haccepts (mask a : N) : bool := N.testbit mask a.
(* arguments 0..7 belong to the u8-taking methods; 8 stands for the empty
   argument tuple of Termination::report *)
Definition hdebug (a : N) : list (option string) := if a <? 8 then [Some (dec a)] else [].

(* user code that panics inside a matcher (harness convention: mask bit 16, argument 7).  The scan stops
   there: an unordered call has changed nothing yet, an ordered call has already taken its slot. *)
Definition panicky (mask a : N) : bool := N.testbit mask 16 && (a =? 7).

Fixpoint scan_panics (a : N) (ps : list pattern) : bool :=
  match ps with
  | [] => false
  | p :: ps' =>
    match p_matcher p with
    | None => false                                  (* NoMatcherFunction ends the scan *)
    | Some f => if panicky f a then true else if haccepts f a then false else scan_panics a ps'
    end
  end.

Definition matcher_panics (cfg : config) (s : state) (m a : N) : option state :=
  match lookup m (c_table cfg) with
  | None => None
  | Some mk =>
    match m_mode mk with
    | InAnyOrder => if scan_panics a (m_pats mk) then Some s else None
    | InOrder =>
      match find_range (next_ord s) (m_pats mk) 0 with
      | Some (_, p) =>
        match p_matcher p with
        | Some f => if panicky f a then Some (set_next s (next_ord s + 1)) else None
        | None => None
        end
      | None => None
      end
    end
  end.

(* ---------- events ---------- *)

Inductive base_event :=
| BCall (i : nat) (m a : N)
| BClone (i : nat)
| BDrop (i : nat)
| BVerify (i : nat)
| BNvid (i : nat)
| BReport (i : nat)
| BLend (i : nat)                  (* u.make_ref(u.clone()) *)
| BCount (i : nat)                 (* observe Arc::strong_count *)
| BCallOwn (i : nat) (m a : N)     (* move the instance into a scope, call, leave the scope *)
| BArm (n : N)                     (* the next real function (1) / default body (2) panics *)
| BLive                            (* observe the numbers of live instrumented values *)
| BCallD (i : nat) (m a : N)       (* call of a D-trait method through its receiver kind, with re-entrant user code *)
| BCloneFrom (i j : nat)           (* instance i .clone_from(instance j) *)
| BLendCall (i : nat) (m a : N)
| BCallM (i : nat) (m a : N).      (* a call, observed together with the matcher functions it consulted *)   (* u.make_ref(Caller { u: u.clone(), m, a }): the lent value's Drop calls u.m(a), swallowing a panic *)

Record event := { ev_ctx : ctx; ev_base : base_event }.

Record world := {
  w_bc : buildcfg;
  w_cfg : config;
  w_state : state;
  w_insts : list inst;
  w_armed : N
}.

Definition set_insts (w : world) (is : list inst) : world :=
  {| w_bc := w_bc w; w_cfg := w_cfg w; w_state := w_state w; w_insts := is; w_armed := w_armed w |}.
Definition set_state (w : world) (s : state) : world :=
  {| w_bc := w_bc w; w_cfg := w_cfg w; w_state := s; w_insts := w_insts w; w_armed := w_armed w |}.
Definition set_armed (w : world) (n : N) : world :=
  {| w_bc := w_bc w; w_cfg := w_cfg w; w_state := w_state w; w_insts := w_insts w; w_armed := n |}.

Definition live_inst (w : world) (i : nat) : option inst :=
  match nth_opt (w_insts w) i with
  | Some it => if i_alive it then Some it else None
  | None => None
  end.

Definition show_retval (v : retval) : string :=
  match v with RVTag t => "r" ++ dec t | RVDefault => "rdefault" end.

Definition show_action (m a : N) (act : action) : string :=
  match act with
  | ActReturn v => show_retval v
  | ActAnswer f => "a" ++ dec f ++ "(" ++ dec a ++ ")"
  | ActReal => "real" ++ dec m ++ "(" ++ dec a ++ ")"
  | ActDefault => "dflt" ++ dec m ++ "(" ++ dec a ++ ")"
  | ActPanic e => "P:" ++ render_error hinfo e
  end.

(* user code that panics (harness conventions): answer functions with id 1000..1999 (ids >= 2000 call back
   into the mock instead),
   Clone of a repeatedly returned value with tag >= 1000, the armed real function
   or default body.  None of this is mock-induced: nothing is recorded. *)
Definition user_panic (armed : N) (act : action) : option string :=
  match act with
  | ActAnswer f => if (1000 <=? f) && (f <? 2000) then Some "user:ans" else None
  | ActReturn (RVTag v) => if 1000 <=? v then Some "user:clone" else None
  | ActReal => if armed =? 1 then Some "user:real" else None
  | ActDefault => if armed =? 2 then Some "user:dflt" else None
  | _ => None
  end.

Definition disarm (armed : N) (act : action) : N :=
  match act with
  | ActReal => if armed =? 1 then 0 else armed
  | ActDefault => if armed =? 2 then 0 else armed
  | _ => armed
  end.

(* what a call does to the world: shared state, `panicked` flag (no_std), helper clone *)
Definition after_call (w : world) (i : nat) (it : inst) (s' : state) (act : action) : world :=
  let w1 := set_armed (set_state w s') (disarm (w_armed w) act) in
  match act with
  | ActPanic _ => set_insts w1 (upd (w_insts w1) i (set_panicked it))
  | ActDefault => set_insts w1 (upd (w_insts w1) i (set_helper it))
  | _ => w1
  end.

Definition show_call (w : world) (m a : N) (act : action) : string :=
  match user_panic (w_armed w) act with
  | Some msg => "P:" ++ msg
  | None => show_action m a act
  end.

Definition call_panics (w : world) (act : action) : bool :=
  match act with
  | ActPanic _ => true
  | _ => match user_panic (w_armed w) act with Some _ => true | None => false end
  end.

(* values stored in the mock: a single-use value until it is taken, a
   repeatedly used value until the shared state is released *)
Definition stored_in_pattern (s : state) (m : N) (i : nat) (p : pattern) : N :=
  (fix go (rs : list (N * resp)) (j : nat) : N :=
     match rs with
     | [] => 0
     | (_, RReturn true _) :: rs' => (if taken s m i j then 0 else 1) + go rs' (S j)
     | (_, RReturn false _) :: rs' => 1 + go rs' (S j)
     | _ :: rs' => go rs' (S j)
     end) (p_resps p) 0%nat.

Definition stored_in_method (s : state) (m : N) (mk : mocker) : N :=
  (fix go (ps : list pattern) (i : nat) : N :=
     match ps with
     | [] => 0
     | p :: ps' => stored_in_pattern s m i p + go ps' (S i)
     end) (m_pats mk) 0%nat.

(* (live Val, live Uniq): methods 4 and 5 return the non-Clone type *)
Definition live_values (cfg : config) (s : state) (handles : N) : N * N :=
  if handles =? 0 then (0, 0) else
  fold_left (fun '(v, u) '(m, mk) =>
               if (m =? 4) || (m =? 5) then (v, u + stored_in_method s m mk)
               else if m =? 9 then (v, u + 2 * stored_in_method s m mk)     (* two Uniq per stored (Uniq, &str, Uniq) *)
               else (v + stored_in_method s m mk, u))
            (c_table cfg) (0, 0).

Definition show_panic (o : option string) : string :=
  match o with None => "ok" | Some msg => "P:" ++ msg end.

(* the value is consumed: it is dead afterwards whatever happened *)
Definition kill (w : world) (i : nat) (it : inst) : world :=
  set_insts w (upd (w_insts w) i (set_dead (set_torn it))).

(* ---------- re-entrant user code (C15, C16): default bodies and real functions
   are programs that call back into the mock; their calls are evaluated on the
   shared state in program order.  Result: inl text of the returned Val / inr panic text ---------- *)
Definition d_alias (m : N) : N :=
  if (m =? 21) || (m =? 27) then 17 else if (m =? 22) || (m =? 28) then 18
  else if m =? 25 then 23 else if m =? 26 then 24 else if m =? 31 then 29 else if m =? 32 then 30 else m.

Inductive recv := RRef | RMut | RVal | RRcSole | RRcKept | RPin.
Definition recv_of (m : N) : recv :=
  match m with
  | 15 | 20 => RMut | 16 | 33 | 34 => RVal | 17 | 18 | 23 | 24 | 27 | 28 | 29 | 30 | 35 => RRcSole | 21 | 22 | 25 | 26 | 31 | 32 => RRcKept | 19 => RPin | _ => RRef
  end.

(* the required calls the common default body makes for argument a: a mod 4 calls, r0/r1 alternating *)
Definition body_calls (a : N) : list (N * N) :=
  map (fun j => ((if Nat.even j then 10 else 11), (a + N.of_nat j) mod 8)) (seq 0 (N.to_nat (a mod 4))).
(* p_rc2's own body: exactly one call, of the Rc-receiver required method, with the same argument *)
Definition body_calls_of (m a : N) : list (N * N) :=
  if (m =? 24) || (m =? 35) then [(23, a)] else if m =? 30 then [(29, a)] else if m =? 34 then [(33, a)] else if m =? 37 then [(36, a)]
  else body_calls a.

(* a default body: the calls [cs] one after the other through [step]; the first panic ends it *)
Fixpoint body_loop (step : state -> N -> N -> N -> state * N * (string + string) * N) (finish : list string -> string)
                   (cs : list (N * N)) (st : state) (ar : N) (acc : list string) (hl : N)
  : state * N * (string + string) * N :=
  match cs with
  | [] => (st, ar, inl (finish acc), hl)
  | (mj, aj) :: cs' =>
    let '(s3, ar3, r, h) := step st ar mj aj in
    match r with
    | inl t => body_loop step finish cs' s3 ar3 (acc ++ [t])%list (N.max hl h)
    | inr p => (s3, ar3, inr p, N.max hl h)
    end
  end.

(* [d]: how many delegation helpers deep the code making this call already runs; the last component
   of the result is the deepest helper level this evaluation needed (0 = none) *)
Fixpoint eval_act_h (fuel : nat) (cfg : config) (armed : N) (s1 : state) (m a b : N) (act : action) (d : N)
  : state * N * (string + string) * N :=
  match user_panic armed act with
  | Some msg => (s1, disarm armed act, inr msg, 0)
  | None =>
    match act with
    | ActReturn (RVTag v) => (s1, armed, inl ("r" ++ dec v), 0)
    | ActReturn RVDefault => (s1, armed, inl "", 0)
    | ActAnswer g =>
      if 2000 <=? g then
        (* an answer function that itself calls a provided method (p_ref(0)) on the mock it was handed *)
        match fuel with
        | O => (s1, armed, inr "fuel", 0)
        | S f =>
          let '(s2, act2) := call hinfo N haccepts hdebug cfg s1 14 0 in
          let '(s3, ar3, r, h) := eval_act_h f cfg armed s2 14 0 1 act2 d in
          (s3, ar3, match r with
                    | inl t => inl ("a" ++ dec g ++ "(" ++ dec a ++ ")[" ++ t ++ "]")
                    | inr p => inr p
                    end, h)
        end
      else (s1, armed, inl ("a" ++ dec g ++ "(" ++ dec a ++ ")"), 0)
    | ActPanic e => (s1, armed, inr (render_error hinfo e), 0)
    | ActReal =>
      if m =? 13 then
        if a =? 0 then (s1, armed, inl ("base(" ++ dec b ++ ")"), 0)
        else match fuel with
             | O => (s1, armed, inr "fuel", 0)
             | S f =>
               let '(s2, act2) := call hinfo N haccepts hdebug cfg s1 13 (a - 1) in
               let '(s3, ar3, r, h) := eval_act_h f cfg armed s2 13 (a - 1) b act2 d in
               (s3, ar3, match r with inl t => inl ("rec(" ++ t ++ ")") | inr p => inr p end, h)
             end
      else if m =? 12 then (s1, armed, inl ("real12(" ++ dec b ++ "," ++ dec a ++ ")"), 0)
      else (s1, armed, inl ("real" ++ dec m ++ "(" ++ dec a ++ ")"), 0)
    | ActDefault =>
      if (m =? 2) || (m =? 3) then (s1, armed, inl ("dflt" ++ dec m ++ "(" ++ dec a ++ ")"), d + 1)
      else match fuel with
           | O => (s1, armed, inr "fuel", 0)
           | S f =>
             body_loop (fun st ar mj aj =>
                          let '(s2, act2) := call hinfo N haccepts hdebug cfg st mj aj in
                          eval_act_h f cfg ar s2 mj aj (aj + 1) act2 (d + 1))
                       (fun acc => "dflt" ++ dec m ++ "(" ++ dec a ++ ")[" ++ join "," acc ++ "]")
                       (body_calls_of m a) s1 armed [] (d + 1)
           end
    end
  end.

Definition eval_act (fuel : nat) (cfg : config) (armed : N) (s1 : state) (m a b : N) (act : action)
  : state * N * (string + string) := fst (eval_act_h fuel cfg armed s1 m a b act 0).
Definition helper_levels (fuel : nat) (cfg : config) (armed : N) (s1 : state) (m a b : N) (act : action) : N :=
  snd (eval_act_h fuel cfg armed s1 m a b act 0).

Definition show_res (r : string + string) : string :=
  match r with
  | inl t => if String.eqb t "" then "rdefault" else t
  | inr p => "P:" ++ p
  end.

(* ---------- which matcher functions a call consults (src/eval.rs: match_call_pattern, eval_dyn): in order, (the pattern's
   debug id or 999, whether mismatch diagnostics were being collected).  Unordered: the patterns up to and including the first
   one that does not answer "rejected" (filter_map(..).next() is lazy: no later matcher runs); when all reject, a strict mock runs
   every matcher a second time with diagnostics for the error message, a partial mock does not.  Ordered: only the pattern that owns
   the slot, once, with diagnostics ---------- *)
Definition pat_id (p : pattern) : N := match p_dbg p with Some d => d | None => 999 end.

Fixpoint scan_trace (a : N) (ps : list pattern) : list (N * bool) * bool :=
  match ps with
  | [] => ([], false)
  | p :: ps' =>
    match p_matcher p with
    | None => ([], true)                       (* NoMatcherFunction: no matcher to run; the scan ends with that error *)
    | Some f => if haccepts f a then ([(pat_id p, false)], true)
                else let '(t, found) := scan_trace a ps' in ((pat_id p, false) :: t, found)
    end
  end.

Definition matcher_trace (cfg : config) (s : state) (m a : N) : list (N * bool) :=
  match lookup m (c_table cfg) with
  | None => []
  | Some mk =>
    match m_mode mk with
    | InAnyOrder =>
      let '(t, found) := scan_trace a (m_pats mk) in
      if found then t
      else match c_fallback cfg with
           | FbError => (t ++ map (fun '(d, _) => (d, true)) t)%list
           | FbUnmock => t
           end
    | InOrder =>
      match find_range (next_ord s) (m_pats mk) 0 with
      | Some (_, p) => match p_matcher p with Some _ => [(pat_id p, true)] | None => [] end
      | None => []
      end
    end
  end.

(* how often the Debug impl of the call's argument runs: once when the call ends in an error whose message renders the call (the
   error value holds the rendering: src/eval.rs fn_call() -> debug_inputs()), never otherwise - not for a successful response, not
   for CannotUnmock / NoDefaultImpl, which only name the method *)
Definition renders_call (e : mock_error) : bool :=
  match e with
  | ENoMockImplementation _ | ENoMatcherFunction _ _ | ENoMatchingCallPatterns _ | ENoOutputAvailable _ _
  | ECallOrderNotMatched _ _ _ | EInputsNotMatchedInCallOrder _ _ _ | ECannotReturnValueMoreThanOnce _ _ | EExplicitPanic _ _ _ => true
  | _ => false
  end.
Definition debug_runs (act : action) : N := match act with ActPanic e => if renders_call e then 1 else 0 | _ => 0 end.

(* user code that panics inside the Debug impl of an argument (harness convention: DB::db, argument 13).  The rendering is made
   when the error VALUE is built (src/eval.rs fn_call()), i.e. after everything the call does to the counters and the ordered
   index and before the error is handed to handle_error / induce_panic: the user's panic leaves the call, nothing is recorded *)
Definition dbg_panicky (m a : N) : bool := (m =? 40) && (a =? 13).
Definition debug_panics (cfg : config) (s : state) (m a : N) : option state :=
  if dbg_panicky m a then
    match eval_raw hinfo N haccepts hdebug cfg s m a with
    | (s1, OutErr e) => if renders_call e then Some s1 else None
    | _ => None
    end
  else None.

Definition show_trace (t : list (N * bool)) : string :=
  " M[" ++ join "," (map (fun '(d, diag) => dec d ++ (if diag : bool then "d" else "")) t) ++ "]".

Definition step_core (w : world) (e : event) : world * string :=
  let x := ev_ctx e in
  match ev_base e with
  | BCall i m a =>
    match live_inst w i with
    | None => (w, "invalid")
    | Some it =>
      match matcher_panics (w_cfg w) (w_state w) m a with
      | Some s' => (set_state w s', "P:user:matcher")
      | None =>
        match debug_panics (w_cfg w) (w_state w) m a with
        | Some s' => (set_state w s', "P:user:debug")
        | None =>
        let '(s', act) := call hinfo N haccepts hdebug (w_cfg w) (w_state w) m a in
        (after_call w i it s' act, show_call w m a act)
        end
      end
    end
  | BCallM i m a =>
    match live_inst w i with
    | None => (w, "invalid")
    | Some it =>
      match matcher_panics (w_cfg w) (w_state w) m a with
      | Some s' => (set_state w s', "P:user:matcher")
      | None =>
        match debug_panics (w_cfg w) (w_state w) m a with
        | Some s' => (set_state w s', "P:user:debug")
        | None =>
        let '(s', act) := call hinfo N haccepts hdebug (w_cfg w) (w_state w) m a in
        (after_call w i it s' act, show_call w m a act ++ show_trace (matcher_trace (w_cfg w) (w_state w) m a)
                                   ++ (if m =? 40 then " D" ++ dec (debug_runs act) else ""))
        end
      end
    end
  | BCallOwn i m a =>
    match live_inst w i with
    | None => (w, "invalid")
    | Some it =>
      match matcher_panics (w_cfg w) (w_state w) m a with
      | Some sp =>
        (* the matcher (user code) panics: the scope owning the instance is left by unwinding *)
        let w1 := set_state w sp in
        let x1 := {| x_other_thread := x_other_thread x; x_unwinding := true |} in
        (kill w1 i it,
         match drop_panic hinfo (w_bc w1) (w_cfg w1) sp x1 it (count_after_release (w_insts w1) it) with
         | None => "P:user:matcher"
         | Some _ => "ABORT"
         end)
      | None =>
      match debug_panics (w_cfg w) (w_state w) m a with
      | Some sd =>
        (* the Debug impl of an argument (user code) panics while the call is rendered: the scope is left by unwinding *)
        let w1 := set_state w sd in
        let x1 := {| x_other_thread := x_other_thread x; x_unwinding := true |} in
        (kill w1 i it,
         match drop_panic hinfo (w_bc w1) (w_cfg w1) sd x1 it (count_after_release (w_insts w1) it) with
         | None => "P:user:debug"
         | Some _ => "ABORT"
         end)
      | None =>
      let '(s', act) := call hinfo N haccepts hdebug (w_cfg w) (w_state w) m a in
      let w1 := after_call w i it s' act in
      match nth_opt (w_insts w1) i with
      | None => (w1, "invalid")
      | Some it1 =>
        (* the scope owning the instance is left: normally, or by unwinding *)
        let unwinding := call_panics w act in
        let x1 := {| x_other_thread := x_other_thread x; x_unwinding := unwinding |} in
        let r := drop_panic hinfo (w_bc w1) (w_cfg w1) (w_state w1) x1 it1 (count_after_release (w_insts w1) it1) in
        (kill w1 i it1,
         if unwinding then match r with None => show_call w m a act | Some _ => "ABORT" end
         else show_call w m a act ++ "|" ++ show_panic r)
      end
      end
      end
    end
  | BLend i =>
    match live_inst w i with
    | None => (w, "invalid")
    | Some it => (set_insts w (upd (w_insts w) i (add_lent it)), "ok")
    end
  | BLendCall i m a =>
    match live_inst w i with
    | None => (w, "invalid")
    | Some it => (set_insts w (upd (w_insts w) i (add_lent_call it m a)), "ok")
    end
  | BCount i =>
    match live_inst w i with
    | None => (w, "invalid")
    | Some it => (w, dec (strong_count (w_insts w)))
    end
  | BArm n => (set_armed w n, "ok")
  | BLive =>
    let '(v, u) := live_values (w_cfg w) (w_state w) (strong_count (w_insts w)) in
    (w, "live:" ++ dec v ++ ":" ++ dec u)
  | BCallD i m0 a =>
    match live_inst w i with
    | None => (w, "invalid")
    | Some it =>
      let m := d_alias m0 in
      let rc := recv_of m0 in
      let '(s1, act) := call hinfo N haccepts hdebug (w_cfg w) (w_state w) m a in
      let w1 := set_state w s1 in
      (* Rc/Arc receiver held by its only owner: to_delegator moves the instance into the
         delegator (Rc::try_unwrap), exactly like a by-value receiver *)
        let '(s2, ar2, r) := eval_act 12 (w_cfg w) (w_armed w) s1 m a (a + 1) act in
        let w2 := set_armed (set_state w1 s2) ar2 in
        match rc with
        | RRef | RMut | RPin =>
          (set_insts w2 (upd (w_insts w2) i
                            (set_helper_levels it (helper_levels 12 (w_cfg w) (w_armed w) s1 m a (a + 1) act))),
           show_res r)
        | RRcKept => (w2, show_res r)
        | RVal | RRcSole =>
          (* the instance is consumed: it is dropped when the call returns (or unwinds) *)
          match r with
          | inr _ => (kill w2 i it, show_res r)
          | inl _ =>
            match drop_panic hinfo (w_bc w2) (w_cfg w2) s2 x it (count_after_release (w_insts w2) it) with
            | None => (kill w2 i it, show_res r)
            | Some msg => (kill w2 i it, "P:" ++ msg)
            end
          end
        end
    end
  | BClone i =>
    match live_inst w i with
    | None => (w, "invalid")
    | Some it => (set_insts w (w_insts w ++ [clone_of it]), "ok")
    end
  | BCloneFrom i j =>
    (* Clone::clone_from, i.e. `*self = source.clone()`: the clone of j exists before the old value of i is dropped
       (torn down like any dropped instance); the slot holds the clone afterwards, also when that drop panics *)
    if Nat.eqb i j then (w, "invalid") else
    match live_inst w i, live_inst w j with
    | Some it, Some src =>
      (* while the old value is torn down the new clone already holds a handle *)
      let w1 := set_insts w (w_insts w ++ [clone_of src]) in
      let r := drop_panic hinfo (w_bc w1) (w_cfg w1) (w_state w1) x it (count_after_release (w_insts w1) it) in
      (* the clone then lives in slot i *)
      (set_insts w (upd (w_insts w) i (clone_of src)), show_panic r)
    | _, _ => (w, "invalid")
    end
  | BDrop i =>
    match live_inst w i with
    | None => (w, "invalid")
    | Some it =>
      let r := drop_panic hinfo (w_bc w) (w_cfg w) (w_state w) x it (count_after_release (w_insts w) it) in
      if x_unwinding x
      then (kill w i it, match r with None => "P:user" | Some _ => "ABORT" end)
      else (kill w i it, show_panic r)
    end
  | BVerify i =>
    match live_inst w i with
    | None => (w, "invalid")
    | Some it =>
      if x_unwinding x then
        (* verify() run by a scope guard while the thread unwinds from a user panic *)
        if negb (i_original it) then (kill w i it, "ABORT")
        else (kill w i it,
              match teardown_panic hinfo (w_bc w) (w_cfg w) (w_state w) x it (count_after_release (w_insts w) it) with
              | None => "P:user"
              | Some _ => "ABORT"
              end)
      else if negb (i_original it) then (kill w i it, "P:" ++ msg_verify_clone)
      else (kill w i it,
            show_panic (teardown_panic hinfo (w_bc w) (w_cfg w) (w_state w) x it (count_after_release (w_insts w) it)))
    end
  | BNvid i =>
    match live_inst w i with
    | None => (w, "invalid")
    | Some it =>
      if negb (i_original it) then (kill w i it, "P:" ++ msg_nvid_clone)
      else (set_insts w (upd (w_insts w) i (set_vid it false)), "ok")
    end
  | BReport i =>
    match live_inst w i with
    | None => (w, "invalid")
    | Some it =>
      (* impl Termination for Unimock (feature mock-std): eval of
         TerminationMock::report first; Unmock = the real report *)
      let '(s', act) := call hinfo N haccepts hdebug (w_cfg w) (w_state w) 8 8 in
      let w1 := set_state w s' in
      match act with
      | ActReal =>
        (kill w1 i it,
         match teardown hinfo (w_bc w1) (w_cfg w1) (w_state w1) x it (count_after_release (w_insts w1) it) with
         | TdOk => "exit:SUCCESS"
         | TdErrs _ => "exit:FAILURE"
         | TdPanic msg => "P:" ++ msg
         end)
      | ActPanic e => (kill w1 i it, "P:" ++ render_error hinfo e)   (* self dropped while unwinding *)
      | ActReturn v =>
        (* the configured exit code is returned, then `self` is dropped: verification in drop *)
        (kill w1 i it,
         match drop_panic hinfo (w_bc w1) (w_cfg w1) (w_state w1) x it (count_after_release (w_insts w1) it) with
         | None => "exit:" ++ match v with RVDefault => "SUCCESS" (* ExitCode::default() *) | _ => show_retval v end
         | Some msg => "P:" ++ msg
         end)
      | _ => (kill w1 i it, "unmodelled")
      end
    end
  end.

(* ---------- teardown order (src/teardown.rs): the helper and the VALUE CHAIN are dropped first.  A lent value that owns a
   clone of the mock may call it from its Drop; what such a call records is recorded before the error list is read ---------- *)
Definition swallowed_call (cfg : config) (st : state * N) (c : N * N) : state * N :=
  let '(s, armed) := st in
  let '(m, a) := c in
  match matcher_panics cfg s m a with
  | Some sp => (sp, armed)
  | None =>
    match debug_panics cfg s m a with
    | Some sd => (sd, armed)
    | None =>
    let '(s1, act) := call hinfo N haccepts hdebug cfg s m a in
    let '(s2, ar2, _) := eval_act 12 cfg armed s1 m a (a + 1) act in
    (s2, ar2)
    end
  end.

Definition release (w : world) (i : nat) (it : inst) : world :=
  let '(s, ar) := fold_left (swallowed_call (w_cfg w)) (i_calls it) (w_state w, w_armed w) in
  set_insts (set_armed (set_state w s) ar) (upd (w_insts w) i (clear_calls it)).

(* what an event does to the value chain of an instance that holds such values: Some true = the instance is destroyed by a
   teardown/drop that starts with the release of the chain; Some false = it is destroyed only after other code of the event
   has run (a call, then the drop): the case language does not allow that ("invalid", in the harness too) *)
Definition releasing (w : world) (b : base_event) : option (nat * inst * bool) :=
  let pending (i : nat) (early : bool) :=
    match live_inst w i with
    | Some it => match i_calls it with [] => None | _ :: _ => Some (i, it, early) end
    | None => None
    end in
  match b with
  | BDrop i | BVerify i => pending i true
  | BCloneFrom i j =>
    (* only when the event is going to happen (a refused clone_from touches nothing) *)
    if Nat.eqb i j then None else match live_inst w j with Some _ => pending i true | None => None end
  | BNvid i => match pending i true with
               | Some (i, it, e) => if i_original it then None else Some (i, it, e)   (* refused on a clone: consumed and dropped *)
               | None => None
               end
  | BReport i | BCallOwn i _ _ | BCallD i _ _ => pending i false
  | _ => None
  end.

Definition step (w : world) (e : event) : world * string :=
  match releasing w (ev_base e) with
  | None => step_core w e
  | Some (i, it, true) => step_core (release w i it) e
  | Some (_, _, false) => (w, "invalid")
  end.

Fixpoint steps (w : world) (es : list event) : list string :=
  match es with
  | [] => []
  | e :: es' => let '(w', o) := step w e in o :: steps w' es'
  end.

Record case := {
  k_bc : buildcfg;
  k_partial : bool;
  k_terms : list terminal;
  k_events : list event
}.

(* first line: the constructor; then one line per event *)
Definition run_case (k : case) : list string :=
  match assemble hinfo (k_bc k) (if k_partial k then FbUnmock else FbError) (k_terms k) with
  | None => ["illtyped"]
  | Some (inr msg) => ["new:P:" ++ msg]
  | Some (inl cfg) =>
    "new:ok" :: steps {| w_bc := k_bc k; w_cfg := cfg; w_state := init_state; w_insts := [new_original]; w_armed := 0 |}
                      (k_events k)
  end.

(* output for the driver: observations of a case separated by LF, escaped
   newlines inside an observation as backslash-n, cases closed by a line "--" *)
Definition lf : string := String "010"%char "".

Fixpoint escape (s : string) : string :=
  match s with
  | EmptyString => EmptyString
  | String c s' =>
    if Ascii.eqb c "010"%char then String "\"%char (String "n"%char (escape s'))
    else String c (escape s')
  end.

Definition show_case (k : case) : string :=
  join lf (map escape (run_case k)) ++ lf ++ "--" ++ lf.

Fixpoint show_cases (ks : list case) : string :=
  match ks with
  | [] => ""
  | k :: ks' => show_case k ++ show_cases ks'
  end.

(* ---------- short constructors for generated case files ---------- *)
Definition Ev (o u : bool) (b : base_event) : event :=
  {| ev_ctx := {| x_other_thread := o; x_unwinding := u |}; ev_base := b |}.
Definition call_ (i m a : N) := BCall (N.to_nat i) m a.
Definition clone_ (i : N) := BClone (N.to_nat i).
Definition clonefrom_ (i j : N) := BCloneFrom (N.to_nat i) (N.to_nat j).
Definition lendcall_ (i m a : N) := BLendCall (N.to_nat i) m a.
Definition callm_ (i m a : N) := BCallM (N.to_nat i) m a.
Definition drop_ (i : N) := BDrop (N.to_nat i).
Definition verify_ (i : N) := BVerify (N.to_nat i).
Definition nvid_ (i : N) := BNvid (N.to_nat i).
Definition report_ (i : N) := BReport (N.to_nat i).
Definition lend_ (i : N) := BLend (N.to_nat i).
Definition count_ (i : N) := BCount (N.to_nat i).
Definition callown_ (i m a : N) := BCallOwn (N.to_nat i) m a.
Definition arm_ (n : N) := BArm n.
Definition live_ := BLive.
Definition calld_ (i m a : N) := BCallD (N.to_nat i) m a.
Definition Pt (m d : option N) (ops : list op) : pat_spec :=
  {| ps_matcher := m; ps_dbg := d; ps_ops := ops |}.
Definition Kase (bc : buildcfg) (partial : bool) (ts : list terminal) (es : list event) : case :=
  {| k_bc := bc; k_partial := partial; k_terms := ts; k_events := es |}.

(* the same as a list of lines (what the driver actually evaluates: a long
   single string overflows the stack of the read-back) *)
Definition lines_of_case (k : case) : list string := map escape (run_case k) ++ ["--"].
Definition lines_of_cases (ks : list case) : list string := flat_map lines_of_case ks.

(* Unimock.Model.Assemble -- src/assemble.rs (MockAssembler) and the
   configuration it produces (src/fn_mocker.rs, src/call_pattern.rs). *)
From Unimock Require Export Model.Builder.
Open Scope N_scope.

(* CallPattern (the counter's current value lives in the run-time state) *)
Record pattern := {
  p_matcher : option N;
  p_dbg : option N;
  p_resps : list (N * resp);
  p_lo : N; p_hi : N;                (* ordered_call_index_range *)
  p_exp : expectation
}.

(* FnMocker *)
Record mocker := { m_mode : mode; m_pats : list pattern }.

(* BTreeMap<TypeId, FnMocker>; here: association list in order of first registration.
   (Iteration order of the real map is TypeId order, which nothing may depend on.) *)
Definition table := list (N * mocker).

Fixpoint lookup (m : N) (tb : table) : option mocker :=
  match tb with
  | [] => None
  | (k, v) :: tb' => if N.eqb k m then Some v else lookup m tb'
  end.

Fixpoint update (m : N) (v : mocker) (tb : table) : table :=
  match tb with
  | [] => [(m, v)]
  | (k, w) :: tb' => if N.eqb k m then (k, v) :: tb' else (k, w) :: update m v tb'
  end.

Record assembler := { a_table : table; a_cur : N (* current_call_index *) }.

Definition new_assembler : assembler := {| a_table := []; a_cur := 0 |}.

Definition bug_inexact : string := "BUG: Inexact quantification of ordered call pattern.".

(* MockAssembler::new_call_pattern; None = the expect("BUG..") panic *)
Definition new_call_pattern (cur : N) (b : builder) : option (pattern * N) :=
  match b_mode b with
  | InOrder =>
    match exact_calls (b_exp b) with
    | Some n =>
      Some ({| p_matcher := b_matcher b; p_dbg := b_dbg b; p_resps := b_resps b;
               p_lo := cur; p_hi := cur + n; p_exp := b_exp b |}, cur + n)
    | None => None
    end
  | InAnyOrder =>
    Some ({| p_matcher := b_matcher b; p_dbg := b_dbg b; p_resps := b_resps b;
             p_lo := 0; p_hi := 0; p_exp := b_exp b |}, cur)
  end.

Definition out_error_msg (e : out_error) : string :=
  match e with
  | OwnershipRequired => "Ownership required"
  | NoMutexApi => "No Mutex API available. Enable the `spin-lock` feature in `no_std` mode, or use the `.answers` API instead of `.returns`."
  end.

Section WithInfo.
Variable info : N -> minfo.

Definition mode_conflict_msg (m : N) (old new : mode) : string :=
  "A clause for " ++ path_str (info m) ++ " has already been registered as " ++ mode_debug old
  ++ ", but got re-registered as " ++ mode_debug new ++ ". They cannot be mixed for the same MockFn.".

(* impl Sink for MockAssembler: push *)
Definition asm_push (a : assembler) (m : N) (b : builder) : assembler + string :=
  match b_err b with
  | Some e => inr (out_error_msg e)
  | None =>
    match new_call_pattern (a_cur a) b with
    | None => inr bug_inexact
    | Some (p, cur') =>
      match lookup m (a_table a) with
      | Some mk =>
        if mode_eqb (m_mode mk) (b_mode b)
        then inl {| a_table := update m {| m_mode := m_mode mk; m_pats := m_pats mk ++ [p] |} (a_table a);
                    a_cur := cur' |}
        else inr (mode_conflict_msg m (m_mode mk) (b_mode b))
      | None =>
        inl {| a_table := update m {| m_mode := b_mode b; m_pats := [p] |} (a_table a); a_cur := cur' |}
      end
    end
  end.

(* the `?` chain of deconstruct calls over the flattened clause list *)
Fixpoint asm_pushes (a : assembler) (ps : list pushed) : assembler + string :=
  match ps with
  | [] => inl a
  | PushErr msg :: _ => inr msg
  | Pushed m b :: ps' =>
    match asm_push a m b with
    | inl a' => asm_pushes a' ps'
    | inr e => inr e
    end
  end.

(* all terminals are built (by the user's expression) before any is pushed;
   None = some terminal does not type-check *)
Definition flatten_terminals (bc : buildcfg) (ts : list terminal) : option (list pushed) :=
  match all_some (map (deconstruct bc (fun m => mi_out_clone (info m))) ts) with
  | Some pss => Some (List.concat pss)
  | None => None
  end.

Record config := { c_fallback : fallback; c_table : table }.

(* Unimock::new / new_partial: inr msg = the constructor panics with msg *)
Definition assemble (bc : buildcfg) (fb : fallback) (ts : list terminal) : option (config + string) :=
  match flatten_terminals bc ts with
  | None => None
  | Some ps =>
    match asm_pushes new_assembler ps with
    | inl a => Some (inl {| c_fallback := fb; c_table := a_table a |})
    | inr e => Some (inr e)
    end
  end.

End WithInfo.

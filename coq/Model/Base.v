(* Unimock.Model.Base -- vocabulary shared by all Layer A models.
   Plain Gallina, executable, no proofs in this file. *)
From Coq Require Export String Ascii.
From Coq Require Export List NArith Bool Arith Lia.
From Coq Require Import DecimalString.
Export ListNotations.
Open Scope string_scope.

(* ---------- small utilities ---------- *)

Definition dec (n : N) : string := NilEmpty.string_of_uint (N.to_uint n).
Definition decn (n : nat) : string := dec (N.of_nat n).

Fixpoint join (sep : string) (l : list string) : string :=
  match l with
  | [] => ""
  | [x] => x
  | x :: rest => x ++ sep ++ join sep rest
  end.

Fixpoint nth_opt {X} (l : list X) (i : nat) : option X :=
  match l, i with
  | [], _ => None
  | x :: _, O => Some x
  | _ :: t, S i' => nth_opt t i'
  end.

(* ---------- src/fn_mocker.rs, src/counter.rs ---------- *)

Inductive mode := InAnyOrder | InOrder.

Definition mode_eqb (a b : mode) : bool :=
  match a, b with
  | InAnyOrder, InAnyOrder | InOrder, InOrder => true
  | _, _ => false
  end.

(* #[derive(Debug)] on PatternMatchMode *)
Definition mode_debug (m : mode) : string :=
  match m with InAnyOrder => "InAnyOrder" | InOrder => "InOrder" end.

Inductive exactness := Exact | AtLeast | AtLeastPlusOne.

(* CallCountExpectation *)
Record expectation := { e_min : N; e_ex : exactness }.

Definition lower_bound (e : expectation) : N :=
  match e_ex e with
  | Exact | AtLeast => e_min e
  | AtLeastPlusOne => e_min e + 1
  end.

Definition exact_calls (e : expectation) : option N :=
  match e_ex e with Exact => Some (e_min e) | _ => None end.

Definition add_to_minimum (e : expectation) (delta : N) (ex : exactness) : expectation :=
  {| e_min := e_min e + delta; e_ex := ex |}.

Definition default_expectation : expectation := {| e_min := 0; e_ex := AtLeast |}.

(* ---------- src/responder.rs: DynResponder ---------- *)

(* Values are identified by tags.  [RReturn true v] is a value stored by
   into_return_once (a Mutex<Option<T>> slot, single use); [RReturn false v]
   is stored by into_return (cloned per request). *)
Inductive resp :=
| RReturn (once : bool) (v : N)
| RReturnDefault
| RAnswer (f : N)
| RPanic (msg : N)
| RUnmock
| RDefaultImpl.

(* ---------- method inventory (MockFnInfo + what the macro generated) ---------- *)

Record minfo := {
  mi_trait : string;
  mi_method : string;
  mi_has_default : bool;          (* MockFnInfo.has_default_impl: the trait method has a body *)
  mi_partial_by_default : bool;   (* only Termination::report *)
  mi_has_unmock_arm : bool;       (* the generated body has an Unmock arm *)
  mi_out_clone : bool;            (* the output type is Clone (type level only) *)
  mi_more_leaves : nat            (* a single-use response is this many MORE single-use slots than one: the owned components after the
                                     first of a composite return type with a borrowed element (src/output/deep/tuples.rs) *)
}.

Definition path_str (i : minfo) : string := mi_trait i ++ "::" ++ mi_method i.

(* ---------- build configuration (#[cfg] branches that matter) ---------- *)

Record buildcfg := {
  bc_std : bool;          (* feature std *)
  bc_mutex_api : bool     (* std or spin-lock: into_return_once works *)
}.

Definition cfg_std : buildcfg := {| bc_std := true; bc_mutex_api := true |}.
Definition cfg_spin : buildcfg := {| bc_std := false; bc_mutex_api := true |}.
Definition cfg_nomutex : buildcfg := {| bc_std := false; bc_mutex_api := false |}.

Inductive fallback := FbError | FbUnmock.

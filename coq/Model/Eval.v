(* Unimock.Model.Eval -- src/eval.rs, src/call_pattern.rs (matching, responder
   selection), src/state.rs, and what the generated method body does with the
   continuation (unimock_macros/src/unimock/mod.rs: def_method_impl). *)
From Unimock Require Export Model.Assemble.
Open Scope N_scope.

(* ---------- core::slice::binary_search_by (Rust 1.95), specialised to the
   comparison |r| r.response_index.cmp(&call_index) ---------- *)
Fixpoint bs_loop (fuel : nat) (keys : list N) (t : N) (base size : nat) : nat :=
  match fuel with
  | O => base
  | S fuel' =>
    if Nat.leb size 1 then base else
    let half := Nat.div2 size in
    let mid := (base + half)%nat in
    let k := nth mid keys 0 in
    let base' := if N.ltb t k (* cmp == Greater *) then base else mid in
    bs_loop fuel' keys t base' (size - half)%nat
  end.

Definition binary_search (keys : list N) (t : N) : nat + nat :=
  match keys with
  | [] => inr O
  | _ =>
    let base := bs_loop (length keys) keys t 0 (length keys) in
    let k := nth base keys 0 in
    if N.eqb k t then inl base
    else inr (base + (if N.ltb k t then 1 else 0))%nat
  end.

(* call_pattern.rs: find_responder_by_call_index; returns the responder's index *)
Definition find_responder_idx (keys : list N) (call_index : N) : option nat :=
  match keys with
  | [] => None
  | _ => Some (match binary_search keys call_index with
               | inl i => i
               | inr i => (i - 1)%nat
               end)
  end.

(* ---------- errors (src/error.rs, src/debug.rs) ---------- *)

Record fn_call := { fc_mid : N; fc_args : list (option string) }.

Inductive pat_loc := LocDebug (dbg : N) | LocIndex (i : nat).
Record pat_debug := { pd_mid : N; pd_loc : pat_loc }.

Inductive mock_error :=
| ENoMockImplementation (c : fn_call)
| ENoMatcherFunction (c : fn_call) (p : pat_debug)
| ENoMatchingCallPatterns (c : fn_call)
| ENoOutputAvailable (c : fn_call) (p : pat_debug)
| EMockNeverCalled (m : N)
| ECallOrderNotMatched (c : fn_call) (actual : N) (expected : option pat_debug)
| EInputsNotMatchedInCallOrder (c : fn_call) (actual : N) (p : pat_debug)
| ECannotReturnValueMoreThanOnce (c : fn_call) (p : pat_debug)
| EFailedVerification (msg : string)
| ECannotUnmock (m : N)
| ENoDefaultImpl (m : N)
| ENotAnswered (m : N)
| EExplicitPanic (c : fn_call) (p : pat_debug) (msg : N).

(* ---------- run-time state shared by all clones (SharedState + counters + slots) ---------- *)

Record state := {
  cnt : N -> nat -> N;             (* CallCounter.actual_count per (method, pattern) *)
  next_ord : N;                    (* next_ordered_call_index *)
  taken : N -> nat -> nat -> bool; (* emptied Mutex<Option<T>> slot of (method, pattern, responder) *)
  errs : list mock_error           (* panic_reasons *)
}.

Definition init_state : state :=
  {| cnt := fun _ _ => 0; next_ord := 0; taken := fun _ _ _ => false; errs := [] |}.

Definition bump (c : N -> nat -> N) (m : N) (i : nat) : N -> nat -> N :=
  fun m' i' => if (N.eqb m m' && Nat.eqb i i')%bool then c m' i' + 1 else c m' i'.

Definition take (t : N -> nat -> nat -> bool) (m : N) (i j : nat) : N -> nat -> nat -> bool :=
  fun m' i' j' => if (N.eqb m m' && Nat.eqb i i' && Nat.eqb j j')%bool then true else t m' i' j'.

Definition set_cnt (s : state) c := {| cnt := c; next_ord := next_ord s; taken := taken s; errs := errs s |}.
Definition set_next (s : state) n := {| cnt := cnt s; next_ord := n; taken := taken s; errs := errs s |}.
Definition set_taken (s : state) t := {| cnt := cnt s; next_ord := next_ord s; taken := t; errs := errs s |}.
Definition push_err (s : state) e := {| cnt := cnt s; next_ord := next_ord s; taken := taken s; errs := errs s ++ [e] |}.

(* ---------- evaluation ---------- *)

Inductive retval := RVTag (v : N) | RVDefault.

(* private::Eval + Continuation, or the MockError *)
Inductive outcome :=
| OutReturn (v : retval)
| OutAnswer (f : N)
| OutUnmock
| OutDefaultImpl
| OutErr (e : mock_error).

Section WithArgs.
Variable info : N -> minfo.
Variable A : Type.                          (* F::Inputs *)
Variable accepts : N -> A -> bool.          (* the matching function registered with m.func *)
Variable debug_args : A -> list (option string). (* F::debug_inputs *)

Definition call_of (m : N) (a : A) : fn_call := {| fc_mid := m; fc_args := debug_args a |}.

(* CallPattern::debug_location + FnMocker::debug_pattern *)
Definition debug_pattern (m : N) (i : nat) (p : pattern) : pat_debug :=
  {| pd_mid := m; pd_loc := match p_dbg p with Some d => LocDebug d | None => LocIndex i end |}.

(* CallPattern::match_inputs: None = Err(NoMatcherFunction) *)
Definition match_inputs (p : pattern) (a : A) : option bool :=
  match p_matcher p with
  | Some f => Some (accepts f a)
  | None => None
  end.

(* InAnyOrder: filter_map(..).next(): the first pattern that does not answer Ok(false) *)
Fixpoint scan (a : A) (ps : list pattern) (i : nat) : option (nat * pattern * option bool) :=
  match ps with
  | [] => None
  | p :: ps' =>
    match match_inputs p a with
    | Some false => scan a ps' (S i)
    | r => Some (i, p, r)
    end
  end.

(* FnMocker::find_call_pattern_for_call_order *)
Fixpoint find_range (k : N) (ps : list pattern) (i : nat) : option (nat * pattern) :=
  match ps with
  | [] => None
  | p :: ps' =>
    if ((p_lo p <=? k) && (k <? p_hi p))%bool then Some (i, p) else find_range k ps' (S i)
  end.

(* SharedState::find_ordered_expected_call_pattern_debug *)
Fixpoint find_expected (k : N) (tb : table) : option pat_debug :=
  match tb with
  | [] => None
  | (m, mk) :: tb' =>
    match m_mode mk with
    | InOrder =>
      match find_range k (m_pats mk) 0 with
      | Some (i, p) => Some (debug_pattern m i p)
      | None => find_expected k tb'
      end
    | InAnyOrder => find_expected k tb'
    end
  end.

Inductive selection :=
| Selected (i : nat) (p : pattern)
| NoneMatched
| SelErr (e : mock_error).

(* DynCtx::match_call_pattern *)
Definition match_call_pattern (cfg : config) (s : state) (m : N) (mk : mocker) (a : A)
  : state * selection :=
  match m_mode mk with
  | InAnyOrder =>
    match scan a (m_pats mk) 0 with
    | None => (s, NoneMatched)
    | Some (i, p, Some _) => (s, Selected i p)
    | Some (i, p, None) => (s, SelErr (ENoMatcherFunction (call_of m a) (debug_pattern m i p)))
    end
  | InOrder =>
    let k := next_ord s in
    let s1 := set_next s (k + 1) in                    (* bump_ordered_call_index *)
    match find_range k (m_pats mk) 0 with
    | None => (s1, SelErr (ECallOrderNotMatched (call_of m a) k (find_expected k (c_table cfg))))
    | Some (i, p) =>
      match match_inputs p a with
      | None => (s1, SelErr (ENoMatcherFunction (call_of m a) (debug_pattern m i p)))
      | Some false => (s1, SelErr (EInputsNotMatchedInCallOrder (call_of m a) k (debug_pattern m i p)))
      | Some true => (s1, Selected i p)
      end
    end
  end.

(* the responder arm of eval::eval, after next_responder() *)
Definition respond (s : state) (m : N) (a : A) (i : nat) (p : pattern) : state * outcome :=
  let c := cnt s m i in
  let s1 := set_cnt s (bump (cnt s) m i) in             (* call_counter.fetch_add() *)
  match find_responder_idx (map fst (p_resps p)) c with
  | None => (s1, OutErr (ENoOutputAvailable (call_of m a) (debug_pattern m i p)))
  | Some j =>
    match nth_opt (p_resps p) j with
    | None => (s1, OutErr (ENoOutputAvailable (call_of m a) (debug_pattern m i p))) (* unreachable: j < length *)
    | Some (_, r) =>
      match r with
      | RReturn true v =>
        if taken s1 m i j
        then (s1, OutErr (ECannotReturnValueMoreThanOnce (call_of m a) (debug_pattern m i p)))
        else (set_taken s1 (take (taken s1) m i j), OutReturn (RVTag v))
      | RReturn false v => (s1, OutReturn (RVTag v))
      | RReturnDefault => (s1, OutReturn RVDefault)
      | RAnswer f => (s1, OutAnswer f)
      | RPanic msg => (s1, OutErr (EExplicitPanic (call_of m a) (debug_pattern m i p) msg))
      | RUnmock => (s1, OutUnmock)
      | RDefaultImpl => (s1, OutDefaultImpl)
      end
    end
  end.

(* eval::eval / DynCtx::eval_dyn, before error handling *)
Definition eval_raw (cfg : config) (s : state) (m : N) (a : A) : state * outcome :=
  match lookup m (c_table cfg) with
  | None =>
    if mi_has_default (info m) then (s, OutDefaultImpl)
    else if mi_partial_by_default (info m) then (s, OutUnmock)
    else match c_fallback cfg with
         | FbError => (s, OutErr (ENoMockImplementation (call_of m a)))
         | FbUnmock => (s, OutUnmock)
         end
  | Some mk =>
    match match_call_pattern cfg s m mk a with
    | (s1, Selected i p) => respond s1 m a i p
    | (s1, NoneMatched) =>
      match c_fallback cfg with
      | FbError => (s1, OutErr (ENoMatchingCallPatterns (call_of m a)))
      | FbUnmock => (s1, OutUnmock)
      end
    | (s1, SelErr e) => (s1, OutErr e)
    end
  end.

(* private::eval = handle_error(eval::eval(..)): an Err is appended to
   panic_reasons (induce_panic) before the panic is raised *)
Definition eval (cfg : config) (s : state) (m : N) (a : A) : state * outcome :=
  match eval_raw cfg s m a with
  | (s1, OutErr e) => (push_err s1 e, OutErr e)
  | r => r
  end.

(* What the generated method body does next (def_method_impl). *)
Inductive action :=
| ActReturn (v : retval)
| ActAnswer (f : N)            (* __answer_fn(self, args) *)
| ActReal                      (* the unmock_with function *)
| ActDefault                   (* the trait's default body, through the delegator *)
| ActPanic (e : mock_error).   (* mock-induced panic, already recorded *)

Definition finish (s : state) (m : N) (o : outcome) : state * action :=
  match o with
  | OutReturn v => (s, ActReturn v)
  | OutAnswer f => (s, ActAnswer f)
  | OutUnmock =>
    if mi_has_unmock_arm (info m) then (s, ActReal)
    else (push_err s (ECannotUnmock m), ActPanic (ECannotUnmock m))     (* cont.report(self) *)
  | OutDefaultImpl =>
    if mi_has_default (info m) then (s, ActDefault)
    else (push_err s (ENoDefaultImpl m), ActPanic (ENoDefaultImpl m))
  | OutErr e => (s, ActPanic e)
  end.

Definition call (cfg : config) (s : state) (m : N) (a : A) : state * action :=
  let '(s1, o) := eval cfg s m a in finish s1 m o.

End WithArgs.

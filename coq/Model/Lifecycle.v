(* Unimock.Model.Lifecycle -- src/lib.rs (Unimock: Clone, Drop, verify,
   no_verify_in_drop, Termination::report) and src/teardown.rs. *)
From Unimock Require Export Model.Verify.
Open Scope N_scope.

(* one Unimock value *)
Record inst := {
  i_alive : bool;
  i_original : bool;       (* original_instance *)
  i_torn : bool;           (* torn_down *)
  i_vid : bool;            (* verify_in_drop *)
  i_panicked : bool;       (* no_std only: `panicked` *)
  i_helper : N;            (* helper clones reachable from default_impl_delegator_cell: the helper, the helper's helper, .. *)
  i_lent : N;              (* clones of the mock stored in this instance's value chain *)
  i_calls : list (N * N)   (* of these, the ones owned by a value whose Drop makes a (swallowed) call on its clone: (method, argument),
                              in the order the values were lent = the order in which the chain drops them *)
}.

Definition new_original : inst :=
  {| i_alive := true; i_original := true; i_torn := false; i_vid := true; i_panicked := false;
     i_helper := 0; i_lent := 0; i_calls := [] |}.

(* impl Clone for Unimock *)
Definition clone_of (i : inst) : inst :=
  {| i_alive := true; i_original := false; i_torn := false; i_vid := i_vid i; i_panicked := false;
     i_helper := 0; i_lent := 0; i_calls := [] |}.

Definition set_torn (i : inst) : inst :=
  {| i_alive := i_alive i; i_original := i_original i; i_torn := true; i_vid := i_vid i; i_panicked := i_panicked i;
     i_helper := i_helper i; i_lent := i_lent i; i_calls := i_calls i |}.
Definition set_dead (i : inst) : inst :=
  {| i_alive := false; i_original := i_original i; i_torn := i_torn i; i_vid := i_vid i; i_panicked := i_panicked i;
     i_helper := 0; i_lent := 0; i_calls := [] |}.
Definition set_vid (i : inst) (b : bool) : inst :=
  {| i_alive := i_alive i; i_original := i_original i; i_torn := i_torn i; i_vid := b; i_panicked := i_panicked i;
     i_helper := i_helper i; i_lent := i_lent i; i_calls := i_calls i |}.
Definition set_panicked (i : inst) : inst :=
  {| i_alive := i_alive i; i_original := i_original i; i_torn := i_torn i; i_vid := i_vid i; i_panicked := true;
     i_helper := i_helper i; i_lent := i_lent i; i_calls := i_calls i |}.
(* AsRef<DefaultImplDelegator>: get_or_init(clone of self); [n] levels: a default body (or an answer
   function) running on the helper may itself delegate, which creates the helper's own helper *)
Definition set_helper_levels (i : inst) (n : N) : inst :=
  {| i_alive := i_alive i; i_original := i_original i; i_torn := i_torn i; i_vid := i_vid i; i_panicked := i_panicked i;
     i_helper := N.max (i_helper i) n; i_lent := i_lent i; i_calls := i_calls i |}.
Definition set_helper (i : inst) : inst := set_helper_levels i 1.
(* make_ref(self.clone()) *)
Definition add_lent (i : inst) : inst :=
  {| i_alive := i_alive i; i_original := i_original i; i_torn := i_torn i; i_vid := i_vid i; i_panicked := i_panicked i;
     i_helper := i_helper i; i_lent := i_lent i + 1; i_calls := i_calls i |}.
(* make_ref(Caller { u: self.clone(), m, a }) where Caller's Drop calls u.m(a) and swallows a panic *)
Definition add_lent_call (i : inst) (m a : N) : inst :=
  {| i_alive := i_alive i; i_original := i_original i; i_torn := i_torn i; i_vid := i_vid i; i_panicked := i_panicked i;
     i_helper := i_helper i; i_lent := i_lent i + 1; i_calls := (i_calls i ++ [(m, a)])%list |}.
(* the value chain has been dropped *)
Definition clear_calls (i : inst) : inst :=
  {| i_alive := i_alive i; i_original := i_original i; i_torn := i_torn i; i_vid := i_vid i; i_panicked := i_panicked i;
     i_helper := i_helper i; i_lent := i_lent i; i_calls := [] |}.

Fixpoint upd {X} (l : list X) (i : nat) (x : X) : list X :=
  match l, i with
  | [], _ => []
  | _ :: t, O => x :: t
  | h :: t, S i' => h :: upd t i' x
  end.

(* handles to the shared state held by one instance: itself, its helper clone,
   the clones it lent out of its value chain *)
Definition handles (i : inst) : N :=
  if i_alive i then 1 + i_helper i + i_lent i else 0.

(* Arc::strong_count *)
Fixpoint strong_count (is : list inst) : N :=
  match is with
  | [] => 0
  | i :: r => handles i + strong_count r
  end.

(* teardown first releases the instance's own helper and lent values *)
Definition count_after_release (is : list inst) (i : inst) : N :=
  strong_count is - (handles i - 1).

(* where and how an operation runs *)
Record ctx := {
  x_other_thread : bool;   (* not the thread that created the mock *)
  x_unwinding : bool       (* std::thread::panicking() *)
}.
Definition here : ctx := {| x_other_thread := false; x_unwinding := false |}.

Definition msg_clones_alive : string :=
  "Unimock cannot verify calls, because the original instance got dropped while there are clones still alive.".
Definition msg_wrong_thread : string :=
  "Original Unimock instance destroyed on a different thread than the one it was created on. To solve this, clone the object before sending it to the other thread.".
Definition msg_verify_clone : string :=
  "Called verify() on a cloned instance. Verify the original instance instead.".
Definition msg_nvid_clone : string :=
  "Called no_verify_on_drop() on a cloned instance. Configure the original instance instead.".

Inductive td_result :=
| TdOk
| TdErrs (es : list mock_error)
| TdPanic (msg : string).

Section WithInfo.
Variable info : N -> minfo.

(* teardown(), after `torn_down = true` and the release of helper and lent values.
   [live] = Arc::strong_count at that moment *)
Definition teardown (bc : buildcfg) (cfg : config) (s : state) (x : ctx) (i : inst) (live : N) : td_result :=
  if negb (i_original i) then TdOk
  else if (negb (bc_std bc) && i_panicked i)%bool then TdOk
  else if (bc_std bc && x_unwinding x)%bool then TdOk
  else if 1 <? live then TdPanic msg_clones_alive
  else if (bc_std bc && x_other_thread x)%bool then TdPanic msg_wrong_thread
  else match verdict info cfg s with
       | [] => TdOk
       | es => TdErrs es
       end.

(* teardown_panic: None = returns normally, Some msg = panics *)
Definition teardown_panic (bc : buildcfg) (cfg : config) (s : state) (x : ctx) (i : inst) (live : N)
  : option string :=
  match teardown bc cfg s x i live with
  | TdOk => None
  | TdErrs es => Some (verdict_text info es)
  | TdPanic msg => Some msg
  end.

(* impl Drop for Unimock *)
Definition drop_panic (bc : buildcfg) (cfg : config) (s : state) (x : ctx) (i : inst) (live : N)
  : option string :=
  if i_torn i then None
  else if i_vid i then teardown_panic bc cfg s x i live
  else None.

End WithInfo.

(* Unimock.Props.C10 -- property theorems only.  All statements quantify over
   EVERY schedule (list of thread ids), any number of threads and calls. *)
From Unimock Require Import Model.RunConc Proofs.Core Proofs.C02 Proofs.Conc.
From Coq Require Import Permutation.
Open Scope N_scope.

Section Statements.
Variable info : N -> minfo.
Variable A : Type.
Variable accepts : N -> A -> bool.
Variable debug_args : A -> list (option string).
Variable cfg : config.
Notation run_sched := (run_sched info A accepts debug_args cfg).
Notation advance := (advance info A accepts debug_args cfg).
Notation threads_of callss := (map (fun cs => advance cs []) callss).

(* every match of a pattern and every ordered call obtains a fresh position: the
   values handed out by the fetch_adds on a counter (on the ordered index) are
   exactly 0, 1, ..., value-1, each once: nothing lost, nothing handed out twice *)
Theorem C10_positions_are_distinct : forall sched callss,
  let g := fst (run_sched sched (init_glob, threads_of callss)) in
  obtained LOrd (g_log g) = nlist (next_ord (g_state g)) /\
  forall m i, obtained (LCnt m i) (g_log g) = nlist (cnt (g_state g) m i).
Proof.
  intros sched callss. cbn zeta.
  pose proof (positions_hold info A accepts debug_args cfg sched (threads_of callss)) as H.
  split; [exact (H LOrd)|intros m i; exact (H (LCnt m i))].
Qed.

(* after joining the threads, the counters and the ordered index are those of
   the SEQUENTIAL Layer A run of the same calls (in the order of their first
   counting step): so the verdict's count lines equal the sequential ones *)
Theorem C10_joined_equals_sequential : forall sched callss,
  let st := run_sched sched (init_glob, threads_of callss) in
  all_done A (snd st) = true ->
  next_ord (g_state (fst st)) = next_ord (run_hist info A accepts debug_args cfg init_state (g_order (fst st))) /\
  forall m i, cnt (g_state (fst st)) m i =
              cnt (run_hist info A accepts debug_args cfg init_state (g_order (fst st))) m i.
Proof. exact (joined_equals_sequential info A accepts debug_args cfg). Qed.

(* hence the count lines of the verdict (exactly / at least n, never called) computed after the join are those of that sequential
   run: verification judges the same counters *)
Theorem C10_joined_count_verdict_is_sequential : forall sched callss,
  let st := run_sched sched (init_glob, threads_of callss) in
  all_done A (snd st) = true ->
  verify_all info cfg (g_state (fst st)) =
  verify_all info cfg (run_hist info A accepts debug_args cfg init_state (g_order (fst st))).
Proof. exact (joined_count_verdict_is_sequential info A accepts debug_args cfg). Qed.

(* the shared error list holds exactly the mock-induced panics of all threads (C08, concurrent half) *)
Theorem C10_errors_are_exactly_the_panics : forall sched callss,
  let st := run_sched sched (init_glob, threads_of callss) in
  Permutation (errs (g_state (fst st))) (all_panics A (snd st)).
Proof. exact (errors_are_panics info A accepts debug_args cfg). Qed.

(* Layer B refines Layer A: a call whose atomic steps run back to back is the sequential call - also for a composite
   single-use value, whose slots are emptied one after the other (the hypothesis: no further slot of a value is empty
   while its first one is full, which holds in every reachable state: C12_single_use_value_has_one_owner) *)
Theorem C10_atomic_call_refines_sequential_call : forall g m a,
  (forall m i j l, leaf_taken (g_leaf g) (m, i, j, l) = true -> taken (g_state g) m i j = true) ->
  let fuel := (4 + mi_more_leaves (info m))%nat in
  snd (drive info A accepts debug_args cfg fuel g (start_call info A accepts debug_args cfg m a)) =
    Some (snd (call info A accepts debug_args cfg (g_state g) m a)) /\
  g_state (fst (drive info A accepts debug_args cfg fuel g (start_call info A accepts debug_args cfg m a))) =
    fst (call info A accepts debug_args cfg (g_state g) m a).
Proof. exact (atomic_call_is_call info A accepts debug_args cfg). Qed.

End Statements.

(* non-vacuity: two threads race for positions 0 and 1 of one pattern; with the
   schedule [1;0] thread 1 gets the first response *)
Example C10_nonvacuous :
  run_ccase (CKase false [TCall 0 EachCall (Pt (Some 255) None [OReturns 1; ONTimes 1; OThen; OReturns 2; ONTimes 1])]
                   [[(0, 0)]; [(0, 0)]] [1; 0]) =
  ["new:ok"; "t1 FetchAdd cnt:0:0"; "t0 FetchAdd cnt:0:0"; "T0 r2"; "T1 r1"; "verify:ok"]%string.
Proof. vm_compute. reflexivity. Qed.

(* Unimock.Props.C02 -- property theorems only. *)
From Unimock Require Import Model.Run Spec.Chain Proofs.Core Proofs.C01 Proofs.C02.
Open Scope N_scope.

(* (a) every well-typed builder chain r1.q1.then()...r_last[.q_last], used as a
   clause, builds exactly [chain_apply] ... *)
Theorem C02_builder_chain : forall bc clone_ok ch in_dr b,
  bc_mutex_api bc = true ->
  chain_ok (b_mode b) clone_ok in_dr ch = true ->
  match bsteps bc clone_ok (start_of in_dr, b) (chain_ops ch) with
  | Some st => finalize_clause bc st
  | None => None
  end = Some (chain_apply in_dr b ch).
Proof. exact build_chain. Qed.

(* ... whose responders are the chain's responses keyed by the prefix sums 0, n1, n1+n2, ... *)
Theorem C02_start_indexes_are_prefix_sums : forall d md matcher dbg ch,
  map fst (b_resps (chain_apply d (new_builder md matcher dbg) ch)) = starts (counts_of ch) 0 /\
  map snd (b_resps (chain_apply d (new_builder md matcher dbg) ch)) = chain_resps d ch.
Proof. exact chain_keys. Qed.

(* (b) the lookup (transcribed binary_search_by + post-processing) for call index k-1
   returns the chain's segment for the k-th match, for ALL count lists, zero counts included *)
Theorem C02_lookup_is_segment : forall counts k,
  counts <> [] -> 1 <= k ->
  find_responder_idx (starts counts 0) (k - 1) = Some (seg_of counts k 0).
Proof. exact find_responder_is_segment. Qed.

(* seg_of in the words of the property: the first i with n1+...+ni >= k, else the last *)
Theorem C02_segment_spec : forall counts k i,
  counts <> [] ->
  let r := (seg_of counts k i - i)%nat in
  (i <= seg_of counts k i)%nat /\ (r < length counts)%nat /\
  (forall j, (j < r)%nat -> prefix_sum counts j < k) /\
  (k <= prefix_sum counts r \/ r = (length counts - 1)%nat).
Proof. exact seg_of_first. Qed.

(* (c) a pattern's counter is the number of times it has been matched, over any
   history through any instances (the state is shared): the k-th match reads k-1 *)
Theorem C02_counter_counts_matches : forall info A accepts debug_args cfg h s m i,
  cnt (run_hist info A accepts debug_args cfg s h) m i =
  cnt s m i + matches_of info A accepts debug_args cfg s h m i.
Proof. exact counter_counts_matches. Qed.

(* (b)+(d) what the k-th match yields, by kind of responder; a single-use value
   is produced on its first request and never again *)
Theorem C02_kth_response : forall A debug_args s m a i p counts k r,
  map fst (p_resps p) = starts counts 0 -> counts <> [] -> 1 <= k ->
  cnt s m i = k - 1 ->
  nth_opt (map snd (p_resps p)) (seg_of counts k 0) = Some r ->
  match r with
  | RReturn true v =>
      if taken s m i (seg_of counts k 0)
      then snd (respond A debug_args s m a i p) =
           OutErr (ECannotReturnValueMoreThanOnce (call_of A debug_args m a) (debug_pattern m i p))
      else snd (respond A debug_args s m a i p) = OutReturn (RVTag v) /\
           taken (fst (respond A debug_args s m a i p)) m i (seg_of counts k 0) = true
  | RPanic msg => snd (respond A debug_args s m a i p) =
                  OutErr (EExplicitPanic (call_of A debug_args m a) (debug_pattern m i p) msg)
  | _ => Some (snd (respond A debug_args s m a i p)) = resp_outcome r
  end.
Proof. exact respond_kth. Qed.

(* the lookup relies only on this property of the search, proved of the
   transcription for non-strictly sorted keys *)
Theorem C02_binary_search_greatest : forall keys t,
  sorted keys -> keys <> [] -> nth 0 keys 0 <= t ->
  exists r, find_responder_idx keys t = Some r /\
    (r < length keys)%nat /\ nth r keys 0 <= t /\
    (forall j, (r < j)%nat -> (j < length keys)%nat -> t < nth j keys 0).
Proof. exact find_responder_greatest. Qed.

(* non-vacuity and a zero-count chain: 10 x 0, then 20 x 2, then 30 *)
Example C02_nonvacuous :
  let ch := [ {| sg_r := SRet 10; sg_q := QN 0 |}; {| sg_r := SRet 20; sg_q := QN 2 |};
              {| sg_r := SRet 30; sg_q := QOpen |} ] in
  chain_ok InAnyOrder true false ch = true /\
  map (fun k => seg_of (counts_of ch) k 0) [1; 2; 3; 4] = [1; 1; 2; 2]%nat /\
  map (fun k => find_responder_idx (starts (counts_of ch) 0) (k - 1)) [1; 2; 3; 4]
    = [Some 1; Some 1; Some 2; Some 2]%nat.
Proof. vm_compute. repeat split; reflexivity. Qed.

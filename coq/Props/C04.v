(* Unimock.Props.C04 -- property theorems only. *)
From Unimock Require Import Model.Run Spec.FirstMatch Spec.Slots Proofs.Core Proofs.C01 Proofs.C02 Proofs.C04.
Open Scope N_scope.

(* Assembly gives the ordered clauses consecutive, pairwise disjoint slot ranges:
   after assembling ANY clause list, slot k of the global sequence is found in
   method m exactly at the pattern the left-to-right count of Spec.Slots says. *)
Theorem C04_slot_owner : forall info ps a',
  asm_pushes info new_assembler ps = inl a' ->
  a_cur a' = n_slots ps /\
  forall m k, option_map fst (find_range k (pats_of m (a_table a')) 0) = owner_in m 0 0 ps k.
Proof.
  intros info ps a' H.
  destruct (assemble_owner info ps new_assembler a' H (below_new)) as (_ & Hc & Ho).
  split; [exact Hc|]. intros m k. rewrite Ho. reflexivity.
Qed.

Theorem C04_ranges_disjoint : forall info ps a',
  asm_pushes info new_assembler ps = inl a' -> disjoint (a_table a').
Proof. intros info ps a' H. exact (assemble_disjoint info ps _ _ H below_new disjoint_new). Qed.

(* the i-th call to any ordered method (i = next_ord): decision and slot consumption *)
Theorem C04_ordered_call : forall info A accepts debug_args cfg s m a mk,
  lookup m (c_table cfg) = Some mk -> m_mode mk = InOrder ->
  let k := next_ord s in
  let s1 := set_next s (k + 1) in
  eval_raw info A accepts debug_args cfg s m a =
  match find_range k (m_pats mk) 0 with
  | None => (s1, OutErr (ECallOrderNotMatched (call_of A debug_args m a) k (find_expected k (c_table cfg))))
  | Some (i, p) =>
    match p_matcher p with
    | None => (s1, OutErr (ENoMatcherFunction (call_of A debug_args m a) (debug_pattern m i p)))
    | Some f =>
      if accepts f a then respond A debug_args s1 m a i p
      else (s1, OutErr (EInputsNotMatchedInCallOrder (call_of A debug_args m a) k (debug_pattern m i p)))
    end
  end.
Proof. exact ordered_call. Qed.

(* an accepted ordered call in slot k gets position k - lo of its own pattern's
   response chain (C02 then says which response that is) *)
Theorem C04_slot_response_position : forall info A accepts debug_args cfg s m a mk,
  disjoint (c_table cfg) -> ord_inv cfg s ->
  lookup m (c_table cfg) = Some mk -> m_mode mk = InOrder ->
  accepted (snd (eval_raw info A accepts debug_args cfg s m a)) ->
  exists i p, find_range (next_ord s) (m_pats mk) 0 = Some (i, p) /\
    eval_raw info A accepts debug_args cfg s m a =
      respond A debug_args (set_next s (next_ord s + 1)) m a i p /\
    cnt s m i = next_ord s - p_lo p /\
    ord_inv cfg (fst (eval info A accepts debug_args cfg s m a)).
Proof. exact ordered_call_position. Qed.

Theorem C04_invariant_initially : forall cfg, ord_inv cfg init_state.
Proof. exact ord_inv_init. Qed.

(* calls to unordered or unmentioned methods never consume or disturb slots *)
Theorem C04_unordered_calls_do_not_disturb : forall info A accepts debug_args cfg s m a,
  (forall mk, lookup m (c_table cfg) = Some mk -> m_mode mk = InAnyOrder) ->
  next_ord (fst (eval info A accepts debug_args cfg s m a)) = next_ord s /\
  (forall m' i', m' <> m -> cnt (fst (eval info A accepts debug_args cfg s m a)) m' i' = cnt s m' i') /\
  (ord_inv cfg s -> ord_inv cfg (fst (eval info A accepts debug_args cfg s m a))).
Proof.
  intros info A accepts debug_args cfg s m a H.
  destruct (unordered_call_keeps_order info A accepts debug_args cfg s m a H) as [H1 H2].
  split; [exact H1|]. split; [exact H2|].
  exact (unordered_call_keeps_inv info A accepts debug_args cfg s m a H).
Qed.

(* non-vacuity: m0 x 2, (unordered m1), m2 x 1, m0 x 1: slots 0,1 -> m0#0; 2 -> m2#0; 3 -> m0#1 *)
Example C04_nonvacuous :
  exists ps a', flatten_terminals hinfo cfg_std
      [TCall 0 NextCall (Pt (Some 255) None [OReturns 1; ONTimes 2]);
       TCall 1 EachCall (Pt (Some 255) None [OReturns 2]);
       TCall 2 NextCall (Pt (Some 255) None [OReturns 3]);
       TCall 0 NextCall (Pt (Some 255) None [OAnswers 4])] = Some ps /\
    asm_pushes hinfo new_assembler ps = inl a' /\
    n_slots ps = 4 /\
    map (owner_in 0 0 0 ps) [0; 1; 2; 3; 4] = [Some 0; Some 0; None; Some 1; None]%nat /\
    map (owner_in 2 0 0 ps) [0; 1; 2; 3; 4] = [None; None; Some 0; None; None]%nat /\
    slots ps = [(0, 0%nat); (0, 0%nat); (2, 0%nat); (0, 1%nat)].
Proof. eexists. eexists. vm_compute. repeat split; reflexivity. Qed.

(* Unimock.Props.C16 -- property theorems only. *)
From Unimock Require Import Model.Run Proofs.Core Proofs.Deleg.
Open Scope N_scope.

(* an Unmock continuation (applies_unmocked() or partial fall-through, C07) reaches the
   registered function iff the generated body has the arm for this method; otherwise the
   call records and panics CannotUnmock ... *)
Theorem C16_unmock_reaches_real_function : forall s m,
  finish hinfo s m OutUnmock =
  if mi_has_unmock_arm (hinfo m) then (s, ActReal)
  else (push_err s (ECannotUnmock m), ActPanic (ECannotUnmock m)).
Proof. exact unmock_reaches_real_function. Qed.

(* ... naming the method *)
Theorem C16_cannot_unmock_names_method : forall m,
  render_error hinfo (ECannotUnmock m) =
  (path_str (hinfo m) ++ " cannot be unmocked as there is no function available to call.")%string.
Proof. exact cannot_unmock_names_method. Qed.

(* the function is applied once to the caller's arguments: (mock, a, ..) in declaration order
   for the plain form, the listed parameter expressions for the `path(params..)` form *)
Theorem C16_real_function_arguments : forall fuel cfg armed s1 a b,
  armed <> 1 ->
  eval_act fuel cfg armed s1 10 a b ActReal = (s1, armed, inl ("real10(" ++ dec a ++ ")")%string) /\
  eval_act fuel cfg armed s1 12 a b ActReal = (s1, armed, inl ("real12(" ++ dec b ++ "," ++ dec a ++ ")")%string).
Proof. exact real_function_arguments. Qed.

(* calls the real function makes back into mocked traits are evaluated by the same mock:
   recursion to ANY depth n, on the same shared state, in program order *)
Theorem C16_recursion_through_the_mock : forall cfg armed b,
  armed <> 1 ->
  (forall s k, call hinfo N haccepts hdebug cfg s 13 k = (s, ActReal)) ->
  forall n fuel s, (n <= fuel)%nat ->
  eval_act fuel cfg armed s 13 (N.of_nat n) b ActReal = (s, armed, inl (rec_text n ("base(" ++ dec b ++ ")")%string)).
Proof. exact recursion_through_the_mock. Qed.

Theorem C16_recursion_stops_at_a_mocked_level : forall cfg armed b fuel s a s2 v,
  armed <> 1 -> a <> 0 ->
  call hinfo N haccepts hdebug cfg s 13 (a - 1) = (s2, ActReturn (RVTag v)) -> v < 1000 ->
  eval_act (S fuel) cfg armed s 13 a b ActReal = (s2, armed, inl ("rec(r" ++ dec v ++ ")")%string).
Proof. exact recursion_stops_at_a_mocked_level. Qed.

(* KNOWN FINDING F1 (the property is refuted for `&mut self` / Pin<&mut Self> receivers on
   the unchanged tree): the macro emits no unmock arm there although a function is registered *)
Theorem C16_known_F1_refuted :
  mi_has_unmock_arm (hinfo 20) = false /\
  forall s a, call hinfo N haccepts hdebug {| c_fallback := FbUnmock; c_table := [] |} s 20 a =
              (push_err s (ECannotUnmock 20), ActPanic (ECannotUnmock 20)).
Proof. exact known_F1_refuted. Qed.

Example C16_nonvacuous :
  (* partial mock; u3(3, 4): the real function recurses three levels through the mock *)
  snd (step {| w_bc := cfg_std; w_cfg := {| c_fallback := FbUnmock; c_table := [] |}; w_state := init_state;
               w_insts := [new_original]; w_armed := 0 |} (Ev false false (calld_ 0 13 3)))
  = "rec(rec(rec(base(4))))"%string.
Proof. vm_compute. reflexivity. Qed.

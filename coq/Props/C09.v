(* Unimock.Props.C09 -- property theorems only. *)
From Unimock Require Import Model.Run Proofs.Core Proofs.Life.
Open Scope N_scope.

(* dropping a clone never verifies and never panics, whatever the expectations,
   errors, thread or unwinding state *)
Theorem C09_clone_drop_silent : forall info bc cfg s x i live,
  i_original i = false ->
  teardown info bc cfg s x i live = TdOk /\ drop_panic info bc cfg s x i live = None.
Proof. intros. split; [now apply clone_teardown_silent|now apply clone_drop_silent]. Qed.

(* clones (also clones of clones, helper clones, lent clones) are never original *)
Theorem C09_clone_not_original : forall i, i_original (clone_of i) = false.
Proof. exact clone_not_original. Qed.

(* verify() and no_verify_in_drop() on a clone panic *)
Theorem C09_verify_on_clone_panics : forall w x i it,
  live_inst w i = Some it -> i_original it = false -> x_unwinding x = false ->
  snd (step w {| ev_ctx := x; ev_base := BVerify i |}) = ("P:" ++ msg_verify_clone)%string /\
  snd (step w {| ev_ctx := x; ev_base := BNvid i |}) = ("P:" ++ msg_nvid_clone)%string.
Proof.
  intros w x i it Hl Ho Hu. unfold step, releasing. cbn [ev_base ev_ctx]. rewrite Hl.
  destruct (i_calls it); rewrite ?Ho.
  - unfold step_core. cbn [ev_base ev_ctx]. rewrite Hl, Ho, Hu. split; reflexivity.
  - unfold step_core. cbn [ev_base ev_ctx]. rewrite (live_inst_release w i it Hl). cbn [clear_calls i_original]. rewrite Ho, Hu.
    split; reflexivity.
Qed.

(* the original's verification: skipped while unwinding (std) / after an own
   mock panic (no_std); then panics if a clone is alive; then (std) if on a foreign
   thread; otherwise computes the verdict (C03 / C08) *)
Theorem C09_original_teardown_order : forall info bc cfg s x i live,
  i_original i = true ->
  teardown info bc cfg s x i live =
    if (negb (bc_std bc) && i_panicked i)%bool then TdOk
    else if (bc_std bc && x_unwinding x)%bool then TdOk
    else if 1 <? live then TdPanic msg_clones_alive
    else if (bc_std bc && x_other_thread x)%bool then TdPanic msg_wrong_thread
    else match verdict info cfg s with [] => TdOk | es => TdErrs es end.
Proof. exact original_teardown_order. Qed.

(* no_verify_in_drop() / an earlier verify() or report() make the drop silent *)
Theorem C09_disabled_drop_silent : forall info bc cfg s x i live,
  (i_torn i = true \/ i_vid i = false) -> drop_panic info bc cfg s x i live = None.
Proof. exact disabled_drop_silent. Qed.

(* report() = FAILURE exactly when verify() would report errors, SUCCESS exactly
   when it would be silent, and it panics exactly where verify() panics *)
Theorem C09_report_matches_verify : forall info bc cfg s x i live,
  (teardown info bc cfg s x i live = TdOk <-> teardown_panic info bc cfg s x i live = None) /\
  (forall es, teardown info bc cfg s x i live = TdErrs es ->
              teardown_panic info bc cfg s x i live = Some (verdict_text info es)) /\
  (forall msg, teardown info bc cfg s x i live = TdPanic msg ->
               teardown_panic info bc cfg s x i live = Some msg).
Proof. exact report_matches_verify. Qed.

(* exactly once: no event sequence creates a second original; drop, verify(),
   report() and leaving the owning scope consume the instance they act on; a
   consumed (dead) instance refuses every later event *)
Theorem C09_at_most_one_original : forall es w,
  (originals (fold_left (fun w e => fst (step w e)) es w) <= originals w)%nat.
Proof. exact originals_run. Qed.

Theorem C09_original_consumed : forall w i it,
  originals w = 1%nat -> nth_opt (w_insts w) i = Some it -> is_live_original it = true ->
  originals (kill w i it) = 0%nat.
Proof. exact original_consumed. Qed.

(* the strong count is the number of handles: live instances, their helper
   clones and the clones they lent *)
Theorem C09_clone_adds_one_handle : forall insts it,
  strong_count (insts ++ [clone_of it]) = strong_count insts + 1.
Proof. exact clone_adds_one. Qed.

Example C09_nonvacuous :
  (* original, a clone, delegation helper on the original, a lent clone on the clone *)
  let w := {| w_bc := cfg_std; w_cfg := {| c_fallback := FbError; c_table := [] |}; w_state := init_state;
              w_insts := [set_helper new_original; add_lent (clone_of new_original)]; w_armed := 0 |} in
  originals w = 1%nat /\ strong_count (w_insts w) = 4 /\
  snd (step w (Ev false false (drop_ 0))) = ("P:" ++ msg_clones_alive)%string /\
  snd (step w (Ev false false (drop_ 1))) = "ok"%string /\
  snd (step (fst (step w (Ev false false (drop_ 1)))) (Ev false false (drop_ 0))) = "ok"%string.
Proof. vm_compute. repeat split; reflexivity. Qed.

(* Unimock.Props.C13 -- property theorems only. *)
From Unimock Require Import Model.RunChain Proofs.Chain Proofs.ChainRun.
From Coq Require Import Permutation.

(* a reference shows its own value ... *)
Theorem C13_push_returns_own_value : forall c v, get (fst (push c v)) (snd (push c v)) = Some v.
Proof. exact push_returns_own_value. Qed.

(* ... in a cell nobody had before (so same-typed neighbours are never confused) ... *)
Theorem C13_push_index_fresh : forall c v, snd (push c v) = length (cells c) /\ get c (snd (push c v)) = None.
Proof. exact push_index_fresh. Qed.

(* ... and keeps showing it, unmodified, however many further values are lent (any number, any types) *)
Theorem C13_pushes_keep_earlier : forall vs c i x, get c i = Some x -> get (pushes c vs) i = Some x.
Proof. exact pushes_keep_earlier. Qed.

(* lent values are never dropped by lending more; make_mut (exclusive access) and the
   release of the chain drop every value exactly once *)
Theorem C13_push_conserves : forall c v,
  released (fst (push c v)) = released c /\ all_values (fst (push c v)) = (all_values c ++ [v])%list.
Proof. exact push_conserves. Qed.

Theorem C13_push_mut_releases_earlier : forall c v,
  released (fst (push_mut c v)) = all_values c /\ cells (fst (push_mut c v)) = [v].
Proof. exact push_mut_conserves. Qed.

Theorem C13_drop_releases_all : forall c, cells (drop_chain c) = [] /\ released (drop_chain c) = all_values c.
Proof. exact drop_releases_all. Qed.

(* one instance with its delegation helper (values lent by answers during a `&self` provided method live in the
   HELPER's chain): lending directly or through the helper, `&mut self` provided calls and observations release
   nothing - both chains only grow; make_mut releases exactly the instance's own earlier values and leaves the
   helper's chain alone *)
Theorem C13_only_make_mut_releases : forall (others : N) (ci : cinst) (o : cop),
  is_make_mut o = false ->
  let ci' := fst (cop_step others ci o) in
  released (ci_chain ci') = released (ci_chain ci) /\
  released (ci_helper ci') = released (ci_helper ci) /\
  (exists e1, cells (ci_chain ci') = cells (ci_chain ci) ++ e1)%list /\
  (exists e2, cells (ci_helper ci') = cells (ci_helper ci) ++ e2)%list.
Proof. exact step_releases_nothing. Qed.

Theorem C13_make_mut_releases_own_chain_only : forall (others : N) (ci : cinst) (ty v : N),
  let ci' := fst (cop_step others ci (CMut ty v)) in
  released (ci_chain ci') = all_values (ci_chain ci) /\ ci_helper ci' = ci_helper ci /\ ci_held ci' = [].
Proof. exact make_mut_releases_own_only. Qed.

(* `&mut` results of mocked methods (output kind MutLending, or a `&mut` leaf under Option): the answer function's make_mut acts on
   the instance's own chain exactly as a direct make_mut does, and every way to reach make_mut leaves one cell, releases the
   instance's own earlier values, keeps the helper's chain and ends every earlier borrow *)
Theorem C13_mocked_mut_result_is_make_mut : forall (others : N) (ci : cinst) (ty v : N), (ty <? 2)%N = true ->
  cop_step others ci (CMutM ty v) = cop_step others ci (CMut ty v).
Proof. exact mocked_mut_result_is_make_mut. Qed.

Theorem C13_any_make_mut_releases_own_chain_only : forall (others : N) (ci : cinst) (o : cop), is_make_mut o = true ->
  let ci' := fst (cop_step others ci o) in
  released (ci_chain ci') = all_values (ci_chain ci) /\ ci_helper ci' = ci_helper ci /\ ci_held ci' = [] /\
  length (cells (ci_chain ci')) = 1%nat.
Proof. exact any_make_mut_releases_own_only. Qed.

(* over ANY sequence of operations on the instance: what was lent through the helper is never released and
   never reordered, and every reference the caller still holds points at a value that is still in a chain *)
Theorem C13_helper_values_never_released : forall (others : N) (ops : list cop) (ci : cinst),
  released (ci_helper (fst (session others ci ops))) = released (ci_helper ci)
  /\ exists e, cells (ci_helper (fst (session others ci ops))) = (cells (ci_helper ci) ++ e)%list.
Proof. exact helper_values_never_released. Qed.

Theorem C13_held_references_point_at_live_values : forall (others : N) (ops : list cop) (ci : cinst),
  held_alive ci -> held_alive (fst (session others ci ops)).
Proof. exact session_held_alive. Qed.

(* concurrently through a shared &Unimock, for EVERY schedule of the try_insert
   steps, any number of threads and values: every reference obtained shows its
   own value, no two references share a cell, and the chain holds exactly the
   lent values (nothing lost, nothing duplicated) *)
Theorem C13_concurrent_pushes : forall sched vss,
  let '(cs, ps) := run_pushers sched ([], map new_pusher vss) in
  (forall i v, In (i, v) (got_all ps) -> nth_opt cs i = Some v) /\
  NoDup (map fst (got_all ps)) /\
  Permutation cs (map snd (got_all ps)).
Proof.
  intros sched vss. pose proof (chain_inv_holds sched vss) as H.
  destruct (run_pushers sched ([], map new_pusher vss)) as [cs ps]. exact H.
Qed.

(* the chain only grows under concurrent pushes: earlier cells are never touched *)
Theorem C13_concurrent_append_only : forall sched cs ps,
  exists ext, fst (run_pushers sched (cs, ps)) = (cs ++ ext)%list.
Proof. exact pushers_only_append. Qed.

Example C13_nonvacuous :
  run_thread_case [[1; 2]; [3]]%N [0; 1; 1; 0; 0; 0]%nat =
  ["t0 TryInsert cell0"; "t1 TryInsert cell0"; "t1 TryInsert cell1"; "t0 TryInsert cell0"; "t0 TryInsert cell1";
   "t0 TryInsert cell2"; "T0 [1,2]"; "T1 [3]"; "distinct=3 of 3"; "end live=3"; "dropped live=0"]%string.
Proof. vm_compute. reflexivity. Qed.

(* Unimock.Props.C05 -- property theorems only.
   #[unimock] impls forward arguments, receiver and result unchanged.
   Everything is about [gen_body sh], the transcription (Macro/Unimock.v) of what
   def_method_impl emits for a method of shape [sh], executed under a binding
   environment with move semantics; [sh] ranges over ALL shapes (any receiver, any
   parameter-class list of any length, any flavour), [args] over all argument vectors. *)
From Unimock Require Import Macro.Unimock Spec.Forward Macro.ShapeRun Proofs.C05.
Open Scope nat_scope.

(* Inputs packing (bare value for one parameter, tuple otherwise) and unpacking are mutually inverse *)
Theorem C05_unpack_pack : forall vs : list aval, unpack (pack vs) = vs.
Proof. exact unpack_pack. Qed.

Theorem C05_pack_unpack : forall i : inputs, inputs_wf i -> pack (unpack i) = i.
Proof. exact pack_unpack. Qed.

(* the destructuring syntaxes are mutually inverse, for every parameter-class list and in both
   packings: EvalParams moves exactly the views into eval and leaves the `&mut T<'_>` originals in
   place; EvalPatternMutAsWildcard applied to what eval hands back restores every slot to the
   caller's value; FnParams then yields exactly the caller's values in order and empties every slot
   (each moved once); FnParams tupled followed by EvalPatternAll (the polonius `_exit!` round trip)
   is the identity on the slots *)
Theorem C05_destructurings_inverse : forall (cs : list pclass) (vs : list aval) (s u : option selfv),
  length vs = length cs ->
  eval_tterm (mk (map Some vs) s u) (tupled EvalParams cs)
    = Some (pack (views cs vs), mk (after_eval cs vs) s u)
  /\ bind_tterm (mk (after_eval cs vs) s u) (tupled EvalPatternMutAsWildcard cs) (pack (views cs vs))
    = Some (mk (map Some vs) s u)
  /\ eval_atoms (mk (map Some vs) s u) (untupled FnParams cs)
    = Some (vs, mk (map (fun _ => None) vs) s u)
  /\ eval_tterm (mk (map Some vs) s u) (tupled FnParams cs)
    = Some (pack vs, mk (map (fun _ => None) vs) s u)
  /\ bind_tterm (mk (map (fun _ => None) vs) s u) (tupled EvalPatternAll cs) (pack vs)
    = Some (mk (map Some vs) s u).
Proof.
  intros cs vs s u H. repeat split.
  - exact (t_eval_params cs vs s u H).
  - exact (t_bind_no_mut cs vs s u H).
  - exact (t_fn_params cs vs s u H).
  - exact (t_fn_params_tupled cs vs s u H).
  - exact (t_bind_all cs vs s u H).
Qed.

(* the fifth syntax, FnPattern (binder of debug_inputs): component k is bound to parameter k *)
Theorem C05_fn_pattern : forall (cs : list pclass) (vs : list aval) (s u : option selfv),
  length vs = length cs ->
  bind_tterm (mk (map (fun _ => None) vs) s u) (tupled FnPattern cs) (pack vs)
  = Some (mk (map Some vs) s u).
Proof. exact t_bind_fn_pattern. Qed.

(* position by position: what the matcher is shown at index k is the caller's k-th argument
   (or the Impossible placeholder where the declared Inputs type says so) *)
Theorem C05_matcher_sees_declaration_order : forall (cs : list pclass) (vs : list aval) (k : nat),
  length vs = length cs ->
  nth_error (unpack (pack (views cs vs))) k =
  match nth_error cs k, nth_error vs k with
  | Some c, Some v => Some (view c v)
  | _, _ => None
  end.
Proof. intros. rewrite unpack_pack. apply views_nth. assumption. Qed.

(* THE forwarding theorem: for every shape, every argument vector of the right length, every
   responder (returns / answers with an arbitrary answer function / unmock without or with a registered
   function, in path or explicit-list form / default) and every state of the caller's variables, the generated body
     - evaluates exactly once, showing the matcher  pack (views args)  (declaration order),
     - on Answer applies the function to the receiver as declared and exactly  args  in order,
     - returns the answer's / Return's value unchanged,
     - leaves the caller's variables as the answer function left them *)
Theorem C05_forwarding : forall (R : Type) (sh : shape) (args : list aval) (resp : responder R) (st : store),
  length args = length (sh_params sh) -> resp_wf (length (sh_params sh)) resp ->
  exec_body (gen_body sh) (init_env args) resp st = Some (forward_spec sh args resp st).
Proof. exact forwarding. Qed.

(* the Unmock arm, spelled out: on the direct template (&self, self, Rc/Arc/Box<Self>) the function registered in
   path form is called with the mock as passed and exactly the caller's arguments in declaration order; in the
   explicit form with exactly the listed expressions (each parameter named at most once, in range); its
   result and its writes come back unchanged.  On the polonius template (&mut self, Pin<&mut Self>) there is
   no such arm and the call is reported (finding F1 of C16). *)
Theorem C05_unmock_arm : forall (R : Type) (sh : shape) (args : list aval) (fid : N) (f : real_fn R)
                                (ps : option (list uexpr)) (st : store),
  length args = length (sh_params sh) ->
  match ps with Some l => uexprs_ok (length (sh_params sh)) l | None => True end ->
  exec_body (gen_body sh) (init_env args) (KUnmockArm fid f ps) st =
  Some (match receiver_of (sh_recv sh) with
        | MOwned | MRef =>
            let rargs := match ps with
                         | None => RSelf SelfAsPassed :: map RVal args
                         | Some l => select l args
                         end in
            ([EvEval (pack (views (sh_params sh) args)); EvReal fid rargs], Returned (fst (f rargs st)), snd (f rargs st))
        | MMutRef | MPin => ([EvEval (pack (views (sh_params sh) args))], Reported, st)
        end).
Proof.
  intros R sh args fid f ps st HL HW.
  rewrite (forwarding R sh args (KUnmockArm fid f ps) st HL); [reflexivity|]. destruct ps; exact HW.
Qed.

(* which function: the entry written at the method's own position among ALL fn items of the trait -- receiver-less
   provided functions the macro skips still occupy a slot, `_` entries are not compacted away *)
Theorem C05_unmock_slot : forall (items : list bool) (uw : list uentry) (k : nat) (fid : N) (ps : option (list uexpr)),
  unmock_of items (Some uw) k = Some (fid, ps) <->
  exists i, nth_error items i = Some true /\ count_mocked (firstn i items) = k /\
            ((nth_error uw i = Some (UPath fid) /\ ps = None) \/
             (exists l, nth_error uw i = Some (UCall fid l) /\ ps = Some l)).
Proof. exact unmock_of_spec. Qed.

(* &mut: whatever the answer function does to the store through the (caller's own) unique
   borrows it received is what the caller finds afterwards *)
Theorem C05_mut_writes_visible : forall (R : Type) (sh : shape) (args : list aval) (f : answer_fn R) (st : store),
  length args = length (sh_params sh) ->
  exists tr r,
    exec_body (gen_body sh) (init_env args) (KAnswer f) st
    = Some (tr, Returned r, snd (f (received_self (sh_recv sh)) args st))
    /\ r = fst (f (received_self (sh_recv sh)) args st)
    /\ In (EvAnswer (received_self (sh_recv sh)) args) tr.
Proof. exact answer_store. Qed.

(* sync methods evaluate at the call *)
Theorem C05_sync_runs_at_call : forall (R : Type) (sh : shape) (args : list aval) (resp : responder R) (st : store),
  deferred sh = false -> length args = length (sh_params sh) -> resp_wf (length (sh_params sh)) resp ->
  call_method sh args resp st = Now (Some (forward_spec sh args resp st)).
Proof. exact sync_runs_at_call. Qed.

(* async flavours (async fn, -> impl Future, #[async_trait]): the call only builds the future;
   awaiting it is the forwarding above; dropping it unpolled does nothing *)
Theorem C05_async_deferred : forall (R : Type) (sh : shape) (args : list aval) (resp : responder R) (st : store),
  ~ Known sh -> deferred sh = true -> length args = length (sh_params sh) -> resp_wf (length (sh_params sh)) resp ->
  exists fut, call_method sh args resp st = Later fut
    /\ (forall st', await fut st' = Some (forward_spec sh args resp st'))
    /\ (forall st', drop_unpolled fut st' = ([], Reported, st')).
Proof. exact async_deferred. Qed.

(* over any script of calls: the number of evaluations (and of answer invocations) is the number
   of calls that ran -- every call of a sync method, exactly the AWAITED ones of an async method *)
Theorem C05_once_per_await : forall (R : Type) (sh : shape) (resp : responder R) (calls : list (use * list aval * store)),
  ~ Known sh -> resp_wf (length (sh_params sh)) resp ->
  Forall (fun c => length (snd (fst c)) = length (sh_params sh)) calls ->
  exists tr, run_calls sh resp calls = Some tr
    /\ count_evals tr = ran_calls sh calls
    /\ count_answers tr = answers_expected resp (ran_calls sh calls).
Proof. exact once_per_await. Qed.

(* the recorded deviation (candidate defect F4), excluded above by [~ Known sh]:
   Known sh  <->  the method returns `impl Future<..>` and its receiver is `&mut self` / `Pin<&mut Self>`.
   For such a shape the macro's expansion is not a well-typed Rust program, so there is no generated
   method to call although the attribute accepted the trait. *)
Theorem C05_known_is : forall sh : shape,
  Known sh <-> (sh_flavour sh = FRpit /\ (sh_recv sh = RcvMut \/ sh_recv sh = RcvPin)).
Proof.
  intros sh. unfold Known, expansion_compiles. split.
  - destruct (sh_recv sh), (sh_flavour sh); cbn; intros H; try discriminate; split; auto.
  - intros [-> [-> | ->]]; reflexivity.
Qed.

Theorem C05_known_refuted : forall (R : Type) (args : list aval) (resp : responder R) (st : store),
  exists sh, Known sh /\ call_method sh args resp st = Now None.
Proof. exact known_refuted. Qed.

(* non-vacuity: 4 parameters with an Impossible in the middle on a Pin receiver of an async method;
   the matcher sees (11, !, 13, 14-behind-&mut), the answer receives all four, its write to the
   caller's variable at location 3 is visible, its result comes back; nothing runs before the await *)
Example C05_nonvacuous :
  let sh := {| sh_recv := RcvPin; sh_params := [POwned; PMutLt; POwned; PMut]; sh_ret := RetVal;
               sh_flavour := FAsyncFn; sh_trait_generic := true; sh_api := ApiFlattened |} in
  let args := [VArg 11; VMutRef 1; VArg 13; VMutRef 3] in
  let st := [(1, 12); (3, 14)]%N in
  let f : answer_fn N := fun _ a s => (first_id a s, write_all 1000 a s) in
  gen_body sh = BPolonius PreUnpin SxSurr
                  (TTup [AId 0; AImpossible; AId 2; AId 3]) (TTup [AId 0; AWild; AId 2; AId 3])
                  (TTup [AId 0; AId 1; AId 2; AId 3]) (TTup [AId 0; AId 1; AId 2; AId 3])
                  SxSurr [AId 0; AId 1; AId 2; AId 3]
  /\ (exists fut, call_method sh args (KAnswer f) st = Later fut /\
        await fut st = Some ([EvEval (InTup [VArg 11; VImp; VArg 13; VMutRef 3]);
                              EvAnswer SelfUnpinned args],
                             Returned 11%N, [(1, 1012); (3, 1014)]%N))
  /\ gen_body {| sh_recv := RcvOwned; sh_params := [PStr]; sh_ret := RetUnit; sh_flavour := FSync;
                 sh_trait_generic := false; sh_api := ApiModule |}
     = BDirect SxRefSelf (TOne (AId 0)) (TOne (AId 0)) SxSelf [AId 0]
  (* unmock_with=[real0, _, _, real3(self, b, a)] on a trait whose third fn item is a skipped receiver-less function:
     the third MOCKED method (k = 2) sits at index 3 and is unmocked by real3 with the listed expressions *)
  /\ unmock_of [true; true; false; true] (Some [UPath 0; UNone; UNone; UCall 3 [USelf; UParam 1; UParam 0]]) 2
     = Some (3%N, Some [USelf; UParam 1; UParam 0])
  /\ exec_body (gen_body {| sh_recv := RcvRef; sh_params := [POwned; POwned]; sh_ret := RetVal; sh_flavour := FSync;
                            sh_trait_generic := false; sh_api := ApiModule |})
               (init_env [VArg 21; VArg 22]) (KUnmockArm 3 (fun ra s => (7%N, s)) (Some [USelf; UParam 1; UParam 0])) []
     = Some ([EvEval (InTup [VArg 21; VArg 22]); EvReal 3 [RSelf SelfAsPassed; RVal (VArg 22); RVal (VArg 21)]],
             Returned 7%N, []).
Proof.
  cbn zeta. split; [reflexivity|]. split; [eexists; split; vm_compute; reflexivity|].
  split; [reflexivity|]. split; vm_compute; reflexivity.
Qed.

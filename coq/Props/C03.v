(* Unimock.Props.C03 -- property theorems only. *)
From Unimock Require Import Model.Run Spec.Chain Proofs.Core Proofs.C02 Proofs.C03.
Open Scope N_scope.

(* what a chain demands (Spec.Chain.expectation_of_chain, written from the
   documentation) is what the builder accumulates, for every chain *)
Theorem C03_expectation_of_chain : forall d md matcher dbg ch,
  ch <> [] ->
  expect_of (b_exp (chain_apply d (new_builder md matcher dbg) ch)) =
  expectation_of_chain (match md with InOrder => true | InAnyOrder => false end) d ch.
Proof. exact expectation_chain. Qed.

(* a pattern gets a line iff its count violates that expectation: both directions, every boundary *)
Theorem C03_line_iff_violated : forall info m pd e actual,
  verify_counter info m pd e actual = None <-> expect_holds (expect_of e) actual = true.
Proof. exact verify_counter_iff. Qed.

(* after a history without mock-induced panics verification is silent iff every
   pattern's expectation holds and every mentioned method was matched at least once *)
Theorem C03_silent_iff : forall info cfg s,
  errs s = [] ->
  (verdict info cfg s = [] <-> forall m mk, In (m, mk) (c_table cfg) -> mocker_ok s m mk).
Proof. exact verdict_silent_iff. Qed.

(* the failure list is exactly: per method, one line per violated pattern (in
   pattern order) and one never-called line iff its patterns' counts sum to 0 *)
Theorem C03_lines : forall info cfg s,
  errs s = [] ->
  verdict info cfg s =
  flat_map (fun '(m, mk) =>
    (pattern_lines info m (cnt s m) (m_pats mk) 0 ++
     (if total_calls (cnt s m) (length (m_pats mk)) 0 =? 0 then [EMockNeverCalled m] else []))%list)
    (c_table cfg).
Proof. exact verdict_lines. Qed.

(* every line names its method, and a pattern line names its pattern *)
Theorem C03_line_names_pattern : forall info m pd e actual err,
  verify_counter info m pd e actual = Some err ->
  exists pre post, render_error info err = (path_str (info m) ++ pre ++ render_pat info pd ++ post)%string.
Proof. exact counter_line_names. Qed.

Theorem C03_never_called_names_method : forall info m,
  render_error info (EMockNeverCalled m) =
  ("Mock for " ++ path_str (info m) ++ " was never called. Dead mocks should be removed.")%string.
Proof. exact never_called_names. Qed.

(* drop, verify() and report() of the original all compute that verdict *)
Theorem C03_teardown_is_verdict : forall info bc cfg s i,
  i_original i = true -> i_panicked i = false ->
  teardown info bc cfg s here i 1 =
  match verdict info cfg s with [] => TdOk | es => TdErrs es end.
Proof. exact teardown_original_verdict. Qed.

(* non-vacuity: two patterns, one violated *)
Example C03_nonvacuous :
  exists cfg, assemble hinfo cfg_std FbError
      [TCall 0 EachCall (Pt (Some 1) (Some 1) [OReturns 10; ONTimes 2]);
       TCall 0 EachCall (Pt (Some 2) (Some 2) [OReturns 20; OAtLeastTimes 1])] = Some (inl cfg) /\
    let s := set_cnt init_state (bump (bump init_state.(cnt) 0 0) 0 0) in
    map (render_error hinfo) (verdict hinfo cfg s) =
      ["T::m0: Expected T::m0(p2) at case.rs:2 to match at least 1 call, but it actually matched no calls."%string].
Proof. eexists. vm_compute. split; reflexivity. Qed.

(* Unimock.Props.C20 -- property theorems only.

   Vocabulary (Spec/Scripted.v, Macro/Mirror.v):
     prog A R X        a default body: a program over required-method calls (Ret x | Call m a k)
     dprog A R X       a test: a program over calls of ANY trait method, provided or required
     script R          the responses of the required methods, each tagged with its method
     run_plain/drive_plain   the plain struct that pops the script (None = it panicked)
     script_terminals  the clause list  M_k.next_call(matching!()).answers_arc(script[k]), k = 0,1,..
     run_mock/drive_mock     the same body / test on the mock, every call going through the
                       generated entry point [Eval.call] of the Layer A model on the shared state *)
From Unimock Require Import Macro.StdBodies Proofs.Core Proofs.C20.
Open Scope N_scope.

(* For EVERY default body b (any program, any length), every script, strict or partial,
   any feature set: the script's clause list is accepted, and running b through the mock
   gives the same result and the same sequence of required-method calls with the same
   arguments as running b against the plain scripted struct -- including the case where the
   script is too short or names another method (both panic at the same call).  When the
   struct did not panic, the mock has consumed exactly the same number of ordered slots. *)
Theorem C20_default_body_on_mock_is_body_on_struct :
  forall (A R : Type) (info : N -> minfo) (accepts : N -> A -> bool) (debug_args : A -> list (option string)),
  (forall a, accepts any_matcher a = true) ->
  forall bc fb (sc : script R),
  exists cfg, assemble info bc fb (script_terminals 0 sc) = Some (inl cfg) /\ c_fallback cfg = fb /\
    forall X (b : prog A R X),
      exists s, run_mock info accepts debug_args cfg sc init_state b [] =
                  (s, fst (fst (run_plain sc b [])), snd (run_plain sc b [])) /\
        (snd (run_plain sc b []) <> None ->
         next_ord s = N.of_nat (length sc - length (snd (fst (run_plain sc b []))))).
Proof. exact body_end_to_end. Qed.

(* Whole tests.  [bodies m = Some body] are the upstream default bodies; the mirror marks
   exactly those methods as having a default (has_default_impl) and the script mentions
   required methods only.  Then (1) a provided method that is not mentioned evaluates to
   "run the default body" in ANY state and leaves the state alone, and (2) any test -- any
   interleaving of provided-method and direct required-method calls -- observes on the mock
   exactly what it observes on the plain scripted struct. *)
Theorem C20_mock_acts_like_scripted_struct :
  forall (A R : Type) (info : N -> minfo) (accepts : N -> A -> bool) (debug_args : A -> list (option string)),
  (forall a, accepts any_matcher a = true) ->
  forall bodies : N -> option (A -> prog A R R),
  (forall m, mi_has_default (info m) = match bodies m with Some _ => true | None => false end) ->
  forall bc fb (sc : script R),
  Forall (fun e => bodies (fst e) = None) sc ->
  exists cfg, assemble info bc fb (script_terminals 0 sc) = Some (inl cfg) /\ c_fallback cfg = fb /\
    (forall m a s body, bodies m = Some body -> Eval.call info A accepts debug_args cfg s m a = (s, ActDefault)) /\
    forall X (d : dprog A R X),
      exists s, drive_mock info accepts debug_args bodies cfg sc init_state d [] =
                  (s, fst (fst (drive_plain bodies sc d [])), snd (drive_plain bodies sc d [])) /\
        (snd (drive_plain bodies sc d []) <> None ->
         next_ord s = N.of_nat (length sc - length (snd (fst (drive_plain bodies sc d []))))).
Proof. exact test_end_to_end. Qed.

(* Termination::report (partial by default, hand-written impl with an Unmock arm): when no
   clause mentions it, the real report runs -- in a strict mock as well -- and nothing is recorded *)
Theorem C20_report_partial_by_default :
  forall (A : Type) (info : N -> minfo) (accepts : N -> A -> bool) (debug_args : A -> list (option string))
         cfg s m a,
  lookup m (c_table cfg) = None ->
  mi_has_default (info m) = false -> mi_partial_by_default (info m) = true ->
  Eval.call info A accepts debug_args cfg s m a =
    if mi_has_unmock_arm (info m) then (s, ActReal)
    else (push_err s (ECannotUnmock m), ActPanic (ECannotUnmock m)).
Proof. exact partial_by_default_call. Qed.

(* The entry-point table (regenerated from src/mock/*.rs and observed on every run): if the
   Layer A model, instantiated with each row's MockFnInfo, predicts each of the row's four
   observations, then every method is served by its own entry point, every unmentioned
   provided method runs the upstream body, every unmentioned required method fails naming
   itself, and report falls through to the real report. *)
Theorem C20_wiring_table : forall rows, forallb wrow_ok rows = true -> Forall row_wired rows.
Proof. exact wiring_sound. Qed.

(* non-vacuity: write_all over short writes, an Interrupted and a flush, then read_exact over
   short reads, on a strict mock; an exhausted script panics on both sides at the same call;
   and one table row of each kind passes the model's prediction *)
Example C20_nonvacuous :
  run_kase_mock (Kase false [(0, VNum 2); (0, VErr 0); (0, VNum 3); (1, VUnit); (2, VBytes [7; 8]); (2, VBytes [9; 9; 9])]
                            [(32, ABytes [1; 2; 3; 4; 5]); (1, AUnit); (33, ANum 4)]) =
    ["r ok"; "r ok"; "r ok buf=[7,8,9,9]"; "log 0([1,2,3,4,5]) 0([3,4,5]) 0([3,4,5]) 1() 2(4) 2(2)"; "left=0"]%string /\
  run_kase_mock (Kase true [(0, VNum 2)] [(32, ABytes [1; 2; 3])]) = ["r panic"; "log 0([1,2,3])"]%string /\
  run_kase_plain (Kase true [(0, VNum 2)] [(32, ABytes [1; 2; 3])]) = ["r panic"; "log 0([1,2,3])"]%string /\
  forallb wrow_ok
    [ {| w_trait := "Write"; w_method := "write"; w_provided := false; w_partial_by_default := false;
         w_mentioned_strict := WClause; w_mentioned_partial := WClause;
         w_unmentioned_strict := WNoImpl; w_unmentioned_partial := WCannotUnmock |};
      {| w_trait := "Write"; w_method := "write_all"; w_provided := true; w_partial_by_default := false;
         w_mentioned_strict := WClause; w_mentioned_partial := WClause;
         w_unmentioned_strict := WBodyReq; w_unmentioned_partial := WBodyReq |};
      {| w_trait := "Termination"; w_method := "report"; w_provided := false; w_partial_by_default := true;
         w_mentioned_strict := WClause; w_mentioned_partial := WClause;
         w_unmentioned_strict := WReal; w_unmentioned_partial := WReal |} ] = true /\
  wrow_ok {| w_trait := "Read"; w_method := "read_exact"; w_provided := true; w_partial_by_default := false;
             w_mentioned_strict := WClause; w_mentioned_partial := WClause;
             w_unmentioned_strict := WNoImpl; w_unmentioned_partial := WCannotUnmock |} = false.
Proof. vm_compute. repeat split; reflexivity. Qed.

(* Unimock.Props.C07 -- property theorems only. *)
From Unimock Require Import Model.Run Spec.FirstMatch Spec.Fallthrough Proofs.Core Proofs.C01 Proofs.C07.
Open Scope N_scope.

Section Statements.
Variable info : N -> minfo.
Variable A : Type.
Variable accepts : N -> A -> bool.
Variable debug_args : A -> list (option string).
Notation call := (call info A accepts debug_args).
Notation fate_result := (fate_result A debug_args).
Notation falls_through := (falls_through A accepts).

(* a call to a method no clause mentions, in ANY state (any position of any history) *)
Theorem C07_unmentioned : forall cfg s m a,
  lookup m (c_table cfg) = None ->
  call cfg s m a = fate_result s m a (unmentioned_fate (info m) (c_fallback cfg)).
Proof. exact (unmentioned_call info A accepts debug_args). Qed.

(* a call to an unordered method all of whose patterns reject the arguments *)
Theorem C07_unmatched : forall cfg s m a mk,
  lookup m (c_table cfg) = Some mk ->
  m_mode mk = InAnyOrder ->
  forallb has_matcher (m_pats mk) = true ->
  first_match A accepts a (m_pats mk) 0 = None ->
  call cfg s m a = fate_result s m a (unmatched_fate (info m) (c_fallback cfg)).
Proof. exact (unmatched_call info A accepts debug_args). Qed.

(* such calls never change a match count, the ordered index or a single-use slot,
   and the mock never fabricates a value (neither a return nor an answer) *)
Theorem C07_quiet_and_no_value : forall cfg s m a,
  falls_through cfg m a ->
  (cnt (fst (call cfg s m a)) = cnt s /\ next_ord (fst (call cfg s m a)) = next_ord s /\
   taken (fst (call cfg s m a)) = taken s) /\
  forall v g, snd (call cfg s m a) <> ActReturn v /\ snd (call cfg s m a) <> ActAnswer g.
Proof. exact (fallthrough_quiet info A accepts debug_args). Qed.

(* ... over whole histories of such calls *)
Theorem C07_history_quiet : forall cfg h s,
  Forall (fun c => falls_through cfg (fst c) (snd c)) h ->
  let s' := run_calls info A accepts debug_args cfg s h in
  cnt s' = cnt s /\ next_ord s' = next_ord s /\ taken s' = taken s.
Proof. exact (fallthrough_history_quiet info A accepts debug_args). Qed.

(* a panicking fate is recorded (C08) and names the call / the method *)
Theorem C07_errors_recorded : forall s m a f,
  errs (fst (fate_result s m a f)) =
  match snd (fate_result s m a f) with ActPanic e => (errs s ++ [e])%list | _ => errs s end.
Proof. exact (fate_errs A debug_args). Qed.

End Statements.

(* the decision table written out (the spec functions mean what the property says) *)
Theorem C07_table : forall i fb,
  unmentioned_fate i fb =
    match mi_has_default i, (mi_partial_by_default i || match fb with FbUnmock => true | FbError => false end)%bool,
          mi_has_unmock_arm i with
    | true, _, _ => FDefaultBody
    | false, true, true => FReal
    | false, true, false => FPanicCannotUnmock
    | false, false, _ => FPanicNoImpl
    end /\
  unmatched_fate i fb =
    match fb, mi_has_unmock_arm i with
    | FbError, _ => FPanicNoMatch
    | FbUnmock, true => FReal
    | FbUnmock, false => FPanicCannotUnmock
    end.
Proof.
  intros i fb. unfold unmentioned_fate, unmatched_fate, real_or_panic.
  destruct (mi_has_default i), (mi_partial_by_default i), fb, (mi_has_unmock_arm i); split; reflexivity.
Qed.

(* non-vacuity: strict mock mentioning only m0 with a pattern accepting {1};
   m0(2) is mentioned-unmatched, m2 (default body) and m1 (nothing) unmentioned *)
Example C07_nonvacuous :
  exists cfg, assemble hinfo cfg_std FbError [TCall 0 EachCall (Pt (Some 2) None [OReturns 10])] = Some (inl cfg) /\
    falls_through N haccepts cfg 0 2 /\ falls_through N haccepts cfg 2 0 /\ falls_through N haccepts cfg 1 0 /\
    snd (Eval.call hinfo N haccepts hdebug cfg init_state 2 0) = ActDefault /\
    unmentioned_fate (hinfo 8) FbError = FReal.
Proof.
  eexists. split; [vm_compute; reflexivity|]. split.
  { right. eexists. vm_compute. repeat split; reflexivity. }
  split; [left; reflexivity|]. split; [left; reflexivity|]. split; vm_compute; reflexivity.
Qed.

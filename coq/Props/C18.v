(* Unimock.Props.C18 -- property theorems only. *)
From Unimock Require Import Model.Run Spec.Leaves Spec.Slots Spec.Layout Proofs.Core Proofs.C14 Proofs.C18.
Open Scope N_scope.

(* (1) re-ordering clauses of different methods (keeping each method's own order
   and the relative order of ordered clauses: [adm]) yields, for every method,
   the same mode and the same pattern list -- slot ranges included -- hence the
   same table entry; and the two clause lists are rejected together *)
Theorem C18_layout_independent : forall info ps ps' a,
  adm ps ps' -> asm_pushes info new_assembler ps = inl a ->
  exists a', asm_pushes info new_assembler ps' = inl a' /\
    forall m, lookup m (a_table a') = lookup m (a_table a).
Proof.
  intros info ps ps' a Hadm Ha.
  destruct (layout_independent info ps ps' a Hadm Ha) as (a' & Ha' & H).
  exists a'. split; [exact Ha'|]. intros m. destruct (H m) as [Hm Hp]. now apply lookup_ext.
Qed.

Theorem C18_rejected_together : forall info ps ps',
  adm ps ps' ->
  ((exists e, asm_pushes info new_assembler ps = inr e) <-> (exists e, asm_pushes info new_assembler ps' = inr e)).
Proof. exact layout_rejected_together. Qed.

(* what the assembled patterns of a method are, independent of interleaving *)
Theorem C18_patterns_by_method : forall info ps a m,
  asm_pushes info new_assembler ps = inl a -> pats_of m (a_table a) = spec_pats m 0 ps.
Proof. intros info ps a m H. now rewrite (assemble_spec_pats info ps _ _ m H). Qed.

(* evaluation reads the configuration only through lookup (so equal lookups give
   equal behaviour for unordered methods: C01_frame_other_methods; for ordered
   ones the wrong-order diagnostics additionally names the expected pattern) *)

(* (2) routing: outcome and effect on the shared state are the same through any live instance *)
Theorem C18_routing_independent : forall w x i j m a it jt,
  live_inst w i = Some it -> live_inst w j = Some jt ->
  snd (step w {| ev_ctx := x; ev_base := BCall i m a |}) = snd (step w {| ev_ctx := x; ev_base := BCall j m a |}) /\
  w_state (fst (step w {| ev_ctx := x; ev_base := BCall i m a |})) =
  w_state (fst (step w {| ev_ctx := x; ev_base := BCall j m a |})).
Proof. exact routing_independent. Qed.

(* (4) two instantiations of a generic method are distinct methods: a call to one
   never reads or counts the other's patterns (G<u8>::g = 6, G<u16>::g = 7) *)
Example C18_generic_instances_distinct :
  exists cfg, assemble hinfo cfg_std FbError [TCall 6 EachCall (Pt (Some 255) None [OReturns 1])] = Some (inl cfg) /\
    lookup 7 (c_table cfg) = None /\
    snd (Eval.call hinfo N haccepts hdebug cfg init_state 6 0) = ActReturn (RVTag 1) /\
    (exists e, snd (Eval.call hinfo N haccepts hdebug cfg init_state 7 0) = ActPanic e).
Proof. eexists. vm_compute. repeat split; try reflexivity. eexists. reflexivity. Qed.

(* non-vacuity of [adm]: an unordered clause of m1 moves across two ordered clauses *)
Example C18_nonvacuous :
  exists ps ps', flatten_terminals hinfo cfg_std
      [TCall 0 NextCall (Pt (Some 255) None [OReturns 1]); TCall 1 EachCall (Pt (Some 255) None [OReturns 2]);
       TCall 2 NextCall (Pt (Some 255) None [OReturns 3])] = Some ps /\
    flatten_terminals hinfo cfg_std
      [TCall 1 EachCall (Pt (Some 255) None [OReturns 2]); TCall 0 NextCall (Pt (Some 255) None [OReturns 1]);
       TCall 2 NextCall (Pt (Some 255) None [OReturns 3])] = Some ps' /\ adm ps ps'.
Proof.
  eexists. eexists. split; [vm_compute; reflexivity|]. split; [vm_compute; reflexivity|].
  apply (adm_swap [] _ _ _). cbn. split; [discriminate|]. right. reflexivity.
Qed.

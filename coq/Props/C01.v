(* Unimock.Props.C01 -- property theorems only.  Statements are written out in
   full here so that they cannot be weakened silently; each proof is [exact]. *)
From Unimock Require Import Model.Run Spec.FirstMatch Proofs.Core Proofs.C01 Proofs.Trace.
Open Scope N_scope.

Section Statements.
Variable info : N -> minfo.
Variable A : Type.                               (* any argument type *)
Variable accepts : N -> A -> bool.               (* any matcher functions *)
Variable debug_args : A -> list (option string).
Notation eval_raw := (eval_raw info A accepts debug_args).
Notation eval := (eval info A accepts debug_args).
Notation respond := (respond A debug_args).
Notation first_match := (first_match A accepts).

(* every call to an unordered method, in ANY state (hence after any history,
   through any instance), is answered by the earliest declared accepting
   pattern; that pattern's counter and nothing else is bumped *)
Theorem C01_first_match : forall cfg s m a mk i p,
  lookup m (c_table cfg) = Some mk ->
  m_mode mk = InAnyOrder ->
  forallb has_matcher (m_pats mk) = true ->
  first_match a (m_pats mk) 0 = Some i ->
  nth_opt (m_pats mk) i = Some p ->
  eval_raw cfg s m a = respond s m a i p /\
  let s' := fst (eval cfg s m a) in
  cnt s' m i = cnt s m i + 1 /\
  (forall m' i', (m, i) <> (m', i') -> cnt s' m' i' = cnt s m' i') /\
  next_ord s' = next_ord s.
Proof. exact (first_match_selected info A accepts debug_args). Qed.

Theorem C01_no_match : forall cfg s m a mk,
  lookup m (c_table cfg) = Some mk ->
  m_mode mk = InAnyOrder ->
  forallb has_matcher (m_pats mk) = true ->
  first_match a (m_pats mk) 0 = None ->
  eval_raw cfg s m a =
    (s, match c_fallback cfg with
        | FbError => OutErr (ENoMatchingCallPatterns (call_of A debug_args m a))
        | FbUnmock => OutUnmock
        end) /\
  cnt (fst (eval cfg s m a)) = cnt s /\ next_ord (fst (eval cfg s m a)) = next_ord s /\
  taken (fst (eval cfg s m a)) = taken s.
Proof. exact (no_match_outcome info A accepts debug_args). Qed.

(* patterns of other methods never influence the answer *)
Theorem C01_frame_other_methods : forall cfg1 cfg2 s m a mk,
  lookup m (c_table cfg1) = Some mk ->
  lookup m (c_table cfg2) = Some mk ->
  m_mode mk = InAnyOrder ->
  c_fallback cfg1 = c_fallback cfg2 ->
  eval_raw cfg1 s m a = eval_raw cfg2 s m a.
Proof. exact (frame_other_methods info A accepts debug_args). Qed.

(* ... nor do the counters and slots of other methods *)
Theorem C01_frame_state : forall cfg s1 s2 m a mk,
  lookup m (c_table cfg) = Some mk ->
  m_mode mk = InAnyOrder ->
  same_at m s1 s2 ->
  snd (eval_raw cfg s1 m a) = snd (eval_raw cfg s2 m a).
Proof. exact (frame_state info A accepts debug_args). Qed.

(* "no matter how often that or any later pattern has been matched before" *)
Definition run_calls (cfg : config) (s : state) (h : list (N * A)) : state :=
  fold_left (fun s c => fst (eval cfg s (fst c) (snd c))) h s.

Theorem C01_history : forall cfg h s m a mk i p,
  lookup m (c_table cfg) = Some mk ->
  m_mode mk = InAnyOrder ->
  forallb has_matcher (m_pats mk) = true ->
  first_match a (m_pats mk) 0 = Some i ->
  nth_opt (m_pats mk) i = Some p ->
  eval_raw cfg (run_calls cfg s h) m a = respond (run_calls cfg s h) m a i p.
Proof.
  intros cfg h s m a mk i p H1 H2 H3 H4 H5.
  exact (proj1 (first_match_selected info A accepts debug_args cfg (run_calls cfg s h) m a mk i p H1 H2 H3 H4 H5)).
Qed.

End Statements.

(* a method's pattern list is exactly its own clauses, in declaration order *)
Theorem C01_patterns_in_declaration_order : forall info ps a a' m,
  asm_pushes info a ps = inl a' ->
  map pat_view (pats_of m (a_table a')) =
  (map pat_view (pats_of m (a_table a)) ++ map builder_view (declared m ps))%list.
Proof. exact assemble_declaration_order. Qed.

(* the spec function means what its name says *)
Theorem C01_first_match_is_first : forall A accepts (a : A) ps j,
  first_match A accepts a ps 0 = Some j <->
  (exists p, nth_opt ps j = Some p /\ accepts_pat A accepts p a = true) /\
  (forall k q, (k < j)%nat -> nth_opt ps k = Some q -> accepts_pat A accepts q a = false).
Proof. exact first_match_spec. Qed.

(* non-vacuity: a concrete configuration with two overlapping patterns meets
   the hypotheses, and the second pattern is selected for argument 0 *)
(* rejecting and later patterns "never influence the answer" also in the sense that user code in them does not run: the call
   consults the matcher functions of its method from the first declared pattern up to and including the answering one, each
   once, and none after it ([matcher_trace]: the harness logs every matcher invocation of the real runtime) *)
Theorem C01_later_patterns_are_not_consulted : forall cfg s m a mk i p,
  lookup m (c_table cfg) = Some mk -> m_mode mk = InAnyOrder ->
  scan N haccepts a (m_pats mk) 0 = Some (i, p, Some true) ->
  matcher_trace cfg s m a = map (fun q => (pat_id q, false)) (firstn (S i) (m_pats mk)).
Proof. exact trace_stops_at_the_answering_pattern. Qed.

Example C01_nonvacuous :
  exists cfg mk, assemble hinfo cfg_std FbError
      [TCall 0 EachCall (Pt (Some 6) (Some 1) [OReturns 10]);
       TCall 0 EachCall (Pt (Some 255) None [OReturns 20])] = Some (inl cfg) /\
    lookup 0 (c_table cfg) = Some mk /\ m_mode mk = InAnyOrder /\
    forallb has_matcher (m_pats mk) = true /\
    first_match N haccepts 0 (m_pats mk) 0 = Some 1%nat /\
    first_match N haccepts 1 (m_pats mk) 0 = Some 0%nat.
Proof. eexists. eexists. vm_compute. repeat split; reflexivity. Qed.

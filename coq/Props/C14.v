(* Unimock.Props.C14 -- property theorems only. *)
From Unimock Require Import Model.RunTree Spec.Leaves Proofs.Core Proofs.C14.
Open Scope N_scope.

(* (order) for clause trees of ANY depth and width: if every tuple impl that the
   tree uses visits its elements 0..n-1 in order, deconstructing the tree is
   listing its leaves left to right -- nothing dropped, duplicated or reordered.
   The premise [table_ok tb] is re-established on every run for the table
   observed from the real impls of arity 2..16 (TupleOrderCheck.v). *)
Theorem C14_flatten_is_leaves : forall tb,
  table_ok tb = true ->
  forall t, arities_in tb t = true -> flatten (order_of tb) t = leaves t.
Proof. exact flatten_leaves. Qed.

(* (rejection) assembling is refused iff, left to right, some clause is an empty
   stub, cannot produce its value in this feature set, or has another mode than
   the first clause of its method -- at any distance, in either order; the
   message is that of the FIRST such clause *)
Theorem C14_rejected_iff : forall info ps e,
  asm_pushes info new_assembler ps = inr e <-> first_offence info [] ps = Some e.
Proof. exact rejected_iff. Qed.

Theorem C14_accepted_iff : forall info ps,
  (exists a, asm_pushes info new_assembler ps = inl a) <-> first_offence info [] ps = None.
Proof. exact accepted_iff. Qed.

(* Unimock::new / new_partial panic with exactly that message, at construction *)
Theorem C14_constructor : forall info bc fb ts ps,
  flatten_terminals info bc ts = Some ps ->
  assemble info bc fb ts =
  Some (match first_offence info [] ps with
        | Some e => inr e
        | None => match asm_pushes info new_assembler ps with
                  | inl a => inl {| c_fallback := fb; c_table := a_table a |}
                  | inr e => inr e
                  end
        end).
Proof.
  intros info bc fb ts ps H. unfold assemble. rewrite H.
  pose proof (asm_pushes_offence info ps new_assembler [] (modes_agree_new)) as G.
  destruct (asm_pushes info new_assembler ps) as [a|e]; rewrite G; reflexivity.
Qed.

(* (compile time) at_least_times does not exist on ordered chains, then() only after an exact count *)
Theorem C14_no_at_least_on_ordered : forall bc c ts b n,
  b_mode b = InOrder -> bstep bc c (ts, b) (OAtLeastTimes n) = None.
Proof. exact no_at_least_on_ordered. Qed.

Theorem C14_then_needs_exact : forall bc c ts b st,
  bstep bc c (ts, b) OThen = Some st -> ts = TS_QRE.
Proof. exact then_needs_exact. Qed.

(* non-vacuity: a nested tree; a mode conflict at distance 2 reported although a
   later empty stub is also wrong *)
Example C14_nonvacuous :
  let l m o v := CLeaf (TCall m o (Pt (Some 255) None [OReturns v])) in
  let t := CNode [l 0 NextCall 1; CNode [CUnit; l 1 EachCall 2; CNode [l 0 NextCall 3]]; l 0 EachCall 4; CLeaf (TStub 1 [])] in
  arities_in [(1, [0]); (3, [0; 1; 2]); (4, [0; 1; 2; 3])]%nat t = true /\
  length (leaves t) = 5%nat /\
  exists ps, flatten_terminals hinfo cfg_std (leaves t) = Some ps /\
    first_offence hinfo [] ps =
      Some "A clause for T::m0 has already been registered as InOrder, but got re-registered as InAnyOrder. They cannot be mixed for the same MockFn."%string.
Proof. cbn zeta. split; [reflexivity|]. split; [reflexivity|]. eexists. split; vm_compute; reflexivity. Qed.

(* non-vacuity for stubs: the patterns of a NON-EMPTY `stub(|each| ..)` reach the assembler through the same sink, as unordered
   pushes - after a `next_call` clause of the same method the constructor refuses the stub (and the other way round) *)
Example C14_stub_conflict_nonvacuous :
  let nx := TCall 1 NextCall (Pt (Some 255) None [OReturns 1; ONTimes 2]) in
  let st := TStub 1 [Pt (Some 255) None [OReturns 2]; Pt (Some 255) None [OReturns 3]] in
  let other := TCall 3 EachCall (Pt (Some 255) None [OReturns 4]) in
  assemble hinfo cfg_std FbError [nx; other; st] =
    Some (inr "A clause for T::m1 has already been registered as InOrder, but got re-registered as InAnyOrder. They cannot be mixed for the same MockFn."%string) /\
  assemble hinfo cfg_std FbError [st; other; nx] =
    Some (inr "A clause for T::m1 has already been registered as InAnyOrder, but got re-registered as InOrder. They cannot be mixed for the same MockFn."%string).
Proof. cbn zeta. split; vm_compute; reflexivity. Qed.

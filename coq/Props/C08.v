(* Unimock.Props.C08 -- property theorems only. *)
From Unimock Require Import Model.Run Proofs.Core Proofs.Life.
Open Scope N_scope.

(* every mock-induced panic of a call (any Err of eval, and the missing
   real/default implementation reported by the generated body) is appended to
   the shared error list before it is raised; no other outcome appends anything
   -- so panics of user code (answers, real functions, default bodies) are not recorded *)
Theorem C08_call_records : forall info A accepts debug_args cfg s m a,
  errs (fst (call info A accepts debug_args cfg s m a)) =
  (errs s ++ match snd (call info A accepts debug_args cfg s m a) with ActPanic e => [e] | _ => [] end)%list.
Proof. exact call_records. Qed.

(* over any history, through any instances (the state is shared by all clones),
   whether or not a panic was caught: the list is exactly the mock-induced
   errors raised so far, in order *)
Theorem C08_history_records : forall info A accepts debug_args cfg h s,
  errs (run_calls info A accepts debug_args cfg s h) =
  (errs s ++ panics_of info A accepts debug_args cfg s h)%list.
Proof. exact history_records. Qed.

(* if the list is non-empty, verifying the original fails with exactly those
   errors, whatever the counters are; the text is their renderings joined by newlines *)
Theorem C08_recorded_errors_fail : forall info bc cfg s i e es,
  errs s = e :: es -> i_original i = true -> i_panicked i = false ->
  teardown info bc cfg s here i 1 = TdErrs (errs s) /\
  teardown_panic info bc cfg s here i 1 = Some (verdict_text info (errs s)).
Proof. exact recorded_errors_fail. Qed.

Theorem C08_message_has_every_error : forall info es e,
  In e es -> In (render_error info e) (map (render_error info) es).
Proof. exact In_text_line. Qed.

(* teardown order (src/teardown.rs): the value chain of the original is dropped BEFORE the error list is read.  A lent
   value that owns a clone of the mock and calls it from its Drop (swallowing the panic) runs during that release;
   what its call records is part of the verdict of the very drop / verify() that released it *)
Theorem C08_errors_recorded_during_teardown_are_reported : forall w i it e es,
  live_inst w i = Some it -> i_calls it <> [] -> i_original it = true -> i_panicked it = false ->
  i_torn it = false -> i_vid it = true -> count_after_release (w_insts w) it = 1 ->
  errs (w_state (release w i it)) = e :: es ->
  snd (step w {| ev_ctx := here; ev_base := BDrop i |}) = ("P:" ++ verdict_text hinfo (e :: es))%string /\
  snd (step w {| ev_ctx := here; ev_base := BVerify i |}) = ("P:" ++ verdict_text hinfo (e :: es))%string.
Proof. exact release_errors_reported. Qed.

Example C08_teardown_nonvacuous :
  (* a strict mock without clauses lends a value whose Drop calls m0(5): dropping the original reports that call *)
  let w := {| w_bc := cfg_std; w_cfg := {| c_fallback := FbError; c_table := [] |}; w_state := init_state;
              w_insts := [add_lent_call new_original 0 5]; w_armed := 0 |} in
  errs (w_state w) = [] /\ count_after_release (w_insts w) (add_lent_call new_original 0 5) = 1 /\
  snd (step w (Ev false false (drop_ 0))) = "P:T::m0(5): No mock implementation found."%string.
Proof. vm_compute. repeat split; reflexivity. Qed.

(* report() maps the same result to FAILURE (C09_report_matches_verify) *)

(* non-vacuity: a strict mock, one unmatched call (caught), then a satisfied
   history: the verdict is that error, not silence *)
Example C08_nonvacuous :
  exists cfg, assemble hinfo cfg_std FbError [TCall 0 EachCall (Pt (Some 2) None [OReturns 10])] = Some (inl cfg) /\
    let s1 := fst (call hinfo N haccepts hdebug cfg init_state 0 5) in
    let s2 := fst (call hinfo N haccepts hdebug cfg s1 0 1) in
    map (render_error hinfo) (errs s2) = ["T::m0(5): No matching call patterns. "%string] /\
    verify_all hinfo cfg s2 = [] /\
    teardown hinfo cfg_std cfg s2 here new_original 1 = TdErrs (errs s2).
Proof. eexists. vm_compute. repeat split; reflexivity. Qed.

(* Unimock.Props.C17 -- property theorems only.
   Composite returns reproduce the configured value shape-for-shape. *)
From Unimock Require Import Macro.Output Spec.Output Proofs.C17.
Open Scope N_scope.

(* Vocabulary (Macro/Output.v, Spec/Output.v):
   [t : ty]       a return type of the grammar Option/Result/Vec/Poll/tuples over C, N, &T, &str, &[C], &'static T,
                  nested to any depth;
   [kd_of t]      the tree of output impls that the macro's syntactic analysis of t selects ([accepts t] = it exists,
                  `returns` type-checks for it and its output can be returned at the declared type);
   [wt d v]       v can be passed to `returns` (owned data where the method lends, 'static references as such);
   [into_return d v] / [into_return_once d v]   the stored response (multi-use / single-use path);
   [requests n r] the outputs of n successive calls served by r (None = the call fails, nothing is returned);
   [view_ty t v]  v read at the declared type t: the same variants, element order and count and leaf data, with the
                  data behind every `&T` of the signature seen through a reference into the mock. *)

Theorem C17_accepted_has_kind : forall t,
  accepts t = true -> exists d, kd_of t = Some d /\ once_ok d = true.
Proof. exact accepts_kd. Qed.

(* multi-use path (each_call().returns(v), returns(v).n_times(n) ..): EVERY request observes the configured value *)
Theorem C17_multi_use : forall t d v n,
  kd_of t = Some d -> wt d v = true ->
  requests n (into_return d v) = repeat (Some (view_ty t v)) n.
Proof. exact multi_use_ty. Qed.

(* single-use path (some_call/next_call .returns(v)): the first request observes the configured value; later requests
   observe it again if no owned part lies on the path selected by its variants (borrowed leaves can be returned on
   every call) and fail otherwise (owned leaves are single-use) *)
Theorem C17_single_use : forall t d v n,
  kd_of t = Some d -> wt d v = true ->
  requests (S n) (into_return_once d v) =
  Some (view_ty t v) :: repeat (if owned_on_path d v then None else Some (view_ty t v)) n.
Proof. exact single_use_ty. Qed.

(* what is observed is structurally the configured value: same variants, order, count and leaf data *)
Theorem C17_shape : forall t d v,
  kd_of t = Some d -> wt d v = true -> same_shape (view_ty t v) v.
Proof. exact shape_ty. Qed.

(* non-vacuity: fn f(&self) -> (C, &N, Vec<Result<&str, N>>) is accepted; an Err on the path makes the value single-use,
   without it the same single-use response is delivered again *)
Example C17_nonvacuous :
  let t := TTup [TOwn LC; TRef LtElided LN; TVec (TRes (TRef LtElided LStr) (TOwn LN))] in
  let t' := TVec (TRes (TRef LtElided LStr) (TOwn LN)) in
  let v := VVec [VOk (VStr 4); VErr (VN 5)] in
  let w := VVec [VOk (VStr 4); VOk (VStr 6)] in
  accepts t = true /\ accepts t' = true /\
  (exists d, kd_of t' = Some d /\ wt d v = true /\ wt d w = true /\
     requests 3 (into_return_once d v) = [Some (VVec [VOk (VRef (VStr 4)); VErr (VN 5)]); None; None] /\
     requests 2 (into_return_once d w) = [Some (VVec [VOk (VRef (VStr 4)); VOk (VRef (VStr 6))]);
                                          Some (VVec [VOk (VRef (VStr 4)); VOk (VRef (VStr 6))])]) /\
  accepts (TRes (TOpt (TRef LtElided LStr)) (TTup [])) = false.
Proof. cbn zeta. repeat split. eexists. repeat split; vm_compute; reflexivity. Qed.

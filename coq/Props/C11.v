(* Unimock.Props.C11 -- property theorems only. *)
From Unimock Require Import Model.Run Proofs.Core Proofs.Life.
Open Scope N_scope.

(* std: while the thread is unwinding, dropping ANY instance -- original or clone,
   unmet expectations, recorded errors, live clones, foreign creator thread, any
   flags -- does not panic *)
Theorem C11_unwinding_drop_silent : forall info bc cfg s x i live,
  bc_std bc = true -> x_unwinding x = true -> drop_panic info bc cfg s x i live = None.
Proof. exact unwinding_drop_silent. Qed.

(* hence a scope that owns an instance and is left by a panic (mock-induced or
   from user code) never reports a second panic *)
Theorem C11_scope_left_by_panic : forall w x i m a it,
  bc_std (w_bc w) = true -> live_inst w i = Some it -> i_calls it = [] -> matcher_panics (w_cfg w) (w_state w) m a = None ->
  debug_panics (w_cfg w) (w_state w) m a = None ->
  call_panics w (snd (call hinfo N haccepts hdebug (w_cfg w) (w_state w) m a)) = true ->
  snd (step w {| ev_ctx := x; ev_base := BCallOwn i m a |}) =
  show_call w m a (snd (call hinfo N haccepts hdebug (w_cfg w) (w_state w) m a)).
Proof.
  intros w x i m a it Hstd Hl Hnc Hmp Hdp Hp. unfold step, step_core, releasing. cbn [ev_base ev_ctx]. rewrite Hl, Hnc, Hmp, Hdp.
  destruct (call hinfo N haccepts hdebug (w_cfg w) (w_state w) m a) as [s' act] eqn:Hc. cbn [snd] in *.
  assert (Hbc : w_bc (after_call w i it s' act) = w_bc w) by (unfold after_call; destruct act; reflexivity).
  destruct (nth_opt (w_insts (after_call w i it s' act)) i) as [it1|] eqn:Hn.
  - cbn [snd]. rewrite Hp.
    rewrite (unwinding_drop_silent hinfo _ _ _ _ it1 _); [reflexivity|now rewrite Hbc|reflexivity].
  - exfalso. apply live_inst_nth in Hl as [Hn0 _].
    assert (G : forall insts k (y z : inst), nth_opt insts k = Some y -> nth_opt (upd insts k z) k = Some z).
    { induction insts as [|q insts IH]; intros [|k] y z Hy; cbn in *; try discriminate; [reflexivity|now apply (IH k y)]. }
    unfold after_call in Hn. destruct act; cbn in Hn; try congruence;
      rewrite (G _ i it _ Hn0) in Hn; discriminate.
Qed.

(* after a caught panic the shared state is exactly what the completed
   evaluation left: later calls and verification see the calls actually matched *)
Theorem C11_state_after_caught_panic : forall w x i m a it,
  live_inst w i = Some it -> matcher_panics (w_cfg w) (w_state w) m a = None -> debug_panics (w_cfg w) (w_state w) m a = None ->
  w_state (fst (step w {| ev_ctx := x; ev_base := BCall i m a |})) =
  fst (call hinfo N haccepts hdebug (w_cfg w) (w_state w) m a).
Proof.
  intros w x i m a it Hl Hm Hd. unfold step, step_core, releasing. cbn [ev_base ev_ctx]. rewrite Hl, Hm, Hd.
  destruct (call hinfo N haccepts hdebug (w_cfg w) (w_state w) m a) as [s' act]. cbn [fst].
  unfold after_call. destruct act; reflexivity.
Qed.

(* a matcher that panics (user code) has changed nothing for an unordered method; an ordered call has
   taken its slot (the index is bumped before the matcher runs) and nothing else *)
Theorem C11_matcher_panic_effect : forall cfg s m a s',
  matcher_panics cfg s m a = Some s' ->
  cnt s' = cnt s /\ taken s' = taken s /\ errs s' = errs s /\
  (next_ord s' = next_ord s \/ next_ord s' = next_ord s + 1).
Proof.
  intros cfg s m a s' H. unfold matcher_panics in H.
  destruct (lookup m (c_table cfg)) as [mk|]; [|discriminate]. destruct (m_mode mk).
  - destruct (scan_panics a (m_pats mk)); [|discriminate]. injection H as <-. repeat split. now left.
  - destruct (find_range (next_ord s) (m_pats mk) 0) as [[i p]|]; [|discriminate].
    destruct (p_matcher p) as [f|]; [|discriminate]. destruct (panicky f a); [|discriminate].
    injection H as <-. repeat split. now right.
Qed.

(* user code that panics inside the Debug impl of an ARGUMENT, while the runtime renders the call for the message of a mock error:
   the call's effects on the counters and on the ordered index are those of the failing call, NOTHING is recorded for verification
   (the user's panic leaves before handle_error), and it can only happen where the call would have ended in a mock error whose
   message renders the call *)
Theorem C11_debug_panic_effect : forall cfg s m a s',
  debug_panics cfg s m a = Some s' ->
  s' = fst (eval_raw hinfo N haccepts hdebug cfg s m a) /\ errs s' = errs s /\
  exists e, snd (eval_raw hinfo N haccepts hdebug cfg s m a) = OutErr e /\ renders_call e = true.
Proof.
  intros cfg s m a s' H. unfold debug_panics in H. destruct (dbg_panicky m a); [|discriminate].
  pose proof (eval_raw_errs hinfo N haccepts hdebug cfg s m a) as He.
  destruct (eval_raw hinfo N haccepts hdebug cfg s m a) as [s1 o] eqn:E. destruct o; try discriminate.
  destruct (renders_call e) eqn:R; [|discriminate]. injection H as <-. cbn [fst snd] in *.
  repeat split; [exact He|]. exists e. split; [reflexivity|exact R].
Qed.

(* ... and the observed call is ONE panic, the user's: the world keeps every instance as it was *)
Theorem C11_debug_panic_is_the_only_panic : forall w x i m a it s',
  live_inst w i = Some it -> matcher_panics (w_cfg w) (w_state w) m a = None ->
  debug_panics (w_cfg w) (w_state w) m a = Some s' ->
  step w {| ev_ctx := x; ev_base := BCallM i m a |} = (set_state w s', "P:user:debug"%string).
Proof.
  intros w x i m a it s' Hl Hm Hd. unfold step, step_core, releasing. cbn [ev_base ev_ctx]. rewrite Hl, Hm, Hd. reflexivity.
Qed.

(* a scope that OWNS the instance and is left by such a panic (std): the drop during unwinding is silent - one panic, the user's;
   the same for a plain call: the instance survives with the state of the failing call *)
Theorem C11_scope_left_by_debug_panic : forall w x i m a it s',
  bc_std (w_bc w) = true -> live_inst w i = Some it -> i_calls it = [] -> matcher_panics (w_cfg w) (w_state w) m a = None ->
  debug_panics (w_cfg w) (w_state w) m a = Some s' ->
  snd (step w {| ev_ctx := x; ev_base := BCallOwn i m a |}) = "P:user:debug"%string /\
  step w {| ev_ctx := x; ev_base := BCall i m a |} = (set_state w s', "P:user:debug"%string).
Proof.
  intros w x i m a it s' Hstd Hl Hnc Hm Hd. split.
  - unfold step, step_core, releasing. cbn [ev_base ev_ctx]. rewrite Hl, Hnc, Hm, Hd. cbn [snd].
    rewrite (unwinding_drop_silent hinfo _ _ _ _ it _); [reflexivity|exact Hstd|reflexivity].
  - unfold step, step_core, releasing. cbn [ev_base ev_ctx]. rewrite Hl, Hm, Hd. reflexivity.
Qed.

(* non-vacuity of the two: an ordered pattern whose slot is taken by a call that is then rejected *)
Example C11_debug_panic_nonvacuous :
  exists cfg, assemble hinfo cfg_std FbError [TCall 40 NextCall (Pt (Some 255) None [OReturns 1])] = Some (inl cfg) /\
    exists s', debug_panics cfg init_state 40 13 = Some s' /\ next_ord s' = 1 /\ errs s' = [].
Proof. eexists. split; [vm_compute; reflexivity|]. eexists. vm_compute. repeat split; reflexivity. Qed.

(* non-vacuity: an original with an unmet expectation and a live clone, owned by a
   scope in which a call panics: one panic is reported, not two *)
Example C11_nonvacuous :
  exists cfg, assemble hinfo cfg_std FbError [TCall 0 EachCall (Pt (Some 2) None [OReturns 10; ONTimes 2])] = Some (inl cfg) /\
    let w := {| w_bc := cfg_std; w_cfg := cfg; w_state := init_state;
                w_insts := [new_original; clone_of new_original]; w_armed := 0 |} in
    snd (step w (Ev false false (callown_ 0 0 5))) = "P:T::m0(5): No matching call patterns. "%string /\
    snd (step w (Ev false false (callown_ 0 0 1))) = ("r10|P:" ++ msg_clones_alive)%string.
Proof. eexists. vm_compute. repeat split; reflexivity. Qed.

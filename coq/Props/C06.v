(* Unimock.Props.C06 -- property theorems only. *)
From Unimock Require Import Model.Base Macro.RustPat Macro.Matching Spec.RustMatch Proofs.C06.
From Unimock Require Model.Run Proofs.Trace.

(* (main) for EVERY analysed macro input (any number of alternatives, any
   patterns, any guard, any eq!/ne! operands), every argument tuple and either
   reporter state: the closure that `generate` emits accepts exactly when the
   Rust match of the spec selects an arm -- for arguments on which
   the emitted match type-checks as far as the string/slice coercions go
   ([well_coerced]: a string/slice literal pattern only ever meets an argument
   that the guessed coercion turned into its plain view). *)
Theorem C06_accepts_iff_rust_match : forall alts g args enabled,
  well_coerced alts args = true ->
  accepts (alts, g) enabled args = rust_match (alts, g) args.
Proof. exact compile_is_rust_match. Qed.

(* the accept/reject decision never depends on whether mismatch diagnostics are
   collected -- for ALL inputs, F3 class included (proved on the arm list: the
   diagnostics arm comes after every success arm and yields false) *)
Theorem C06_diagnostics_independent : forall input args,
  accepts input true args = accepts input false args.
Proof. exact diagnostics_independent. Qed.

(* matching!() accepts everything *)
Theorem C06_empty_accepts_everything : forall enabled args,
  frontend SEmpty = inr ([], None) /\
  accepts ([], None) enabled args = true /\ rust_match ([], None) args = true.
Proof. intros. repeat split. Qed.

(* finding F3 (repaired in /repo by a fix: commit): a bare top-level `||` guard next to an
   eq!/ne! operand used to swallow the comparison; with the user's guard parenthesised the
   former witness  matching!((eq!(&3), y) if *y > 5 || *y < 0)  on (4, 7)  is rejected, as
   the Rust match rejects it *)
Theorem C06_f3_repaired : exists input args,
  f3_class input = true /\ well_coerced (fst input) args = true /\
  accepts input false args = false /\ accepts input true args = false /\ rust_match input args = false.
Proof.
  exists ([[PCmp false (VInt 3); PBind "y"]],
          Some (BOr (BAtom (ACmp OGt (OVar "y") (OConst 5))) (BAtom (ACmp OLt (OVar "y") (OConst 0))))).
  exists [VInt 4; VInt 7]. vm_compute. repeat split.
Qed.

(* why the parentheses matter, for arbitrary guards: joined tokens attach to the last
   operand of a bare top-level `||`; with any other left operand joining is `&&` *)
Theorem C06_guard_join : forall A (ev : A -> bool) (x y c : bexp A) (ls : list (bexp A)) (acc : bexp A),
  beval ev (concat_and (BOr x y) c) = beval ev x || beval ev (concat_and y c) /\
  (is_or acc = false ->
   beval ev (fold_left concat_and ls acc) = beval ev acc && forallb (beval ev) ls).
Proof. intros. split; [reflexivity|apply fold_concat_and]. Qed.

(* single- and multi-argument packing agree with positional matching *)
Theorem C06_packing : forall ms vs,
  length ms = length vs -> packed_match ms vs = matchers_match ms vs.
Proof. exact packed_is_positional. Qed.

(* as_str_ref / as_slice as chosen by guess_arg_kind never change what the
   argument is through AsRef, and give exactly the AsRef view where it matters *)
Theorem C06_coercion_is_view : forall k v,
  view (coerce k v) = view v /\ (plainly k v = true -> coerce k v = view v).
Proof. intros. split; [apply view_coerce|apply coerce_plainly]. Qed.

(* the l<k> locals of all alternatives are pairwise distinct *)
Theorem C06_locals_distinct : forall alts,
  NoDup (map fst (local_defs (all_matchers 0 alts))).
Proof. exact seq_keys_nodup. Qed.

(* front end: a guard needs the parenthesised form; three or more top-level
   alternatives are refused ("Expected tuple"), whatever their arity *)
Theorem C06_frontend : forall a b c rest p q ps og g,
  frontend (SDisj (a :: b :: c :: rest) og) = inl ExpectedTuple /\
  frontend (SSimple (p :: q :: ps) (Some g)) = inl TooManyElements /\
  frontend (SSimple [PParen p] (Some g)) = inr ([[p]], Some g) /\
  frontend (SSimple [PTuple ps] (Some g)) = inr ([ps], Some g) /\
  frontend (SSimple ps None) = inr ([ps], None).
Proof. intros. repeat split; destruct ps as [|x [|y l]]; reflexivity. Qed.

(* non-vacuity: two alternatives, a guard, an ne! operand, a string literal met
   by a String and a slice pattern met by a newtype: all premises hold, some
   tuples are accepted and some are rejected *)
Example C06_nonvacuous :
  let input : minput :=
    ([[PStrLit "ab"; PCmp true (VInt 3); PBind "s"];
      [PWild; PBind "n"; PSlice [PInt 3] (Some (Some "r")) []]],
     Some (BAnd (BAtom (ACmp OGe (OLen "s") (OConst 0))) (BParen (BOr (BAtom (AConst false)) (BAtom (AConst true)))))) in
  f3_class input = false /\
  well_coerced (fst input) [VStr Owned "ab"; VInt 4; VSeq Newtype [VInt 3; VInt 7]] = true /\
  accepts input true [VStr Owned "ab"; VInt 4; VSeq Newtype [VInt 3; VInt 7]] = true /\
  accepts input false [VStr Owned "b"; VInt 3; VSeq Newtype [VInt 7]] = false.
Proof. vm_compute. repeat split. Qed.

(* eq!(o) / ne!(o) are `value == o` / `value != o`, and `!=` is PartialEq::ne - user code that need not be the negation of eq
   (the harness struct S overrides it: it looks at the first field only).  Both the spec (Spec/RustMatch.v pos_compare) and the
   model of the expansion (Macro/Matching.v matom_eval, run_diag) compare through [vcmp]; here a pair of values for which
   neither `==` nor `!=` holds, so that `!(a == b)` would be the wrong rendering of ne! *)
Example C06_ne_is_user_code :
  let a := VCtor "S" [VInt 3; VBool false] in
  let b := VCtor "S" [VInt 3; VBool true] in
  vcmp false a b = false /\ vcmp true a b = false /\ negb (vcmp false a b) = true /\
  pos_compare (PCmp true b) a = false.
Proof. vm_compute. repeat split; reflexivity. Qed.

(* runtime half ("the accept/reject decision is the same whether or not mismatch diagnostics are collected", and a Rust match
   does not evaluate the guards of later arms): which matchers the runtime consults for a call, and when it collects
   diagnostics.  Unordered: the patterns up to and including the answering one, once each, without diagnostics; if all reject,
   a strict mock re-runs them WITH diagnostics after the decision (for the message), a partial mock does not; an ordered call
   consults the one pattern that owns its slot.  Tied to the real runtime by logging every matcher invocation (event callm) *)
Module Runtime.
Import Model.Run Proofs.Trace.
Open Scope N_scope.
Theorem C06_runtime_consults_like_a_match : forall cfg s m a mk i p,
  lookup m (c_table cfg) = Some mk -> m_mode mk = InAnyOrder ->
  scan N haccepts a (m_pats mk) 0 = Some (i, p, Some true) ->
  matcher_trace cfg s m a = map (fun q => (pat_id q, false)) (firstn (S i) (m_pats mk)).
Proof. exact trace_stops_at_the_answering_pattern. Qed.

Theorem C06_diagnostics_only_after_the_decision : forall cfg s m a mk,
  lookup m (c_table cfg) = Some mk -> m_mode mk = InAnyOrder ->
  scan N haccepts a (m_pats mk) 0 = None ->
  matcher_trace cfg s m a =
  match c_fallback cfg with
  | FbError => (map (fun q => (pat_id q, false)) (m_pats mk) ++ map (fun q => (pat_id q, true)) (m_pats mk))%list
  | FbUnmock => map (fun q => (pat_id q, false)) (m_pats mk)
  end.
Proof. exact trace_when_all_reject. Qed.

Theorem C06_ordered_call_consults_one_matcher : forall cfg s m a mk,
  lookup m (c_table cfg) = Some mk -> m_mode mk = InOrder -> (length (matcher_trace cfg s m a) <= 1)%nat.
Proof. exact ordered_call_consults_one_matcher. Qed.

Example C06_trace_nonvacuous :
  match assemble hinfo cfg_std FbError [TCall 0 EachCall (Pt (Some 2) (Some 1) [OReturns 1]);
                                        TCall 0 EachCall (Pt (Some 6) (Some 2) [OReturns 2]);
                                        TCall 0 EachCall (Pt (Some 255) (Some 3) [OReturns 3])] with
  | Some (inl cfg) => matcher_trace cfg init_state 0 2 = [(1, false); (2, false)] /\
                      matcher_trace cfg init_state 0 1 = [(1, false)]
  | _ => False
  end.
Proof. vm_compute. split; reflexivity. Qed.
End Runtime.

(* Unimock.Props.C12 -- property theorems only. *)
From Unimock Require Import Model.RunConc Spec.Chain Proofs.Core Proofs.C02 Proofs.C14 Proofs.Conc Proofs.Trace.
Open Scope N_scope.

(* for EVERY schedule of any threads: a single-use value is handed out at most once (the log of deliveries has no
   duplicates) and only by emptying its slot; every other request ends in the CannotReturnValueMoreThanOnce error
   (Model/Conc.v [exec], PLockSlot) *)
Theorem C12_single_use_delivered_at_most_once : forall info A accepts debug_args cfg sched callss,
  let g := fst (run_sched info A accepts debug_args cfg sched
                  (init_glob, map (fun cs => advance info A accepts debug_args cfg cs []) callss)) in
  NoDup (g_deliv g) /\
  forall m i j, In (m, i, j) (g_deliv g) -> taken (g_state g) m i j = true.
Proof. intros. exact (single_use_once info A accepts debug_args cfg sched callss). Qed.

(* ... and it is not lost in a race either: a value made of SEVERAL single-use slots (a tuple with a borrowed element and
   two or more owned ones; the slots are emptied one after the other, not atomically) is owned by the request that
   emptied its first slot.  In every reachable state, per value: deliveries + requests that are between two of its slots
   = 1 if its first slot is empty, 0 otherwise; and the slots such a request still has to take are full *)
Theorem C12_single_use_value_has_one_owner : forall info A accepts debug_args cfg sched callss,
  let st := run_sched info A accepts debug_args cfg sched
              (init_glob, map (fun cs => advance info A accepts debug_args cfg cs []) callss) in
  (forall m i j, kcount (m, i, j) (g_deliv (fst st)) + holders A (m, i, j) (snd st) =
                 if taken (g_state (fst st)) m i j then 1 else 0) /\
  (forall tid th m a i p j v l, nth_opt (snd st) tid = Some th -> t_pend th = Some (PLockLeaf m a i p j v l) ->
     (1 <= l <= mi_more_leaves (info m))%nat /\
     forall l', (l <= l')%nat -> leaf_taken (g_leaf (fst st)) (m, i, j, l') = false) /\
  (forall m i j l, leaf_taken (g_leaf (fst st)) (m, i, j, l) = true -> taken (g_state (fst st)) m i j = true).
Proof.
  intros info A accepts debug_args cfg sched callss.
  exact (single_use_one_owner_explicit info A accepts debug_args cfg sched callss).
Qed.

(* so, when all requests have ended, every value whose slot was emptied was handed to a caller *)
Theorem C12_raced_value_is_not_lost : forall info A accepts debug_args cfg sched callss,
  let st := run_sched info A accepts debug_args cfg sched
              (init_glob, map (fun cs => advance info A accepts debug_args cfg cs []) callss) in
  all_done A (snd st) = true ->
  forall m i j, taken (g_state (fst st)) m i j = true -> In (m, i, j) (g_deliv (fst st)).
Proof. intros info A accepts debug_args cfg sched callss. exact (single_use_not_lost info A accepts debug_args cfg sched callss). Qed.

(* WHO receives it.  [deliveries sched st]: for every step of the schedule that hands a value out, the thread that made the
   step and the value.  That log is the delivery log (nothing is handed out in any other way), so each single-use value has
   at most one receiving (thread, step) over ANY schedule; and the receiving step is the step at which that thread's request
   returns a value to its caller (never a panic) *)
Theorem C12_exactly_one_receiver : forall info A accepts debug_args cfg sched callss,
  let st0 := (init_glob, map (fun cs => advance info A accepts debug_args cfg cs []) callss) in
  g_deliv (fst (run_sched info A accepts debug_args cfg sched st0)) = map snd (deliveries info A accepts debug_args cfg sched st0) /\
  NoDup (map snd (deliveries info A accepts debug_args cfg sched st0)).
Proof.
  intros info A accepts debug_args cfg sched callss. cbn zeta. split.
  - exact (deliveries_are_the_log info A accepts debug_args cfg sched _).
  - exact (one_receiver info A accepts debug_args cfg sched callss).
Qed.

Theorem C12_receiving_step_returns_the_value : forall info A accepts debug_args cfg g th m i j,
  g_deliv (fst (fst (tstep info A accepts debug_args cfg g th))) = (g_deliv g ++ [(m, i, j)])%list ->
  exists v more, t_out (snd (fst (tstep info A accepts debug_args cfg g th))) = (t_out th ++ ActReturn (RVTag v) :: more)%list.
Proof. exact delivering_step_returns. Qed.

(* a request for an emptied slot is an error, never a value; a request for a full slot empties it and either returns
   the value or goes on to the value's further slots *)
Theorem C12_slot_request : forall info A accepts debug_args cfg g m a i p j v,
  exec info A accepts debug_args cfg g (PLockSlot m a i p j v) =
  if taken (g_state g) m i j
  then (g, NPend (PLockErr (ECannotReturnValueMoreThanOnce (call_of A debug_args m a) (debug_pattern m i p))), LSlot m i j)
  else match mi_more_leaves (info m) with
       | O => ({| g_state := set_taken (g_state g) (take (taken (g_state g)) m i j); g_order := g_order g;
                  g_log := g_log g; g_deliv := (g_deliv g ++ [(m, i, j)])%list; g_leaf := g_leaf g |},
               NDone (ActReturn (RVTag v)), LSlot m i j)
       | S _ => ({| g_state := set_taken (g_state g) (take (taken (g_state g)) m i j); g_order := g_order g;
                    g_log := g_log g; g_deliv := g_deliv g; g_leaf := g_leaf g |},
                 NPend (PLockLeaf m a i p j v 1), LSlot m i j)
       end.
Proof. reflexivity. Qed.

(* sequential form (C02): first request returns the value, later ones the error *)
Theorem C12_sequential : forall A debug_args s m a i p counts k v,
  map fst (p_resps p) = starts counts 0 -> counts <> [] -> 1 <= k -> cnt s m i = k - 1 ->
  nth_opt (map snd (p_resps p)) (seg_of counts k 0) = Some (RReturn true v) ->
  if taken s m i (seg_of counts k 0)
  then snd (respond A debug_args s m a i p) =
       OutErr (ECannotReturnValueMoreThanOnce (call_of A debug_args m a) (debug_pattern m i p))
  else snd (respond A debug_args s m a i p) = OutReturn (RVTag v) /\
       taken (fst (respond A debug_args s m a i p)) m i (seg_of counts k 0) = true.
Proof.
  intros A debug_args s m a i p counts k v H1 H2 H3 H4 H5.
  exact (respond_kth A debug_args s m a i p counts k (RReturn true v) H1 H2 H3 H4 H5).
Qed.

(* values configured for repeated use are stored by into_return (cloned per
   request, the stored value never emptied): the builder never puts them in a slot *)
Theorem C12_repeat_use_never_single_use : forall v, into_return v = inl (RReturn false v).
Proof. reflexivity. Qed.

(* type level: the builder refuses to quantify a non-Clone value for more than one use *)
Theorem C12_builder_refuses_multi_use_of_non_clone : forall bc b v n,
  bstep bc false (TS_QRV v, b) (ONTimes n) = None /\
  bstep bc false (TS_QRV v, b) (OAtLeastTimes n) = None /\
  bstep bc false (TS_DMR, b) (OReturns v) = None.
Proof. intros. repeat split; reflexivity. Qed.

(* ... and whenever a non-Clone value is stored it is stored single-use *)
Theorem C12_non_clone_stored_single_use : forall bc ts b o ts' b' k r,
  bstep bc false (ts, b) o = Some (ts', b') ->
  (forall k0 v0, In (k0, RReturn false v0) (b_resps b) -> False) ->
  In (k, r) (b_resps b') -> match r with RReturn false _ => False | _ => True end.
Proof.
  intros bc ts b o ts' b' k r H Hb Hin.
  assert (G : forall bb, (forall k0 v0, In (k0, RReturn false v0) (b_resps bb) -> False) ->
            forall k1 r1, In (k1, r1) (b_resps bb) -> match r1 with RReturn false _ => False | _ => True end).
  { intros bb Hbb k1 r1 Hi. destruct r1 as [[|] v1| | | | |]; try exact I. exact (Hbb k1 v1 Hi). }
  destruct ts, o; cbn in H; try discriminate; try (injection H as _ <-);
    try (apply (G b Hb k r); exact Hin);
    try (cbn in Hin; apply in_app_or in Hin as [Hin|[Hin|[]]]; [apply (G b Hb k r); exact Hin|injection Hin as _ <-; exact I]).
  all: try (destruct (b_mode b); try discriminate; injection H as _ <-; cbn in Hin; apply (G b Hb k r); exact Hin).
  - (* TS_QRV once *)
    unfold push_returner_result, into_return_once in Hin. destruct (bc_mutex_api bc); cbn in Hin.
    + apply in_app_or in Hin as [Hin|[Hin|[]]]; [apply (G b Hb k r); exact Hin|injection Hin as _ <-; exact I].
    + apply (G b Hb k r); exact Hin.
Qed.

(* a request that is ANSWERED (a value is handed out) runs none of the user code in the arguments' Debug impls: that code runs
   only to render a call into an error message - so nothing a user's Debug impl does can destroy a value on its way to the caller *)
Theorem C12_answered_request_runs_no_debug : forall act, (forall e, act <> ActPanic e) -> debug_runs act = 0.
Proof. exact answered_call_runs_no_debug. Qed.

Example C12_receiver_nonvacuous :
  (* two threads race for a composite value (two slots) under the schedule 0,0,1,1,1,0: thread 0, which emptied the first slot,
     is the one receiver although thread 1's request ends first *)
  match assemble hinfo cfg_std FbError [TCall 9 SomeCall (Pt (Some 255) None [OReturns 7])] with
  | Some (inl cfg) =>
    deliveries hinfo N haccepts hdebug cfg [0; 0; 1; 1; 1; 0]%nat
               (init_glob, map (fun cs => advance hinfo N haccepts hdebug cfg cs []) [[(9, 0)]; [(9, 0)]]) = [(0%nat, (9, 0%nat, 0%nat))]
  | _ => False
  end.
Proof. vm_compute. reflexivity. Qed.

Example C12_nonvacuous :
  (* three threads race for one single-use value under the schedule 2,0,1,1,0,2: exactly one gets it *)
  firstn 9 (run_ccase (CKase false [TCall 4 SomeCall (Pt (Some 255) None [OReturns 7])]
                             [[(4, 0)]; [(4, 0)]; [(4, 0)]] [2; 0; 1; 1; 0; 2])) =
  ["new:ok"; "t2 FetchAdd cnt:4:0"; "t0 FetchAdd cnt:4:0"; "t1 FetchAdd cnt:4:0"; "t1 Lock slot:4:0:0"; "t0 Lock slot:4:0:0";
   "t2 Lock slot:4:0:0"; "t0 Lock errs"; "t2 Lock errs"]%string /\
  nth 10 (run_ccase (CKase false [TCall 4 SomeCall (Pt (Some 255) None [OReturns 7])]
                             [[(4, 0)]; [(4, 0)]; [(4, 0)]] [2; 0; 1; 1; 0; 2])) ""%string = "T1 r7"%string.
Proof. vm_compute. split; reflexivity. Qed.

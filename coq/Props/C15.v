(* Unimock.Props.C15 -- property theorems only. *)
From Unimock Require Import Model.Run Proofs.Core Proofs.Deleg.
Open Scope N_scope.

(* a provided method that no clause mentions runs the trait's default body, in any state *)
Theorem C15_unmentioned_provided_runs_default : forall cfg s m a,
  lookup m (c_table cfg) = None -> mi_has_default (hinfo m) = true ->
  call hinfo N haccepts hdebug cfg s m a = (s, ActDefault).
Proof. exact provided_unmentioned_runs_default. Qed.

(* whether reached by fall-through or by applies_default_impl(): running the default body
   through the mock IS making its required calls directly, in order, on the same shared state --
   same responses, same final counters / ordered index / single-use slots / recorded errors --
   and the body's result is built from exactly those responses.  (The state s1 is the one the
   provided method's own evaluation left: untouched for fall-through, its pattern counted
   for applies_default_impl.)  The body is the harness' parametric one: any number 0..3 of
   required calls; nested calls may themselves be answered, unmocked or fail. *)
Theorem C15_delegation_is_direct_calls : forall fuel cfg armed s1 m a b,
  is_d_provided m = true -> armed <> 2 ->
  eval_act (S fuel) cfg armed s1 m a b ActDefault =
  let '(st, ar, r) := direct_calls fuel cfg armed s1 (body_calls a) in
  (st, ar, match r with inl parts => inl (body_text m a parts) | inr p => inr p end).
Proof. exact delegation_is_direct_calls. Qed.

(* the provided methods whose body makes ONE required call with the same consuming receiver kind (p_rc2 and p_rc3 with
   Rc<Self>, p_arc2 with Arc<Self>, p_val2 with self): the instance travels into the helper, the required method gets it
   back, and everything observable is that of calling the required partner directly with the caller's argument *)
Theorem C15_pair_delegation_is_one_direct_call : forall fuel cfg armed s1 m r a b,
  pair_partner m = Some r -> armed <> 2 ->
  eval_act (S fuel) cfg armed s1 m a b ActDefault =
  let '(st, ar, res) := direct_calls fuel cfg armed s1 [(r, a)] in
  (st, ar, match res with inl parts => inl (body_text m a parts) | inr p => inr p end).
Proof. exact pair_delegation_is_one_direct_call. Qed.

Theorem C15_body_calls_required_methods : forall a,
  length (body_calls a) = N.to_nat (a mod 4) /\
  forall c, In c (body_calls a) -> (fst c = 10 \/ fst c = 11) /\ snd c < 8.
Proof. exact body_calls_spec. Qed.

(* every receiver kind evaluates the same MockFn on the same shared state: the receiver only
   decides what happens to the INSTANCE (kept, helper clone cached, or consumed and verified
   when the call returns) -- [step] for BCallD, one definition for all kinds *)
Theorem C15_receivers_share_the_evaluation : forall w x i m a it,
  live_inst w i = Some it -> i_calls it = [] ->
  w_state (fst (step w {| ev_ctx := x; ev_base := BCallD i m a |})) =
  fst (fst (eval_act 12 (w_cfg w) (w_armed w)
             (fst (call hinfo N haccepts hdebug (w_cfg w) (w_state w) (d_alias m) a)) (d_alias m) a (a + 1)
             (snd (call hinfo N haccepts hdebug (w_cfg w) (w_state w) (d_alias m) a)))).
Proof.
  intros w x i m a it Hl Hnc. unfold step, step_core, releasing. cbn [ev_base ev_ctx]. rewrite Hl, Hnc.
  destruct (call hinfo N haccepts hdebug (w_cfg w) (w_state w) (d_alias m) a) as [s1 act]. cbn [fst snd].
  destruct (eval_act 12 (w_cfg w) (w_armed w) s1 (d_alias m) a (a + 1) act) as [[s2 ar2] r]. cbn [fst].
  destruct (recv_of m); try (destruct act; reflexivity); try reflexivity.
  - destruct r; [|reflexivity]. match goal with |- context [match ?d with Some _ => _ | None => _ end] => destruct d end; reflexivity.
  - destruct r; [|reflexivity]. match goal with |- context [match ?d with Some _ => _ | None => _ end] => destruct d end; reflexivity.
Qed.

(* non-vacuity: p_ref(3) on a mock with counted patterns for r0 and r1: three required calls,
   evaluated in order (r0's chain advances from the first to the second response) *)
Example C15_nonvacuous :
  exists cfg, assemble hinfo cfg_std FbError
      [TCall 10 EachCall (Pt (Some 255) None [OReturns 1; ONTimes 1; OThen; OReturns 2]);
       TCall 11 EachCall (Pt (Some 255) None [OAnswers 3])] = Some (inl cfg) /\
    snd (step {| w_bc := cfg_std; w_cfg := cfg; w_state := init_state; w_insts := [new_original]; w_armed := 0 |}
              (Ev false false (calld_ 0 14 3))) = "dflt14(3)[r1,a3(4),r2]"%string.
Proof. eexists. split; vm_compute; reflexivity. Qed.

(* Unimock.Props.C19 -- property theorems only.
   Panic messages identify the call, its arguments and the pattern involved. *)
From Unimock Require Import Spec.Messages Proofs.C19.
Open Scope N_scope.

(* (1) every error that is about a method -- all constructors of MockError except the
   pre-rendered FailedVerification lines, see (7) -- names it as Trait::method;
   [names] = what each matching! registered, [ms] = any mismatch list *)
Theorem C19_names_the_method : forall info names e ms m,
  err_mid e = Some m ->
  contains (mi_trait (info m) ++ "::" ++ mi_method (info m)) (render_error_x info names e ms).
Proof. exact names_path. Qed.

(* (2) every constructor except CannotUnmock / NoDefaultImpl / NotAnswered (the property's
   exception), MockNeverCalled and FailedVerification (verification: no call at hand)
   carries the call ... *)
Theorem C19_which_errors_render_the_call : forall e,
  path_only e = false -> (forall msg, e <> EFailedVerification msg) -> exists c, err_call e = Some c.
Proof. exact has_call_or_path_only. Qed.

(* ... and its message BEGINS with Trait::method(a1, ..., an): the recorded renderings in
   order, `?` for a missing one, any arity *)
Theorem C19_renders_the_call : forall info names e ms c,
  err_call e = Some c ->
  starts_with (mi_trait (info (fc_mid c)) ++ "::" ++ mi_method (info (fc_mid c))
               ++ "(" ++ comma_list (map render_opt (fc_args c)) ++ ")")
              (render_error_x info names e ms).
Proof.
  intros info names e ms c H. destruct (renders_call info names e ms c H) as [post ->].
  exists post. unfold render_call_x, fmt_call, path_str. rewrite fmt_inputs_comma_list.
  now rewrite !app_assoc_s.
Qed.

(* (3) the recorded renderings are the Debug texts of the actual arguments in declaration
   order, `?` exactly for the types without a Debug impl in scope -- for EVERY parameter
   list over the class grammar (owned, &, &&, &mut, slices, str, generic with and without
   a Debug bound, non-Debug), by induction over the list *)
Theorem C19_arguments_in_declaration_order : forall i ts vs,
  forallb wf_param ts = true ->
  fmt_call (path_str i) (debug_inputs ts vs) = spec_call i ts vs.
Proof. exact call_text_spec. Qed.

Theorem C19_argument_i_is_parameter_i : forall ts vs i t v,
  nth_error ts i = Some t -> nth_error vs i = Some v ->
  nth_error (debug_inputs ts vs) i = Some (try_debug t v).
Proof. exact debug_inputs_nth. Qed.

(* ", " exactly between neighbours: the list can be cut at any boundary *)
Theorem C19_separators : forall l1 l2, l1 <> [] -> l2 <> [] ->
  comma_list (l1 ++ l2) = comma_list l1 ++ ", " ++ comma_list l2.
Proof. exact comma_list_app. Qed.

(* (4) the generated dereference chain + autoref specialisation reaches the value for every
   well-formed parameter type: never ambiguous, never without method, Debug text iff the
   type is known to be Debug *)
Theorem C19_deref_chain_reaches_the_value : forall t,
  wf_param t = true ->
  arg_resolution t = if knows_debug t then RProper else RNoDebug.
Proof. exact arg_resolution_wf. Qed.

(* (5) when a specific pattern is involved the message contains
   Trait::method<pattern text> at <file>:<line> with what THAT matching! registered *)
Theorem C19_pattern_is_named : forall info names e ms m d,
  err_pat e = Some {| pd_mid := m; pd_loc := LocDebug d |} ->
  contains (mi_trait (info m) ++ "::" ++ mi_method (info m) ++ pn_text (names d)
            ++ " at " ++ pn_file (names d) ++ ":" ++ dec (pn_line (names d)))
           (render_error_x info names e ms).
Proof.
  intros info names e ms m d H.
  pose proof (names_pattern info names e ms _ H) as C. now rewrite render_pat_x_named in C.
Qed.

(* the registered text of a single-alternative guard-free matching!(p1, .., pn) is its
   source text as doc.rs prints it: (p1, .., pn) *)
Theorem C19_pattern_text : forall ps,
  pat_debug_text {| mi_alts := [ps]; mi_guard := None |} = "(" ++ comma_list (map doc ps) ++ ")".
Proof. exact pat_debug_text_single. Qed.

(* (6) guard-free single-alternative patterns, any arity: the report lists position i iff
   sub-pattern i rejects argument i, in order; wildcards are never listed but count *)
Theorem C19_mismatch_positions : forall ts ps vs,
  length ts = length ps -> length vs = length ps ->
  map mm_input (diag_input ts {| mi_alts := [ps]; mi_guard := None |} vs)
  = filter (rejects_at ps vs) (seq 0 (length ps)).
Proof.
  intros ts ps vs Ht Hv. rewrite diag_input_single.
  rewrite diag_from_positions by (rewrite ?map_length; auto).
  unfold spec_positions. rewrite map_ext with (g := fun x => x) by reflexivity. apply map_id.
Qed.

(* per-position independence: positions of a second block are shifted by the ARITY of the
   first block, whatever was or was not listed there *)
Theorem C19_mismatch_positions_independent : forall ps1 ks1 ts1 vs1 ps2 ks2 ts2 vs2 i,
  length ks1 = length ps1 -> length ts1 = length ps1 -> length vs1 = length ps1 ->
  diag_from i (ks1 ++ ks2) (ts1 ++ ts2) (ps1 ++ ps2) (vs1 ++ vs2) =
  (diag_from i ks1 ts1 ps1 vs1 ++ diag_from (i + length ps1) ks2 ts2 ps2 vs2)%list.
Proof. exact diag_from_app. Qed.

(* each listed position carries that argument's value: the very rendering the call shows
   at that position (side conditions = what rustc demands of the generated statement).
   [ts] are the parameter types as the matching! closure sees them: for a generic trait
   that is the INSTANTIATED signature (Macro.Messages.kdiag applies [map inst]); it is the
   declared signature whenever no parameter mentions a generic (C19_instantiation). *)
Theorem C19_mismatch_values : forall ts ps vs m,
  (forall j t p, nth_error ts j = Some t -> nth_error ps j = Some p ->
     wf_param t = true /\
     (is_pat_lit p = true -> knows_debug t = true) /\
     (pat_kind p = AKLitStr -> knows_debug t = true) /\
     stmt_compiles (pat_kind p) t p = true /\
     (t = TB BImp -> p = SWild)) ->
  In m (diag_input ts {| mi_alts := [ps]; mi_guard := None |} vs) ->
  nth_error (debug_inputs ts vs) (mm_input m) = Some (mm_actual m).
Proof. exact mismatch_values_single. Qed.

Theorem C19_instantiation : forall ts,
  forallb (fun t => negb (has_generic t)) ts = true -> map inst ts = ts.
Proof. exact map_inst_nongeneric. Qed.

(* (7) verification lines start with Trait::method and name the unmet pattern the same way *)
Theorem C19_verification_lines : forall info names f,
  starts_with (mi_trait (info (vf_mid f)) ++ "::" ++ mi_method (info (vf_mid f))) (render_vfail info names f)
  /\ contains (render_pat_x info names (vf_pd f)) (render_vfail info names f).
Proof.
  intros. destruct (vfail_names info names f) as [[post E] C]. split; [|exact C].
  exists post. rewrite E. unfold path_str. now rewrite !app_assoc_s.
Qed.

(* the error rendering of Model.Verify (C03, C07, C08) is this rendering under the core
   harness' naming convention *)
Theorem C19_core_rendering : forall info e, render_error_x info core_names e [] = render_error info e.
Proof. exact render_error_x_core. Qed.

(* a `&mut L<'a>` parameter (the macro's Impossible class) keeps its own entry, at its own position: the call
   Sink::write_at(7, <cursor>, "t") is rendered  Sink::write_at(7, Impossible, "t") *)
Theorem C19_impossible_keeps_its_position : forall (pre post : list pty) (vpre vpost : list value) (v : value),
  length pre = length vpre ->
  nth_error (debug_inputs (pre ++ TB BImp :: post) (vpre ++ v :: vpost)) (length pre) = Some (Some "Impossible")
  /\ length (debug_inputs (pre ++ TB BImp :: post) (vpre ++ v :: vpost))
     = Nat.min (length (pre ++ TB BImp :: post)) (length (vpre ++ v :: vpost)).
Proof.
  intros pre post vpre vpost v H. split.
  - apply (debug_inputs_nth _ _ (length pre) (TB BImp) v).
    + rewrite nth_error_app2 by apply le_n. rewrite Nat.sub_diag. reflexivity.
    + rewrite H, nth_error_app2 by apply le_n. rewrite Nat.sub_diag. reflexivity.
  - generalize (pre ++ TB BImp :: post)%list (vpre ++ v :: vpost)%list. clear.
    induction l as [|t l IH]; intros [|w l']; cbn [debug_inputs length Nat.min]; try reflexivity.
    f_equal. apply IH.
Qed.

(* non-vacuity: a 4-ary method (i32, &Nd, &[i32], T), pattern (_, A, [1, ..], _): the
   wildcards at 0 and 3 are never listed, positions 1 and 2 are, with `?` for the non-Debug
   argument; and the one shape the grammar excludes because rustc rejects the generated
   debug_inputs for it: a `&&[i32]` parameter is E0034-ambiguous *)
(* an eq!(..) position whose actual and expected values DIFFER although their Debug texts are identical (a hand-written Debug that
   hides a field, NaN): the report still lists the position with the actual value's text *)
Example C19_identical_debug_texts :
  let actual := VCon "Amb" [VInt 1; VInt 2] in          (* Amb(1, 2) *)
  accepts (SCmp false 4) actual = false /\              (* eq!(&Amb(1, 0)): 4 * 1 + 0; Amb(1, 2) == Amb(1, 0) is false (2 <= 0) *)
  option_map (fun m => (mm_input m, mm_actual m, mm_expected m)) (diag_stmt 0 AKUnknown (TB BAmb) (SCmp false 4) actual)
  = Some (0%nat, Some "Amb(1)"%string, Some "Amb(1)"%string).
Proof. vm_compute. split; reflexivity. Qed.

Example C19_nonvacuous :
  let ts := [TB BInt; TRef false (TB BNd); TRef false (TSlice (TB BInt)); TB BGen] in
  let ps := [SWild; SPath "A"; SSlice [SLit 1] true []; SWild] in
  let vs := [VInt 5; VCon "B" []; VList [VInt 2; VInt 3]; VInt 7] in
  forallb wf_param ts = true /\
  fmt_call "T::m" (debug_inputs ts vs) = "T::m(5, ?, [2, 3], ?)" /\
  pat_debug_text {| mi_alts := [ps]; mi_guard := None |} = "(_, A, [1, ..], _)" /\
  map (fun m => (mm_input m, mm_actual m)) (diag_input ts {| mi_alts := [ps]; mi_guard := None |} vs)
    = [(1%nat, None); (2%nat, Some "[2, 3]")] /\
  arg_resolution (TRef false (TRef false (TSlice (TB BInt)))) = RAmbiguous.
Proof. cbn zeta. repeat split; vm_compute; reflexivity. Qed.

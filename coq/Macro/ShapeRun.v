(* Unimock.Macro.ShapeRun -- the model side of the C05 co-execution: a case is one method
   shape plus the caller's script (calls with their argument ids, each awaited or dropped
   unpolled); the model prints the observation lines the generated Rust driver prints. *)
From Unimock Require Export Macro.Unimock Spec.Forward.
Open Scope N_scope.

(* what the caller does with what the call returned (sync methods: Awaited = the call itself) *)
Inductive use := Awaited | DroppedUnpolled.

Definition call_and {R} (sh : shape) (u : use) (args : list aval) (resp : responder R) (st : store)
  : option (outcome R) :=
  match call_method sh args resp st with
  | Now o => o
  | Later f => match u with
               | Awaited => await f st
               | DroppedUnpolled => Some (drop_unpolled f st)
               end
  end.

(* a script of calls on one mock; traces are concatenated, each call has its own caller variables *)
Fixpoint run_calls {R} (sh : shape) (resp : responder R) (calls : list (use * list aval * store))
  : option (list event) :=
  match calls with
  | [] => Some []
  | (u, args, st) :: r =>
      match call_and sh u args resp st, run_calls sh resp r with
      | Some (tr, _, _), Some tr' => Some (tr ++ tr')%list
      | _, _ => None
      end
  end.

Definition is_eval (e : event) : bool := match e with EvEval _ => true | _ => false end.
Definition is_answer (e : event) : bool := match e with EvAnswer _ _ => true | _ => false end.
Definition is_real (e : event) : bool := match e with EvReal _ _ => true | _ => false end.
Definition count_evals (tr : list event) : nat := length (filter is_eval tr).
Definition count_answers (tr : list event) : nat := length (filter is_answer tr).
Definition count_reals (tr : list event) : nat := length (filter is_real tr).

(* ---------------- the harness' fixed answer function and printing ---------------- *)

Definition lookup (l : N) (st : store) : N :=
  match find (fun kv => N.eqb (fst kv) l) st with Some kv => snd kv | None => 0 end.

Definition first_id (args : list aval) (st : store) : N :=
  match args with
  | VArg n :: _ => n
  | VMutRef l :: _ => lookup l st
  | _ => 0
  end.

(* logs its arguments, adds 1000 to every caller variable it got a unique borrow of,
   returns 5000 + the id of its first argument *)
Definition harness_answer : answer_fn N :=
  fun _ args st => (5000 + first_id args st, write_all 1000 args st).

(* the harness' real functions: number fid logs its arguments, writes like the answer function and
   returns 20000 + 1000 * fid + the id of its first value argument *)
Definition rvals (rargs : list rarg) : list aval :=
  flat_map (fun a => match a with RVal v => [v] | RSelf _ => [] end) rargs.
Definition harness_real (fid : N) : real_fn N :=
  fun rargs st => (20000 + 1000 * fid + first_id (rvals rargs) st, write_all 1000 (rvals rargs) st).

(* UseUnmock items uw k: the clause says applies_unmocked(); the trait has the fn items [items]
   (true = mocked method), the attribute `unmock_with = uw`, and the method is the k-th mocked one *)
Inductive rkind := UseAnswer | UseReturn | UseUnmock (items : list bool) (uw : list uentry) (k : nat).
Definition harness_resp (k : rkind) : responder N :=
  match k with
  | UseAnswer => KAnswer harness_answer
  | UseReturn => KReturn 5000
  | UseUnmock items uw j =>
      match unmock_of items (Some uw) j with
      | Some (fid, ps) => KUnmockArm fid (harness_real fid) ps
      | None => KUnmock
      end
  end.

Record kase := {
  k_shape : shape;
  k_resp : rkind;
  k_calls : list (use * list N)     (* per call: the ids of the arguments, in declaration order *)
}.

Fixpoint mk_args (k : N) (cs : list pclass) (ids : list N) : list aval * store :=
  match cs, ids with
  | c :: cr, n :: nr =>
      let (vs, st) := mk_args (k + 1) cr nr in
      if is_mut c then (VMutRef k :: vs, (k, n) :: st) else (VArg n :: vs, st)
  | _, _ => ([], [])
  end.

Definition show_aval (st : store) (v : aval) : string :=
  match v with VArg n => dec n | VMutRef l => dec (lookup l st) | VImp => "!" end.

Definition show_list (st : store) (vs : list aval) : string :=
  String.concat "" (map (fun v => " " ++ show_aval st v) vs).

Definition show_self (r : receiver) (s : selfv) : string :=
  match r, s with
  | RcvOwned, SelfAsPassed => "moved"
  | RcvPin, SelfUnpinned => "same"
  | RcvPin, SelfAsPassed => "pinned"
  | _, SelfAsPassed => "same"
  | _, SelfUnpinned => "unpinned"
  end.

Definition show_event (sh : shape) (st : store) (e : event) : string :=
  match e with
  | EvEval i => "M" ++ show_list st (unpack i)
  | EvAnswer s args => "A self=" ++ show_self (sh_recv sh) s ++ show_list st args
  | EvReal fid rargs =>
      "U f=" ++ dec fid ++ " self="
      ++ match find (fun a => match a with RSelf _ => true | _ => false end) rargs with
         | Some (RSelf s) => show_self (sh_recv sh) s
         | _ => "none"
         end
      ++ show_list st (rvals rargs)
  end.

Definition show_ret (c : rclass) (n : N) : string :=
  match c with
  | RetUnit => "unit"
  | RetOption => "some" ++ dec n
  | _ => dec n
  end.

Definition show_counts (point : string) (m a : nat) : string :=
  "C " ++ point ++ " m=" ++ decn m ++ " a=" ++ decn a.

Definition res_line (sh : shape) (res : result N) : string :=
  match res with Returned r => "R " ++ show_ret (sh_ret sh) r | Reported => "PANIC" end.
Definition w_line (st' : store) : string :=
  "W" ++ String.concat "" (map (fun kv => " " ++ dec (snd kv)) st').

(* lines of one call; (m, a) = evaluation counters before it *)
Definition call_lines (sh : shape) (resp : responder N) (u : use) (ids : list N) (m a : nat)
  : list string * nat * nat :=
  let (args, st) := mk_args 0 (sh_params sh) ids in
  let async := deferred sh in
  match call_method sh args resp st with
  | Now None => (["ILL-TYPED"], m, a)
  | Now (Some (tr, res, st')) =>
      let m' := (m + count_evals tr)%nat in
      let a' := (a + count_answers tr + count_reals tr)%nat in
      (map (show_event sh st) tr
         ++ [res_line sh res; w_line st'], m', a')%list
  | Later f =>
      let pre := [show_counts "constructed" m a] in
      match u with
      | DroppedUnpolled => ((pre ++ [show_counts "dropped" m a])%list, m, a)
      | Awaited =>
          match await f st with
          | None => (["ILL-TYPED"], m, a)
          | Some (tr, res, st') =>
              let m' := (m + count_evals tr)%nat in
              let a' := (a + count_answers tr + count_reals tr)%nat in
              ((pre ++ map (show_event sh st) tr ++ [show_counts "awaited" m' a']
                ++ [res_line sh res; w_line st'])%list, m', a')
          end
      end
  end.

Fixpoint calls_lines (sh : shape) (resp : responder N) (calls : list (use * list N)) (m a : nat) : list string :=
  match calls with
  | [] => []
  | (u, ids) :: r =>
      let '(ls, m', a') := call_lines sh resp u ids m a in
      (ls ++ calls_lines sh resp r m' a')%list
  end.

Definition run_kase (k : kase) : list string :=
  calls_lines (k_shape k) (harness_resp (k_resp k)) (k_calls k) 0 0.

Definition lines_of_kase (k : kase) : list string := (run_kase k ++ ["--"])%list.
Definition lines_of_kases (ks : list kase) : list string := flat_map lines_of_kase ks.

(* Unimock.Macro.Matching -- the `matching!` macro as the compiler it is:
   front end (unimock_macros/src/matching/parse.rs), analysis (analyze_args /
   guess_arg_kind) and back end (generate: local defs, success arms in order,
   diagnostics arm, catch-all) of unimock_macros/src/matching/mod.rs, and the
   evaluation of the emitted closure.  Executable, no proofs. *)
From Unimock Require Import Model.Base Macro.RustPat.

(* ---------- front end: Parse for MatchingInput ---------- *)

(* what the user wrote between the parentheses of matching!( ... ) *)
Inductive surface :=
| SEmpty                                           (* matching!() *)
| SSimple (ps : list pat) (g : option gexpr)       (* p1, ..., pn [if g] *)
| SDisj (alts : list pat) (g : option gexpr).      (* t1 | t2 | ... [if g], t1 parenthesised *)

Inductive fe_error := ExpectedTuple | TooManyElements.

Definition minput : Type := list (list pat) * option gexpr.   (* arg_patterns, guard *)

(* expect_canonical_arg_pattern *)
Definition canonical (p : pat) : fe_error + list pat :=
  match p with
  | PTuple ps => inr ps
  | PParen q => inr [q]
  | _ => inl ExpectedTuple
  end.

Definition frontend (s : surface) : fe_error + minput :=
  match s with
  | SEmpty => inr ([], None)
  | SSimple ps None => inr ([ps], None)
  (* try_flatten_if_single_pattern *)
  | SSimple [p] (Some g) => match canonical p with inr t => inr ([t], Some g) | inl e => inl e end
  | SSimple _ (Some g) => inl TooManyElements
  | SDisj [] g => inr ([], None)
  | SDisj [a] g => match canonical a with inr t => inr ([t], g) | inl e => inl e end
  | SDisj [a; b] g =>
      match canonical a, canonical b with
      | inr ta, inr tb => inr ([ta; tb], g)
      | inl e, _ | _, inl e => inl e
      end
  (* the second alternative is read with Pat::parse_multi, which takes `t2 | t3 | ...`
     as ONE or-pattern: not a tuple *)
  | SDisj (_ :: _ :: _ :: _) _ => inl ExpectedTuple
  end.

(* ---------- analysis: analyze_args / guess_arg_kind ---------- *)

Inductive argkind := KUnknown | KLitStr | KSlice.

Definition kind_eqb (a b : argkind) : bool :=
  match a, b with
  | KUnknown, KUnknown | KLitStr, KLitStr | KSlice, KSlice => true
  | _, _ => false
  end.

Fixpoint pat_kind (p : pat) : argkind :=
  match p with
  | PStrLit _ => KLitStr
  | PSlice _ _ _ => KSlice
  | POr ps =>
      (* BTreeSet of the kinds of the cases has exactly one element *)
      match map pat_kind ps with
      | [] => KUnknown
      | k :: ks => if forallb (kind_eqb k) ks then k else KUnknown
      end
  | _ => KUnknown
  end.

Definition guess_from_pattern (index : nat) (alt : list pat) : argkind :=
  match nth_opt alt index with Some p => pat_kind p | None => KUnknown end.

Definition guess_step (index : nat) (st : argkind * bool) (alt : list pat) : argkind * bool :=
  let (result_kind, conflicting) := st in
  match result_kind, guess_from_pattern index alt with
  | KUnknown, next => (next, conflicting)
  | _, KUnknown => st
  | prev, next => if kind_eqb prev next then st else (result_kind, true)
  end.

Definition guess_arg_kind (index : nat) (alts : list (list pat)) : argkind :=
  let (result_kind, conflicting) := fold_left (guess_step index) alts (KUnknown, false) in
  if conflicting then KUnknown else result_kind.

Definition analyze_args (alts : list (list pat)) : list argkind :=
  match alts with
  | [] => []
  | first :: _ => map (fun i => guess_arg_kind i alts) (seq 0 (length first))
  end.

(* Arg::render_expr: private::as_str_ref / as_slice *)
Definition coerce (k : argkind) (v : value) : value :=
  match k, v with
  | KLitStr, VStr _ s => VStr Plain s
  | KSlice, VSeq _ l => VSeq Plain l
  | _, _ => v
  end.

Fixpoint coerce_all (ks : list argkind) (vs : list value) : list value :=
  match ks, vs with
  | k :: ks', v :: vs' => coerce k v :: coerce_all ks' vs'
  | _, _ => vs
  end.

(* ---------- back end ---------- *)

(* identifiers of the emitted code: the user's, and the macro's own m<index> *)
Inductive ident := U (x : string) | M (index : nat).
Definition ident_eqb (a b : ident) : bool :=
  match a, b with
  | U x, U y => String.eqb x y
  | M i, M j => Nat.eqb i j
  | _, _ => false
  end.
Definition menv := list (ident * value).
Fixpoint mlookup (x : ident) (e : menv) : option value :=
  match e with
  | [] => None
  | (y, v) :: e' => if ident_eqb x y then Some v else mlookup x e'
  end.

(* ArgMatcher: a user pattern, or a Compare matcher (bind m<index>, compare with local l<k>) *)
Inductive arg_matcher :=
| AMPattern (p : pat)
| AMCompare (ne : bool) (index : nat) (local : nat) (operand : value).

(* ArgPatternArm::from_arg_pattern, threading local_counter *)
Fixpoint arg_matchers (index counter : nat) (ps : list pat) : list arg_matcher * nat :=
  match ps with
  | [] => ([], counter)
  | PCmp ne o :: ps' =>
      let (ms, c) := arg_matchers (S index) (S counter) ps' in (AMCompare ne index counter o :: ms, c)
  | p :: ps' =>
      let (ms, c) := arg_matchers (S index) counter ps' in (AMPattern p :: ms, c)
  end.

Fixpoint all_matchers (counter : nat) (alts : list (list pat)) : list (list arg_matcher) :=
  match alts with
  | [] => []
  | ps :: alts' => let (ms, c) := arg_matchers 0 counter ps in ms :: all_matchers c alts'
  end.

(* render_local_defs: `let l<k> = <tokens>;` in arm order, before the match *)
Definition local_defs (arms : list (list arg_matcher)) : list (nat * value) :=
  flat_map (fun ms => flat_map (fun m => match m with AMCompare _ _ k o => [(k, o)] | _ => [] end) ms) arms.

Fixpoint local_value (k : nat) (defs : list (nat * value)) : option value :=
  (* later `let`s shadow earlier ones *)
  match defs with
  | [] => None
  | (j, v) :: defs' => match local_value k defs' with
                       | Some w => Some w
                       | None => if Nat.eqb j k then Some v else None
                       end
  end.

(* atoms of an emitted guard: the user's tokens, or `(m<i> == l<k>)` / `!=` *)
Inductive matom := MUser (a : uatom) | MCompare (ne : bool) (index local : nat).

(* `#(#concatenated_guards)&&*` : the guards are TOKEN streams joined by `&&`
   and the result is parsed by rustc.  `&&` binds tighter than `||`, so what
   is joined on the right attaches to the LAST operand of a top-level `||`
   chain of the left stream.  render_guard parenthesises the comparisons and
   (since the repair of finding F3) render_success_arm parenthesises the user's
   guard, so no stream that is joined has a bare top-level `||`. *)
Fixpoint concat_and {A} (a b : bexp A) : bexp A :=
  match a with
  | BOr x y => BOr x (concat_and y b)
  | _ => BAnd a b
  end.

Definition join_guards {A} (gs : list (bexp A)) : option (bexp A) :=
  match gs with
  | [] => None
  | g :: gs' => Some (fold_left concat_and gs' g)
  end.

(* render_guard *)
Definition local_guards (ms : list arg_matcher) : list (bexp matom) :=
  flat_map (fun m => match m with
                     | AMCompare ne i k _ => [BParen (BAtom (MCompare ne i k))]
                     | AMPattern _ => []
                     end) ms.

Inductive arm_guard := GNone | GExpr (g : bexp matom) | GReporterEnabled.
(* render_diagnostics_stmt *)
Inductive diag_stmt :=
| DPat (index : nat) (p : pat)
| DCmp (ne : bool) (index local : nat).
Inductive arm_body := BodyTrue | BodyFalse | BodyDiag (stmts : list diag_stmt).
(* the arm's tuple-ish pattern: one element bare, several as a tuple *)
Record arm := { arm_elems : list arg_matcher; arm_wild : bool; arm_guard_ : arm_guard; arm_body_ : arm_body }.

(* render_success_arm *)
Definition success_arm (global_guards : list (bexp matom)) (ms : list arg_matcher) : arm :=
  {| arm_elems := ms; arm_wild := false;
     arm_guard_ := match join_guards (global_guards ++ local_guards ms)%list with
                   | Some g => GExpr g | None => GNone end;
     arm_body_ := BodyTrue |}.

Fixpoint diag_stmts_at (index : nat) (ms : list arg_matcher) : list diag_stmt :=
  match ms with
  | [] => []
  | AMPattern PWild :: ms' => diag_stmts_at (S index) ms'
  | AMPattern p :: ms' => DPat index p :: diag_stmts_at (S index) ms'
  | AMCompare ne i k _ :: ms' => DCmp ne index k :: diag_stmts_at (S index) ms'
  end.

(* generate_diagnostics_arm: `_ if reporter.enabled() => { checks of the LAST arm; false }` *)
Definition diagnostics_arm (arms : list (list arg_matcher)) : arm :=
  {| arm_elems := []; arm_wild := true; arm_guard_ := GReporterEnabled;
     arm_body_ := match last (map Some arms) None with
                  | None => BodyFalse
                  | Some ms => BodyDiag (diag_stmts_at 0 ms)
                  end |}.

Definition catch_all : arm :=
  {| arm_elems := []; arm_wild := true; arm_guard_ := GNone; arm_body_ := BodyFalse |}.

(* the closure handed to Matching::func *)
Inductive closure :=
| CAlways                                           (* |_, _| true *)
| CMatch (kinds : list argkind) (locals : list (nat * value)) (arms : list arm).

Definition generate (input : minput) : closure :=
  let (alts, guard) := input in
  match alts with
  | [] => CAlways
  | _ =>
      let kinds := analyze_args alts in
      let global_guards := match guard with Some g => [BParen (bmap MUser g)] | None => [] end in
      let matchers := all_matchers 0 alts in
      let success := map (success_arm global_guards) matchers in
      let diag := match guard with None => [diagnostics_arm matchers] | Some _ => [] end in
      CMatch kinds (local_defs matchers) (success ++ diag ++ [catch_all])%list
  end.

(* ---------- running the emitted closure ---------- *)

Definition tag_user (e : env) : menv := map (fun '(x, v) => (U x, v)) e.

Definition matcher_match (m : arg_matcher) (v : value) : option menv :=
  match m with
  | AMPattern p => option_map tag_user (pmatch p v)
  | AMCompare _ i _ _ => Some [(M i, view v)]       (* the identifier pattern m<index> *)
  end.

Fixpoint matchers_match (ms : list arg_matcher) (vs : list value) : option menv :=
  match ms, vs with
  | [], [] => Some []
  | m :: ms', v :: vs' =>
      match matcher_match m v with
      | Some e => match matchers_match ms' vs' with Some e' => Some (e ++ e')%list | None => None end
      | None => None
      end
  | _, _ => None
  end.

(* the scrutinee is `a0` for one argument and `(a0, .., an)` otherwise; the arm
   pattern is packed the same way (concat_args_parenthesized / tuple_ish_pattern).
   Matching a packed pattern against a packed scrutinee: *)
Definition packed_match (ms : list arg_matcher) (scrutinee : list value) : option menv :=
  match ms, scrutinee with
  | [m], [v] => matcher_match m v                    (* both bare *)
  | [_], _ | _, [_] => None                          (* bare against tuple: rejected by rustc *)
  | _, _ => matchers_match ms scrutinee              (* tuple against tuple *)
  end.

Definition matom_eval (locals : list (nat * value)) (e : menv) (a : matom) : bool :=
  match a with
  | MUser u => uatom_eval (fun x => mlookup (U x) e) u
  | MCompare ne i k =>
      match mlookup (M i) e, local_value k locals with
      | Some v, Some o => vcmp ne v o
      | _, _ => false
      end
  end.

Inductive mismatch_kind := MismatchPattern | MismatchEq | MismatchNe.

Definition run_diag (locals : list (nat * value)) (cargs : list value) (s : diag_stmt) : list (nat * mismatch_kind) :=
  match s with
  | DPat i p => match nth_opt cargs i with
                | Some v => match pmatch p v with Some _ => [] | None => [(i, MismatchPattern)] end
                | None => []
                end
  | DCmp ne i k => match nth_opt cargs i, local_value k locals with
                   | Some v, Some o => if vcmp ne v o then [] else [(i, if ne then MismatchNe else MismatchEq)]
                   | _, _ => []
                   end
  end.

Definition result : Type := bool * list (nat * mismatch_kind).

Fixpoint run_arms (arms : list arm) (enabled : bool) (locals : list (nat * value)) (cargs : list value) : result :=
  match arms with
  | [] => (false, [])
  | a :: rest =>
      match (if arm_wild a then Some [] else packed_match (arm_elems a) cargs) with
      | None => run_arms rest enabled locals cargs
      | Some e =>
          let holds := match arm_guard_ a with
                       | GNone => true
                       | GExpr g => beval (matom_eval locals e) g
                       | GReporterEnabled => enabled
                       end in
          if holds then
            match arm_body_ a with
            | BodyTrue => (true, [])
            | BodyFalse => (false, [])
            | BodyDiag stmts => (false, flat_map (run_diag locals cargs) stmts)
            end
          else run_arms rest enabled locals cargs
      end
  end.

(* calling the matcher: `enabled` is MismatchReporter::enabled() -- false on the
   unordered path (CallPattern::match_inputs with None), true on the ordered
   path and when an error message is being built *)
Definition run (c : closure) (enabled : bool) (args : list value) : result :=
  match c with
  | CAlways => (true, [])
  | CMatch kinds locals arms => run_arms arms enabled locals (coerce_all kinds args)
  end.

Definition accepts (input : minput) (enabled : bool) (args : list value) : bool :=
  fst (run (generate input) enabled args).

(* ---------- the class of inputs hit by F3 (DESIGN.md section 8) ---------- *)
Definition has_compare (ps : list pat) : bool :=
  existsb (fun p => match p with PCmp _ _ => true | _ => false end) ps.

(* a bare top-level `||` guard next to an eq!/ne! operand *)
Definition f3_class (input : minput) : bool :=
  match snd input with
  | Some g => is_or g && existsb has_compare (fst input)
  | None => false
  end.

(* ---------- typing side conditions of the emitted match, as computable predicates ---------- *)

Definition is_cmp (p : pat) : bool := match p with PCmp _ _ => true | _ => false end.

(* the pattern cannot look INSIDE a string / sequence at its top level *)
Fixpoint lit_free (p : pat) : bool :=
  match p with
  | PStrLit _ | PSlice _ _ _ => false
  | PBindAt _ q | PParen q => lit_free q
  | POr ps => forallb lit_free ps
  | _ => true
  end.

(* the guessed coercion turns this argument into its plain view *)
Definition plainly (k : argkind) (v : value) : bool :=
  match v with
  | VStr Plain _ | VSeq Plain _ => true
  | VStr _ _ => kind_eqb k KLitStr
  | VSeq _ _ => kind_eqb k KSlice
  | _ => true
  end.

(* what rustc's type check of the emitted match guarantees, position by position *)
Fixpoint coerced_ok (ks : list argkind) (ps : list pat) (vs : list value) : bool :=
  match ks, ps, vs with
  | k :: ks', p :: ps', v :: vs' => (is_cmp p || plainly k v || lit_free p) && coerced_ok ks' ps' vs'
  | [], [], [] => true
  | _, _, _ => false
  end.

Definition well_coerced (alts : list (list pat)) (args : list value) : bool :=
  forallb (fun ps => coerced_ok (analyze_args alts) ps args) alts.


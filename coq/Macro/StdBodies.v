(* Unimock.Macro.StdBodies -- a few UPSTREAM default bodies transcribed as
   programs (std 1.95 io::Write::write_all, io::default_read_exact,
   core::hash::Hasher::write_{u,i}N, embedded-hal 1.0.0 DelayNs::delay_us/ms,
   OutputPin::set_state, StatefulOutputPin::toggle, SetDutyCycle::set_duty_cycle_xxx),
   and the case interpreter used for co-execution with harness/mirrors.

   The C20 theorems are parametric in the body; these transcriptions are only
   used to tie the model's prediction to what the real bodies do on the real
   mock (and on the plain scripted struct) on every run.  Executable, no proofs. *)
From Unimock Require Export Macro.Mirror.
Open Scope N_scope.

Inductive marg := AUnit | ANum (n : N) | ABytes (l : list N) | APair (a b : N).

Inductive mresp :=
| VUnit                       (* () / Ok(()) *)
| VNum (n : N)                (* Ok(n) / n / bool as 0,1 *)
| VBytes (l : list N)         (* Ok(data) *)
| VErr (k : N)                (* Err(kind k); kind 0 = ErrorKind::Interrupted *)
| VPanic                      (* the body itself panicked (slice index, debug_assert) *)
| VWith (r : mresp) (buf : list N).   (* result and the caller's buffer afterwards *)

(* required methods *)
Definition M_WRITE := 0.   Definition M_FLUSH := 1.   Definition M_READ := 2.
Definition M_HWRITE := 3.  Definition M_HFINISH := 4. Definition M_DELAY_NS := 5.
Definition M_SET_LOW := 6. Definition M_SET_HIGH := 7.
Definition M_IS_SET_HIGH := 8. Definition M_IS_SET_LOW := 9.
Definition M_MAX_DUTY := 10. Definition M_SET_DUTY := 11.
(* provided methods: ids from 32 *)
Definition P_WRITE_ALL := 32. Definition P_READ_EXACT := 33.
(* 40..45: write_u8,u16,u32,u64,u128,usize; 46..51: write_i8,..,isize (argument: the bit pattern) *)
Definition P_DELAY_US := 60. Definition P_DELAY_MS := 61.
Definition P_SET_STATE := 62. Definition P_TOGGLE := 63.
Definition P_DUTY_OFF := 64. Definition P_DUTY_ON := 65. Definition P_DUTY_FRACTION := 66. Definition P_DUTY_PERCENT := 67.

Definition E_INTERRUPTED := 0.
Definition E_UNEXPECTED_EOF := 4.
Definition E_WRITE_ZERO := 5.

Notation body := (prog marg mresp mresp).

(* std::io::Write::write_all *)
Fixpoint write_all (fuel : nat) (buf : list N) : body :=
  match buf with
  | [] => Ret VUnit
  | _ =>
    match fuel with
    | O => Ret VPanic
    | S f =>
      Call M_WRITE (ABytes buf) (fun r =>
        match r with
        | VNum 0 => Ret (VErr E_WRITE_ZERO)                         (* Ok(0) => Err(WRITE_ALL_EOF) *)
        | VNum n => if n <=? N.of_nat (length buf)
                    then write_all f (skipn (N.to_nat n) buf)        (* buf = &buf[n..] *)
                    else Ret VPanic                                  (* slice index out of range *)
        | VErr 0 => write_all f buf                                  (* is_interrupted() => {} *)
        | VErr k => Ret (VErr k)
        | _ => Ret VPanic
        end)
    end
  end.

Definition zeros (n : nat) : list N := repeat 0 n.

(* std::io::default_read_exact; the scripted `read` copies min(len data, len buf) bytes *)
Fixpoint read_exact (fuel : nat) (filled : list N) (remaining : nat) : body :=
  match remaining with
  | O => Ret (VWith VUnit filled)
  | _ =>
    match fuel with
    | O => Ret VPanic
    | S f =>
      Call M_READ (ANum (N.of_nat remaining)) (fun r =>
        match r with
        | VBytes d =>
          match firstn remaining d with
          | [] => Ret (VWith (VErr E_UNEXPECTED_EOF) (filled ++ zeros remaining)%list)   (* Ok(0) => break *)
          | d' => read_exact f (filled ++ d')%list (remaining - length d')%nat
          end
        | VErr 0 => read_exact f filled remaining
        | VErr k => Ret (VWith (VErr k) (filled ++ zeros remaining)%list)
        | _ => Ret VPanic
        end)
    end
  end.

(* to_ne_bytes on a little-endian target *)
Fixpoint le_bytes (width : nat) (v : N) : list N :=
  match width with
  | O => []
  | S w => (v mod 256) :: le_bytes w (v / 256)
  end.

(* Hasher::write_uN(i) = self.write(&i.to_ne_bytes()); write_iN(i) = self.write_uN(i as uN) *)
Definition hasher_write_int (width : nat) (v : N) : body :=
  Call M_HWRITE (ABytes (le_bytes width v)) (fun _ => Ret VUnit).

Definition int_width (m : N) : nat :=
  match ((m - 40) mod 6)%N with
  | 0%N => 1%nat | 1%N => 2%nat | 2%N => 4%nat | 3%N => 8%nat | 4%N => 16%nat | _ => 8%nat
  end.

(* embedded_hal::delay::DelayNs::delay_us / delay_ms *)
Definition U32_MAX := 4294967295.
Fixpoint delay_loop (fuel : nat) (unit_ns maxv v : N) : body :=
  if maxv <? v then
    match fuel with
    | O => Ret VPanic
    | S f => Call M_DELAY_NS (ANum (maxv * unit_ns)) (fun _ => delay_loop f unit_ns maxv (v - maxv))
    end
  else Call M_DELAY_NS (ANum (v * unit_ns)) (fun _ => Ret VUnit).

Definition delay_us (fuel : nat) (us : N) : body := delay_loop fuel 1000 (U32_MAX / 1000) us.
Definition delay_ms (fuel : nat) (ms : N) : body := delay_loop fuel 1000000 (U32_MAX / 1000000) ms.

(* embedded_hal::digital *)
Definition set_state (st : N) : body :=
  Call (if st =? 0 then M_SET_LOW else M_SET_HIGH) AUnit (fun r => Ret r).

Definition toggle : body :=
  Call M_IS_SET_LOW AUnit (fun r =>
    match r with
    | VNum was_low => set_state was_low       (* PinState::from(true) = High *)
    | other => Ret other                       (* `?` *)
    end).

(* embedded_hal::pwm::SetDutyCycle *)
Definition set_duty (d : N) : body := Call M_SET_DUTY (ANum d) (fun r => Ret r).
Definition duty_fraction (num denom : N) : body :=
  if denom =? 0 then Ret VPanic                (* debug_assert!(denom != 0) *)
  else if denom <? num then Ret VPanic         (* debug_assert!(num <= denom) *)
  else Call M_MAX_DUTY AUnit (fun r =>
    match r with
    | VNum mx => set_duty ((num * mx / denom) mod 65536)
    | _ => Ret VPanic
    end).

Definition bodies (fuel : nat) (m : N) : option (marg -> body) :=
  if m =? P_WRITE_ALL then Some (fun a => match a with ABytes b => write_all fuel b | _ => Ret VPanic end)
  else if m =? P_READ_EXACT then Some (fun a => match a with ANum n => read_exact fuel [] (N.to_nat n) | _ => Ret VPanic end)
  else if (40 <=? m) && (m <=? 51) then
    Some (fun a => match a with ANum v => hasher_write_int (int_width m) v | _ => Ret VPanic end)
  else if m =? P_DELAY_US then Some (fun a => match a with ANum v => delay_us fuel v | _ => Ret VPanic end)
  else if m =? P_DELAY_MS then Some (fun a => match a with ANum v => delay_ms fuel v | _ => Ret VPanic end)
  else if m =? P_SET_STATE then Some (fun a => match a with ANum v => set_state v | _ => Ret VPanic end)
  else if m =? P_TOGGLE then Some (fun _ => toggle)
  else if m =? P_DUTY_OFF then Some (fun _ => set_duty 0)
  else if m =? P_DUTY_ON then
    Some (fun _ => Call M_MAX_DUTY AUnit (fun r => match r with VNum mx => set_duty mx | _ => Ret VPanic end))
  else if m =? P_DUTY_FRACTION then Some (fun a => match a with APair n d => duty_fraction n d | _ => Ret VPanic end)
  else if m =? P_DUTY_PERCENT then Some (fun a => match a with ANum p => duty_fraction p 100 | _ => Ret VPanic end)
  else None.

(* MockFnInfo of the mirrored methods: provided <-> has_default_impl; no unmock_with anywhere *)
Definition mirror_info (m : N) : minfo :=
  {| mi_trait := "Mirror"; mi_method := "m" ++ dec m; mi_has_default := 32 <=? m;
     mi_partial_by_default := false; mi_has_unmock_arm := false; mi_out_clone := true; mi_more_leaves := 0 |}.

Definition accepts_all (_ : N) (_ : marg) : bool := true.
Definition no_debug (_ : marg) : list (option string) := [].

(* ---------- rendering (same format as harness/mirrors) ---------- *)

Definition show_bytes (l : list N) : string := "[" ++ join "," (map dec l) ++ "]".

Definition show_arg (a : marg) : string :=
  match a with
  | AUnit => ""
  | ANum n => dec n
  | ABytes l => show_bytes l
  | APair a b => dec a ++ "," ++ dec b
  end.

Fixpoint show_resp (r : mresp) : string :=
  match r with
  | VUnit => "ok"
  | VNum n => "ok:" ++ dec n
  | VBytes l => "ok:" ++ show_bytes l
  | VErr k => "err:" ++ dec k
  | VPanic => "panic"
  | VWith r buf => show_resp r ++ " buf=" ++ show_bytes buf
  end.

Fixpoint has_panic (r : mresp) : bool :=
  match r with VPanic => true | VWith r _ => has_panic r | _ => false end.

Definition show_log (log : list (N * marg)) : string :=
  "log " ++ join " " (map (fun e => dec (fst e) ++ "(" ++ show_arg (snd e) ++ ")") log).

(* ---------- cases ---------- *)

Record kase := Kase { k_partial : bool; k_script : list (N * mresp); k_ops : list (N * marg) }.

Section RunOps.
Variable cfg : config.
Variable sc : list (N * mresp).
Let fuel := S (length sc).

(* one trait-method call at a time, so that the results before a panic stay visible *)
Fixpoint run_ops_mock (ops : list (N * marg)) (s : state) (log : list (N * marg)) : list string :=
  match ops with
  | [] => [show_log log; "left=" ++ decn (length sc - length log)]
  | (m, a) :: rest =>
    match drive_mock mirror_info accepts_all no_debug (bodies fuel) cfg sc s (DCall m a (fun r => DRet r)) log with
    | (s1, log1, Some r) =>
      if has_panic r then ["r panic"; show_log log1]
      else ("r " ++ show_resp r) :: run_ops_mock rest s1 log1
    | (_, log1, None) => ["r panic"; show_log log1]
    end
  end.

(* the plain scripted struct (the spec side) *)
Fixpoint run_ops_plain (ops : list (N * marg)) (todo : list (N * mresp)) (log : list (N * marg)) : list string :=
  match ops with
  | [] => [show_log log; "left=" ++ decn (length todo)]
  | (m, a) :: rest =>
    match drive_plain (bodies fuel) todo (DCall m a (fun r => DRet r)) log with
    | (log1, todo1, Some r) =>
      if has_panic r then ["r panic"; show_log log1]
      else ("r " ++ show_resp r) :: run_ops_plain rest todo1 log1
    | (log1, _, None) => ["r panic"; show_log log1]
    end
  end.
End RunOps.

Definition run_kase_mock (c : kase) : list string :=
  match assemble mirror_info cfg_std (if k_partial c then FbUnmock else FbError)
                 (script_terminals 0 (k_script c)) with
  | Some (inl cfg) => run_ops_mock cfg (k_script c) (k_ops c) init_state []
  | Some (inr e) => ["construct panic: " ++ e]
  | None => ["ill-typed"]
  end.

Definition run_kase_plain (c : kase) : list string :=
  run_ops_plain (k_script c) (k_ops c) (k_script c) [].

(* both sides, for the co-execution: mock-model lines, then "==", then plain-spec lines *)
Definition lines_of_cases (cs : list kase) : list string :=
  flat_map (fun c => (run_kase_mock c ++ ["=="] ++ run_kase_plain c ++ ["--"])%list) cs.

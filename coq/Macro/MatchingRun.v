(* Unimock.Macro.MatchingRun -- runs one generated `matching!` input through the
   macro model and through the spec over its whole finite argument domain and
   prints the accept/reject bit vectors (co-execution side of C06). No proofs. *)
From Unimock Require Import Model.Base Macro.RustPat Macro.Matching Spec.RustMatch.

(* all argument tuples, first argument varying slowest (the harness's loop nest) *)
Definition tuples (doms : list (list value)) : list (list value) :=
  fold_right (fun d acc => flat_map (fun v => map (cons v) acc) d) [[]] doms.

Fixpoint bits (l : list bool) : string :=
  match l with [] => "" | true :: r => "1" ++ bits r | false :: r => "0" ++ bits r end.

Definition kind_name (k : argkind) : string :=
  match k with KUnknown => "-" | KLitStr => "s" | KSlice => "l" end.

Definition mcase : Type := surface * list (list value).

Definition case_lines (c : mcase) : list string :=
  let (s, doms) := c in
  match frontend s with
  | inl ExpectedTuple => ["FE Expected tuple"; "--"]
  | inl TooManyElements => ["FE Too many elements"; "--"]
  | inr input =>
      let ts := tuples doms in
      ["U " ++ bits (map (accepts input false) ts);
       "O " ++ bits (map (accepts input true) ts);
       "S " ++ bits (map (rust_match input) ts);
       "H f3=" ++ bits [f3_class input] ++ " wc=" ++ bits [forallb (well_coerced (fst input)) ts]
          ++ " alts=" ++ decn (length (fst input)) ++ " kinds=" ++ String.concat "" (map kind_name (analyze_args (fst input)));
       "--"]
  end.

Definition lines_of_cases (cs : list mcase) : list string := flat_map case_lines cs.

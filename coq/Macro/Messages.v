(* Unimock.Macro.Messages -- panic messages with the REAL pattern names and the mismatch
   report, on top of Model.Eval / Model.Verify (which render patterns through a fixed
   harness convention and leave the mismatch list empty), and the case interpreter used
   for the co-execution of generated programs (harness/msgs).
   src/error.rs (Display for MockError), src/debug.rs (FnActualCall, CallPatternDebug),
   src/eval.rs (where mismatches are collected), src/counter.rs (verification lines).
   Executable Gallina, no proofs in this file. *)
From Unimock Require Export Model.Verify Macro.Diag.
Open Scope N_scope.

(* debug::InputMatcherDebug: what `m.pat_debug(text, file!(), line!())` registered *)
Record pat_name := { pn_text : string; pn_file : string; pn_line : N }.

Section Render.
Variable info : N -> minfo.
Variable names : N -> pat_name.       (* by debug id *)

(* impl Display for CallPatternDebug *)
Definition render_pat_x (p : pat_debug) : string :=
  match pd_loc p with
  | LocDebug d =>
    path_str (info (pd_mid p)) ++ pn_text (names d) ++ " at " ++ pn_file (names d) ++ ":" ++ dec (pn_line (names d))
  | LocIndex i => "call pattern " ++ path_str (info (pd_mid p)) ++ "[#" ++ decn i ++ "]"
  end.

(* impl Display for FnActualCall *)
Definition render_call_x (c : fn_call) : string := fmt_call (path_str (info (fc_mid c))) (fc_args c).

(* impl Display for MockError; [ms] = the Mismatches carried by the two variants that have them *)
Definition render_error_x (e : mock_error) (ms : list mismatch) : string :=
  match e with
  | ENoMockImplementation c => render_call_x c ++ ": No mock implementation found."
  | ENoMatcherFunction c p =>
      render_call_x c ++ ": No function supplied for matching inputs for " ++ render_pat_x p ++ "."
  | ENoMatchingCallPatterns c => render_call_x c ++ ": No matching call patterns. " ++ render_mismatches ms
  | ENoOutputAvailable c p =>
      render_call_x c ++ ": No output available for after matching " ++ render_pat_x p ++ "."
  | EMockNeverCalled m =>
      "Mock for " ++ path_str (info m) ++ " was never called. Dead mocks should be removed."
  | ECallOrderNotMatched c k (Some p) =>
      render_call_x c ++ ": Method matched in wrong order. Expected a call matching " ++ render_pat_x p ++ "."
  | ECallOrderNotMatched c k None =>
      render_call_x c ++ ": Ordered call (" ++ dec (k + 1)
      ++ ") out of range: There were no more ordered call patterns in line for selection."
  | EInputsNotMatchedInCallOrder c k p =>
      render_call_x c ++ ": Method invoked in the correct order (" ++ dec (k + 1)
      ++ "), but inputs didn't match " ++ render_pat_x p ++ ". " ++ render_mismatches ms
  | ECannotReturnValueMoreThanOnce c p =>
      render_call_x c ++ ": Cannot return value more than once from " ++ render_pat_x p
      ++ ", because of missing Clone bound. Try using `.each_call()` or explicitly quantifying the response."
  | EFailedVerification msg => msg
  | ECannotUnmock m =>
      path_str (info m) ++ " cannot be unmocked as there is no function available to call."
  | ENoDefaultImpl m =>
      path_str (info m) ++ " has not been set up with default implementation delegation."
  | ENotAnswered m =>
      path_str (info m) ++ " did not apply the answer function, this is a bug."
  | EExplicitPanic c p k =>
      render_call_x c ++ ": Explicit panic from " ++ render_pat_x p ++ ": " ++ panic_text k
  end.

(* CallCounter::verify as data, then as the line it pushes *)
Record vfail := { vf_mid : N; vf_pd : pat_debug; vf_exact : bool; vf_bound : N; vf_actual : N }.

Definition verify_counter_x (m : N) (pd : pat_debug) (e : expectation) (actual : N) : option vfail :=
  let lb := lower_bound e in
  match e_ex e with
  | Exact => if N.eqb actual lb then None
             else Some {| vf_mid := m; vf_pd := pd; vf_exact := true; vf_bound := lb; vf_actual := actual |}
  | AtLeast | AtLeastPlusOne =>
    if N.ltb actual lb
    then Some {| vf_mid := m; vf_pd := pd; vf_exact := false; vf_bound := lb; vf_actual := actual |}
    else None
  end.

Definition render_vfail (f : vfail) : string :=
  path_str (info (vf_mid f)) ++ ": Expected " ++ render_pat_x (vf_pd f)
  ++ (if vf_exact f then " to match exactly " else " to match at least ") ++ ncalls (vf_bound f)
  ++ ", but it actually matched " ++ ncalls (vf_actual f) ++ ".".

End Render.

(* ---------- generated-program cases ---------- *)

(* the generated programs instantiate T and U with i32 *)
Definition inst_base (b : base) : base :=
  match b with BGen | BGenD => BInt | _ => b end.
Fixpoint inst (t : pty) : pty :=
  match t with
  | TB b => TB (inst_base b)
  | TRef m t' => TRef m (inst t')
  | TSlice t' => TSlice (inst t')
  end.
Fixpoint has_generic (t : pty) : bool :=
  match t with
  | TB (BGen | BGenD) => true
  | TB _ => false
  | TRef _ t' | TSlice t' => has_generic t'
  end.

Inductive pentry :=
| PMatching (i : minput) (file : string) (line : N)   (* a `matching!(..)` invocation at file:line *)
| PManual (text file : string) (line : N).            (* `&|m| { m.pat_debug(text, file, line); }` (no m.func) *)

Record method19 := { me_info : minfo; me_sig : list pty }.

Record kase := {
  k_methods : list method19;               (* method ids 0.. *)
  k_pats : list pentry;                    (* matcher / debug ids 0.. *)
  k_partial : bool;                        (* Unimock::new_partial *)
  k_clauses : list terminal;
  k_calls : list (N * list value);         (* until the first mock-induced panic *)
  k_verify : bool;                         (* then drop the instance *)
  k_swallow : bool                         (* mock-induced panics of all calls but the LAST are caught by the caller: the observed
                                              panic is the last call's (whatever errors were recorded before) *)
}.

Section Case.
Variable k : kase.

Definition no_method : method19 :=
  {| me_info := {| mi_trait := "?"; mi_method := "?"; mi_has_default := false; mi_partial_by_default := false;
                   mi_has_unmock_arm := false; mi_out_clone := true; mi_more_leaves := 0 |};
     me_sig := [] |}.

Definition kmethod (m : N) : method19 := nth (N.to_nat m) (k_methods k) no_method.
Definition kinfo (m : N) : minfo := me_info (kmethod m).
Definition ksig (m : N) : list pty := me_sig (kmethod m).

Definition kentry (d : N) : pentry := nth (N.to_nat d) (k_pats k) (PManual "?" "?" 0).

Definition knames (d : N) : pat_name :=
  match kentry d with
  | PMatching i f l => {| pn_text := pat_debug_text i; pn_file := f; pn_line := l |}
  | PManual t f l => {| pn_text := t; pn_file := f; pn_line := l |}
  end.

(* F::Inputs with its static types *)
Definition targs : Type := (list pty * list value)%type.

Definition kaccepts (f : N) (a : targs) : bool :=
  match kentry f with
  | PMatching i _ _ => accepts_input i (snd a)
  | PManual _ _ _ => false
  end.

Definition kdebug (a : targs) : list (option string) := debug_inputs (fst a) (snd a).

(* what one pattern's matcher records on an enabled reporter.  The matching! closure is
   type-checked at the place where the clause is written, i.e. with the trait's generic
   parameters INSTANTIATED (`with_types::<i32, i32>()`), whereas debug_inputs is generated
   inside the generic impl and sees them opaque. *)
Definition kdiag (p : pattern) (a : targs) : list mismatch :=
  match p_matcher p with
  | Some f =>
    match kentry f with
    | PMatching i _ _ => diag_input (map inst (fst a)) i (snd a)
    | PManual _ _ _ => []
    end
  | None => []
  end.

Fixpoint collect_all (j : nat) (ps : list pattern) (a : targs) : list mismatch :=
  match ps with
  | [] => []
  | p :: ps' => (map (set_pat j) (kdiag p a) ++ collect_all (S j) ps' a)%list
  end.

(* the Mismatches value built in eval_dyn / match_call_pattern for error [e] *)
Definition mismatches_of (cfg : config) (e : mock_error) (m : N) (a : targs) : list mismatch :=
  match e, lookup m (c_table cfg) with
  | ENoMatchingCallPatterns _, Some mk => collect_all 0 (m_pats mk) a
  | EInputsNotMatchedInCallOrder _ ord _, Some mk =>
    match find_range ord (m_pats mk) 0 with
    | Some (i, p) => map (set_pat i) (kdiag p a)
    | None => []
    end
  | _, _ => []
  end.

(* ---------- the components the property talks about, one line each ---------- *)

Definition kind_name (e : mock_error) : string :=
  match e with
  | ENoMockImplementation _ => "NoMockImplementation"
  | ENoMatcherFunction _ _ => "NoMatcherFunction"
  | ENoMatchingCallPatterns _ => "NoMatchingCallPatterns"
  | ENoOutputAvailable _ _ => "NoOutputAvailableForCallPattern"
  | EMockNeverCalled _ => "MockNeverCalled"
  | ECallOrderNotMatched _ _ (Some _) => "CallOrderNotMatchedForMockFn/expected"
  | ECallOrderNotMatched _ _ None => "CallOrderNotMatchedForMockFn/out-of-range"
  | EInputsNotMatchedInCallOrder _ _ _ => "InputsNotMatchedInCallOrder"
  | ECannotReturnValueMoreThanOnce _ _ => "CannotReturnValueMoreThanOnce"
  | EFailedVerification _ => "FailedVerification"
  | ECannotUnmock _ => "CannotUnmock"
  | ENoDefaultImpl _ => "NoDefaultImpl"
  | ENotAnswered _ => "NotAnswered"
  | EExplicitPanic _ _ _ => "ExplicitPanic"
  end.

Definition err_call (e : mock_error) : option fn_call :=
  match e with
  | ENoMockImplementation c | ENoMatcherFunction c _ | ENoMatchingCallPatterns c
  | ENoOutputAvailable c _ | ECallOrderNotMatched c _ _ | EInputsNotMatchedInCallOrder c _ _
  | ECannotReturnValueMoreThanOnce c _ | EExplicitPanic c _ _ => Some c
  | _ => None
  end.

Definition err_mid (e : mock_error) : option N :=
  match e with
  | EMockNeverCalled m | ECannotUnmock m | ENoDefaultImpl m | ENotAnswered m => Some m
  | EFailedVerification _ => None
  | _ => match err_call e with Some c => Some (fc_mid c) | None => None end
  end.

Definition err_pat (e : mock_error) : option pat_debug :=
  match e with
  | ENoMatcherFunction _ p | ENoOutputAvailable _ p | EInputsNotMatchedInCallOrder _ _ p
  | ECannotReturnValueMoreThanOnce _ p | EExplicitPanic _ p _ => Some p
  | ECallOrderNotMatched _ _ o => o
  | _ => None
  end.

Definition show_pat (p : pat_debug) : list string :=
  match pd_loc p with
  | LocDebug d =>
    ["pat " ++ path_str (kinfo (pd_mid p)) ++ "|" ++ pn_text (knames d);
     "loc " ++ pn_file (knames d) ++ ":" ++ dec (pn_line (knames d))]
  | LocIndex i => ["patidx " ++ path_str (kinfo (pd_mid p)) ++ " " ++ decn i]
  end.

Definition show_opt (o : option string) : string :=
  match o with Some s => "S" ++ s | None => "N" end.

Definition show_mm (unique : bool) (m : mismatch) : list string :=
  ["mm " ++ (if unique then "-" else decn (mm_pat m)) ++ " " ++ decn (mm_input m) ++ " " ++ show_opt (mm_actual m);
   "mmx " ++ (match mm_kind_of m with MPattern => "Pattern" | MEq => "Eq" | MNe => "Ne" end)
          ++ " " ++ show_opt (mm_expected m)].

Definition show_error (e : mock_error) (ms : list mismatch) : list string :=
  ([("kind " ++ kind_name e)%string;
    ("path " ++ match err_mid e with Some m => path_str (kinfo m) | None => "-" end)%string]
   ++ match err_call e with
      | Some c => ("args " ++ decn (length (fc_args c)))%string
                  :: map (fun a => ("arg " ++ show_opt a)%string) (fc_args c)
      | None => ["noargs"]
      end
   ++ match err_pat e with Some p => show_pat p | None => [] end
   ++ flat_map (show_mm (unique_pat ms)) ms
   ++ [("head " ++ render_error_x kinfo knames e [])%string])%list.

Definition show_vfail (f : vfail) : list string :=
  (["kind FailedVerification"; ("path " ++ path_str (kinfo (vf_mid f)))%string]
   ++ show_pat (vf_pd f)
   ++ [("head " ++ render_vfail kinfo knames f)%string])%list.

(* ---------- running a case ---------- *)

Fixpoint run_calls (cfg : config) (s : state) (calls : list (N * list value))
  : state * option (list string) :=
  match calls with
  | [] => (s, None)
  | (m, vs) :: rest =>
    let a : targs := (ksig m, vs) in
    match call kinfo targs kaccepts kdebug cfg s m a with
    | (s', ActPanic e) =>
      match rest with
      | _ :: _ => if k_swallow k then run_calls cfg s' rest else (s', Some (show_error e (mismatches_of cfg e m a)))
      | [] => (s', Some (show_error e (mismatches_of cfg e m a)))
      end
    | (s', _) => run_calls cfg s' rest
    end
  end.

(* FnMocker::verify for every mocker: the lines, then "never called" *)
Fixpoint verify_pats_x (m : N) (c : nat -> N) (ps : list pattern) (i : nat) : list vfail * N :=
  match ps with
  | [] => ([], 0)
  | p :: ps' =>
    let pd := {| pd_mid := m; pd_loc := match p_dbg p with Some d => LocDebug d | None => LocIndex i end |} in
    let '(fs, tot) := verify_pats_x m c ps' (S i) in
    (match verify_counter_x m pd (p_exp p) (c i) with Some f => f :: fs | None => fs end, c i + tot)
  end.

Definition verify_lines (cfg : config) (s : state) : list string :=
  flat_map (fun '(m, mk) =>
    let '(fs, tot) := verify_pats_x m (cnt s m) (m_pats mk) 0 in
    (flat_map (fun f => "error" :: show_vfail f) fs
     ++ (if N.eqb tot 0 then "error" :: show_error (EMockNeverCalled m) [] else []))%list)
    (c_table cfg).

Definition run19 : list string :=
  match assemble kinfo cfg_std (if k_partial k then FbUnmock else FbError) (k_clauses k) with
  | Some (inl cfg) =>
    match run_calls cfg init_state (k_calls k) with
    | (_, Some lines) => "panic" :: lines
    | (s, None) =>
      if k_verify k then
        match verify_lines cfg s with
        | [] => ["no-panic"]
        | ls => "verify-panic" :: ls
        end
      else ["no-panic"]
    end
  | Some (inr msg) => ["assemble-error " ++ msg]
  | None => ["ill-typed"]
  end.

(* do the generated trait and matching! invocations type-check as far as Debug resolution goes? *)
Definition case_compiles : bool :=
  forallb (fun me => sig_compiles (me_sig me)) (k_methods k).

End Case.

Definition lines_of_cases (ks : list kase) : list string :=
  flat_map (fun k => ("case -" :: run19 k ++ ["--"])%list) ks.

(* Unimock.Macro.Debug -- how an argument of a mocked call becomes a piece of text.
   unimock_macros/src/unimock/method.rs: generate_debug_inputs_fn, inputs_try_debug_exprs,
   try_debug_expr/collect_derefs; src/private.rs: ProperDebug / NoDebug (autoref
   specialisation).  Executable Gallina, no proofs in this file. *)
From Unimock Require Export Model.Base.
Open Scope N_scope.

(* ---------- parameter types (what changes the tokens the macro emits, or what rustc
   resolves `.unimock_try_debug()` to) ---------- *)

Inductive base :=
| BInt            (* i32: Sized, Debug *)
| BStr            (* str: unsized, Debug *)
| BString         (* String *)
| BNd             (* a user enum WITHOUT Debug *)
| BOpt            (* Option<i32> *)
| BGen            (* a generic parameter T with no Debug bound (whatever it is instantiated with) *)
| BGenD           (* a generic parameter U: Debug *)
| BAmb            (* a user struct `Amb(i32, i32)` whose hand-written Debug impl shows only the first field, while its PartialEq
                     (hand-written, not symmetric: see Diag.v) looks at both: two values may be unequal although their Debug texts are identical.
                     Values: VCon "Amb" [VInt shown; VInt hidden] *)
| BImp.           (* the WHOLE parameter type `&mut L<'a>` (a unique borrow of a type with a lifetime parameter): the macro's
                     MutImpossible class (method.rs classify_arg) -- the Inputs component is `unimock::Impossible`, so the
                     identifier debug_inputs binds has type `&Impossible`, whatever the caller passed *)

Inductive pty :=
| TB (b : base)
| TRef (mutable : bool) (t : pty)      (* &t, &mut t   (syn::Type::Reference) *)
| TSlice (t : pty).                    (* [t]          (syn::Type::Slice) *)

(* compile-time knowledge rustc has about the type *)
Definition base_debug (b : base) : bool :=
  match b with BNd | BGen => false | _ => true end.
Definition base_sized (b : base) : bool :=
  match b with BStr => false | _ => true end.

Fixpoint knows_debug (t : pty) : bool :=     (* `t: Debug` is provable *)
  match t with
  | TB b => base_debug b
  | TRef _ t' => knows_debug t'
  | TSlice t' => knows_debug t'
  end.

Definition sized (t : pty) : bool :=
  match t with TB b => base_sized b | TRef _ _ => true | TSlice _ => false end.

Definition is_ref (t : pty) : bool := match t with TRef _ _ => true | _ => false end.

(* the parameter types the generated programs use (and rustc accepts in a mocked
   signature): unsized types only directly behind one reference, a slice behind exactly
   one reference, `&mut` only directly above a non-reference *)
Fixpoint wf_inner (t : pty) : bool :=       (* a sized type *)
  match t with
  | TB b => base_sized b
  | TSlice _ => false
  | TRef m t' =>
    match t' with
    | TB _ => true
    | TSlice e => wf_inner e
    | TRef _ (TSlice _) => false
    | TRef _ _ => negb m && wf_inner t'
    end
  end.
Definition wf_param (t : pty) : bool := wf_inner t.

(* ---------- values: references are transparent, Debug of &T is Debug of T ---------- *)

Inductive value :=
| VInt (n : N)
| VStr (s : string)
| VCon (name : string) (args : list value)     (* Nd::A, Some(1), None *)
| VList (vs : list value).                     (* slices *)

Definition quote : string := String """"%char "".

(* core::fmt::Debug (derive-style for enums/Option, {:?} not {:#?}); strings of the
   generated domain contain no character that Debug escapes *)
Fixpoint fmt_debug (v : value) : string :=
  match v with
  | VInt n => dec n
  | VStr s => quote ++ s ++ quote
  | VCon name [] => name
  | VCon name ((x :: _) as args) =>
    if String.eqb name "Amb" then "Amb(" ++ fmt_debug x ++ ")"          (* the hand-written impl hides the second field *)
    else name ++ "(" ++ join ", " (map fmt_debug args) ++ ")"
  | VList vs => "[" ++ join ", " (map fmt_debug vs) ++ "]"
  end.

(* ---------- try_debug_expr: the dereference chain ---------- *)

Inductive deref_op := OpDeref (* `*` *) | OpRefDeref (* `&*` *).
Inductive inner_kind := KSliceInner | KOther.

(* collect_derefs: the Vec is filled innermost reference first *)
Fixpoint collect_derefs (t : pty) : list deref_op * inner_kind :=
  match t with
  | TRef m t' =>
    let '(ops, k) := collect_derefs t' in
    match k with
    | KOther => ((ops ++ [if m then OpRefDeref else OpDeref])%list, KOther)
    | KSliceInner => (ops, KSliceInner)
    end
  | TSlice _ => ([], KSliceInner)
  | TB BImp => ([OpRefDeref], KOther)     (* the derefs are collected from the DECLARED type `&mut L<'a>` *)
  | TB _ => ([], KOther)
  end.

(* static type of `op e`; None = does not type-check *)
Definition apply_op (o : deref_op) (t : pty) : option pty :=
  match o, t with
  | OpDeref, TRef _ t' => Some t'
  | OpRefDeref, TRef _ t' => Some (TRef false t')
  | _, _ => None
  end.

(* `(#(#derefs)* #ident)`: the LAST collected token is applied first *)
Fixpoint apply_ops (ops : list deref_op) (t : pty) : option pty :=
  match ops with
  | [] => Some t
  | o :: rest =>
    match apply_ops rest t with
    | Some t' => apply_op o t'
    | None => None
    end
  end.

(* ---------- `.unimock_try_debug()`: rustc's method probing over
     impl<T: Debug> ProperDebug for T   (T: Sized implied)     fn(&self)
     impl<T> NoDebug for &T             (T: Sized implied)     fn(&self)
   for a receiver EXPRESSION of static type [t]: first the by-value step (the
   method's self type `&Self` must be [t]), then the autoref step (`&Self` = `&t`).
   Two applicable candidates in one step = error E0034. ---------- *)

Inductive resolution := RProper | RNoDebug | RAmbiguous | RNoMethod.

Definition cand_proper (self : pty) : bool := sized self && knows_debug self.
Definition cand_nodebug (self : pty) : bool :=
  match self with TRef false u => sized u | _ => false end.

Definition probe_step (self : pty) : option resolution :=
  match cand_proper self, cand_nodebug self with
  | true, true => Some RAmbiguous
  | true, false => Some RProper
  | false, true => Some RNoDebug
  | false, false => None
  end.

Definition resolve (t : pty) : resolution :=
  match (match t with TRef false self => probe_step self | _ => None end) with
  | Some r => r
  | None =>
    match probe_step t with      (* autoref: receiver &t, Self = t *)
    | Some r => r
    | None => RNoMethod
    end
  end.

Definition res_text (r : resolution) (v : value) : option string :=
  match r with RProper => Some (fmt_debug v) | _ => None end.
Definition res_compiles (r : resolution) : bool :=
  match r with RProper | RNoDebug => true | _ => false end.

(* debug_inputs binds every identifier by reference to the input (pattern
   `(a, b): &Self::Inputs<'_>`), so the identifier has type `&t` *)
Definition arg_resolution (t : pty) : resolution :=
  match apply_ops (fst (collect_derefs t)) (TRef false t) with
  | Some t' => resolve t'
  | None => RNoMethod
  end.

(* what the Inputs component holds: the caller's value, or the Impossible placeholder *)
Definition input_value (t : pty) (v : value) : value :=
  match t with TB BImp => VCon "Impossible" [] | _ => v end.

Definition try_debug (t : pty) (v : value) : option string := res_text (arg_resolution t) (input_value t v).

(* the boxed array literal `[e1, ..., en]`: one entry per non-receiver parameter, in
   declaration order; methods without parameters use MockFn::debug_inputs' default (empty) *)
Fixpoint debug_inputs (ts : list pty) (vs : list value) : list (option string) :=
  match ts, vs with
  | t :: ts', v :: vs' => try_debug t v :: debug_inputs ts' vs'
  | _, _ => []
  end.

Definition sig_compiles (ts : list pty) : bool :=
  forallb (fun t => res_compiles (arg_resolution t)) ts.

(* ---------- impl Display for FnActualCall, as the loop it is ---------- *)
Fixpoint fmt_inputs (l : list (option string)) : string :=
  match l with
  | [] => ""
  | x :: rest =>
    (match x with Some d => d | None => "?" end)
    ++ (match rest with [] => "" | _ => ", " end)     (* iter.peek().is_some() *)
    ++ fmt_inputs rest
  end.

Definition fmt_call (path : string) (l : list (option string)) : string :=
  path ++ "(" ++ fmt_inputs l ++ ")".

(* Unimock.Macro.Output -- how `#[unimock]` picks the output kind of a method from
   the SYNTAX of its return type (unimock_macros/src/unimock/output.rs,
   determine_output_structure .. make_generic_kind), which impls of
   Kind / Return / IntoReturnOnce / IntoReturn / GetOutput that kind selects
   (src/output/), and what those impls do with a value passed to `returns`.
   Plain Gallina, executable, no proofs in this file. *)
From Unimock Require Export Model.Base.

(* ---------- the return-type grammar ---------- *)

Inductive lt := LtElided | LtStatic.          (* `&T` (borrow of self) | `&'static T` *)
Inductive leaf := LC | LN | LStr | LSlice.    (* C: Clone; N: not Clone; str; [C] *)

Inductive ty :=
| TOwn (l : leaf)                 (* a path type without generic arguments *)
| TRef (s : lt) (l : leaf)        (* syn::Type::Reference *)
| TOpt (a : ty)                   (* path types with generic arguments ... *)
| TRes (a b : ty)
| TVec (a : ty)
| TPoll (a : ty)
| TTup (ts : list ty).            (* syn::Type::Tuple; `()` is TTup [] *)

Definition leaf_eqb (a b : leaf) : bool :=
  match a, b with LC, LC | LN, LN | LStr, LStr | LSlice, LSlice => true | _, _ => false end.

(* ReturnTypeAnalyzer::analyze_borrows: borrow_info.has_elided_reference (the grammar has
   no named lifetimes, so has_self_reference / has_input_lifetime stay false) *)
Fixpoint has_elided (t : ty) : bool :=
  match t with
  | TOwn _ => false
  | TRef LtElided _ => true
  | TRef LtStatic _ => false
  | TOpt a | TVec a | TPoll a => has_elided a
  | TRes a b => has_elided a || has_elided b
  | TTup ts => existsb has_elided ts
  end.

(* util::rename_lifetimes(ty, |_| Some("'static")) *)
Fixpoint rename_static (t : ty) : ty :=
  match t with
  | TOwn l => TOwn l
  | TRef _ l => TRef LtStatic l
  | TOpt a => TOpt (rename_static a)
  | TRes a b => TRes (rename_static a) (rename_static b)
  | TVec a => TVec (rename_static a)
  | TPoll a => TPoll (rename_static a)
  | TTup ts => TTup (map rename_static ts)
  end.

(* ---------- OutputKind and the associated type the macro writes ---------- *)

Inductive okind := Owning | Lending | MutLending | StaticRef | Shallow | Deep.

(* a type in which generic arguments may have been replaced by `prefix::output::K<..>` *)
Inductive kt :=
| KPlain (t : ty)
| KWrap (k : okind) (t : kt)
| KOpt (a : kt)
| KRes (a b : kt)
| KVec (a : kt)
| KPoll (a : kt)
| KTup (ts : list kt).

Definition is_generic_kind (k : okind) : bool :=
  match k with Shallow | Deep => true | _ => false end.

(* the body of make_generic_kind's loop for ONE generic argument [arg], given the result
   of the recursive call on it: the new `kind` of the enclosing path and the rewritten argument.
   Note `kind = Shallow` is assigned afresh for every argument, so the kind of a path with
   several arguments is decided by its LAST argument. *)
Definition arg_step (rec : okind * kt) (arg : ty) : okind * kt :=
  if is_generic_kind (fst rec)
  then (Deep, KWrap (fst rec) (snd rec))
  else (Shallow, KPlain (rename_static arg)).

Fixpoint make_generic_kind (t : ty) : okind * kt :=
  match t with
  | TRef _ l => (Lending, KPlain (TOwn l))        (* (SelfReference, *reference.elem) *)
  | TOwn l => (Owning, KPlain (TOwn l))           (* a path with no generic argument *)
  | TOpt a => let (k, a') := arg_step (make_generic_kind a) a in (k, KOpt a')
  | TVec a => let (k, a') := arg_step (make_generic_kind a) a in (k, KVec a')
  | TPoll a => let (k, a') := arg_step (make_generic_kind a) a in (k, KPoll a')
  | TRes a b =>
    let (_, a') := arg_step (make_generic_kind a) a in
    let (k, b') := arg_step (make_generic_kind b) b in
    (k, KRes a' b')
  | TTup ts => (Owning, KPlain (TTup ts))         (* other => (Owning, other): untouched *)
  end.

Definition wrap_output_kind (r : okind * kt) : kt := KWrap (fst r) (snd r).

(* determine_output_structure, for `fn f(&self) -> t` *)
Definition kind_of (t : ty) : okind * kt :=
  match t with
  | TRef LtStatic l => (StaticRef, KPlain (TOwn l))     (* determine_reference_ownership *)
  | TRef LtElided l => (Lending, KPlain (TOwn l))
  | _ =>
    (* determine_owned_or_deep_output_structure *)
    if has_elided t then
      match t with
      | TTup ts => (Deep, KTup (map (fun e => wrap_output_kind (make_generic_kind e)) ts))
      | _ => make_generic_kind t
      end
    else (Owning, KPlain (rename_static t))             (* AssociatedInnerType::new_static *)
  end.

(* ---------- which impls that associated type selects (src/output/) ---------- *)

(* the tree of impls: one constructor per `impl Kind for ..` *)
Inductive kd :=
| DOwning (t : ty)              (* owning.rs      Owning<T> *)
| DLending (l : leaf)           (* lending.rs     Lending<T> *)
| DStaticRef (l : leaf)         (* static_ref.rs  StaticRef<T> *)
| DShOpt (l : leaf)             (* shallow/option.rs  Shallow<Option<&'static T>> *)
| DShRes (l : leaf) (e : ty)    (* shallow/result.rs  Shallow<Result<&'static T, E>> *)
| DShVec (l : leaf)             (* shallow/vec.rs     Shallow<Vec<&'static T>> *)
| DOpt (k : kd)                 (* deep/option.rs *)
| DPoll (k : kd)                (* deep/poll.rs *)
| DVec (k : kd)                 (* deep/vec.rs *)
| DRes (a b : kd)               (* deep/result.rs *)
| DTup (ks : list kd).          (* deep/tuples.rs, arity 1..4 *)

Fixpoint all_some {X} (l : list (option X)) : option (list X) :=
  match l with
  | [] => Some []
  | None :: _ => None
  | Some x :: r => match all_some r with Some r' => Some (x :: r') | None => None end
  end.

(* `impl Kind for ..` lookup; None = the trait bound `..: Kind` is not satisfied, or the
   associated type still mentions an elided lifetime (rustc: missing lifetime) *)
Fixpoint resolve (k : okind) (t : kt) : option kd :=
  match k, t with
  | Owning, KPlain p => if has_elided p then None else Some (DOwning p)
  | Lending, KPlain (TOwn l) => Some (DLending l)
  | StaticRef, KPlain (TOwn l) => Some (DStaticRef l)
  | Shallow, KOpt (KPlain (TRef LtStatic l)) => Some (DShOpt l)
  | Shallow, KRes (KPlain (TRef LtStatic l)) (KPlain e) =>
    if has_elided e then None else Some (DShRes l e)
  | Shallow, KVec (KPlain (TRef LtStatic l)) => Some (DShVec l)
  | Deep, KOpt (KWrap k' t') => option_map DOpt (resolve k' t')
  | Deep, KPoll (KWrap k' t') => option_map DPoll (resolve k' t')
  | Deep, KVec (KWrap k' t') => option_map DVec (resolve k' t')
  | Deep, KRes (KWrap k1 t1) (KWrap k2 t2) =>
    match resolve k1 t1, resolve k2 t2 with
    | Some a, Some b => Some (DRes a b)
    | _, _ => None
    end
  | Deep, KTup ts =>
    if (Nat.leb 1 (length ts) && Nat.leb (length ts) 4)%bool
    then option_map DTup
           (all_some (map (fun e => match e with KWrap k' t' => resolve k' t' | _ => None end) ts))
    else None
  | _, _ => None
  end.

(* `impl Return for ..` (needed of every component by the deep IntoReturn* impls);
   shallow/vec.rs has none *)
Fixpoint is_return (d : kd) : bool :=
  match d with
  | DShVec _ => false
  | DOpt k | DPoll k | DVec k => is_return k
  | DRes a b => is_return a && is_return b
  | DTup ks => forallb is_return ks
  | _ => true
  end.

(* `impl IntoReturnOnce<K>` exists for the natural input type: `returns(v)` type-checks *)
Fixpoint once_ok (d : kd) : bool :=
  match d with
  | DOpt k | DPoll k | DVec k => is_return k && once_ok k
  | DRes a b => is_return a && is_return b && once_ok a && once_ok b
  | DTup ks => forallb is_return ks && forallb once_ok ks
  | _ => true
  end.

(* T: Clone *)
Fixpoint clone_ty (t : ty) : bool :=
  match t with
  | TOwn LN => false
  | TOwn _ | TRef _ _ => true
  | TOpt a | TVec a | TPoll a => clone_ty a
  | TRes a b => clone_ty a && clone_ty b
  | TTup ts => forallb clone_ty ts
  end.

(* `impl IntoReturn<K>` exists: each_call().returns(v) / returns(v).n_times(n) type-check *)
Fixpoint multi_ok (d : kd) : bool :=
  match d with
  | DOwning t => clone_ty t
  | DShRes _ e => clone_ty e
  | DOpt k | DPoll k | DVec k => is_return k && multi_ok k
  | DRes a b => is_return a && is_return b && multi_ok a && multi_ok b
  | DTup ks => forallb is_return ks && forallb multi_ok ks
  | _ => true
  end.

(* GetOutput::Output<'u>, with 'u written as the elided lifetime *)
Fixpoint out_ty (d : kd) : ty :=
  match d with
  | DOwning t => t
  | DLending l => TRef LtElided l
  | DStaticRef l => TRef LtStatic l
  | DShOpt l => TOpt (TRef LtElided l)
  | DShRes l e => TRes (TRef LtElided l) e
  | DShVec l => TVec (TRef LtElided l)
  | DOpt k => TOpt (out_ty k)
  | DPoll k => TPoll (out_ty k)
  | DVec k => TVec (out_ty k)
  | DRes a b => TRes (out_ty a) (out_ty b)
  | DTup ks => TTup (map out_ty ks)
  end.

(* the generated body returns the output where the declared type [b] is expected: the
   shapes must be the same and a borrow of the mock cannot serve as a `&'static` *)
Fixpoint coerces (a b : ty) : bool :=
  match a, b with
  | TOwn x, TOwn y => leaf_eqb x y
  | TRef s x, TRef s' y =>
    leaf_eqb x y && match s, s' with LtElided, LtStatic => false | _, _ => true end
  | TOpt a', TOpt b' => coerces a' b'
  | TVec a', TVec b' => coerces a' b'
  | TPoll a', TPoll b' => coerces a' b'
  | TRes a1 a2, TRes b1 b2 => coerces a1 b1 && coerces a2 b2
  | TTup xs, TTup ys =>
    (fix go (xs ys : list ty) : bool :=
       match xs, ys with
       | [], [] => true
       | x :: xs', y :: ys' => coerces x y && go xs' ys'
       | _, _ => false
       end) xs ys
  | _, _ => false
  end.

Definition kd_of (t : ty) : option kd := resolve (fst (kind_of t)) (snd (kind_of t)).

(* the trait compiles and `returns(v)` type-checks for it: the types the property is about *)
Definition accepts (t : ty) : bool :=
  match kd_of t with
  | Some d => once_ok d && coerces (out_ty d) t
  | None => false
  end.

(* ---------- values ---------- *)

Inductive val :=
| VC (n : N) | VN (n : N) | VStr (n : N) | VSlice (l : list N)   (* leaf data *)
| VRef (v : val)          (* seen through a reference into the mock *)
| VStatic (v : val)       (* seen through a `&'static` *)
| VSome (v : val) | VNone
| VOk (v : val) | VErr (v : val)
| VReady (v : val) | VPending
| VVec (l : list val)
| VTup (l : list val).

Definition atom (l : leaf) (v : val) : bool :=
  match l, v with
  | LC, VC _ | LN, VN _ | LStr, VStr _ | LSlice, VSlice _ => true
  | _, _ => false
  end.

(* v : T for a plain type T all of whose references are 'static *)
Fixpoint wt_plain (t : ty) (v : val) : bool :=
  match t, v with
  | TOwn l, _ => atom l v
  | TRef _ l, VStatic a => atom l a
  | TOpt a, VSome x => wt_plain a x
  | TOpt _, VNone => true
  | TRes a _, VOk x => wt_plain a x
  | TRes _ b, VErr x => wt_plain b x
  | TVec a, VVec xs => forallb (wt_plain a) xs
  | TPoll a, VReady x => wt_plain a x
  | TPoll _, VPending => true
  | TTup ts, VTup xs =>
    (fix go (ts : list ty) (xs : list val) : bool :=
       match ts, xs with
       | [], [] => true
       | t' :: ts', x :: xs' => wt_plain t' x && go ts' xs'
       | _, _ => false
       end) ts xs
  | _, _ => false
  end.

(* v can be passed to `returns` of a method with this kind: owned data where the
   method lends (T0: Borrow<T>), the value itself where it owns (T0: Into<T>) *)
Fixpoint wt (d : kd) (v : val) : bool :=
  match d, v with
  | DOwning t, _ => wt_plain t v
  | DLending l, _ => atom l v
  | DStaticRef l, VStatic a => atom l a
  | DShOpt l, VSome a => atom l a
  | DShOpt _, VNone => true
  | DShRes l _, VOk a => atom l a
  | DShRes _ e, VErr x => wt_plain e x
  | DShVec l, VVec xs => forallb (atom l) xs
  | DOpt k, VSome x => wt k x
  | DOpt _, VNone => true
  | DPoll k, VReady x => wt k x
  | DPoll _, VPending => true
  | DVec k, VVec xs => forallb (wt k) xs
  | DRes a _, VOk x => wt a x
  | DRes _ b, VErr x => wt b x
  | DTup ks, VTup xs =>
    (fix go (ks : list kd) (xs : list val) : bool :=
       match ks, xs with
       | [], [] => true
       | k :: ks', x :: xs' => wt k x && go ks' xs'
       | _, _ => false
       end) ks xs
  | _, _ => false
  end.

(* ---------- the stored form (Kind::Return) ---------- *)

Inductive ret :=
| ROnce (c : option val)     (* owning.rs: Owned(Box<|| mutex.locked(|o| o.take())>) *)
| RClone (v : val)           (* owning.rs: Owned(Box<|| Some(value.clone())>) *)
| RLent (v : val)            (* lending.rs: Lent(Box<dyn Borrow<T>>) *)
| RStaticRef (v : val)       (* static_ref.rs: Reference(&'static T) *)
| RShOpt (o : option val)    (* shallow/option.rs: Option<Box<dyn Borrow<T>>> *)
| RShResOk (v : val)         (* shallow/result.rs: Result<Box<dyn Borrow<T>>, Owned<E>> *)
| RShResErr (r : ret)
| RShVec (l : list val)      (* shallow/vec.rs: Vec<Box<dyn Borrow<T>>> *)
| RSome (r : ret) | RNone    (* deep/option.rs AsReturn *)
| RReady (r : ret) | RPending
| ROk (r : ret) | RErr (r : ret)
| RVec (l : list ret)
| RTup (l : list ret)
| RIll.                      (* the value does not have the input type: no such program *)

(* how an owned part is stored: into_return clones per request, into_return_once is a
   one-shot cell; [Drained] is that cell after it has been taken from *)
Inductive storing := Cloning | OneShot | Drained.

Definition owned_cell (m : storing) (v : val) : ret :=
  match m with
  | Cloning => RClone v
  | OneShot => ROnce (Some v)
  | Drained => ROnce None
  end.

(* IntoReturn::into_return (m = Cloning) and IntoReturnOnce::into_return_once (m = OneShot),
   std build (MutexIsh available, so the result is always Ok) *)
Fixpoint into_ret (m : storing) (d : kd) (v : val) : ret :=
  match d, v with
  | DOwning _, _ => owned_cell m v
  | DLending _, _ => RLent v
  | DStaticRef _, _ => RStaticRef v
  | DShOpt _, VSome a => RShOpt (Some a)
  | DShOpt _, VNone => RShOpt None
  | DShRes _ _, VOk a => RShResOk a
  | DShRes _ _, VErr x => RShResErr (owned_cell m x)
  | DShVec _, VVec xs => RShVec xs
  | DOpt k, VSome x => RSome (into_ret m k x)
  | DOpt _, VNone => RNone
  | DPoll k, VReady x => RReady (into_ret m k x)
  | DPoll _, VPending => RPending
  | DVec k, VVec xs => RVec (map (into_ret m k) xs)
  | DRes a _, VOk x => ROk (into_ret m a x)
  | DRes _ b, VErr x => RErr (into_ret m b x)
  | DTup ks, VTup xs =>
    RTup ((fix go (ks : list kd) (xs : list val) : list ret :=
             match ks, xs with
             | k :: ks', x :: xs' => into_ret m k x :: go ks' xs'
             | _, _ => []
             end) ks xs)
  | _, _ => RIll
  end.

Definition into_return_once := into_ret OneShot.
Definition into_return := into_ret Cloning.

(* GetOutput::output(&self): the produced output (None = OwnershipRequired / value gone)
   and the stored form afterwards.  `?` leaves at the first component without output, so
   components to its right are not touched. *)
Fixpoint output (r : ret) : option val * ret :=
  match r with
  | ROnce c => (c, ROnce None)
  | RClone v => (Some v, RClone v)
  | RLent v => (Some (VRef v), RLent v)
  | RStaticRef v => (Some v, RStaticRef v)
  | RShOpt o => (Some (match o with Some a => VSome (VRef a) | None => VNone end), RShOpt o)
  | RShResOk a => (Some (VOk (VRef a)), RShResOk a)
  | RShResErr c => let (o, c') := output c in (option_map VErr o, RShResErr c')
  | RShVec xs => (Some (VVec (map VRef xs)), RShVec xs)
  | RSome x => let (o, x') := output x in (option_map VSome o, RSome x')
  | RNone => (Some VNone, RNone)
  | RReady x => let (o, x') := output x in (option_map VReady o, RReady x')
  | RPending => (Some VPending, RPending)
  | ROk x => let (o, x') := output x in (option_map VOk o, ROk x')
  | RErr x => let (o, x') := output x in (option_map VErr o, RErr x')
  | RVec rs =>
    let (o, rs') :=
      (fix go (rs : list ret) : option (list val) * list ret :=
         match rs with
         | [] => (Some [], [])
         | x :: rest =>
           let (o, x') := output x in
           match o with
           | None => (None, x' :: rest)
           | Some y => let (os, rest') := go rest in (option_map (cons y) os, x' :: rest')
           end
         end) rs in
    (option_map VVec o, RVec rs')
  | RTup rs =>
    let (o, rs') :=
      (fix go (rs : list ret) : option (list val) * list ret :=
         match rs with
         | [] => (Some [], [])
         | x :: rest =>
           let (o, x') := output x in
           match o with
           | None => (None, x' :: rest)
           | Some y => let (os, rest') := go rest in (option_map (cons y) os, x' :: rest')
           end
         end) rs in
    (option_map VTup o, RTup rs')
  | RIll => (None, RIll)
  end.

(* n successive requests served by the same stored response *)
Fixpoint requests (n : nat) (r : ret) : list (option val) :=
  match n with
  | O => []
  | S n' => let (o, r') := output r in o :: requests n' r'
  end.

(* ---------- rendering (what the harness prints) ---------- *)

Definition leaf_name (l : leaf) : string :=
  match l with LC => "C" | LN => "N" | LStr => "str" | LSlice => "[C]" end.

(* owned data that can be lent as a T (T0: Borrow<T>) *)
Definition leaf_owned_name (l : leaf) : string :=
  match l with LC => "C" | LN => "N" | LStr => "Str" | LSlice => "Sl" end.

Definition tuple_str (parts : list string) : string :=
  match parts with
  | [x] => "(" ++ x ++ ",)"
  | _ => "(" ++ join ", " parts ++ ")"
  end.

Fixpoint ty_str (t : ty) : string :=
  match t with
  | TOwn l => leaf_name l
  | TRef LtElided l => "&" ++ leaf_name l
  | TRef LtStatic l => "&'static " ++ leaf_name l
  | TOpt a => "Option<" ++ ty_str a ++ ">"
  | TRes a b => "Result<" ++ ty_str a ++ ", " ++ ty_str b ++ ">"
  | TVec a => "Vec<" ++ ty_str a ++ ">"
  | TPoll a => "Poll<" ++ ty_str a ++ ">"
  | TTup ts => tuple_str (map ty_str ts)
  end.

Definition okind_str (k : okind) : string :=
  match k with
  | Owning => "Owning" | Lending => "Lending" | MutLending => "MutLending"
  | StaticRef => "StaticRef" | Shallow => "Shallow" | Deep => "Deep"
  end.

Fixpoint kt_str (t : kt) : string :=
  match t with
  | KPlain p => ty_str p
  | KWrap k a => okind_str k ++ "<" ++ kt_str a ++ ">"
  | KOpt a => "Option<" ++ kt_str a ++ ">"
  | KRes a b => "Result<" ++ kt_str a ++ ", " ++ kt_str b ++ ">"
  | KVec a => "Vec<" ++ kt_str a ++ ">"
  | KPoll a => "Poll<" ++ kt_str a ++ ">"
  | KTup ts => tuple_str (map kt_str ts)
  end.

(* `type OutputKind = ..` as the macro writes it *)
Definition kind_str (t : ty) : string :=
  okind_str (fst (kind_of t)) ++ "<" ++ kt_str (snd (kind_of t)) ++ ">".

(* the natural input type of `returns` for a kind *)
Fixpoint in_str (d : kd) : string :=
  match d with
  | DOwning t => ty_str t
  | DLending l => leaf_owned_name l
  | DStaticRef l => "&'static " ++ leaf_name l
  | DShOpt l => "Option<" ++ leaf_owned_name l ++ ">"
  | DShRes l e => "Result<" ++ leaf_owned_name l ++ ", " ++ ty_str e ++ ">"
  | DShVec l => "Vec<" ++ leaf_owned_name l ++ ">"
  | DOpt k => "Option<" ++ in_str k ++ ">"
  | DPoll k => "Poll<" ++ in_str k ++ ">"
  | DVec k => "Vec<" ++ in_str k ++ ">"
  | DRes a b => "Result<" ++ in_str a ++ ", " ++ in_str b ++ ">"
  | DTup ks => tuple_str (map in_str ks)
  end.

Definition quote : string := String (ascii_of_nat 34) "".

Fixpoint show (v : val) : string :=
  match v with
  | VC n => "C(" ++ dec n ++ ")"
  | VN n => "N(" ++ dec n ++ ")"
  | VStr n => quote ++ "s" ++ dec n ++ quote
  | VSlice l => "[" ++ join ", " (map (fun n => "C(" ++ dec n ++ ")") l) ++ "]"
  | VRef x | VStatic x => "&" ++ show x
  | VSome x => "Some(" ++ show x ++ ")"
  | VNone => "None"
  | VOk x => "Ok(" ++ show x ++ ")"
  | VErr x => "Err(" ++ show x ++ ")"
  | VReady x => "Ready(" ++ show x ++ ")"
  | VPending => "Pending"
  | VVec l => "[" ++ join ", " (map show l) ++ "]"
  | VTup l => "(" ++ join ", " (map show l) ++ ")"
  end.

Fixpoint refs (v : val) : nat :=
  match v with
  | VRef x | VStatic x => S (refs x)
  | VSome x | VOk x | VErr x | VReady x => refs x
  | VVec l | VTup l => fold_right (fun x n => refs x + n)%nat 0%nat l
  | _ => 0%nat
  end.

(* one line per request: the value, how many references it contains and whether they are
   the ones seen at the first successful request (they point into the mock, so: the same) *)
Fixpoint request_lines (tag : string) (i : nat) (seen : bool) (os : list (option val)) : list string :=
  match os with
  | [] => []
  | None :: r => (tag ++ decn i ++ " P once") :: request_lines tag (S i) seen r
  | Some v :: r =>
    (tag ++ decn i ++ " " ++ show v ++ " #" ++ decn (refs v) ++ (if seen then " same" else " first"))
      :: request_lines tag (S i) true r
  end.

(* a co-execution case: a return type and a value for `returns` *)
Definition case_lines (c : ty * val) : list string :=
  let (t, v) := c in
  match kd_of t with
  | None => ["no-kind"; "--"]
  | Some d =>
    if negb (accepts t) then ["rejected"; "--"]
    else if negb (wt d v) then ["ill-typed"; "--"]
    else
      request_lines "S" 1 false (requests 3 (into_return_once d v))
      ++ request_lines "O" 1 false (requests 1 (into_return_once d v))
      ++ (if multi_ok d
          then request_lines "M" 1 false (requests 3 (into_return d v))
               ++ request_lines "T" 1 false (requests 3 (into_return d v))
               (* every quantifier applied to `returns(v)` demands T: IntoReturn and stores the multi-use form
                  (build.rs QuantifyReturnValue::{n_times, at_least_times}), whatever the number *)
               ++ request_lines "A" 1 false (requests 3 (into_return d v))
               ++ request_lines "Q" 1 false (requests 3 (into_return d v))
               ++ request_lines "U" 1 false (requests 2 (into_return d v))
               ++ request_lines "E" 1 false (requests 1 (into_return d v))
          else [])
      ++ ["--"]
  end.

Definition lines_of_cases (cs : list (ty * val)) : list string := flat_map case_lines cs.

(* per type: accepted?, multi-use path available?, the OutputKind, the input type *)
Definition type_lines (t : ty) : list string :=
  [ (if accepts t then "A" else "R") ++ " " ++
    (match kd_of t with Some d => if multi_ok d then "M" else "-" | None => "-" end) ++ " " ++
    kind_str t ++ " | " ++
    (match kd_of t with Some d => in_str d | None => "-" end);
    "--" ].

Definition lines_of_types (ts : list ty) : list string := flat_map type_lines ts.

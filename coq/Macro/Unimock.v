(* Unimock.Macro.Unimock -- Layer C: what #[unimock] emits for one trait method.
   Transcription of unimock_macros/src/unimock/{mod,method,util}.rs (def_method_impl,
   InputsDestructuring, classify_arg, Receiver, SelfReference, InputTypesTuple,
   Generics::fn_args, mock_fn_path / generate_mock_fn_ident) and of the part of
   src/eval.rs + src/private.rs that moves the inputs through evaluation
   (Eval::Return / Eval::Continue).  Executable Gallina, no proofs in this file. *)
From Unimock Require Export Model.Base.

(* ------------------------------------------------------------------ *)
(* Signature shapes                                                    *)
(* ------------------------------------------------------------------ *)

(* receivers as written in the trait *)
(* RcvTypedRef / RcvTypedMut: the typed spellings `self: &Self` / `self: &mut Self` *)
Inductive receiver := RcvRef | RcvMut | RcvOwned | RcvRc | RcvArc | RcvBox | RcvPin | RcvTypedRef | RcvTypedMut.

(* method.rs: enum Receiver, fn receiver(): a typed receiver is Pin when its last
   path segment is `Pin<..>`, otherwise Owned (Rc/Arc/Box<Self>, self) *)
Inductive mreceiver := MOwned | MRef | MMutRef | MPin.
Definition receiver_of (r : receiver) : mreceiver :=
  match r with
  | RcvRef => MRef
  | RcvMut => MMutRef
  | RcvPin => MPin
  | RcvOwned | RcvRc | RcvArc | RcvBox | RcvTypedRef | RcvTypedMut => MOwned
  end.

(* parameter classes of the grammar (the Rust type written for the parameter) *)
Inductive pclass :=
| POwned        (* u32 *)
| POwnedTok     (* a non-Copy owned value *)
| PString       (* String *)
| PRef          (* &u32 *)
| PRefTok       (* &Tok *)
| PStr          (* &str *)
| PSlice        (* &[u32] *)
| PMut          (* &mut u32 : lifetime-free &mut, goes through eval like any other *)
| PMutTok       (* &mut Tok *)
| PMutLt        (* &mut Lt<'_> : &mut to a type with a lifetime => Impossible *)
| PGenericT     (* method-level generic T *)
| PGenericG     (* trait-level generic G *)
| PImpl.        (* impl Trait *)

(* method.rs:199-223 classify_arg (identifier patterns only; Receiver handled apart) *)
Inductive argclass := ACOther | ACMutImpossible.
Definition classify_arg (c : pclass) : argclass :=
  match c with PMutLt => ACMutImpossible | _ => ACOther end.

Definition is_mut (c : pclass) : bool :=
  match c with PMut | PMutTok | PMutLt => true | _ => false end.

(* async flavours: plain; `async fn`; `-> impl Future<Output = R>`; `async fn` under
   #[async_trait] (mirrored onto the impl, which boxes the body) *)
Inductive flavour := FSync | FAsyncFn | FRpit | FAsyncTrait.

Inductive rclass := RetUnit | RetVal | RetTok | RetString | RetGeneric | RetOption.

Inductive apiform := ApiModule | ApiFlattened.

Record shape := {
  sh_recv : receiver;
  sh_params : list pclass;
  sh_ret : rclass;
  sh_flavour : flavour;
  sh_trait_generic : bool;      (* trait Tk<G> *)
  sh_api : apiform
}.

(* ------------------------------------------------------------------ *)
(* InputsDestructuring (method.rs:417-482)                             *)
(* ------------------------------------------------------------------ *)

Inductive syntax := FnPattern | FnParams | EvalPatternMutAsWildcard | EvalPatternAll | EvalParams.

(* one comma-separated element: the parameter's identifier, `Impossible`, or `_` *)
Inductive atom := AId (i : nat) | AImpossible | AWild.

Definition item (s : syntax) (i : nat) (c : pclass) : atom :=
  match classify_arg c with
  | ACMutImpossible =>
      match s with
      | FnPattern | FnParams | EvalPatternAll => AId i
      | EvalParams => AImpossible
      | EvalPatternMutAsWildcard => AWild
      end
  | ACOther => AId i
  end.

Fixpoint items_from (s : syntax) (i : nat) (cs : list pclass) : list atom :=
  match cs with
  | [] => []
  | c :: r => item s i c :: items_from s (S i) r
  end.

(* Tupled(false) *)
Definition untupled (s : syntax) (cs : list pclass) : list atom := items_from s 0 cs.

(* Tupled(true): exactly one non-receiver argument => the bare element, otherwise `( .. )` *)
Inductive tterm := TOne (a : atom) | TTup (l : list atom).
Definition tuple_up (l : list atom) : tterm :=
  match l with [a] => TOne a | _ => TTup l end.
Definition tupled (s : syntax) (cs : list pclass) : tterm := tuple_up (untupled s cs).

(* ------------------------------------------------------------------ *)
(* The method body (mod.rs:357-661, MethodImplKind::Mock, no unmock / default arm) *)
(* ------------------------------------------------------------------ *)

(* how the body names the mock instance *)
Inductive sexpr := SxSelf | SxRefSelf | SxSurr.
(* SelfReference (method.rs:586-601) *)
Definition self_reference (m : mreceiver) : sexpr :=
  match m with MOwned => SxRefSelf | MRef => SxSelf | MMutRef | MPin => SxSurr end.

(* `let mut __self = self;`  /  `let mut __self = Pin::into_inner(self);` *)
Inductive prelude := PreMove | PreUnpin.

Inductive body :=
| BDirect (self_ref : sexpr) (eval_params pat_no_mut : tterm)
          (answer_self : sexpr) (fn_params : list atom)
| BPolonius (pre : prelude) (self_ref : sexpr) (eval_params pat_no_mut : tterm)
            (exit_tuple pat_all : tterm)
            (answer_self : sexpr) (fn_params : list atom).

Definition gen_body (sh : shape) : body :=
  let cs := sh_params sh in
  let m := receiver_of (sh_recv sh) in
  match m with
  | MOwned | MRef =>
      BDirect (self_reference m) (tupled EvalParams cs) (tupled EvalPatternMutAsWildcard cs)
              SxSelf (untupled FnParams cs)
  | MMutRef | MPin =>
      BPolonius (match m with MPin => PreUnpin | _ => PreMove end)
                (self_reference m) (tupled EvalParams cs) (tupled EvalPatternMutAsWildcard cs)
                (tupled FnParams cs) (tupled EvalPatternAll cs)
                SxSurr (untupled FnParams cs)
  end.

(* must_async_wrap: `async move { body }` only for the RPIT future *)
Definition must_async_wrap (sh : shape) : bool :=
  match sh_flavour sh with FRpit => true | _ => false end.
(* the signature itself is `async fn` *)
Definition sig_async (sh : shape) : bool :=
  match sh_flavour sh with FAsyncFn | FAsyncTrait => true | _ => false end.
(* the call returns a future and runs nothing before it is polled *)
Definition deferred (sh : shape) : bool := sig_async sh || must_async_wrap sh.

(* mod.rs:512-517 + 530: the polonius closure is annotated `-> <the method's declared return
   type, lifetimes renamed>`.  For `-> impl Future<Output = R>` that annotation is the RPIT
   itself, which Rust rejects in this position (E0562 "`impl Trait` is not allowed in paths"),
   and the closure sits inside `async move { .. }` where the produced value is R anyway.  So the
   expansion of an RPIT-future method with a `&mut self` / `Pin<&mut Self>` receiver is not a
   well-typed program (candidate defect F4, observed on the unchanged tree). *)
Definition expansion_compiles (sh : shape) : bool :=
  match receiver_of (sh_recv sh), sh_flavour sh with
  | MMutRef, FRpit | MPin, FRpit => false
  | _, _ => true
  end.

(* ------------------------------------------------------------------ *)
(* Values, environments, the runtime's part                            *)
(* ------------------------------------------------------------------ *)

(* what the body can hold as "the mock": the receiver exactly as the caller passed it,
   a borrow of it, or what Pin::into_inner gave *)
Inductive selfv := SelfAsPassed | SelfUnpinned.

(* caller-side values: the value with identity n, a unique borrow of the caller's
   variable at location loc, the Impossible placeholder *)
Inductive aval := VArg (n : N) | VMutRef (loc : N) | VImp.

(* F::Inputs: the bare type for one parameter, a tuple otherwise (mod.rs:704-715) *)
Inductive inputs := InOne (v : aval) | InTup (vs : list aval).

(* binding environment with MOVE semantics: a slot is emptied when its identifier is
   used as an expression (every class is treated as non-Copy), filled when a pattern binds it *)
Record env := {
  e_params : list (option aval);
  e_self : option selfv;
  e_surr : option selfv
}.

Definition init_env (args : list aval) : env :=
  {| e_params := map Some args; e_self := Some SelfAsPassed; e_surr := None |}.

Fixpoint take_at (i : nat) (l : list (option aval)) : option (aval * list (option aval)) :=
  match l, i with
  | [], _ => None
  | x :: r, O => match x with Some v => Some (v, None :: r) | None => None end
  | x :: r, S j => match take_at j r with Some (v, r') => Some (v, x :: r') | None => None end
  end.

Fixpoint set_at (i : nat) (v : aval) (l : list (option aval)) : option (list (option aval)) :=
  match l, i with
  | [], _ => None
  | _ :: r, O => Some (Some v :: r)
  | x :: r, S j => match set_at j v r with Some r' => Some (x :: r') | None => None end
  end.

Definition with_params (e : env) (ps : list (option aval)) : env :=
  {| e_params := ps; e_self := e_self e; e_surr := e_surr e |}.

(* an element in expression position *)
Definition eval_atom (e : env) (a : atom) : option (aval * env) :=
  match a with
  | AId i => match take_at i (e_params e) with
             | Some (v, ps) => Some (v, with_params e ps)
             | None => None
             end
  | AImpossible => Some (VImp, e)
  | AWild => None
  end.

Fixpoint eval_atoms (e : env) (l : list atom) : option (list aval * env) :=
  match l with
  | [] => Some ([], e)
  | a :: r => match eval_atom e a with
              | Some (v, e1) => match eval_atoms e1 r with
                                | Some (vs, e2) => Some (v :: vs, e2)
                                | None => None
                                end
              | None => None
              end
  end.

Definition eval_tterm (e : env) (t : tterm) : option (inputs * env) :=
  match t with
  | TOne a => match eval_atom e a with Some (v, e1) => Some (InOne v, e1) | None => None end
  | TTup l => match eval_atoms e l with Some (vs, e1) => Some (InTup vs, e1) | None => None end
  end.

(* an element in pattern position *)
Definition bind_atom (e : env) (a : atom) (v : aval) : option env :=
  match a with
  | AId i => match set_at i v (e_params e) with
             | Some ps => Some (with_params e ps)
             | None => None
             end
  | AWild => Some e
  | AImpossible => match v with VImp => Some e | _ => None end
  end.

Fixpoint bind_atoms (e : env) (l : list atom) (vs : list aval) : option env :=
  match l, vs with
  | [], [] => Some e
  | a :: r, v :: vr => match bind_atom e a v with
                       | Some e1 => bind_atoms e1 r vr
                       | None => None
                       end
  | _, _ => None
  end.

Definition bind_tterm (e : env) (t : tterm) (i : inputs) : option env :=
  match t, i with
  | TOne a, InOne v => bind_atom e a v
  | TTup l, InTup vs => bind_atoms e l vs
  | _, _ => None
  end.

(* the `&Unimock` handed to eval: must be available, is not consumed (shared reborrow) *)
Definition eval_target (e : env) (s : sexpr) : option selfv :=
  match s with
  | SxSelf | SxRefSelf => e_self e
  | SxSurr => e_surr e
  end.

(* the first argument of the answer function: moved *)
Definition move_self (e : env) (s : sexpr) : option (selfv * env) :=
  match s with
  | SxSelf => match e_self e with
              | Some v => Some (v, {| e_params := e_params e; e_self := None; e_surr := e_surr e |})
              | None => None
              end
  | SxSurr => match e_surr e with
              | Some v => Some (v, {| e_params := e_params e; e_self := e_self e; e_surr := None |})
              | None => None
              end
  | SxRefSelf => None
  end.

Definition run_prelude (p : prelude) (e : env) : option env :=
  match e_self e with
  | Some _ => Some {| e_params := e_params e; e_self := None;
                      e_surr := Some (match p with PreMove => SelfAsPassed | PreUnpin => SelfUnpinned end) |}
  | None => None
  end.

(* the caller's variables behind &mut parameters *)
Definition store := list (N * N).

(* ------------------------------------------------------------------ *)
(* unmock_with (attr.rs:22-44, 164-206; mod.rs:413-442)               *)
(* ------------------------------------------------------------------ *)

(* one expression of an explicit parameter list `path(e1, .., en)`: the grammar of the model is
   `self` and parameter identifiers *)
Inductive uexpr := USelf | UParam (i : nat).
(* one entry of `unmock_with=[..]`: `_`, `path`, `path(exprs)`; functions are identified by a number *)
Inductive uentry := UNone | UPath (fid : N) | UCall (fid : N) (params : list uexpr).

(* Attr::get_unmock_fn(index): purely positional *)
Definition get_unmock_fn (uw : option (list uentry)) (index : nat) : option (N * option (list uexpr)) :=
  match uw with
  | None => None
  | Some l => match nth_error l index with
              | Some (UPath f) => Some (f, None)
              | Some (UCall f ps) => Some (f, Some ps)
              | _ => None
              end
  end.

(* generate(): `trait_info.methods.iter().enumerate()` runs over ALL fn items of the trait, the
   receiver-less provided ones (Mockable::Skip, `None` in that vector) included; [items] says for
   each fn item whether it is mocked.  The k-th mocked method has this index: *)
Fixpoint method_index (items : list bool) (k : nat) : option nat :=
  match items with
  | [] => None
  | true :: r => match k with O => Some O | S k' => option_map S (method_index r k') end
  | false :: r => option_map S (method_index r k)
  end.

(* Attr::validate: the list must have one entry per fn item *)
Definition unmock_with_valid (items : list bool) (uw : option (list uentry)) : bool :=
  match uw with None => true | Some l => Nat.eqb (length l) (length items) end.

Definition unmock_of (items : list bool) (uw : option (list uentry)) (k : nat) : option (N * option (list uexpr)) :=
  match method_index items k with Some i => get_unmock_fn uw i | None => None end.

Section Runtime.
  (* result values *)
  Variable R : Type.

  Definition answer_fn := selfv -> list aval -> store -> R * store.

  (* what a registered real function is called with: the mock (if `self` is passed) and values *)
  Inductive rarg := RSelf (s : selfv) | RVal (v : aval).
  Definition real_fn := list rarg -> store -> R * store.

  (* what the matched call pattern holds *)
  Inductive responder :=
  | KReturn (out : R)
  | KAnswer (f : answer_fn)
  | KUnmock                   (* applies_unmocked(), and the trait registers no function for this method *)
  | KDefault
  | KUnmockArm (fid : N) (f : real_fn) (ps : option (list uexpr)).
                              (* applies_unmocked() / partial fall-through, function fid registered in form ps *)

  Inductive cont := CAnswer (f : answer_fn) | CUnmock | CDefault
                  | CUnmockArm (fid : N) (f : real_fn) (ps : option (list uexpr)).
  Inductive evalres := EReturn (out : R) | EContinue (c : cont) (i : inputs).

  (* src/eval.rs:25-74 after a successful match: the inputs were moved in, the matcher saw
     them by reference, and every Continue hands the SAME inputs back *)
  Definition rt_eval (r : responder) (i : inputs) : evalres :=
    match r with
    | KReturn o => EReturn o
    | KAnswer f => EContinue (CAnswer f) i
    | KUnmock => EContinue CUnmock i
    | KDefault => EContinue CDefault i
    | KUnmockArm fid f ps => EContinue (CUnmockArm fid f ps) i
    end.

  Inductive event :=
  | EvEval (i : inputs)                       (* eval ran; the matcher was shown i *)
  | EvAnswer (s : selfv) (args : list aval)   (* the answer function ran with these *)
  | EvReal (fid : N) (rargs : list rarg).     (* the registered real function fid ran with these *)

  Inductive result := Returned (r : R) | Reported.   (* cont.report(..) : panics *)

  Definition outcome := (list event * result * store)%type.

  Definition apply_answer (f : answer_fn) (i : inputs) (s : selfv) (args : list aval) (st : store) : outcome :=
    let (r, st') := f s args st in ([EvEval i; EvAnswer s args], Returned r, st').

  Definition apply_real (fid : N) (f : real_fn) (i : inputs) (rargs : list rarg) (st : store) : outcome :=
    let (r, st') := f rargs st in ([EvEval i; EvReal fid rargs], Returned r, st').

  (* the expressions of an explicit list, evaluated left to right in the arm's environment *)
  Definition eval_uexpr (e : env) (x : uexpr) : option (rarg * env) :=
    match x with
    | USelf => match move_self e SxSelf with Some (s, e1) => Some (RSelf s, e1) | None => None end
    | UParam i => match eval_atom e (AId i) with Some (v, e1) => Some (RVal v, e1) | None => None end
    end.
  Fixpoint eval_uexprs (e : env) (l : list uexpr) : option (list rarg * env) :=
    match l with
    | [] => Some ([], e)
    | x :: r => match eval_uexpr e x with
                | Some (a, e1) => match eval_uexprs e1 r with
                                  | Some (as_, e2) => Some (a :: as_, e2)
                                  | None => None
                                  end
                | None => None
                end
    end.

  (* None = the body does not type-check under move semantics (use of a moved or unbound name) *)
  Definition exec_body (b : body) (e : env) (resp : responder) (st : store) : option outcome :=
    match b with
    | BDirect self_ref eval_params pat answer_self fn_params =>
        match eval_target e self_ref with None => None | Some _ =>
        match eval_tterm e eval_params with None => None | Some (i, e1) =>
        match rt_eval resp i with
        | EReturn o => Some ([EvEval i], Returned o, st)
        | EContinue (CAnswer f) i' =>
            match bind_tterm e1 pat i' with None => None | Some e2 =>
            match move_self e2 answer_self with None => None | Some (s, e3) =>
            match eval_atoms e3 fn_params with None => None | Some (args, _) =>
            Some (apply_answer f i s args st)
            end end end
        | EContinue (CUnmockArm fid f ps) i' =>
            (* mod.rs:413-442  `Eval::Continue(Continuation::Unmock, #eval_pattern) => #unmock_path(..)` *)
            match bind_tterm e1 pat i' with None => None | Some e2 =>
            match ps with
            | None =>                                   (* `path(self, #fn_params)` *)
                match move_self e2 answer_self with None => None | Some (s, e3) =>
                match eval_atoms e3 fn_params with None => None | Some (args, _) =>
                Some (apply_real fid f i (RSelf s :: map RVal args) st)
                end end
            | Some l =>                                 (* `path(#params)` *)
                match eval_uexprs e2 l with None => None | Some (rargs, _) =>
                Some (apply_real fid f i rargs st)
                end
            end end
        | EContinue _ _ => Some ([EvEval i], Reported, st)
        end end end
    | BPolonius pre self_ref eval_params pat_no_mut exit_t pat_all answer_self fn_params =>
        match run_prelude pre e with None => None | Some e0 =>
        match eval_target e0 self_ref with None => None | Some _ =>
        match eval_tterm e0 eval_params with None => None | Some (i, e1) =>
        match rt_eval resp i with
        | EReturn o => Some ([EvEval i], Returned o, st)          (* _return!(output) *)
        | EContinue c i' =>
            match bind_tterm e1 pat_no_mut i' with None => None | Some e2 =>
            match eval_tterm e2 exit_t with None => None | Some (x, e3) =>   (* _exit!((__cont, ..)) *)
            match bind_tterm e3 pat_all x with None => None | Some e4 =>    (* let (__cont, ..) = .. *)
            match c with
            | CAnswer f =>
                match move_self e4 answer_self with None => None | Some (s, e5) =>
                match eval_atoms e5 fn_params with None => None | Some (args, _) =>
                Some (apply_answer f i s args st)
                end end
            | _ => Some ([EvEval i], Reported, st)
            end end end end
        end end end end
    end.

  (* ---------------- calling the generated method ---------------- *)

  (* a future is the suspended body: nothing has run *)
  Record future := { fu_body : body; fu_env : env; fu_resp : responder }.

  Inductive called := Now (o : option outcome) | Later (f : future).

  Definition call_method (sh : shape) (args : list aval) (resp : responder) (st : store) : called :=
    if negb (expansion_compiles sh) then Now None     (* there is no such method: the impl is rejected by rustc *)
    else if deferred sh
    then Later {| fu_body := gen_body sh; fu_env := init_env args; fu_resp := resp |}
    else Now (exec_body (gen_body sh) (init_env args) resp st).

  (* awaiting: the first poll runs the whole body (the mock never returns Pending) *)
  Definition await (f : future) (st : store) : option outcome :=
    exec_body (fu_body f) (fu_env f) (fu_resp f) st.

  (* dropping an unpolled future runs nothing *)
  Definition drop_unpolled (f : future) (st : store) : outcome := ([], Reported, st).
End Runtime.

Arguments KReturn {R}. Arguments KAnswer {R}. Arguments KUnmock {R}. Arguments KDefault {R}. Arguments KUnmockArm {R}.
Arguments CAnswer {R}. Arguments CUnmock {R}. Arguments CDefault {R}. Arguments CUnmockArm {R}.
Arguments apply_real {R}.
Arguments EReturn {R}. Arguments EContinue {R}.

Arguments Returned {R}. Arguments Reported {R}.
Arguments Now {R}. Arguments Later {R}.
Arguments rt_eval {R}. Arguments exec_body {R}. Arguments call_method {R}.
Arguments await {R}. Arguments drop_unpolled {R}. Arguments apply_answer {R}.

(* ------------------------------------------------------------------ *)
(* Generic arguments and the MockFn the body evaluates                 *)
(* ------------------------------------------------------------------ *)

(* generic type parameters in the order the macro lists them: the trait's, then the
   method's own, then one ImplTraitN per `impl Trait` parameter in order of appearance
   (adapt_sig appends them; util.rs args_iterator chains trait params with adapted_sig's) *)
Inductive gparam := GTrait (name : nat) | GMethod (name : nat) | GImplTrait (k : nat).
Inductive garg := GNamed (g : gparam) | GInfer.

Fixpoint impl_params (k : nat) (cs : list pclass) : list gparam :=
  match cs with
  | [] => []
  | PImpl :: r => GImplTrait k :: impl_params (S k) r
  | _ :: r => impl_params k r
  end.

Definition uses_method_generic (sh : shape) : bool :=
  existsb (fun c => match c with PGenericT => true | _ => false end) (sh_params sh)
  || match sh_ret sh with RetGeneric => true | _ => false end.

Definition generic_params (sh : shape) : list gparam :=
  ((if sh_trait_generic sh then [GTrait 0] else [])
   ++ (if uses_method_generic sh then [GMethod 0] else [])
   ++ impl_params 0 (sh_params sh))%list.

(* Generics::fn_args with InferImplTrait(true): the turbofish of `eval::<MockFn<..>>` *)
Definition eval_generic_args (sh : shape) : list garg :=
  map (fun g => match g with GImplTrait _ => GInfer | g => GNamed g end) (generic_params sh).

(* the MockFn type is generic (hidden behind `with_types`) iff there is a type parameter *)
Definition is_type_generic (sh : shape) : bool :=
  match generic_params sh with [] => false | _ => true end.

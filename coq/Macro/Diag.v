(* Unimock.Macro.Diag -- the part of `matching!` that ends up in panic messages.
   unimock_macros/src/matching/mod.rs: generate, ArgMatcher::new, guess_arg_kind,
   render_diagnostics_stmt, generate_diagnostics_arm, generate_pat_debug;
   unimock_macros/src/doc.rs: SynDoc for syn::Pat / syn::Lit / syn::PatTuple;
   src/mismatch.rs: Mismatches (Display).  Executable Gallina, no proofs in this file. *)
From Unimock Require Export Macro.Debug.
Open Scope N_scope.

(* ---------- sub-patterns (one per argument position) ---------- *)

Inductive spat :=
| SWild                                   (* _                 syn::Pat::Wild *)
| SBind (x : string)                      (* x                 Pat::Ident *)
| SBindAt (x : string) (p : spat)         (* x @ p             Pat::Ident with subpat *)
| SLit (n : N)                            (* 3                 Pat::Lit(Int) *)
| SLitStr (s : string)                    (* "ab"              Pat::Lit(Str) *)
| SRange (lo hi : N) (inclusive : bool)   (* 1..=3, 1..3       Pat::Range *)
| SOr (ps : list spat)                    (* p | q             Pat::Or *)
| SParen (p : spat)                       (* (p)               Pat::Paren *)
| SRef (p : spat)                         (* &p                Pat::Reference *)
| SPath (name : string)                   (* Nd::A, None       Pat::Path (doc: last segment) *)
| STS (name : string) (ps : list spat)    (* Some(p)           Pat::TupleStruct *)
| SSlice (pre : list spat) (rest : bool) (post : list spat)   (* [a, .., b]   Pat::Slice *)
| SCmp (ne : bool) (c : N).               (* eq!(&c), ne!(&c)  Pat::Macro, CompareMacro *)

(* ---------- doc.rs ---------- *)

Fixpoint doc (p : spat) : string :=
  match p with
  | SWild => "_"
  | SBind x => x
  | SBindAt x q => x ++ " @ " ++ doc q
  | SLit n => dec n
  | SLitStr s => quote ++ s ++ quote
  | SRange lo hi incl => dec lo ++ (if incl then "..=" else "..") ++ dec hi
  | SOr ps => join " | " (map doc ps)
  | SParen q => "(" ++ doc q ++ ")"
  | SRef q => "&" ++ doc q
  | SPath name => name
  | STS name ps => name ++ "(" ++ join ", " (map doc ps) ++ ")"
  | SSlice pre rest post =>
    "[" ++ join ", " (map doc pre ++ (if rest then [".."] else []) ++ map doc post)%list ++ "]"
  | SCmp ne _ => (if ne then "ne" else "eq") ++ "!(..)"
  end.

(* SynDoc for syn::PatTuple *)
Definition doc_tuple (ps : list spat) : string := "(" ++ join ", " (map doc ps) ++ ")".

(* ---------- the macro input after parsing (matching/parse.rs) ---------- *)

(* arg_patterns: one PatTuple per alternative; guard: only its presence and its value
   matter here (the generated programs use constant guards) *)
Record minput := { mi_alts : list (list spat); mi_guard : option bool }.

(* generate_pat_debug (and the early return of `generate` for an empty input) *)
Definition pat_debug_text (i : minput) : string :=
  match mi_alts i with
  | [] => "()"
  | alts => join " | " (map doc_tuple alts)
            ++ (match mi_guard i with Some _ => " if {guard}" | None => "" end)
  end.

(* ---------- what a Rust `match` does with a sub-pattern ---------- *)

Fixpoint accepts (p : spat) (v : value) {struct p} : bool :=
  let fix all2 (ps : list spat) (vs : list value) {struct ps} : bool :=
    match ps, vs with
    | [], [] => true
    | q :: ps', w :: vs' => accepts q w && all2 ps' vs'
    | _, _ => false
    end in
  let fix any (ps : list spat) {struct ps} : bool :=
    match ps with
    | [] => false
    | q :: ps' => accepts q v || any ps'
    end in
  match p with
  | SWild | SBind _ => true
  | SBindAt _ q | SParen q | SRef q => accepts q v
  | SLit n => match v with VInt k => N.eqb n k | _ => false end
  | SLitStr s => match v with VStr t => String.eqb s t | _ => false end
  | SRange lo hi incl =>
    match v with
    | VInt k => (lo <=? k) && (if incl then k <=? hi else k <? hi)
    | _ => false
    end
  | SOr ps => any ps
  | SPath name => match v with VCon n [] => String.eqb name n | _ => false end
  | STS name ps => match v with VCon n vs => String.eqb name n && all2 ps vs | _ => false end
  | SSlice pre rest post =>
    match v with
    | VList vs =>
      let n := length vs in
      (if rest then Nat.leb (length pre + length post) n else Nat.eqb (length pre + length post) n)
      && all2 pre (firstn (length pre) vs)
      && all2 post (skipn (n - length post) vs)
    | _ => false
    end
  | SCmp ne c =>
    match v with
    | VInt k => if ne then negb (N.eqb k c) else N.eqb k c
    | VCon name [VInt shown; VInt hidden] =>
      (* an Amb operand is written eq!(&Amb(c / 4, c mod 4)).  Amb's hand-written PartialEq is deliberately NOT symmetric:
         `a == b` iff the shown fields are equal and a.hidden <= b.hidden, and `a != b` (PartialEq::ne is overridden too, and
         is NOT the negation of eq) iff the shown fields differ; the matcher evaluates `argument == operand` for eq! and
         `argument != operand` for ne! *)
      if String.eqb name "Amb"
      then (if ne then negb (N.eqb shown (c / 4)) else (N.eqb shown (c / 4) && (hidden <=? c mod 4))%bool)
      else false
    | _ => false
    end
  end.

Fixpoint accepts_all (ps : list spat) (vs : list value) : bool :=
  match ps, vs with
  | [], [] => true
  | p :: ps', v :: vs' => accepts p v && accepts_all ps' vs'
  | _, _ => false
  end.

(* the generated closure: success arms (each with the global guard), then the
   diagnostics arm, then `_ => false`; an empty input is `|_, _| true` *)
Definition accepts_input (i : minput) (vs : list value) : bool :=
  match mi_alts i with
  | [] => true
  | alts =>
    (match mi_guard i with Some g => g | None => true end)
    && existsb (fun alt => accepts_all alt vs) alts
  end.

(* ---------- guess_arg_kind ---------- *)

Inductive arg_kind := AKUnknown | AKLitStr | AKSlice.

Definition arg_kind_eqb (a b : arg_kind) : bool :=
  match a, b with
  | AKUnknown, AKUnknown | AKLitStr, AKLitStr | AKSlice, AKSlice => true
  | _, _ => false
  end.

(* pat_kind; for Pat::Or the BTreeSet of the cases' kinds must be a singleton *)
Fixpoint pat_kind (p : spat) : arg_kind :=
  match p with
  | SLitStr _ => AKLitStr
  | SSlice _ _ _ => AKSlice
  | SOr ps =>
    match map pat_kind ps with
    | [] => AKUnknown
    | k :: ks => if forallb (arg_kind_eqb k) ks then k else AKUnknown
    end
  | _ => AKUnknown
  end.

Definition kind_at (i : nat) (alt : list spat) : arg_kind :=
  match nth_opt alt i with Some p => pat_kind p | None => AKUnknown end.

(* the loop over all alternatives: (result_kind, conflicting) *)
Fixpoint guess_loop (i : nat) (alts : list (list spat)) (acc : arg_kind * bool) : arg_kind * bool :=
  match alts with
  | [] => acc
  | alt :: rest =>
    let '(prev, conflicting) := acc in
    let next := kind_at i alt in
    guess_loop i rest
      (match prev, next with
       | AKUnknown, _ => (next, conflicting)
       | _, AKUnknown => (prev, conflicting)
       | _, _ => if arg_kind_eqb prev next then (prev, conflicting) else (prev, true)
       end)
  end.

Definition guess_arg_kind (i : nat) (alts : list (list spat)) : arg_kind :=
  let '(k, conflicting) := guess_loop i alts (AKUnknown, false) in
  if conflicting then AKUnknown else k.

(* ---------- the diagnostics arm ---------- *)

Inductive mm_kind := MPattern | MEq | MNe.

Record mismatch := {
  mm_pat : nat;                 (* PatIndex, filled in by collect_from_reporter *)
  mm_input : nat;               (* InputIndex *)
  mm_kind_of : mm_kind;
  mm_actual : option string;
  mm_expected : option string
}.

Fixpoint slice_elem (t : pty) : pty :=
  match t with TRef _ t' => slice_elem t' | TSlice e => e | _ => t end.

(* static type of Arg::render_expr(): the closure binds `a_i: &InputType`;
   as_str_ref gives &str, as_slice gives &[E] *)
Definition arg_expr_type (k : arg_kind) (t : pty) : pty :=
  match k with
  | AKUnknown => TRef false t
  | AKLitStr => TRef false (TB BStr)
  | AKSlice => TRef false (TSlice (slice_elem t))
  end.

Definition is_pat_lit (p : spat) : bool :=
  match p with SLit _ | SLitStr _ => true | _ => false end.

(* ArgMatcher::render_diagnostics_stmt for position [i]: the statement, run on the value *)
Definition diag_stmt (i : nat) (k : arg_kind) (t : pty) (p : spat) (v : value) : option mismatch :=
  match p with
  | SWild => None
  | SCmp ne c =>
    if accepts p v then None
    else Some {| mm_pat := O; mm_input := i; mm_kind_of := if ne then MNe else MEq;
                 mm_actual := res_text (resolve (arg_expr_type k t)) v;
                 mm_expected := match v with
                                | VCon _ (_ :: _) => Some (fmt_debug (VCon "Amb" [VInt (c / 4); VInt (c mod 4)]))
                                | _ => res_text (resolve (TRef false (TB BInt))) (VInt c)
                                end |}
  | _ =>
    if accepts p v then None
    else Some {| mm_pat := O; mm_input := i; mm_kind_of := MPattern;
                 mm_actual := if is_pat_lit p then Some (fmt_debug v)
                              else res_text (resolve (arg_expr_type k t)) v;
                 mm_expected := Some (doc p) |}
  end.

(* does the statement type-check (E0034 / E0599 otherwise)? *)
Definition stmt_compiles (k : arg_kind) (t : pty) (p : spat) : bool :=
  match p with
  | SWild => true
  | SCmp _ _ => res_compiles (resolve (arg_expr_type k t))
  | _ => is_pat_lit p || res_compiles (resolve (arg_expr_type k t))
  end.

(* generate_diagnostics_arm: enumerate() over the matchers of ONE alternative *)
Fixpoint diag_from (i : nat) (ks : list arg_kind) (ts : list pty) (ps : list spat) (vs : list value)
  : list mismatch :=
  match ks, ts, ps, vs with
  | k :: ks', t :: ts', p :: ps', v :: vs' =>
    (match diag_stmt i k t p v with Some m => [m] | None => [] end
     ++ diag_from (S i) ks' ts' ps' vs')%list
  | _, _, _, _ => []
  end.

Definition kinds_of (alts : list (list spat)) (n : nat) : list arg_kind :=
  map (fun i => guess_arg_kind i alts) (seq 0 n).

Fixpoint last_alt (alts : list (list spat)) : option (list spat) :=
  match alts with
  | [] => None
  | [a] => Some a
  | _ :: rest => last_alt rest
  end.

(* what a call with an ENABLED reporter records when no success arm matched:
   nothing when a global guard is present (no diagnostics arm is generated) and
   nothing for the empty input; otherwise the statements of the LAST alternative *)
Definition diag_input (ts : list pty) (i : minput) (vs : list value) : list mismatch :=
  match mi_guard i, last_alt (mi_alts i) with
  | None, Some alt => diag_from 0 (kinds_of (mi_alts i) (length alt)) ts alt vs
  | _, _ => []
  end.

Definition input_compiles (ts : list pty) (i : minput) : bool :=
  match mi_guard i, last_alt (mi_alts i) with
  | None, Some alt =>
    forallb (fun '(k, (t, p)) => stmt_compiles k t p)
            (combine (kinds_of (mi_alts i) (length alt)) (combine ts alt))
  | _, _ => true
  end.

Definition set_pat (j : nat) (m : mismatch) : mismatch :=
  {| mm_pat := j; mm_input := mm_input m; mm_kind_of := mm_kind_of m;
     mm_actual := mm_actual m; mm_expected := mm_expected m |}.

(* ---------- impl Display for Mismatches (src/mismatch.rs) ---------- *)

Definition nl : string := String "010"%char "".

(* has_unique_pat_index *)
Definition unique_pat (ms : list mismatch) : bool :=
  match ms with
  | [] => true
  | m :: rest => forallb (fun m' => Nat.eqb (mm_pat m) (mm_pat m')) rest
  end.

(* impl Display for MismatchMsg *)
Definition mm_header (unique has_comparison : bool) (m : mismatch) : string :=
  (match mm_kind_of m with
   | MPattern => "Pattern mismatch for "
   | MEq => "Equality mismatch for "
   | MNe => "Inequality mismatch for "
   end)
  ++ (if unique then "input #" ++ decn (mm_input m)
      else "call pattern #" ++ decn (mm_pat m) ++ ", input #" ++ decn (mm_input m))
  ++ (match mm_kind_of m with
      | MPattern | MEq => if has_comparison then " (actual / expected)" else ""
      | MNe => ""
      end)
  ++ ":" ++ nl.

(* impl Display for Diff, #[cfg(not(feature = "pretty-print"))] branch.  With
   pretty-print the body is pretty_assertions::StrComparison (not modelled: the
   co-execution reads the two sides off the `<`/`>` lines). *)
Definition diff_text (actual expected : string) : string :=
  "  actual: " ++ actual ++ "expected: " ++ expected.

Definition render_mismatch (unique : bool) (m : mismatch) : string :=
  match mm_kind_of m, mm_actual m, mm_expected m with
  | MPattern, Some a, Some e => mm_header unique true m ++ diff_text a e
  | MEq, Some a, Some e =>
    if String.eqb a e
    then mm_header unique false m
         ++ "Actual value did not equal expected value, but their Debug representation are identical:" ++ a
    else mm_header unique true m ++ diff_text a e
  | MNe, Some a, Some e =>
    if String.eqb a e then mm_header unique false m ++ a
    else mm_header unique true m
         ++ "(Warning) Debug representation problem: Expected and actual asserted inequality failed, though Debug representations differ:"
         ++ nl ++ diff_text a e
  | MPattern, _, _ =>
    mm_header unique false m
    ++ "Actual value did not match expected pattern, but can't display diagnostics because the type is likely missing #[derive(Debug)]." ++ nl
  | MEq, _, _ =>
    mm_header unique false m
    ++ "Actual value did not equal expected value, but can't display diagnostics because the type is likely missing #[derive(Debug)]." ++ nl
  | MNe, _, _ =>
    mm_header unique false m
    ++ "Actual value unexpectedly equalled expected value, but can't display diagnostics because the type is likely missing #[derive(Debug)]." ++ nl
  end.

Definition render_mismatches (ms : list mismatch) : string :=
  (match ms with [] => "" | _ => nl end)
  ++ String.concat "" (map (render_mismatch (unique_pat ms)) ms).

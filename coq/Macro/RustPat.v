(* Unimock.Macro.RustPat -- the fragment of Rust that `matching!` is about:
   a value universe, pattern syntax, "one pattern against one value" and
   boolean guard expressions.  This is Rust's documented `match` semantics,
   shared by the macro model (Macro/Matching.v) and the spec (Spec/RustMatch.v);
   it is validated on every run against rustc itself (the literal `match`
   emitted next to every generated `matching!`).  Executable, no proofs. *)
From Unimock Require Import Model.Base.
From Coq Require Export ZArith.

(* how a string / sequence value is held: the plain view (&str, &[T]), an
   owning std type (String, Vec<T>) or a user newtype that is only AsRef *)
Inductive wrap := Plain | Owned | Newtype.

Inductive value :=
| VInt (z : Z)
| VBool (b : bool)
| VStr (w : wrap) (s : string)
| VSeq (w : wrap) (l : list value)
| VCtor (c : string) (fs : list value)      (* Some(_)/None, enum variants, structs *)
| VTup (l : list value).

(* AsRef<str> / AsRef<[T]> : the plain view of a value (identity elsewhere) *)
Definition view (v : value) : value :=
  match v with
  | VStr _ s => VStr Plain s
  | VSeq _ l => VSeq Plain l
  | _ => v
  end.

(* PartialEq between a value and an eq!/ne! operand: contents, not holders *)
Fixpoint veqb (a b : value) : bool :=
  let fix go (x y : list value) : bool :=
    match x, y with
    | [], [] => true
    | p :: x', q :: y' => veqb p q && go x' y'
    | _, _ => false
    end in
  match a, b with
  | VInt x, VInt y => Z.eqb x y
  | VBool x, VBool y => Bool.eqb x y
  | VStr _ x, VStr _ y => String.eqb x y
  | VSeq _ x, VSeq _ y => go x y
  | VCtor c x, VCtor d y => String.eqb c d && go x y
  | VTup x, VTup y => go x y
  | _, _ => false
  end.

(* `!=` is PartialEq::ne - user code, which need not be the negation of eq: the harness struct S overrides it (it looks at the
   first field only), every other type of the universe has the default `!(a == b)` *)
Definition vneb (a b : value) : bool :=
  match a, b with
  | VCtor c (x :: _ :: []), VCtor d (y :: _ :: []) =>
    if (String.eqb c "S" && String.eqb d "S")%bool then negb (veqb x y) else negb (veqb a b)
  | _, _ => negb (veqb a b)
  end.

(* what eq!(o) / ne!(o) compare: `value == operand` / `value != operand` *)
Definition vcmp (ne : bool) (a b : value) : bool := if ne then vneb a b else veqb a b.

Inductive pat :=
| PWild
| PBind (x : string)
| PBindAt (x : string) (p : pat)                 (* x @ p *)
| PInt (z : Z)
| PBoolLit (b : bool)
| PStrLit (s : string)
| PRange (lo hi : option Z)                      (* lo..=hi, lo.., ..=hi *)
| POr (ps : list pat)                            (* p | q | ... *)
| PTuple (ps : list pat)
| PParen (p : pat)
| PCtor (c : string) (ps : list pat)             (* Some(p), None, E::B(p), E::A *)
| PStruct (c : string) (fs : list (nat * pat))   (* S { f: p, .. } by field index *)
| PSlice (pre : list pat) (rest : option (option string)) (post : list pat)
                                                 (* [pre.., (x @)? .., post..] *)
| PCmp (ne : bool) (operand : value).            (* eq!(e) / ne!(e): argument position only *)

Definition env := list (string * value).

Section Lists.
  Variable f : pat -> value -> option env.
  Fixpoint match_all (ps : list pat) (vs : list value) : option env :=
    match ps, vs with
    | [], [] => Some []
    | p :: ps', v :: vs' =>
        match f p v with
        | Some e => match match_all ps' vs' with Some e' => Some (e ++ e')%list | None => None end
        | None => None
        end
    | _, _ => None
    end.
  Fixpoint match_first (ps : list pat) (v : value) : option env :=
    match ps with
    | [] => None
    | p :: ps' => match f p v with Some e => Some e | None => match_first ps' v end
    end.
  Fixpoint match_fields (fs : list (nat * pat)) (vs : list value) : option env :=
    match fs with
    | [] => Some []
    | (i, p) :: fs' =>
        match nth_opt vs i with
        | Some v => match f p v with
                    | Some e => match match_fields fs' vs with Some e' => Some (e ++ e')%list | None => None end
                    | None => None
                    end
        | None => None
        end
    end.
End Lists.

Definition in_range (lo hi : option Z) (z : Z) : bool :=
  match lo with Some l => Z.leb l z | None => true end &&
  match hi with Some h => Z.leb z h | None => true end.

(* A binding holds the plain view of what it binds (the holder of a bound
   string/sequence is irrelevant to every guard of the grammar). *)
Fixpoint pmatch (p : pat) (v : value) : option env :=
  match p with
  | PWild => Some []
  | PBind x => Some [(x, view v)]
  | PBindAt x q => match pmatch q v with Some e => Some ((x, view v) :: e) | None => None end
  | PInt z => match v with VInt z' => if Z.eqb z z' then Some [] else None | _ => None end
  | PBoolLit b => match v with VBool b' => if Bool.eqb b b' then Some [] else None | _ => None end
  | PStrLit s => match v with VStr Plain s' => if String.eqb s s' then Some [] else None | _ => None end
  | PRange lo hi => match v with VInt z => if in_range lo hi z then Some [] else None | _ => None end
  | POr ps => match_first pmatch ps v
  | PTuple ps => match v with VTup vs => match_all pmatch ps vs | _ => None end
  | PParen q => pmatch q v
  | PCtor c ps => match v with
                  | VCtor c' vs => if String.eqb c c' then match_all pmatch ps vs else None
                  | _ => None
                  end
  | PStruct c fs => match v with
                    | VCtor c' vs => if String.eqb c c' then match_fields pmatch fs vs else None
                    | _ => None
                    end
  | PSlice pre rest post =>
      match v with
      | VSeq Plain l =>
          match rest with
          | None => match post with [] => match_all pmatch pre l | _ => None end
          | Some ob =>
              let n := length l in let a := length pre in let b := length post in
              if Nat.leb (a + b) n then
                match match_all pmatch pre (firstn a l) with
                | Some e1 =>
                    match match_all pmatch post (skipn (n - b) l) with
                    | Some e2 =>
                        let mid := firstn (n - b - a) (skipn a l) in
                        Some (e1 ++ match ob with Some x => [(x, VSeq Plain mid)] | None => [] end ++ e2)%list
                    | None => None
                    end
                | None => None
                end
              else None
          end
      | _ => None
      end
  | PCmp _ _ => None      (* not a pattern: only meaningful in argument position *)
  end.

(* ---------- guards ---------- *)

Inductive cmpop := OLt | OLe | OGt | OGe | OEq | ONe.
Inductive operand := OVar (x : string) | OConst (z : Z) | OLen (x : string).
(* atoms of user guards: `*x < 5`, `x.len() >= 2`, `*b`, `x.is_some()`, `true` *)
Inductive uatom :=
| AConst (b : bool)
| ABool (x : string)
| AIsSome (x : string)
| ACmp (op : cmpop) (a b : operand).

(* boolean expressions with Rust's operators, explicit parentheses kept *)
Inductive bexp (A : Type) :=
| BAtom (a : A)
| BNot (g : bexp A)
| BParen (g : bexp A)
| BAnd (a b : bexp A)
| BOr (a b : bexp A).
Arguments BAtom {A}. Arguments BNot {A}. Arguments BParen {A}. Arguments BAnd {A}. Arguments BOr {A}.

Definition gexpr := bexp uatom.

Fixpoint beval {A} (ev : A -> bool) (g : bexp A) : bool :=
  match g with
  | BAtom a => ev a
  | BNot g => negb (beval ev g)
  | BParen g => beval ev g
  | BAnd a b => beval ev a && beval ev b
  | BOr a b => beval ev a || beval ev b
  end.

Fixpoint bmap {A B} (f : A -> B) (g : bexp A) : bexp B :=
  match g with
  | BAtom a => BAtom (f a)
  | BNot g => BNot (bmap f g)
  | BParen g => BParen (bmap f g)
  | BAnd a b => BAnd (bmap f a) (bmap f b)
  | BOr a b => BOr (bmap f a) (bmap f b)
  end.

Definition cmp_z (op : cmpop) (a b : Z) : bool :=
  match op with
  | OLt => Z.ltb a b | OLe => Z.leb a b | OGt => Z.ltb b a | OGe => Z.leb b a
  | OEq => Z.eqb a b | ONe => negb (Z.eqb a b)
  end.

(* evaluation is relative to a lookup function so that the macro model can
   evaluate the user's atoms in its own (larger) environment *)
Section Atoms.
  Variable look : string -> option value.
  Definition operand_z (o : operand) : option Z :=
    match o with
    | OConst z => Some z
    | OVar x => match look x with Some (VInt z) => Some z | _ => None end
    | OLen x => match look x with
                | Some (VStr _ s) => Some (Z.of_nat (String.length s))
                | Some (VSeq _ l) => Some (Z.of_nat (length l))
                | _ => None
                end
    end.
  Definition uatom_eval (a : uatom) : bool :=
    match a with
    | AConst b => b
    | ABool x => match look x with Some (VBool b) => b | _ => false end
    | AIsSome x => match look x with Some (VCtor c _) => String.eqb c "Some" | _ => false end
    | ACmp op a b => match operand_z a, operand_z b with
                     | Some x, Some y => cmp_z op x y
                     | _, _ => false
                     end
    end.
End Atoms.

Fixpoint lookup (x : string) (e : env) : option value :=
  match e with
  | [] => None
  | (y, v) :: e' => if String.eqb x y then Some v else lookup x e'
  end.

Definition geval (e : env) (g : gexpr) : bool := beval (uatom_eval (fun x => lookup x e)) g.

(* Rust's precedence: the guard is written without redundant parentheses iff
   every operand binds at least as tightly as its operator demands *)
Definition is_or {A} (g : bexp A) : bool := match g with BOr _ _ => true | _ => false end.

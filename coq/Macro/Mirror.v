(* Unimock.Macro.Mirror -- what `#[unimock(mirror = upstream::Trait)]` gives
   (unimock_macros/src/unimock/{trait_info,mod}.rs, src/mock/*.rs,
   src/default_impl_delegator.rs), on top of the Layer A runtime model.

   - the annotated copy of the trait is NOT emitted (trait_info.rs:39-45:
     output_trait = None, trait_path = the mirror path); both generated impls
     target the upstream trait;
   - `impl Upstream for Unimock` has one generated body per method of the copy,
     required or provided (mod.rs: method_impls over all methods): every method
     is an entry point evaluated by [Eval.call] with its own MockFn;
   - `impl Upstream for DefaultImplDelegator` has bodies for the methods WITHOUT
     a default only (mod.rs:166-194): a provided method called on the delegator
     is the UPSTREAM default body, whose required calls are forwarded to
     `<Unimock as Upstream>::m(as_mut(self), ..)`, i.e. evaluated on the same
     shared state;
   - a provided method that is not mentioned evaluates to CallDefaultImpl
     (eval.rs: has_default_impl) and the generated arm calls
     `<DefaultImplDelegator as Upstream>::p(delegator(self), args)`.

   A mock "whose required methods replay a script" is the ordered clause list
   `M_k.next_call(matching!()).answers_arc(respond with script[k])`, k = 0, 1, ... *)
From Unimock Require Export Model.Eval Spec.Scripted Spec.Wiring.
Open Scope N_scope.

(* matching!() : `_m.func(|_, _| true)` -- matcher id 0 accepts everything *)
Definition any_matcher : N := 0.

Definition script_pat (k : nat) : pat_spec :=
  {| ps_matcher := Some any_matcher; ps_dbg := Some (N.of_nat k); ps_ops := [OAnswersArc (N.of_nat k)] |}.

Fixpoint script_terminals {R} (off : nat) (sc : list (N * R)) : list terminal :=
  match sc with
  | [] => []
  | (m, _) :: t => TCall m NextCall (script_pat off) :: script_terminals (S off) t
  end.

Section Mock.
Variables A R : Type.
Variable info : N -> minfo.
Variable accepts : N -> A -> bool.
Variable debug_args : A -> list (option string).
Notation call := (call info A accepts debug_args).

(* a default body running on the DefaultImplDelegator: every required call is the
   generated entry point of the Unimock impl on the shared state; an answer clause
   (ActAnswer f) runs the f-th answer closure, which logs the call and responds
   with script[f].  Anything else (a mock-induced panic, or a continuation this
   model does not follow) ends the run with None. *)
Fixpoint run_mock {X} (cfg : config) (sc : script R) (s : state) (b : prog A R X) (log : list (N * A)) {struct b}
  : state * list (N * A) * option X :=
  match b with
  | Ret x => (s, log, Some x)
  | Call m a k =>
    match call cfg s m a with
    | (s1, ActAnswer f) =>
      match nth_error sc (N.to_nat f) with
      | Some (_, r) => run_mock cfg sc s1 (k r) (log ++ [(m, a)])%list
      | None => (s1, log, None)
      end
    | (s1, _) => (s1, log, None)
    end
  end.

Variable bodies : N -> option (A -> prog A R R).

(* a test driving the mock through the upstream trait *)
Fixpoint drive_mock {X} (cfg : config) (sc : script R) (s : state) (d : dprog A R X) (log : list (N * A)) {struct d}
  : state * list (N * A) * option X :=
  match d with
  | DRet x => (s, log, Some x)
  | DCall m a k =>
    match call cfg s m a with
    | (s1, ActAnswer f) =>                        (* the method's own clause *)
      match nth_error sc (N.to_nat f) with
      | Some (_, r) => drive_mock cfg sc s1 (k r) (log ++ [(m, a)])%list
      | None => (s1, log, None)
      end
    | (s1, ActDefault) =>                         (* delegation to the upstream body *)
      match bodies m with
      | Some body =>
        match run_mock cfg sc s1 (body a) log with
        | (s2, log2, Some r) => drive_mock cfg sc s2 (k r) log2
        | (s2, log2, None) => (s2, log2, None)
        end
      | None => (s1, log, None)
      end
    | (s1, _) => (s1, log, None)
    end
  end.

End Mock.

Arguments run_mock {A R} info accepts debug_args {X}.
Arguments drive_mock {A R} info accepts debug_args bodies {X}.

(* ---------- entry-point wiring: one row per method of a mirrored trait ---------- *)

Definition row_info (r : wrow) : minfo :=
  {| mi_trait := w_trait r; mi_method := w_method r; mi_has_default := w_provided r;
     mi_partial_by_default := w_partial_by_default r;
     (* generated mirror impls have no unmock_with; lib.rs's hand-written report has the arm *)
     mi_has_unmock_arm := w_partial_by_default r; mi_out_clone := true; mi_more_leaves := 0 |}.

Definition wobs_eqb (a b : wobs) : bool :=
  match a, b with
  | WClause, WClause | WBodyReq, WBodyReq | WBodyReturned, WBodyReturned | WReal, WReal
  | WNoImpl, WNoImpl | WCannotUnmock, WCannotUnmock | WOther, WOther => true
  | _, _ => false
  end.

(* the Layer A model's prediction for the single call, as an observation class *)
Definition obs_of_action (act : action) : list wobs :=
  match act with
  | ActPanic (EExplicitPanic _ _ _) => [WClause]
  | ActDefault => [WBodyReq; WBodyReturned]
  | ActReal => [WReal]
  | ActPanic (ENoMockImplementation _) => [WNoImpl]
  | ActPanic (ECannotUnmock _) => [WCannotUnmock]
  | _ => []
  end.

Definition wiring_clause : terminal :=
  TCall 0 NextCall {| ps_matcher := Some any_matcher; ps_dbg := Some 0; ps_ops := [OPanics 0] |}.

Definition model_obs (r : wrow) (fb : fallback) (mentioned : bool) : list wobs :=
  match assemble (fun _ => row_info r) cfg_std fb (if mentioned then [wiring_clause] else []) with
  | Some (inl cfg) =>
    obs_of_action (snd (Eval.call (fun _ => row_info r) unit (fun _ _ => true) (fun _ => []) cfg init_state 0 tt))
  | _ => []
  end.

Definition obs_in (o : wobs) (l : list wobs) : bool := existsb (wobs_eqb o) l.

Definition wrow_ok (r : wrow) : bool :=
  obs_in (w_mentioned_strict r) (model_obs r FbError true) &&
  obs_in (w_mentioned_partial r) (model_obs r FbUnmock true) &&
  obs_in (w_unmentioned_strict r) (model_obs r FbError false) &&
  obs_in (w_unmentioned_partial r) (model_obs r FbUnmock false).

"""Regenerates MANIFEST.json from the table below (python3 -m vlib.manifest_gen)."""
import json, os, sys

VERIF = os.path.dirname(os.path.dirname(os.path.abspath(__file__)))

LEVEL_NOTE = ("Trusted: Coq 8.16.1 kernel + vm_compute; no axioms (Print Assumptions closed for every property theorem); "
              "the hand-written Gallina model is tied to /repo by co-execution on generated cases only (agreement on inputs "
              "the generator never produces is assumed); Python driver, Rust harness, hooks behind --cfg unimock_verif; "
              "Rust's documented semantics for panics/Drop/Arc/Mutex/atomics.")

CHECKS = {
    "C01": dict(
        text="Machine-checked theorems (Props/C01.v) that in the Gallina model of eval/assemble every call to an unordered method, "
             "in any state and for any matcher functions over any argument type, is answered by the earliest declared accepting "
             "pattern, bumps only that pattern's counter, and is independent of other methods' clauses and counters; the model is "
             "tied to /repo on every run by co-executing generated clause lists and histories on the real crate and in Coq "
             "(vm_compute) and comparing which clause answered / whether the call panicked / what verification names. "
             "Also tied through the user-facing path: the same clause lists written as REAL tuple expressions (flat tuples of every arity 2..16 with overlapping patterns at adjacent positions; random nests) against the model on the list in written order. "
             "Concurrent part: overlapping exactly-quantified patterns called by 2-3 threads under every interleaving. Matcher-trace part: the matcher functions a call consults (the patterns up to the answering one, none after it: C01_later_patterns_are_not_consulted) logged on the real runtime and compared with Model/Run.v matcher_trace.",
        design_ref="DESIGN.md section 7, C01",
        technique="Coq proof (refinement to first_match + frame lemmas) + model/implementation co-execution"),
    "C02": dict(
        text="Machine-checked theorems (Props/C02.v): every well-typed builder chain stores its responses keyed by the prefix sums of the "
             "repeat counts; the transcribed binary search + post-processing returns, for every count list (zero counts included) and every k, "
             "the segment 'first i with n1+..+ni >= k, else last'; a pattern's counter equals the number of its matches over any history through "
             "any instance; a single-use value is produced on its first request and never again. Tied to /repo by co-executing generated chains "
             "driven from 0 to sum+3 matches through original and clones, compared per call on the returned tag / panic. "
             "Composite part: the k-th request on Option/Result/Vec/Poll/tuple return types with owned leaves through returns / each_call / n_times / at_least_times, a systematic depth-2 family first.",
        design_ref="DESIGN.md section 7, C02",
        technique="Coq proof (prefix sums, binary-search lemma, counting invariant) + model/implementation co-execution"),
    "C03": dict(
        text="Machine-checked theorems (Props/C03.v): the expectation a chain stands for (spec written from the documentation) is what the builder "
             "accumulates; a pattern gets a failure line iff its count violates that expectation (both directions, every boundary); after an "
             "error-free history the verdict is silent iff all expectations hold and every mentioned method was matched, and otherwise is exactly "
             "one line per violated pattern plus one never-called line per unmatched method; drop, verify() and report() compute the same verdict. "
             "Tied to /repo by co-executing histories steered to bound-1 / bound / bound+1 per pattern; compared on verdict and the multiset of named patterns. "
             "Also through real tuple expressions, every receiver kind, lend / no_verify_in_drop events, and counting programs of 2-3 threads under every interleaving of the controlled scheduler.",
        design_ref="DESIGN.md section 7, C03",
        technique="Coq proof (iff / line-list identity) + model/implementation co-execution"),
    "C04": dict(
        text="Machine-checked theorems (Props/C04.v): assembling ANY clause list gives ordered patterns consecutive, disjoint slot ranges whose owner "
             "is the one the left-to-right slot sequence (Spec/Slots.v) names; the i-th call to any ordered method is accepted iff slot i belongs to the "
             "called method and its matcher accepts, it then reads position i-lo of that pattern's chain, otherwise it fails with out-of-range / wrong-order / "
             "inputs-not-matched; unordered and unmentioned calls leave next_ordered, ordered counters and the invariant untouched. Tied to /repo by co-executing "
             "ordered clause sequences with every accepted prefix extended by deviating calls. "
             "Shape part: async flavours (async fn, -> impl Future, #[async_trait]) consult the mock - and take their ordered slot - at the first poll, once per await, never for a future dropped unpolled.",
        design_ref="DESIGN.md section 7, C04",
        technique="Coq proof (range-partition invariant + refinement to the slot sequence) + model/implementation co-execution"),
    "C07": dict(
        text="Machine-checked theorems (Props/C07.v): in ANY state, a call to an unmentioned method resolves by 'default body > real function if partial or "
             "partial-by-default > panic', a call to an unordered method whose patterns all reject resolves to panic (strict) / real function (partial), a missing "
             "real function is a recorded CannotUnmock panic; none of these rows changes a counter, the ordered index or a single-use slot (also over whole histories "
             "of such calls) and none produces a Return/Answer, i.e. the mock never fabricates a value. Tied to /repo by co-executing the whole decision table "
             "exhaustively (methods x strict/partial x situation x 8 arguments x position), Termination::report as the partial-by-default row. "
             "The probed call is made on the original and on a clone; a receiver part runs default bodies of every receiver kind whose inner calls have no applicable pattern. "
             "The table includes methods mentioned only by patterns quantified exactly 0; a shape part runs the fall-through to the real implementation for generated trait shapes (typed receiver spellings included).",
        design_ref="DESIGN.md section 7, C07",
        technique="Coq proof (decision-table identity + quiet-state invariant) + exhaustive table co-execution"),
    "C14": dict(
        text="Machine-checked theorems (Props/C14.v): for clause trees of any depth/width, if every tuple impl visits 0..n-1 in order then deconstruction = leaves "
             "left to right (the premise is re-proved on every run for the visiting orders OBSERVED from the real impls of arity 2..16, TupleOrderCheck.v); "
             "assembly is refused iff, left to right, some clause is an empty stub, has an unproducible return, or another mode than its method's first clause "
             "(either order, any distance), with the first such clause's message, at construction; at_least_times on ordered chains and then() after a non-exact "
             "count do not type-check in the builder model. Tied to /repo by compiling and running generated REAL tuple expressions (nested trees, offending clause "
             "at every leaf position) against the leaves-order model. "
             "Concurrent part: overlapping ordered calls consume the flattened clause sequence slot by slot (every interleaving of 2-3 threads).",
        design_ref="DESIGN.md section 7, C14",
        technique="Coq proof (structural induction over clause trees; assembler invariant) + regenerated tuple-order table + co-execution of generated tuple programs"),
    "C18": dict(
        text="Machine-checked theorems (Props/C18.v): any re-ordering generated by exchanging adjacent clauses of different methods that are not both ordered leaves "
             "every method's mode and pattern list (slot ranges included), hence every table lookup, unchanged, and the two lists are rejected together; a call's outcome "
             "and effect on the shared state are the same through any live instance; generic instantiations are distinct methods. Tied to /repo by paired runs: each base "
             "case as is / permuted / re-routed through clones / interleaved with a twin mock must give identical outcomes and verdicts, equal to the model. "
             "Also run as REAL tuple expressions in three layouts per clause set (chunks, random nest, admissibly re-ordered) and through every receiver kind of the delegation inventory. "
             "Also 250 scheduled programs (threads through clones) against the Layer B model.",
        design_ref="DESIGN.md section 7, C18",
        technique="Coq proof (permutation invariance of assembly, routing lemma) + paired-run co-execution"),
    "C08": dict(
        text="Machine-checked theorems (Props/C08.v): a call appends to the shared error list exactly the error it panics with (every Err of eval and the missing "
             "real/default implementation of the generated body) and nothing otherwise, so user panics are not recorded; over any history through any instances the list "
             "is exactly the mock-induced panics in order, caught or not; a non-empty list makes teardown of the original return exactly those errors whatever the counters, "
             "the text being their renderings joined by newlines. Tied to /repo by co-executing histories with every error kind at random positions, on original or clone, on "
             "the creator or another thread, mixed with user panics. Concurrent recording (several threads at once) is covered by C10's scheduler runs. "
             "Concurrent part: 2-3 threads making failing calls on the real runtime under the controlled scheduler (all interleavings of the small programs) against the Layer B model, where every error is pushed in one critical section; compared on outcomes and on the verdict as a multiset. "
             "Teardown order is part of the model: a lent value that owns a clone of the mock and calls it from its Drop runs while the original's value chain is released, before the error list is read (theorem C08_errors_recorded_during_teardown_are_reported; events lendcall). The scheduler threads work through clones or share the original by reference.",
        design_ref="DESIGN.md section 7, C08",
        technique="Coq proof (append-only error-log invariant over histories) + model/implementation co-execution"),
    "C09": dict(
        text="Machine-checked theorems (Props/C09.v): teardown of a non-original is silent in every state; clones are never original; verify()/no_verify_in_drop() on a clone "
             "panic; the original's teardown is the ordered decision list unwinding > live clone > foreign thread > verdict; report() and verify()/drop map the same result; no "
             "event sequence creates a second original, consuming events leave none, dead instances refuse every event (at most once); the strong count is the number of handles "
             "(instances + delegation helpers + lent clones). Tied to /repo by co-executing life-cycle sequences (exhaustive short ones + random), events on other threads, with "
             "Arc::strong_count observed after every step. "
             "The alphabet includes Clone::clone_from (the old value of the target is torn down, the slot holds a non-original afterwards) and lent values that call the mock from their Drop. "
             "A clause configuration with responder-made errors (panics(), applies_unmocked() without a function) ties report() = FAILURE to recorded errors.",
        design_ref="DESIGN.md section 7, C09",
        technique="Coq proof (life-cycle invariants over all event sequences) + small-scope exhaustive and random co-execution"),
    "C11": dict(
        text="Machine-checked theorems (Props/C11.v): with std, dropping any instance while its thread unwinds never panics (any flags, expectations, clones, thread); a scope that owns "
             "an instance and is left by a mock-induced or user panic reports exactly that one panic; after a caught panic the shared state is what the completed evaluation left. "
             "Tied to /repo by running the whole crash matrix (panic origin x topology x met/unmet x owning-scope / unwinding-drop / caught) on the real crate; a double panic aborts "
             "the harness process and is observed as a crash. The abort-on-double-panic rule itself is Rust runtime behaviour (modelled, not proved). "
             "Topologies include mocks built by cleanup code during unwinding, no_verify_in_drop originals, and a value chain holding a value whose Drop makes a failing (swallowed) call while the thread unwinds. "
             "Message part: producing the message must not panic either - every error kind with 600-700 byte ASCII / non-ASCII argument renderings and pattern texts; an abort is seen as a crashed case. "
             "User code that panics inside an argument's Debug impl while the runtime renders the call for a mock error is modelled (plain, observed, scope-owned and swallowed calls) and proved to be the only panic, recording nothing (six error kinds in the matrix).",
        design_ref="DESIGN.md section 7, C11",
        technique="Coq proof (unwinding => silent drop, for all states) + exhaustive crash-matrix co-execution"),
    "C10": dict(
        text="Machine-checked theorems (Props/C10.v) about the Layer B model (evaluation cut at its atomic operations), for EVERY schedule, any number of threads and calls: "
             "the values handed out by the fetch_adds on each pattern counter and on the ordered index are exactly 0..n-1, each once; after joining, counters and ordered index equal "
             "those of the sequential Layer A run of the same calls; the shared error list is a permutation of all threads' mock-induced panics; a call run atomically IS the Layer A call "
             "(refinement). Tied to /repo by running the REAL runtime under a baton-passing scheduler at the granularity of every atomic operation and lock (hooks), comparing trace, "
             "outcomes and verdict with the model on the same schedule (all interleavings of small programs + random ones). Weak-memory effects are outside (SC scheduler). "
             "Programs include composite single-use values (a tuple return with two owned components: two locks taken one after the other), threads that share the original by reference, and concurrent lending through one &Unimock.",
        design_ref="DESIGN.md section 7, C10",
        technique="Coq proof (invariants over all schedules, sequential-equivalence refinement) + scheduler-controlled co-execution"),
    "C12": dict(
        text="Machine-checked theorems (Props/C12.v): for EVERY schedule of any threads a single-use slot hands its value out at most once (delivery log NoDup, delivered iff the slot is "
             "empty), every other request is the CannotReturnValueMoreThanOnce error and never a value; sequentially the first request returns it and later ones fail; repeat-use values "
             "are stored by into_return (never emptied); the builder model refuses n_times/at_least_times/each-returns for non-Clone values and stores a non-Clone value only single-use. "
             "Tied to /repo by (races) all interleavings of 2-3 threads racing for a slot on the real runtime under the controlled scheduler, (histories) live-value counts "
             "(constructed - dropped) after every step and after teardown, (type level) model well-typedness = rustc verdict for every type state x builder method x {Clone, non-Clone}. "
             "(composite) owned leaves inside Option/Result/Vec/Poll/tuples are requested through single-use and repeated-use paths with the C17 output model as oracle. "
             "Composite single-use values (several slots emptied one after the other, not atomically) have one owner under every schedule: per value, deliveries + requests between two of its slots = [first slot empty], the slots such a request still needs are full, and when all requests have ended every emptied value was handed out (C12_single_use_value_has_one_owner, C12_raced_value_is_not_lost); raced on the real runtime with trait P { fn mt(&self, u8) -> (Uniq, &str, Uniq) }. "
             "User code on the way of a value: a request that is answered runs none of the arguments' Debug impls (theorem C12_answered_request_runs_no_debug about Model/Run.v debug_runs); the harness method DB::db takes an argument whose Debug impl counts its runs, observed per call.",
        design_ref="DESIGN.md section 7, C12",
        technique="Coq proof (single-delivery invariant over all schedules; type-state lemmas) + scheduler-controlled races, drop-counter histories and a rustc accept/reject sweep"),
    "C13": dict(
        text="Machine-checked theorems (Props/C13.v) about the value chain as write-once cells: a lent reference shows its own value in a fresh cell and keeps showing it after any number "
             "of further lends; lending never drops anything, make_mut and release drop every value exactly once; concurrently through a shared &Unimock, for EVERY schedule of try_insert "
             "steps, every reference shows its own value, no two share a cell, the chain is a permutation of the lent values and only grows. Tied to /repo by re-reading ALL held references "
             "and the live-value count after every step of generated make_ref/make_mut sequences (three value types incl. a zero-sized guard) on original and clones, and by threads lending "
             "through one instance under the controlled scheduler (all interleavings for small programs). Memory safety itself is delegated to forbid(unsafe_code) (checked textually). "
             "Sessions also lend through the instance's delegation helper, call `&mut self` provided methods (AsMut path) and drop instances while their thread unwinds. "
             "Sessions may end in a provided method with a by-value receiver whose required call observes the number of live lent values while the body runs. "
             "make_mut is also reached through mocked `&mut self` methods with `&mut T` / `Option<&mut T>` results (proved equal to make_mut on the instance's own chain).",
        design_ref="DESIGN.md section 7, C13",
        technique="Coq proof (append-only chain laws; invariants over all schedules) + sequence and scheduler-controlled co-execution with drop counters"),
    "C20": dict(
        text="Machine-checked theorems (Props/C20.v): for every default body (any program over required-method calls), every script, strict or partial, a mock whose required methods replay "
             "the script by ordered answer clauses, driven through delegation, yields the same results and the same sequence of required-method calls with the same arguments as the plain scripted "
             "struct (C15 o C04 on the Layer A model), for whole tests interleaving provided and required calls; Termination::report falls through to the real report. Tied to /repo by (1) a wiring "
             "table regenerated on every run from src/mock/*.rs - every method of every mirrored trait called through the upstream trait on four mocks, re-checked in Coq against the Layer A model "
             "(MirrorsCheck.v) - and (2) differential random scripts (short, zero, oversized, Interrupted, hard errors, EOF, Pending) through real upstream provided methods on a Unimock versus a plain "
             "struct, plus the Coq model for the transcribed bodies. "
             "Plus a mirrored local upstream trait with associated constants (default + override, default kept, no default) read by provided methods of the &self / &mut self / by-value kinds, and the receiver conversions of the delegation inventory. "
             "A non-mirrored trait with empty default bodies and a mirrored trait with associated constants are driven on a plain implementor and on the mock; clauses on TerminationMock::report itself in the receiver part. "
             "Also ordered then()-series scripts replayed through provided methods, and repeated replies on the composite return shapes of the mirrored async traits (composite part).",
        design_ref="DESIGN.md section 7, C20",
        technique="Coq proof (induction on free-monad programs; assembler and slot invariant) + regenerated wiring table + differential co-execution of scripts"),
    "C05": dict(
        text="Machine-checked theorems (Props/C05.v) about a transcription of what #[unimock] emits for a method of any shape (receiver, parameter-class list of any length, flavour): "
             "the five input destructurings and the 1-vs-n tuple packing are mutually inverse; under a move-semantics binding environment the generated body evaluates once, shows the matcher "
             "the caller's arguments in declaration order (Impossible for `&mut T<'_>`), applies the answer function to the declared receiver and exactly the caller's arguments, and returns its "
             "result and its writes through &mut parameters unchanged; async flavours run nothing at construction or when dropped unpolled and exactly once per await. RPIT futures on `&mut self`/Pin "
             "receivers are excluded as known finding F4 (expansion does not compile). Tied to /repo by generating traits over the grammar (pairwise covering + random, distinct ids, same-typed "
             "neighbours), compiling them with the real macro into one crate and comparing per method what matcher, answer, caller and evaluation counters observed with the model's prediction. "
             "The Unmock arm is part of the model: the function registered by unmock_with (path form, or an explicit list of `self` / parameter identifiers, any duplicate-free in-range list) receives the mock and exactly those values (C05_unmock_arm), and the entry used is the one written at the method's own position among ALL fn items, skipped receiver-less functions included (C05_unmock_slot); generated traits carry unmock_with entries in every form and skipped functions at random positions. A matcher-trace part (Layer A calls through an argument type with a counting / panicking Debug impl) checks that answered calls run no user code of the argument types.",
        design_ref="DESIGN.md section 7, C05",
        technique="Coq proof (induction over parameter lists; body AST under a move-semantics environment) + generated-program co-execution against the real proc macro"),
    "C17": dict(
        text="Machine-checked theorems (Props/C17.v): for every return type of the grammar Option/Result/Vec/Poll/tuples over owned, &T, &str, &[T], &'static leaves (any nesting) that #[unimock] "
             "accepts, and every value passed to returns(): every request on the multi-use path, and the first request on the single-use path, observes the configured value read at the declared type "
             "(same variants, order, count, leaf data; data behind &T seen through a reference into the mock, stable across calls); later single-use requests succeed iff no owned part lies on the "
             "selected path, else fail with CannotReturnValueMoreThanOnce. Proved by structural induction on a Gallina transcription of the macro's kind analysis and the src/output impl table; tied per "
             "run by rustc-checked acceptance, type_name-checked OutputKind and co-executed values of generated #[unimock] programs. "
             "Accepted types that borrow from self are also generated with the receiver's lifetime written out; eight configuration paths (returns alone, each_call, n_times(1|2|3), at_least_times(1) on some_call and each_call). "
             "Return-type spellings include the receiver's lifetime written out, borrows from a parameter and leaf types that carry a lifetime parameter of their own (&W<'_>); repeatable owned values are also requested by 2-3 threads under every interleaving.",
        design_ref="DESIGN.md section 7, C17",
        technique="Coq proof (structural induction over the kind tree) + generated-program co-execution against the real macros; rustc probes for the acceptance boundary"),
    "C19": dict(
        text="Machine-checked theorems (Props/C19.v) about a Coq model of debug_inputs (deref chain + ProperDebug/NoDebug method probing), the matching! pat_debug / diagnostics arm and "
             "MockError Display: for every arity the message starts with `Trait::method(d1, .., dn)` in declaration order with `?` iff no Debug and separators exactly between arguments; every "
             "error names the method; a pattern is named `text at file:line`; for guard-free single-alternative patterns the mismatch positions are exactly { i | sub-pattern i rejects }, "
             "independent per position, each with the argument's rendering (wildcards count as positions). Tied to /repo by generated traits and matching! invocations at known lines, compiled "
             "with the real macros for every error kind and compared on parsed components (call path, argument list, pattern text/file:line or index, mismatch positions and values). "
             "The Impossible parameter class (`&mut T<'a>`) keeps its own entry at its own position (C19_impossible_keeps_its_position); wrong-order errors are generated at every slot of an n_times(k) pattern in line. "
             "Parameter types include argument-position impl Debug. "
             "Also a user type whose hand-written Debug is not injective (an eq! mismatch with identical Debug texts still carries the value).",
        design_ref="DESIGN.md section 7, C19",
        technique="Coq proof (rendering lemmas by induction over argument lists / sub-patterns) + generated-program co-execution against the real macros"),
    "C06": dict(
        text="Machine-checked theorems (Props/C06.v): matching! as a compiler (front end, guess_arg_kind, arm list with m/l identifiers and &&-joined guard tokens, diagnostics arm, catch-all) "
             "is proved equal to a Rust match evaluator for ALL inputs (the former F3 class - a bare top-level `||` guard next to an eq!/ne! operand - was repaired by a fix: commit, "
             "C06_f3_repaired), and independent of the reporter (diagnostics on/off); matching!() accepts everything; packing and AsRef coercions are views. Tied to /repo on every run by compiling ~420 generated matching! "
             "invocations with the real macro and evaluating them over their whole argument domain unordered, ordered, and next to a literal Rust match compiled by rustc: model, spec and "
             "implementation must agree. "
             "Runtime half: which matchers the runtime consults for a call and when it collects diagnostics (theorems C06_runtime_consults_like_a_match, C06_diagnostics_only_after_the_decision, C06_ordered_call_consults_one_matcher about Model/Run.v matcher_trace), tied by logging every matcher invocation of the real runtime (event callm). "
             "`!=` is PartialEq::ne, user code that need not be the negation of eq: spec and model compare through vcmp, the harness struct S overrides ne. "
             "The generated matcher must run no user Debug code while it only decides: 0 runs of a counting Debug impl during the unordered evaluations of every program.",
        design_ref="DESIGN.md section 7, C06",
        technique="Coq proof over an executable macro model (compile = rust_match) + generated-program co-execution with rustc's own match as oracle"),
    "C15": dict(
        text="Machine-checked theorems (Props/C15.v): an unmentioned provided method runs the default body in any state; running the default body through the mock IS making its required calls "
             "directly, in order, on the same shared state (same responses, counters, ordered index, slots, errors) with the body's result built from exactly those responses; every receiver kind "
             "evaluates the same MockFn on the same shared state and only decides what happens to the instance. Tied to /repo by generated clause sets (literal builder chains compiled with the real "
             "macros) and histories mixing direct and delegated calls through &self, &mut self, by-value, Rc/Arc (sole owner and shared) and Pin<&mut Self> receivers on originals and clones. The "
             "sole-owner Rc/Arc defect found by this check (F2) was repaired by a fix: commit. "
             "Includes provided methods that also have a registered real function (T::m2). "
             "Also the hidden-API form (trait without api=) and a mirrored local trait whose provided methods (unit-returning ones included) are placeholders in the declaration.",
        design_ref="DESIGN.md section 7, C15",
        technique="Coq proof (delegation = fold of direct calls over the shared state) + generated-program co-execution through every receiver kind"),
    "C16": dict(
        text="Machine-checked theorems (Props/C16.v): an Unmock continuation reaches the registered function iff the generated body has the arm, otherwise the call records and panics CannotUnmock "
             "naming the method; the function receives the caller's arguments in declaration order (or the listed parameter expressions); calls it makes back into the mock are evaluated on the "
             "same shared state in program order - recursion to ANY depth n, stopping where a nested level is answered by a pattern. Known finding F1 (C16_known_F1_refuted): no arm is generated "
             "for `&mut self`/Pin receivers. Tied to /repo by generated clause sets over an inventory with the three unmock_with forms at different positions (plain, explicit params, `_`, slots "
             "behind skipped receiver-less functions), u3 recursing to depth 0..7 through partially mocked levels, strict and partial. "
             "Inventory forms: path, path(b, a), path(self, b, a) (explicit list that starts with the mock and permutes the inputs), `_`, entries behind skipped receiver-less functions. "
             "Also the hidden-API form (trait without api=, unmock_with only).",
        design_ref="DESIGN.md section 7, C16",
        technique="Coq proof (finish table, recursion lemma by induction on depth) + generated-program co-execution; F1 as known finding"),
}

NOT_YET = "check not built yet (work in progress in this session; designed in DESIGN.md section 7)"


def main():
    props = [json.loads(l)["id"] for l in open(os.path.join(VERIF, "properties.jsonl"))]
    checks = []
    for p in props:
        if p not in CHECKS:
            continue
        c = CHECKS[p]
        checks.append({
            "property_id": p,
            "quick_cmd": f"./check {p} --tier quick",
            "thorough_cmd": f"./check {p} --tier thorough",
            "evidence_file": f"evidence/{p}.json",
            "replay_cmd_template": f"./check {p} --replay {{path}}",
            "engine": "coq-coexec",
            "level_claimed": {"category": "proof", "text": c["text"], "design_ref": c["design_ref"]},
            "level_note": c.get("level_note", LEVEL_NOTE),
            "technique": c["technique"],
        })
    man = {
        "version": 1,
        "setup_cmd": "./setup.sh",
        "hooks": {
            "guard": "--cfg unimock_verif",
            "enable": "RUSTFLAGS=\"--cfg unimock_verif\" cargo build (set by vlib/common.py build_harness)",
            "baseline_off_cmd": "cd /repo && cargo test --workspace --no-fail-fast --offline",
            "source_commits": json.load(open(os.path.join(VERIF, "hooks.json")))["source_commits"],
            "add_only": False,
        },
        "engines": [{
            "name": "coq-coexec", "path": "check",
            "serves_properties": [c["property_id"] for c in checks],
            "kind_free_text": "Coq 8.16.1 development /verif/coq (models, specs, proofs, property theorems) + co-execution of "
                              "generated cases on the Rust harness built against /repo's working tree and on the model (vm_compute)",
        }],
        "checks": checks,
        "not_applicable": [{"property_id": p, "reason": NOT_YET} for p in props if p not in CHECKS],
        "notes": "add_only is false because one `use` line in src/counter.rs is split into two cfg-selected lines "
                 "(core AtomicUsize vs the announcing wrapper); everything else the hooks do is additive. "
                 "Known findings: known_findings.json. Seeded changes used to test the checks: seeded/.",
    }
    json.dump(man, open(os.path.join(VERIF, "MANIFEST.json"), "w"), indent=1)
    print("MANIFEST.json:", len(checks), "checks,", len(man["not_applicable"]), "not claimed")


if __name__ == "__main__":
    main()

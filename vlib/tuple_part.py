"""Clause lists laid out as REAL Rust tuple expressions (the path every user takes: `Clause for (T1, .., Tn)`,
src/clause.rs) for the properties whose statement speaks about declaration order.  The Layer A harness feeds
clauses through the DynClause hook and therefore never touches the tuple impls; this part renders the same
term language as literal tuples of a chosen arity / nesting (vlib/layer_d.py, a private copy of harness/deleg),
runs them on the real crate and compares with the model run on the clause LIST (declaration order)."""
from . import common as C
from . import cases as K
from . import layer_d as D

FEATURES = ["std-build"]          # trait T only


def each(mid, mask, tag, dbg):
    return {"kind": "call", "mid": mid, "opener": "each", "pat": {"matcher": mask, "dbg": dbg, "ops": [("ret", tag)]}}


def nxt(mid, tag, dbg, count=None):
    ops = [("ret", tag)] + ([("n", count)] if count is not None else [])
    return {"kind": "call", "mid": mid, "opener": "next", "pat": {"matcher": 255, "dbg": dbg, "ops": ops}}


def overlap_case(rng, n, i):
    """flat n-tuple; elements i and i+1 are patterns of the SAME unordered method, the first specific, the second
    catch-all: a call hitting the overlap must be answered by element i"""
    a = rng.randrange(8)
    terms = []
    for k in range(n):
        if k == i:
            terms.append(each(0, 1 << a, k + 1, k + 1))
            if n % 2 == 0:
                # the specific pattern written with matching!: two alternatives under one trailing guard
                terms[-1]["pat"]["macro"] = "two"
        elif k == i + 1:
            terms.append(each(0, 255, k + 1, k + 1))
        else:
            terms.append(each(rng.choice([1, 2, 3]), rng.randrange(1, 256), k + 1, k + 1))
    b = rng.choice([x for x in range(8) if x != a])
    evs = [{"base": ("call", 0, 0, a)}, {"base": ("call", 0, 0, b)}, {"base": ("call", 0, 0, a)},
           {"base": ("call", 0, rng.choice([1, 2, 3]), rng.randrange(8))}, {"base": ("verify", 0)}]
    return {"partial": rng.random() < 0.3, "terms": terms, "events": evs, "_layout": list(range(n)), "_kind": f"overlap{n}"}


def guarded_case(rng, n, i):
    """flat n-tuple; element i is a pattern that accepts NOTHING, written as a guarded wildcard (`matching!((_) if <false>)`), element
    i+1 the catch-all of the same method written as `matching!((_) if <true>)`; the other matchers are written with matching! too"""
    terms = []
    for k in range(n):
        if k == i: t = each(0, 0, k + 1, k + 1)
        elif k == i + 1: t = each(0, 255, k + 1, k + 1)
        else: t = each(rng.choice([1, 2, 3]), rng.choice([255, rng.randrange(1, 255)]), k + 1, k + 1)
        t["pat"]["macro"] = True
        terms.append(t)
    evs = [{"base": ("call", 0, 0, rng.randrange(8))}, {"base": ("call", 0, rng.choice([1, 2, 3]), rng.randrange(8))},
           {"base": ("call", 0, 0, rng.randrange(8))}, {"base": ("verify", 0)}]
    return {"partial": rng.random() < 0.3, "terms": terms, "events": evs, "_layout": list(range(n)), "_kind": f"guarded{n}"}


def zero_arg_case(rng, n, i):
    """flat n-tuple; elements i and i+1 are patterns of a method WITHOUT parameters (TerminationMock::report, Inputs = ()): the first
    one's matcher rejects the (only possible) argument tuple, the second accepts; report() must be answered by the second"""
    terms = []
    for k in range(n):
        if k == i: terms.append({"kind": "call", "mid": 8, "opener": "each", "pat": {"matcher": 255, "dbg": k + 1, "ops": [("ret", 5)]}})
        elif k == i + 1: terms.append({"kind": "call", "mid": 8, "opener": "each", "pat": {"matcher": 511, "dbg": k + 1, "ops": [("ret", 6)]}})
        else: terms.append(each(rng.choice([1, 2, 3]), 255, k + 1, k + 1))
    evs = [{"base": ("call", 0, t["mid"], rng.randrange(8))} for t in terms if t["mid"] != 8] + [{"base": ("report", 0)}]
    return {"partial": rng.random() < 0.3, "terms": terms, "events": evs, "_layout": list(range(n)), "_kind": f"zeroarg{n}"}


def ordered_case(rng, n):
    """flat n-tuple of ordered clauses over 3 methods: the slot sequence is the written sequence"""
    terms = [nxt(rng.choice([0, 1, 2]), k + 1, k + 1) for k in range(n)]
    args = [rng.randrange(8) for _ in terms]
    for t, a in zip(terms, args):
        if rng.random() < 0.5:
            # the slot's pattern accepts one or two arguments, written as unguarded literal alternatives of matching!; the call uses the first
            t["pat"]["matcher"] = (1 << a) | (1 << rng.choice([x for x in range(8) if x >= a]))
            t["pat"]["macro"] = "lit"
    evs = [{"base": ("call", 0, t["mid"], a)} for t, a in zip(terms, args)] + [{"base": ("verify", 0)}]
    return {"partial": False, "terms": terms, "events": evs, "_layout": list(range(n)), "_kind": f"ordered{n}"}


def random_layout(rng, n, max_width=16):
    """regroup 0..n-1 into nested tuples (width 2..max_width, `()` elements, depth <= 3) keeping left-to-right order"""
    def build(idxs, depth):
        if len(idxs) <= 1 and depth > 0:
            return idxs[0] if idxs else None
        out, k = [], 0
        while k < len(idxs):
            r = rng.random()
            if depth < 3 and r < 0.25 and len(idxs) - k >= 2:
                w = rng.randint(2, min(len(idxs) - k, 6))
                out.append(build(idxs[k:k + w], depth + 1)); k += w
            elif r < 0.33:
                out.append(None)
            else:
                out.append(idxs[k]); k += 1
        while len(out) < 2:
            out.append(None)
        if len(out) > max_width:                      # too wide: split in two halves
            h = len(out) // 2
            out = [out[:h] + ([None] if h == 1 else []), out[h:] + ([None] if len(out) - h == 1 else [])]
        return out
    return build(list(range(n)), 0)


def layout_leaves(l):
    if l is None: return []
    if isinstance(l, int): return [l]
    return [x for e in l for x in layout_leaves(e)]


def targeted_cases(rng, tier):
    out = []
    for n in range(2, 17):
        pos = list(range(n - 1))
        if tier == "quick" and n - 1 > 4:            # every arity; first, last and two random adjacent positions
            pos = sorted({0, n - 2} | set(rng.sample(range(n - 1), 2)))
        out += [overlap_case(rng, n, i) for i in pos]
        out.append(ordered_case(rng, n))
        if n <= 6 or tier != "quick":
            out.append(guarded_case(rng, n, rng.randrange(n - 1)))
        if n in (2, 3, 5) or tier != "quick":
            out.append(zero_arg_case(rng, n, rng.randrange(n - 1)))
    return out


def relayout(rng, case, kind=None):
    """the same clause list as one flat tuple (<= 16 clauses) or a random nest"""
    n = len(case["terms"])
    c = dict(case)
    if n == 0:
        return None
    if rng.random() < 0.5:
        # some of the matchers written with matching! (guarded wildcards, guarded bindings) instead of a matcher function
        import copy
        c["terms"] = copy.deepcopy(case["terms"])
        for t in c["terms"]:
            for p in ([t["pat"]] if t["kind"] == "call" else t["pats"]):
                if rng.random() < 0.5:
                    p["macro"] = True
    if kind == "flat" or (kind is None and 2 <= n <= 16 and rng.random() < 0.5):
        if not 2 <= n <= 16:
            return None
        c["_layout"] = list(range(n)); c["_kind"] = f"flat{n}"
    else:
        c["_layout"] = random_layout(rng, n); c["_kind"] = "nest"
        assert layout_leaves(c["_layout"]) == list(range(n)), c["_layout"]
    return c


def usable(case):
    """cases of the Layer A generators this crate can render: trait T's value methods, events on the interpreter"""
    return all(t["mid"] in (0, 1, 2, 3) for t in case["terms"]) and \
        all(e["base"][0] != "call" or e["base"][2] in (0, 1, 2, 3, 4, 5) for e in case["events"])


def both(crate, cases):
    return D.both(crate, cases, FEATURES)


def disagreements(crate, cases, project):
    impl, model = both(crate, cases)
    bad = [k for k, c in enumerate(cases) if project(c, impl[k]) != project(c, model[k])]
    return bad, impl, model


def shrink(crate, case, project, rounds=6):
    """drop clauses (re-indexing the layout to a flat/nested one of the same kind) or events while the difference stays"""
    cur = case
    for _ in range(rounds):
        cands = []
        n = len(cur["terms"])
        for k in range(n):
            if n - 1 < 2: break
            c = dict(cur); c["terms"] = cur["terms"][:k] + cur["terms"][k + 1:]
            lay = cur.get("_layout")
            if lay is not None and all(isinstance(x, int) for x in lay):
                c["_layout"] = list(range(n - 1))
            else:
                c["_layout"] = None
            cands.append(c)
        for k in range(len(cur["events"]) - 1):
            c = dict(cur); c["events"] = cur["events"][:k] + cur["events"][k + 1:]; cands.append(c)
        cands = cands[:40]
        if not cands: break
        bad, _, _ = disagreements(crate, cands, project)
        if not bad: break
        cur = cands[bad[0]]
    return cur


def replay_payload(prop, crate, case, project, seed, what):
    impl, model = both(crate, [case])
    return {"property": prop, "seed": seed, "part": "tuples", "theorem_or_correspondence": what,
            "case": {k: v for k, v in case.items()}, "rust_clause": D.rust_clause(case["terms"], case.get("_layout")),
            "coq_case": D.coq_case(case), "expected_by_model": model[0], "observed_on_implementation": impl[0],
            "replay_cmd": f"./check {prop} --replay <this file>"}


class TuplePart:
    """a correspondence part for runner.run_coexec: targeted flat tuples of every arity + re-laid-out cases of the
    property's own generator"""
    def __init__(self, prop, project, n_quick=40, n_thorough=400):
        self.prop, self.project = prop, project
        self.crate = "tuples" + prop[1:]
        self.n = {"quick": n_quick, "thorough": n_thorough}

    def __call__(self, rng, tier, seed, cases):
        tc = targeted_cases(rng, tier)
        pool = [c for c in cases if usable(c) and len(c["terms"]) >= 2]
        rng.shuffle(pool)
        for c in pool[:self.n[tier]]:
            r = relayout(rng, {k: v for k, v in c.items() if not k.startswith("_")})
            if r is not None:
                tc.append(r)
        bad, impl, model = disagreements(self.crate, tc, self.project)
        import collections
        cov = {"tuple_part": {"evaluations": len(tc), "kinds": dict(collections.Counter(
                   ("overlap" if c["_kind"].startswith("overlap") else "ordered" if c["_kind"].startswith("ordered")
                    else "flat" if c["_kind"].startswith("flat") else "nest") for c in tc)),
               "rule": "flat tuples of every arity 2..16 with two overlapping patterns of one method at adjacent positions "
                       "(every position in the thorough tier) and with ordered clauses only; cases of the property's own generator "
                       "re-laid out as one flat tuple or a random nest of tuples; model = the clause list in written order"}}
        if bad:
            small = shrink(self.crate, tc[bad[0]], self.project)
            payload = replay_payload(self.prop, self.crate, small, self.project, seed,
                                     f"correspondence {self.prop} (tuple part): clause list written as a real tuple expression vs the model on the list in written order")
            payload["original_case"] = tc[bad[0]]
            payload["disagreeing_cases_in_run"] = len(bad)
            return len(tc), payload, cov
        return len(tc), None, cov

"""Co-execution engine for the Layer A properties (runtime core, sequential)."""
import json, os, re, time, random, copy
from . import common as C
from . import cases as K

TOKEN = re.compile(r"(?:T::m\d|G::g|D::\w+|Termination::report|M::\w+)(?:\(p\d+\)|\[#\d+\])?")


def tokens(line):
    return tuple(sorted(TOKEN.findall(line)))


def is_panic(o):
    return o.startswith("P:")


def msg_lines(o):
    """lines of a panic message (newlines were escaped as backslash-n)"""
    return o[2:].split("\\n")


def proj_outcome(o):
    """a call's outcome: the value it produced, or just 'it panicked'"""
    return "P" if is_panic(o) else o


ERROR_KINDS = [
    ("No mock implementation found", "NoMockImplementation"),
    ("No function supplied for matching inputs", "NoMatcherFunction"),
    ("No matching call patterns", "NoMatchingCallPatterns"),
    ("No output available for after matching", "NoOutputAvailable"),
    ("was never called", "MockNeverCalled"),
    ("Method matched in wrong order", "CallOrderNotMatched"),
    ("out of range: There were no more ordered call patterns", "CallOrderOutOfRange"),
    ("Method invoked in the correct order", "InputsNotMatchedInCallOrder"),
    ("Cannot return value more than once", "CannotReturnValueMoreThanOnce"),
    ("cannot be unmocked as there is no function available", "CannotUnmock"),
    ("has not been set up with default implementation delegation", "NoDefaultImpl"),
    ("did not apply the answer function", "NotAnswered"),
    ("Explicit panic from", "ExplicitPanic"),
    ("to match exactly", "FailedVerification:exactly"),
    ("to match at least", "FailedVerification:atleast"),
    ("clones still alive", "ClonesAlive"),
    ("destroyed on a different thread", "WrongThread"),
    ("Called verify() on a cloned instance", "VerifyOnClone"),
    ("Called no_verify_on_drop() on a cloned instance", "NvidOnClone"),
]


def error_kind(line):
    for needle, kind in ERROR_KINDS:
        if needle in line:
            return kind
    return "Other:" + line[:40]


def proj_outcome_kind(o):
    """a call's outcome: the value, or (kind of mock error, what it names)"""
    if is_panic(o):
        ls = msg_lines(o)
        if len(ls) > 1:      # a verification message (the call consumed the instance): lines as a multiset
            return ("P", tuple(sorted((error_kind(l), tokens(l)) for l in ls)))
        return ("P", error_kind(ls[0]), tokens(ls[0]))
    return o


def proj_verdict_kind(o):
    if is_panic(o):
        return ("P", tuple(sorted((error_kind(l), tokens(l)) for l in msg_lines(o))))
    return o


def proj_kinds(case, obs):
    """like proj_default, but panics keep their error kind and the names they mention"""
    if not obs or obs[0] != "new:ok":
        return [("new", "P") if o.startswith("new:P:") else o.split(" ")[0] for o in obs[:1]]
    out = ["new:ok"]
    for e, o in zip(case["events"], obs[1:]):
        if e["base"][0] == "call":
            out.append(proj_outcome_kind(o))
        else:
            out.append(proj_verdict_kind(o))
    if len(obs) - 1 != len(case["events"]):
        out.append(("LENGTH", len(obs) - 1))
    return out


def proj_verdict(o):
    """verification outcome: silent / exit code / the multiset of what each line names"""
    if is_panic(o):
        return ("P", tuple(sorted(tokens(l) for l in msg_lines(o))))
    return o


def proj_default(case, obs):
    """calls -> value or 'P'; life-cycle events -> verdict projection"""
    if not obs or obs[0] != "new:ok":
        return [("new", "P") if o.startswith("new:P:") else o.split(" ")[0] for o in obs[:1]]
    out = ["new:ok"]
    for e, o in zip(case["events"], obs[1:]):
        if e["base"][0] == "call":
            out.append(proj_outcome(o))
        else:
            out.append(proj_verdict(o))
    if len(obs) - 1 != len(case["events"]):
        out.append(("LENGTH", len(obs) - 1))
    return out


class Engine:
    def __init__(self, prop, bc="cfg_std", features=None, project=proj_default):
        self.prop = prop
        self.bc = bc
        self.features = features
        self.project = project
        self.binary = None

    def build(self):
        self.binary = C.build_harness("core", self.features)

    def adapt(self, case):
        """`impl Termination for Unimock` exists only with the std feature (src/lib.rs, cfg(feature = "std")):
        on a no_std build report() is not an operation, so a report event is run as the drop it would
        otherwise contain (same instance, same position)."""
        if self.bc == "cfg_std" or not any(e["base"][0] == "report" for e in case["events"]):
            return case
        c = dict(case)
        c["events"] = [dict(e, base=("drop",) + tuple(e["base"][1:])) if e["base"][0] == "report" else e
                       for e in case["events"]]
        return c

    def both(self, cases):
        cases = [self.adapt(c) for c in cases]
        lines = [K.harness_line(c, i) for i, c in enumerate(cases)]
        impl = C.run_harness(self.binary, lines)
        model = C.coq_eval_cases(K.COQ_PRELUDE, [K.coq_case(c, self.bc) for c in cases])
        return impl, model

    def disagreements(self, cases):
        impl, model = self.both(cases)
        bad = []
        for i, c in enumerate(cases):
            pi, pm = self.project(c, impl[i]), self.project(c, model[i])
            if pi != pm:
                bad.append((i, impl[i], model[i]))
        return bad, impl, model

    def shrink(self, case, rounds=40):
        cur = case
        for _ in range(rounds):
            cands = K.shrink_candidates(cur)
            if not cands:
                break
            bad, _, _ = self.disagreements(cands)
            if not bad:
                break
            cur = cands[bad[0][0]]
        return cur

    def replay_payload(self, case, seed, theorem):
        impl, model = self.both([case])
        pi, pm = self.project(case, impl[0]), self.project(case, model[0])
        first = next((k for k, (a, b) in enumerate(zip(pi, pm)) if a != b), min(len(pi), len(pm)))
        return {
            "property": self.prop, "seed": seed, "build": self.bc, "features": self.features,
            "theorem_or_correspondence": theorem,
            "case": case, "harness_line": K.harness_line(case, "replay"),
            "coq_case": K.coq_case(case, self.bc),
            "expected_by_model": model[0], "observed_on_implementation": impl[0],
            "first_difference_at_observation": first,
            "replay_cmd": f"./check {self.prop} --replay <this file>",
        }

"""Shared plumbing of the verification driver: building the Coq development and
the Rust harnesses against /repo's current working tree, running both sides on
the same cases, evidence and violation reporting."""
import json, os, re, subprocess, sys, time, hashlib, shutil, tempfile, random
from concurrent.futures import ThreadPoolExecutor

VERIF = os.path.dirname(os.path.dirname(os.path.abspath(__file__)))
REPO = os.environ.get("VERIF_REPO", "/repo")
COQ = os.path.join(VERIF, "coq")
CACHE = os.path.join(VERIF, ".cache")
EVIDENCE = os.path.join(VERIF, "evidence")
REPLAYS = os.path.join(VERIF, "replays")
NCPU = int(os.environ.get("VERIF_JOBS", "16"))
TIER = "quick"      # set by main(); the thorough tier adds the independent re-check with coqchk

ENV = dict(os.environ)
ENV.update({"CARGO_NET_OFFLINE": "true", "GOPROXY": "off", "PIP_NO_INDEX": "1"})

TRUSTED_BASE = [
    "Coq 8.16.1 kernel and vm_compute (no native_compute)",
    "axioms: none (Print Assumptions of every property theorem: Closed under the global context)",
    "hand-written Gallina models under /verif/coq/Model (modelled, not verified: tied to /repo by co-execution on this run's cases)",
    "Python driver /verif/vlib (generation, projection, comparison), Rust harnesses /verif/harness, hooks behind --cfg unimock_verif",
    "rustc/cargo 1.95, Rust's documented semantics of panics, Drop, Arc, Mutex, atomics",
]


class CheckFailure(Exception):
    """An obligation or the correspondence could not be established (no concrete input)."""

    def __init__(self, what, detail=""):
        super().__init__(what)
        self.what = what
        self.detail = detail


def sh(cmd, cwd=None, timeout=1200, env=None, input=None):
    p = subprocess.run(cmd, cwd=cwd, env=env or ENV, timeout=timeout, input=input,
                       stdout=subprocess.PIPE, stderr=subprocess.PIPE, text=True,
                       shell=isinstance(cmd, str))
    return p.returncode, p.stdout, p.stderr


# ---------------------------------------------------------------- Coq side

_HYGIENE = re.compile(r"\b(Admitted|admit|Axiom|Axioms|Parameter|Parameters|Conjecture|Hypothesis|Variable)\b|Unset Guard|bypass_check|type-in-type|impredicative-set|Admit Obligations")


def coq_hygiene():
    """No Admitted/admit/Axiom/... anywhere in the development (Variables are
    allowed inside Sections only; checked by Print Assumptions being closed)."""
    bad = []
    for root, _, files in os.walk(COQ):
        for f in files:
            if not f.endswith(".v"):
                continue
            path = os.path.join(root, f)
            depth = 0
            for n, line in enumerate(open(path), 1):
                code = re.sub(r"\(\*.*?\*\)", "", line)
                if re.match(r"\s*Section\b", code):
                    depth += 1
                if re.match(r"\s*End\b", code) and depth > 0:
                    depth -= 1
                m = _HYGIENE.search(code)
                if m:
                    if m.group(1) in ("Variable", "Hypothesis") and depth > 0:
                        continue
                    bad.append(f"{path}:{n}: {line.strip()}")
    return bad


def build_coq(targets=None, timeout=1500):
    """Full .vo build (never -vos).  Returns (ok, log)."""
    if not os.path.exists(os.path.join(COQ, "Makefile")):
        rc, out, err = sh(["coq_makefile", "-f", "_CoqProject", "-o", "Makefile"], cwd=COQ)
        if rc != 0:
            return False, out + err
    cmd = ["make", f"-j{NCPU}"] + (targets or [])
    rc, out, err = sh(cmd, cwd=COQ, timeout=timeout)
    return rc == 0, out + err


def print_assumptions(module, theorems, timeout=300):
    """Returns {theorem: 'closed' | [axioms...]} by compiling a throw-away file."""
    d = tempfile.mkdtemp(prefix="vassum")
    try:
        src = f"From Unimock Require Import {module}.\n"
        for t in theorems:
            src += f'Goal True. idtac "@@ {t}". exact I. Qed.\nPrint Assumptions {t}.\n'
        open(os.path.join(d, "A.v"), "w").write(src)
        rc, out, err = sh(["coqc", "-noglob", "-Q", COQ, "Unimock", "A.v"], cwd=d, timeout=timeout)
        if rc != 0:
            raise CheckFailure(f"Print Assumptions run failed for {module}", out + err)
        res = {}
        cur = None
        for line in out.splitlines():
            if line.startswith("@@ "):
                cur = line[3:].strip()
                res[cur] = []
            elif cur is not None:
                if "Closed under the global context" in line:
                    res[cur] = "closed"
                elif line.strip() and res[cur] != "closed" and not line.startswith("Axioms:"):
                    res[cur].append(line.strip())
        return res
    finally:
        shutil.rmtree(d, ignore_errors=True)


def proof_obligations(prop, module, theorems):
    """Step 1 of a check: the development builds, is free of admits/axioms and
    every property theorem is closed.  Returns the obligation records."""
    bad = coq_hygiene()
    if bad:
        raise CheckFailure("forbidden vernacular in the Coq development", "\n".join(bad))
    ok, log = build_coq()
    if not ok:
        raise CheckFailure(f"Coq development does not build (theorems for {prop} not established)", log[-4000:])
    res = print_assumptions(module, theorems)
    chk = coqchk(module) if TIER == "thorough" else None
    obl = []
    for t in theorems:
        a = res.get(t)
        if a != "closed":
            raise CheckFailure(f"theorem {t} depends on axioms or is missing", str(a))
        obl.append({"theorem": f"{module}.{t}", "assumptions": "Closed under the global context"})
    if chk is not None:
        obl.append({"theorem": f"coqchk -o -silent Unimock.{module} (independent re-check of the compiled files and all their dependencies)",
                    "assumptions": chk})
    return obl


def coqchk(module, timeout=1500):
    """Independent checker over the property module and everything it depends on; returns its axiom summary."""
    rc, out, err = sh(["coqchk", "-o", "-silent", "-Q", COQ, "Unimock", f"Unimock.{module}"], cwd=COQ, timeout=timeout)
    text = out + err
    if rc != 0:
        raise CheckFailure(f"coqchk rejects Unimock.{module}", text[-3000:])
    m = re.search(r"\* Axioms:\s*(.*?)\n\s*\n", text, re.S)
    axioms = " ".join(m.group(1).split()) if m else "?"
    if axioms != "<none>":
        raise CheckFailure(f"coqchk reports axioms for Unimock.{module}", axioms)
    for label in ("type-in-type", "unsafe (co)fixpoints", "positivity is assumed"):
        m2 = re.search(re.escape(label) + r":\s*(.*?)\n", text)
        if m2 and m2.group(1).strip() != "<none>":
            raise CheckFailure(f"coqchk: {label}: {m2.group(1).strip()}", text[-2000:])
    return "coqchk: Axioms: <none>"


def coq_eval_cases(prelude, case_terms, show="lines_of_cases", shard=100, timeout=900):
    """Evaluate the model on the given Coq case terms (vm_compute), sharded over
    several coqc processes.  Returns one list of observation lines per case."""
    shards = [case_terms[i:i + shard] for i in range(0, len(case_terms), shard)]
    d = tempfile.mkdtemp(prefix="vcases")

    def run(ix):
        name = f"cases{ix}"
        src = prelude + "\nDefinition cases := [\n" + ";\n".join(shards[ix]) + "\n].\n" \
            + f"Eval vm_compute in ({show} cases).\n"
        open(os.path.join(d, name + ".v"), "w").write(src)
        # (long histories recurse deeply in the VM: evaluate with the hard stack limit instead of the 8 MiB default)
        rc, out, err = sh(f"ulimit -s $(ulimit -Hs) 2>/dev/null; exec coqc -noglob -Q {COQ} Unimock {name}.v", cwd=d, timeout=timeout)
        if rc != 0:
            raise CheckFailure("model evaluation failed (coqc)", (out + err)[-3000:])
        return "\n".join(parse_coq_strings(out))

    try:
        with ThreadPoolExecutor(max_workers=NCPU) as ex:
            outs = list(ex.map(run, range(len(shards))))
    finally:
        shutil.rmtree(d, ignore_errors=True)
    res = []
    for text in outs:
        res.extend(split_cases(text))
    if len(res) != len(case_terms):
        raise CheckFailure("model evaluation returned a wrong number of cases", f"{len(res)} vs {len(case_terms)}")
    return res


def parse_coq_strings(out):
    """All string literals of a printed `list string` answer, in order."""
    res, i, n = [], out.index("= "), len(out)
    while i < n:
        if out[i] == '"':
            j = i + 1
            buf = []
            while True:
                if out[j] == '"':
                    if j + 1 < n and out[j + 1] == '"':
                        buf.append('"')
                        j += 2
                        continue
                    break
                buf.append(out[j])
                j += 1
            res.append("".join(buf))
            i = j + 1
        else:
            i += 1
    return res


def parse_coq_string(out):
    """Text of the single `= "..." : string` answer printed by coqc."""
    i = out.index('= "')
    j = out.rindex('"\n     : string')
    return out[i + 3:j].replace('""', '"')


def split_cases(text):
    cases, cur = [], []
    for line in text.split("\n"):
        if line == "--":
            cases.append(cur)
            cur = []
        elif line.startswith("case "):
            continue
        else:
            cur.append(line)
    return cases


# ---------------------------------------------------------------- Rust side

def build_harness(name, features=None, timeout=1500):
    """cargo build of /verif/harness/<name> against /repo's current working tree."""
    hdir = os.path.join(VERIF, "harness", name)
    tmpl = os.path.join(hdir, "Cargo.toml.in")
    if os.path.exists(tmpl):
        # the dependency path is the repository under test (VERIF_REPO, default /repo)
        text = open(tmpl).read().replace("@REPO@", REPO)
        toml = os.path.join(hdir, "Cargo.toml")
        if not os.path.exists(toml) or open(toml).read() != text:
            open(toml, "w").write(text)
    lock = os.path.join(REPO, "Cargo.lock")
    if os.path.exists(lock) and not os.path.exists(os.path.join(hdir, "Cargo.lock")):
        shutil.copy(lock, os.path.join(hdir, "Cargo.lock"))
    tag = name + ("-" + "-".join(features) if features else "")
    target = os.path.join(CACHE, "target", tag)
    cmd = ["cargo", "build", "--offline", "--quiet"]
    if features is not None:
        cmd += ["--no-default-features", "--features", ",".join(features)]
    env = dict(ENV)
    env["CARGO_TARGET_DIR"] = target
    env["RUSTFLAGS"] = "--cfg unimock_verif"
    rc, out, err = sh(cmd, cwd=hdir, timeout=timeout, env=env)
    if rc != 0:
        raise CheckFailure(f"harness {tag} does not build against the current tree", (out + err)[-4000:])
    rc, out, err = sh(["cargo", "metadata", "--offline", "--format-version", "1", "--no-deps"], cwd=hdir, env=env)
    binname = json.loads(out)["packages"][0]["targets"][0]["name"]
    return os.path.join(target, "debug", binname)


def run_harness(binary, lines, timeout=900, jobs=None):
    """Run the case interpreter on the given case lines (sharded over processes).
    Returns one list of observation lines per case; a crashed process yields
    ['CRASH <status>'] for the case it died in and the rest are re-run."""
    jobs = jobs or NCPU
    if os.environ.get("VERIF_SAVE_LINES"):
        # analysis aid (coverage of the repository under the generated inputs): keep the case lines given to each harness binary
        with open(os.path.join(os.environ["VERIF_SAVE_LINES"], os.path.basename(binary) + ".lines"), "a") as f:
            f.write("\n".join(lines) + "\n")
    n = len(lines)
    size = max(1, (n + jobs - 1) // jobs)
    shards = [(i, lines[i:i + size]) for i in range(0, n, size)]
    d = tempfile.mkdtemp(prefix="vrun")
    results = [None] * n

    def run(shard):
        start, ls = shard
        pos = 0
        while pos < len(ls):
            path = os.path.join(d, f"in{start}_{pos}.txt")
            open(path, "w").write("\n".join(ls[pos:]) + "\n")
            p = subprocess.run([binary, path], stdout=subprocess.PIPE, stderr=subprocess.PIPE,
                               text=True, timeout=timeout, env=ENV)
            done = split_harness(p.stdout)
            for k, obs in enumerate(done["complete"]):
                results[start + pos + k] = obs
            pos += len(done["complete"])
            if p.returncode != 0 or done["partial"] is not None:
                if pos < len(ls):
                    results[start + pos] = (done["partial"] or []) + [f"CRASH status={p.returncode}"]
                    pos += 1
                else:
                    break
            elif pos < len(ls):
                results[start + pos] = ["CRASH no output"]
                pos += 1

    try:
        with ThreadPoolExecutor(max_workers=jobs) as ex:
            list(ex.map(run, shards))
    finally:
        shutil.rmtree(d, ignore_errors=True)
    return results


def split_harness(text):
    complete, cur, incase = [], None, False
    for line in text.split("\n"):
        if line.startswith("case "):
            cur = []
        elif line == "--" and cur is not None:
            complete.append(cur)
            cur = None
        elif cur is not None:
            cur.append(line)
    return {"complete": complete, "partial": cur}


def inventory_obligation(with_dtrait=False):
    """The model's method table (Model/Run.v: hinfo) against the MockFnInfo the real macro generated for
    every method of the harness inventory (hook verif::mock_fn_facts): regenerated and re-checked by Coq."""
    binary = build_harness("core", ["std-build", "dtrait"] if with_dtrait else None)
    rows = run_harness(binary, ["info"], jobs=1)[0]
    items = []
    for r in rows:
        mid, tr, me, d, p = r.split(" ")
        items.append(f'({mid}, "{tr}", "{me}", {d}, {p})')
    src = ("From Unimock Require Import Model.Run.\nOpen Scope N_scope.\nOpen Scope string_scope.\n"
           "Definition observed : list (N * string * string * bool * bool) := [" + "; ".join(items) + "].\n"
           "Definition row_ok (r : N * string * string * bool * bool) : bool :=\n"
           "  let '(m, tr, me, d, p) := r in\n"
           "  (String.eqb (mi_trait (hinfo m)) tr && String.eqb (mi_method (hinfo m)) me &&\n"
           "   Bool.eqb (mi_has_default (hinfo m)) d && Bool.eqb (mi_partial_by_default (hinfo m)) p)%bool.\n"
           "Lemma inventory_ok : forallb row_ok observed = true.\nProof. vm_compute. reflexivity. Qed.\n")
    d = tempfile.mkdtemp(prefix="vinv")
    try:
        open(os.path.join(d, "InventoryCheck.v"), "w").write(src)
        rc, out, err = sh(["coqc", "-noglob", "-Q", COQ, "Unimock", "InventoryCheck.v"], cwd=d, timeout=300)
        if rc != 0 or len(rows) < (23 if with_dtrait else 12):
            raise CheckFailure("InventoryCheck.inventory_ok: the model's method table (hinfo) no longer matches the MockFnInfo generated by the macro",
                               "\n".join(rows) + "\n" + (out + err)[-1500:])
    finally:
        shutil.rmtree(d, ignore_errors=True)
    return [{"theorem": f"InventoryCheck.inventory_ok (regenerated: MockFnInfo of {len(rows)} inventory methods = Model.Run.hinfo)",
             "assumptions": "Closed under the global context"}]


# ---------------------------------------------------------------- reporting

def known_findings():
    p = os.path.join(VERIF, "known_findings.json")
    if not os.path.exists(p):
        return {"known": [], "fixed": []}
    return json.load(open(p))


def write_evidence(prop, tier, seed, coverage, wall, violations=0, assumptions=None):
    os.makedirs(EVIDENCE, exist_ok=True)
    ev = {
        "property_id": prop, "tier": tier, "seed": seed, "level": "proof",
        "coverage": coverage, "wall_s": round(wall, 2), "violations": violations,
        "assumptions": assumptions or [],
    }
    tmp = os.path.join(EVIDENCE, f".{prop}.json.tmp")
    json.dump(ev, open(tmp, "w"), indent=1)
    os.replace(tmp, os.path.join(EVIDENCE, f"{prop}.json"))


def write_replay(prop, seed, payload):
    os.makedirs(REPLAYS, exist_ok=True)
    path = os.path.join(REPLAYS, f"{prop}-{seed}.json")
    json.dump(payload, open(path, "w"), indent=1)
    return path


def violation(prop, path, no_input=False):
    print(f"VIOLATION property={prop} replay={path}" + (" no-failing-input-found" if no_input else ""))
    sys.stdout.flush()

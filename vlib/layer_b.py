"""Co-execution for Layer B: the real runtime under the controlled scheduler
(harness/sched) against Model/RunConc.v, on the same schedule."""
import itertools, json, random
from . import common as C
from . import cases as K
from .layer_a import proj_outcome_kind, proj_verdict_kind

PRELUDE = "From Unimock Require Import Model.RunConc.\nOpen Scope N_scope.\n"


def harness_line(case, cid):
    th = " ".join(f"{len(t)} " + " ".join(f"{m}:{a}" for (m, a) in t) if t else "0" for t in case["threads"])
    return " ".join([f"case {cid}", "partial" if case["partial"] else "strict", f"T {len(case['terms'])}"]
                    + [K.term_tok(t) for t in case["terms"]]
                    + [f"TH {len(case['threads'])}", th, f"S {len(case['sched'])}"] + [str(x) for x in case["sched"]])


def coq_case(case):
    ths = "; ".join("[" + "; ".join(f"({m}, {a})" for (m, a) in t) + "]" for t in case["threads"])
    return (f"CKase {'true' if case['partial'] else 'false'} [{'; '.join(K.coq_term(t) for t in case['terms'])}] "
            f"[{ths}] [{'; '.join(str(x) for x in case['sched'])}]")


def project(obs):
    """(trace with canonical location numbers, per-thread outcomes, verdict)"""
    if not obs or obs[0] != "new:ok":
        return ("new", obs[0].split(":")[1] if obs else "none")
    canon = {}
    trace, outs, verdict = [], [], None
    for line in obs[1:]:
        if line.startswith("verify:"):
            v = line[len("verify:"):]
            verdict = proj_verdict_kind(v) if v.startswith("P:") else v
        elif line.startswith("T"):
            tid, _, rest = line.partition(" ")
            outs.append((tid, tuple(proj_outcome_kind(o) for o in rest.split("|")) if rest else ()))
        elif line.startswith("t"):
            tid, op, locname = line.split(" ", 2)
            trace.append((tid, op, canon.setdefault(locname, len(canon))))
        else:
            trace.append(("?", line, -1))
    return (tuple(trace), tuple(outs), verdict)


def results_only(p):
    """what the property is about: which responses/positions the calls got and the verdict (not the shape of the trace)"""
    return p[1:] if len(p) == 3 else p


class SchedEngine:
    def __init__(self):
        self.binary = None

    def build(self):
        self.binary = C.build_harness("sched")

    def impl(self, cases):
        return C.run_harness(self.binary, [harness_line(c, i) for i, c in enumerate(cases)], timeout=600)

    def model(self, cases):
        return C.coq_eval_cases(PRELUDE, [coq_case(c) for c in cases], show="lines_of_ccases", shard=60)

    def both(self, cases):
        return self.impl(cases), self.model(cases)


def all_schedules(threads_ops):
    """all interleavings of threads where thread t has threads_ops[t] operations"""
    def rec(rem):
        if all(r == 0 for r in rem):
            yield []
            return
        for t, r in enumerate(rem):
            if r:
                rem2 = list(rem); rem2[t] -= 1
                for tail in rec(rem2):
                    yield [t] + tail
    return rec(list(threads_ops))

"""Co-execution for Layer B: the real runtime under the controlled scheduler
(harness/sched) against Model/RunConc.v, on the same schedule."""
import itertools, json, random
from . import common as C
from . import cases as K
from .layer_a import proj_outcome_kind, proj_verdict_kind

PRELUDE = "From Unimock Require Import Model.RunConc.\nOpen Scope N_scope.\n"


def harness_line(case, cid):
    th = " ".join(f"{len(t)} " + " ".join(f"{m}:{a}" for (m, a) in t) if t else "0" for t in case["threads"])
    # shared: the threads use the original by reference instead of clones of it (the model does not distinguish: clones share everything)
    return " ".join([f"case {cid}", ("partial" if case["partial"] else "strict") + ("S" if case.get("shared") else "") + ("R" if case.get("report") else "") + ("F" if case.get("free") else ""), f"T {len(case['terms'])}"]
                    + [K.term_tok(t) for t in case["terms"]]
                    + [f"TH {len(case['threads'])}", th, f"S {len(case['sched'])}"] + [str(x) for x in case["sched"]])


def coq_case(case):
    ths = "; ".join("[" + "; ".join(f"({m}, {a})" for (m, a) in t) + "]" for t in case["threads"])
    return (f"{'CKaseR' if case.get('report') else 'CKase'} {'true' if case['partial'] else 'false'} [{'; '.join(K.coq_term(t) for t in case['terms'])}] "
            f"[{ths}] [{'; '.join(str(x) for x in case['sched'])}]")


def project(obs):
    """(trace with canonical location numbers, per-thread outcomes, verdict)"""
    if not obs or obs[0] != "new:ok":
        return ("new", obs[0].split(":")[1] if obs else "none")
    canon = {}
    trace, outs, verdict = [], [], None
    for line in obs[1:]:
        if line.startswith("verify:"):
            v = line[len("verify:"):]
            verdict = proj_verdict_kind(v) if v.startswith("P:") else v
        elif line.startswith("T"):
            tid, _, rest = line.partition(" ")
            outs.append((tid, tuple(proj_outcome_kind(o) for o in rest.split("|")) if rest else ()))
        elif line.startswith("t"):
            tid, op, locname = line.split(" ", 2)
            trace.append((tid, op, canon.setdefault(locname, len(canon))))
        else:
            trace.append(("?", line, -1))
    return (tuple(trace), tuple(outs), verdict)


def results_only(p):
    """what the property is about: which responses/positions the calls got and the verdict (not the shape of the trace)"""
    return p[1:] if len(p) == 3 else p


class SchedEngine:
    def __init__(self):
        self.binary = None

    def build(self):
        self.binary = C.build_harness("sched")

    def impl(self, cases):
        return C.run_harness(self.binary, [harness_line(c, i) for i, c in enumerate(cases)], timeout=600)

    def model(self, cases):
        return C.coq_eval_cases(PRELUDE, [coq_case(c) for c in cases], show="lines_of_ccases", shard=60)

    def both(self, cases):
        return self.impl(cases), self.model(cases)


def all_schedules(threads_ops):
    """all interleavings of threads where thread t has threads_ops[t] operations"""
    def rec(rem):
        if all(r == 0 for r in rem):
            yield []
            return
        for t, r in enumerate(rem):
            if r:
                rem2 = list(rem); rem2[t] -= 1
                for tail in rec(rem2):
                    yield [t] + tail
    return rec(list(threads_ops))


class ConcurrentPart:
    """a correspondence part for runner.run_coexec: small programs of threads (each thread works through its own CLONE of the mock) on the
    real runtime under the controlled scheduler, every interleaving of the atomic operations (two spare steps per thread so that operations the
    model does not have are interleaved too), against the Layer B model; compared on every call's outcome and the verdict"""
    def __init__(self, prop, programs, what, cap_quick=250, cap_thorough=1500):
        self.prop, self.programs, self.what = prop, programs, what
        self.cap = {"quick": cap_quick, "thorough": cap_thorough}

    def __call__(self, rng, tier, seed, cases):
        eng = SchedEngine()
        eng.build()
        progs = self.programs(rng, tier)
        base = eng.model(progs)
        ccases = []
        for c, obs in zip(progs, base):
            counts = [0] * len(c["threads"])
            for l in obs:
                if l.startswith("t") and " " in l and l[1:l.index(" ")].isdigit():
                    counts[int(l[1:l.index(" ")])] += 1
            scheds = list(all_schedules([min(n + 2, 7) for n in counts]))
            cap = max(20, self.cap[tier] // max(1, len(progs)))
            if len(scheds) > cap:
                scheds = rng.sample(scheds, cap)
            ccases += [dict(c, sched=s) for s in scheds]
        impl, model = eng.both(ccases)
        bad = [i for i in range(len(ccases)) if results_only(project(impl[i])) != results_only(project(model[i]))]
        cov = {"concurrent_part": {"evaluations": len(ccases), "programs": len(progs), "rule": ConcurrentPart.__doc__}}
        if not bad:
            return len(ccases), None, cov
        i = min(bad, key=lambda k: (sum(len(t) for t in ccases[k]["threads"]), len(ccases[k]["sched"])))
        payload = {"property": self.prop, "seed": seed, "part": "sched", "theorem_or_correspondence": self.what,
                   "case": ccases[i], "harness_line": harness_line(ccases[i], "replay"), "coq_case": coq_case(ccases[i]),
                   "expected_by_model": model[i], "observed_on_implementation": impl[i], "disagreeing_cases_in_run": len(bad),
                   "replay_cmd": f"./check {self.prop} --replay <this file>"}
        return len(ccases), payload, cov


def replay_sched(prop, payload, path):
    eng = SchedEngine()
    eng.build()
    impl, model = eng.both([payload["case"]])
    print("model:", model[0]); print("impl :", impl[0])
    if results_only(project(impl[0])) != results_only(project(model[0])):
        C.violation(prop, path); return 1
    print("agree"); return 0

"""Generated-program co-execution for clause sets over the whole harness inventory
(traits T and D: every receiver kind, two-argument methods, unmock functions that
recurse through the mock).  Clauses are rendered as literal Rust builder chains into
gen.rs of a copy of harness/deleg; events run through the shared interpreter; the
model side is Model/Run.v (BCallD for the D trait)."""
import os, shutil
from . import common as C
from . import cases as K

# mid -> (MockFn path, number of arguments)
METHODS = {8: ("unimock::mock::std::process::TerminationMock::report", 0),     # Inputs = (), output ExitCode
           0: ("TMock::m0", 1), 1: ("TMock::m1", 1), 2: ("TMock::m2", 1), 3: ("TMock::m3", 1),
           10: ("DMock::r0", 1), 11: ("DMock::r1", 1), 12: ("DMock::u2", 2), 13: ("DMock::u3", 2),
           14: ("DMock::p_ref", 1), 15: ("DMock::p_mut", 1), 16: ("DMock::p_val", 1), 17: ("DMock::p_rc", 1),
           18: ("DMock::p_arc", 1), 19: ("DMock::p_pin", 1), 20: ("DMock::m_mut", 1),
           23: ("DMock::r_rc", 1), 24: ("DMock::p_rc2", 1), 29: ("DMock::r_arc", 1), 30: ("DMock::p_arc2", 1),
           33: ("DMock::r_val", 1), 34: ("DMock::p_val2", 1), 35: ("DMock::p_rc3", 1)}
HAS_DEFAULT = {2, 3, 14, 15, 16, 17, 18, 19, 24, 30, 34, 35}
HAS_UNMOCK_ARM = {0, 2, 10, 12, 13}          # 20 has an unmock_with entry but no arm (F1)
CONSUMING = {16, 17, 18, 23, 24, 27, 28, 29, 30, 33, 34, 35}             # by value, sole-owner Rc / Arc
PROVIDED_D = [14, 15, 16, 17, 18, 19, 21, 22, 24, 26, 27, 28, 30, 32, 34, 35, 37]       # 37: HD::hprov (hidden-API trait: never in a clause)
HIDDEN = [36, 37]


def rust_pat(mid, p):
    path, nargs = METHODS[mid]
    body = ""
    if p.get("macro") and p["matcher"] is not None and p["dbg"] is not None and nargs in (1, 2) and not (p["matcher"] >> 16) & 1:
        # the same matcher written with matching!: a guarded wildcard-only pattern when the mask accepts everything / nothing (a guard
        # that does not look at the arguments), a binding with a guard otherwise; the harness' pattern name is set afterwards
        m8 = p["matcher"] & 255
        wild = "(_)" if nargs == 1 else "(_, _)"
        if m8 == 255: inv = f"matching!({wild} if std::hint::black_box(true))"
        elif m8 == 0: inv = f"matching!({wild} if std::hint::black_box(false))"
        elif nargs == 1 and bin(m8).count("1") <= 2 and p["macro"] == "lit":
            # one or two accepted arguments as UNGUARDED literal alternatives (a call with the first one matches a non-last alternative);
            # only where the generator knows that the pattern is never REJECTING a call: an unguarded pattern adds mismatch diagnostics
            # to the error text, which the Layer A model does not print
            bits = [k for k in range(8) if (m8 >> k) & 1]
            inv = f"matching!(({bits[0]}) | ({bits[1] if len(bits) == 2 else 200}))"
        elif nargs == 1 and (p["macro"] == "two" or p["dbg"] % 2 == 0):
            # two alternatives under ONE trailing guard (the first alternative matches no argument the harness uses)
            inv = f"matching!((a @ 200..=255) | (a) if ({m8}u64 >> *a) & 1 == 1)"
        elif nargs == 1: inv = f"matching!((a) if ({m8}u64 >> *a) & 1 == 1)"
        else: inv = f"matching!((a, _) if ({m8}u64 >> *a) & 1 == 1)"
        dbg = f"m.pat_debug(\"(p{p['dbg']})\", \"case.rs\", {p['dbg']}); " if p["dbg"] is not None else ""
        return f"&|m: &mut Matching<{path}>| {{ let inner: &dyn Fn(&mut Matching<{path}>) = {inv}; inner(m); {dbg}}}"
    if p["matcher"] is not None and nargs == 0:
        body += f"m.func(|_: &(), _| ({p['matcher']}u64 >> 8) & 1 == 1); "       # the model's argument code of the empty tuple is 8
    elif p["matcher"] is not None:
        arg = "*a" if nargs == 1 else "a.0"
        ty = "u8" if nargs == 1 else "(u8, u8)"
        body += f"m.func(|a: &{ty}, _| ({p['matcher']}u64 >> {arg}) & 1 == 1); "
    if p["dbg"] is not None:
        body += f"m.pat_debug(\"(p{p['dbg']})\", \"case.rs\", {p['dbg']}); "
    return f"&|m: &mut Matching<{path}>| {{ {body}}}"


def rust_ops(mid, ops):
    nargs = METHODS[mid][1]
    s = ""
    for o in ops:
        k = o[0]
        if k == "ret" and nargs == 0: s += f".returns(std::process::ExitCode::from({o[1]}u8))"
        elif k == "ret": s += f".returns(Val::new(\"r{o[1]}\"))"
        elif k == "retd": s += ".returns_default()"
        elif k in ("ans", "ansarc"):
            params = "_, a" if nargs == 1 else "_, a, _b"
            if o[1] >= 2000 and mid in (10, 11):
                # an answer function that itself calls a provided method on the mock it was handed
                s += f".answers(&|u, a| {{ let inner = D::p_ref(u, 0).take(); Val::new(format!(\"a{o[1]}({{a}})[{{inner}}]\")) }})"
            elif 1000 <= o[1] < 2000:
                s += f".answers(&|{params}| {{ if a < 200 {{ panic!(\"user:ans\") }} Val::new(String::new()) }})"
            else:
                s += f".answers(&|{params}| Val::new(format!(\"a{o[1]}({{a}})\")))"
        elif k == "pan": s += f".panics(\"boom{o[1]}\")"
        elif k == "unm": s += ".applies_unmocked()"
        elif k == "dfl": s += ".applies_default_impl()"
        elif k == "once": s += ".once()"
        elif k == "n": s += f".n_times({o[1]})"
        elif k == "al": s += f".at_least_times({o[1]})"
        elif k == "then": s += ".then()"
        else: raise ValueError(k)
    return s


def rust_term(t):
    mid = t["mid"]
    path = METHODS[mid][0]
    if t["kind"] == "call":
        return f"{path}.{t['opener']}_call({rust_pat(mid, t['pat'])}){rust_ops(mid, t['pat']['ops'])}"
    inner = "".join(f"each.call({rust_pat(mid, p)}){rust_ops(mid, p['ops'])}; " for p in t["pats"])
    return f"{path}.stub(|{'each' if t['pats'] else '_each'}| {{ {inner}}})"


def rust_clause(terms, layout=None):
    """layout=None: nested in chunks of at most 12 so that any number of clauses fits the tuple impls;
    otherwise a nested list whose leaves are indices into `terms` (left to right: 0..n-1) or None for `()`,
    rendered as exactly that nest of Rust tuples (every list has 0 or >= 2 elements)"""
    items = [rust_term(t) for t in terms]
    if layout is not None:
        def render(l):
            if l is None: return "()"
            if isinstance(l, int): return items[l]
            assert len(l) != 1
            return "(" + "".join(render(x) + ", " for x in l) + ")"
        return render(layout)
    def tup(xs):
        if len(xs) == 0: return "()"
        if len(xs) == 1: return "(" + xs[0] + ", ())"
        if len(xs) <= 12: return "(" + ", ".join(xs) + ",)"
        return "(" + tup(xs[:12]) + ", " + tup(xs[12:]) + ")"
    return tup(items)


def coq_event(e):
    b = e["base"]
    if b[0] == "call" and b[2] >= 10:
        o = "true" if e.get("other") else "false"
        return f"Ev {o} false (calld_ {b[1]} {b[2]} {b[3]})"
    return K.coq_event(e)


def coq_case(case):
    return (f"Kase cfg_std {'true' if case['partial'] else 'false'} "
            f"[{'; '.join(K.coq_term(t) for t in case['terms'])}] [{'; '.join(coq_event(e) for e in case['events'])}]")


def prepare_crate(name):
    src = os.path.join(C.VERIF, "harness", "deleg")
    dst = os.path.join(C.VERIF, "harness", name)
    os.makedirs(os.path.join(dst, "src"), exist_ok=True)
    for rel in ("Cargo.toml.in", os.path.join("src", "main.rs")):
        a, b = os.path.join(src, rel), os.path.join(dst, rel)
        text = open(a).read()
        if rel == "Cargo.toml.in":
            text = text.replace('name = "vdeleg"', f'name = "v{name}"')
        if not os.path.exists(b) or open(b).read() != text:
            open(b, "w").write(text)


def write_gen_rs(name, cases):
    arms = "\n".join(f"        {k} => mk(partial, {rust_clause(c['terms'], c.get('_layout'))})," for k, c in enumerate(cases))
    src = ("// generated by vlib/layer_d.py -- do not edit\n#![allow(unused_parens)]\nuse crate::inventory::*;\n"
           "use unimock::private::Matching;\nuse unimock::*;\n\n"
           "fn mk(partial: bool, c: impl Clause) -> Unimock {\n    if partial { Unimock::new_partial(c) } else { Unimock::new(c) }\n}\n\n"
           "pub fn construct(k: usize, partial: bool) -> Unimock {\n    match k {\n" + arms +
           "\n        _ => panic!(\"no such case\"),\n    }\n}\n")
    path = os.path.join(C.VERIF, "harness", name, "src", "gen.rs")
    if not os.path.exists(path) or open(path).read() != src:
        open(path, "w").write(src)


def harness_line(k, case):
    return " ".join([f"case {k} {k}", "partial" if case["partial"] else "strict", f"E {len(case['events'])}"]
                    + [K.event_tok(e) for e in case["events"]])


def both(name, cases, features=None):
    """features=None: the crate's defaults (with trait D); ["std-build"]: trait T only"""
    prepare_crate(name)
    write_gen_rs(name, cases)
    binary = C.build_harness(name, features)
    impl = C.run_harness(binary, [harness_line(k, c) for k, c in enumerate(cases)])
    model = C.coq_eval_cases(K.COQ_PRELUDE, [coq_case(c) for c in cases], shard=40)
    return impl, model

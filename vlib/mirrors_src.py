"""Inventory of the traits mirrored under unimock::mock, read from the CURRENT source
text of $VERIF_REPO/src/mock/*.rs (and the package renames of Cargo.toml), plus the
generator of the wiring program harness/mirrors/src/gen.rs (one call per method and
per mock variant, through the UPSTREAM trait)."""
import os, re
from . import common as C


class InventoryError(Exception):
    pass


def strip_comments(text):
    text = re.sub(r"/\*.*?\*/", "", text, flags=re.S)
    return "\n".join(re.sub(r"//.*$", "", l) for l in text.split("\n"))


def match_close(text, i, open_ch, close_ch):
    """index of the delimiter closing the one at text[i]"""
    depth = 0
    for j in range(i, len(text)):
        if text[j] == open_ch:
            depth += 1
        elif text[j] == close_ch:
            depth -= 1
            if depth == 0:
                return j
    raise InventoryError("unbalanced " + open_ch)


def split_top(s, sep=","):
    out, cur, depth = [], "", 0
    prev = ""
    for ch in s:
        if ch in "(<[{":
            depth += 1
        elif ch in ")]}" or (ch == ">" and prev != "-"):
            depth -= 1
        if ch == sep and depth == 0:
            out.append(cur)
            cur = ""
        else:
            cur += ch
        prev = ch
    if cur.strip():
        out.append(cur)
    return [x.strip() for x in out]


def crate_renames(repo):
    """in-code crate name -> real package name, from [dependencies] `key = { package = "x", ..}`"""
    ren = {}
    for line in open(os.path.join(repo, "Cargo.toml")):
        m = re.match(r'^([\w-]+)\s*=\s*\{\s*package\s*=\s*"([\w-]+)"', line)
        if m:
            ren[m.group(1).replace("-", "_")] = m.group(2).replace("-", "_")
    return ren


def parse_uses(body):
    """ident -> full path for the `use` items directly inside a module body"""
    uses = {}
    for m in re.finditer(r"\buse\s+([^;]+);", body):
        item = re.sub(r"\s+", "", m.group(1))
        def walk(prefix, rest):
            if rest.startswith("{"):
                for part in split_top(rest[1:-1]):
                    walk(prefix, part)
                return
            if "::{" in rest:
                head, tail = rest.split("::{", 1)
                walk(prefix + head + "::", "{" + tail)
                return
            name = rest.split("::")[-1]
            uses[name] = prefix + rest
        walk("", item)
    return uses


def parse_methods(body):
    methods, i = [], 0
    while True:
        m = re.compile(r"\bfn\s+(\w+)\s*").search(body, i)
        if not m:
            break
        name = m.group(1)
        j = m.end()
        if body[j] == "<":
            j = match_close(body, j, "<", ">") + 1
        j = body.index("(", j)
        k = match_close(body, j, "(", ")")
        params = split_top(body[j + 1:k])
        rest_start = k + 1
        # up to `;` or the body `{`
        t = rest_start
        while body[t] not in ";{":
            t += 1
        ret = body[rest_start:t].strip()
        ret = ret[2:].strip() if ret.startswith("->") else ""
        if body[t] == "{":
            end = match_close(body, t, "{", "}")
            provided = True
        else:
            end = t
            provided = False
        recv, args = None, []
        for p in params:
            pn = re.sub(r"\s+", " ", p.strip())
            if pn in ("&self", "&mut self", "self", "mut self"):
                recv = pn.replace("mut self", "self") if pn == "mut self" else pn
            elif pn.startswith("self:"):
                recv = "self: " + norm_type(pn[5:])
            else:
                an, ty = pn.split(":", 1)
                args.append((an.strip().replace("mut ", ""), norm_type(ty)))
        if recv is None:
            i = end + 1
            continue                      # receiver-less fns are skipped by the macro
        methods.append({"name": name, "recv": recv, "args": args, "ret": re.sub(r"\s+", " ", ret), "provided": provided})
        i = end + 1
    return methods


def norm_type(t):
    t = re.sub(r"\s+", "", t)
    return t.replace("&mut", "&mut ").replace("dyn", "dyn ")


def parse_file(path, stem, renames):
    text = strip_comments(open(path).read())
    traits = []

    def rec(body, modpath):
        children = []
        for m in re.finditer(r"\bpub\s+mod\s+(\w+)\s*\{", body):
            o = m.end() - 1
            if any(s <= m.start() <= e for (s, e, _, _) in children):
                continue
            c = match_close(body, o, "{", "}")
            children.append((m.start(), c, m.group(1), body[o + 1:c]))
        own_text = body
        for (s, e, _, _) in sorted(children, reverse=True):
            own_text = own_text[:s] + own_text[e + 1:]
        uses = parse_uses(own_text)
        for m in re.finditer(r"#\[unimock\(([^\]]*)\)\]\s*pub\s+trait\s+(\w+)\s*(<[^>{]*>)?([^{]*)\{", own_text):
            attr = {}
            for part in split_top(m.group(1)):
                if "=" in part:
                    k, v = part.split("=", 1)
                    attr[k.strip()] = re.sub(r"\s+", "", v)
            if "mirror" not in attr:
                continue
            o = m.end() - 1
            c = match_close(own_text, o, "{", "}")
            generics = [g.split(":")[0].strip() for g in split_top(m.group(3)[1:-1])] if m.group(3) else []
            mirror = attr["mirror"]
            segs = mirror.split("::")
            if segs[0] in uses:
                segs = uses[segs[0]].split("::") + segs[1:]
            segs[0] = renames.get(segs[0], segs[0])
            traits.append({
                "file": os.path.basename(path), "modpath": "::".join([stem] + modpath), "api": attr.get("api"),
                "trait": m.group(2), "upstream": "::".join(segs), "generics": generics,
                "methods": parse_methods(own_text[o + 1:c]), "handwritten": False, "partial_by_default": False,
            })
        # hand-written MockFn (Termination::report): `impl MockFn for <ident>` inside a *Mock module
        for m in re.finditer(r"impl\s+MockFn\s+for\s+(\w+)\s*\{", own_text):
            o = m.end() - 1
            c = match_close(own_text, o, "{", "}")
            impl = own_text[o + 1:c]
            pm = re.search(r'\.path\(&\[\s*"(\w+)"\s*,\s*"(\w+)"\s*\]\)', impl)
            if not pm:
                raise InventoryError("hand-written MockFn without a path: " + m.group(1))
            traits.append({
                "file": os.path.basename(path), "modpath": "::".join([stem] + modpath[:-1]), "api": modpath[-1],
                "trait": pm.group(1), "upstream": None, "generics": [], "handwritten": True,
                "partial_by_default": bool(re.search(r"partial_by_default\s*=\s*true", impl)),
                "methods": [{"name": pm.group(2), "recv": "self", "args": [], "ret": "?", "provided": False}],
            })
        for (_, _, name, text) in children:
            rec(text, modpath + [name])

    rec(text, [])
    return traits


HANDWRITTEN_UPSTREAM = {("Termination", "report"): "std::process::Termination"}


def inventory(repo=None):
    repo = repo or C.REPO
    ren = crate_renames(repo)
    mockdir = os.path.join(repo, "src", "mock")
    traits = []
    for f in sorted(os.listdir(mockdir)):
        if f.endswith(".rs") and f != "mod.rs":
            traits += parse_file(os.path.join(mockdir, f), f[:-3], ren)
    for t in traits:
        if t["handwritten"]:
            key = (t["trait"], t["methods"][0]["name"])
            if key not in HANDWRITTEN_UPSTREAM:
                raise InventoryError(f"hand-written MockFn {key} has no known upstream trait")
            t["upstream"] = HANDWRITTEN_UPSTREAM[key]
    return traits


# ---------------------------------------------------------------- the wiring program

ARG_EXPR = {
    "&[u8]": "&[1u8, 2, 3][..]",
    "&mut Vec<u8>": "&mut Vec::new()",
    "&mut String": "&mut String::new()",
    "&mut [u8]": "&mut [0u8; 4][..]",
    "&mut [IoSliceMut<'_>]": "&mut [std::io::IoSliceMut::new(&mut [0u8; 4])][..]",
    "&[IoSlice<'_>]": "&[std::io::IoSlice::new(&[1u8, 2])][..]",
    "SeekFrom": "std::io::SeekFrom::Start(3)",
    "&mut ReadBuf<'_>": "&mut tokio::io::ReadBuf::new(&mut [0u8; 4])",
    "PinState": "embedded_hal::digital::PinState::High",
    "A": "0x42u8",
    "&mut [Operation<'_>]": "&mut [embedded_hal::i2c::Operation::Write(&[1u8])][..]",
    "&mut [Operation<'_,Word>]": "&mut [embedded_hal::spi::Operation::Write(&[1u8])][..]",
    "&mut [Word]": "&mut [0u8; 2][..]",
    "&[Word]": "&[1u8, 2][..]",
    "&mut core::fmt::Formatter<'_>": "__f",
    "&mut Context<'_>": "&mut __cx",
}
for _t in ["u8", "u16", "u32", "u64", "u128", "usize", "i8", "i16", "i32", "i64", "i128", "isize"]:
    ARG_EXPR[_t] = "7"

RECV_EXPR = {"&self": "&u", "&mut self": "&mut u", "self": "u", "self: Pin<&mut Self>": "std::pin::Pin::new(&mut u)"}

GENERIC_ARG = {"A": "u8", "Word": "u8"}

VARIANTS = ["ms", "mp", "us", "up"]   # mentioned/unmentioned x strict/partial


def mockfn_path(t, m):
    p = f"unimock::mock::{t['modpath']}::{t['api']}::{m['name']}"
    if t["generics"]:
        p += ".with_types::<" + ", ".join(GENERIC_ARG[g] for g in t["generics"]) + ">()"
    return p


def call_stmt(t, m):
    up = t["upstream"]
    if t["generics"]:
        for g in t["generics"]:
            if g not in GENERIC_ARG:
                raise InventoryError(f"{t['trait']}: no instantiation known for generic parameter {g}")
        up += "<" + ", ".join(GENERIC_ARG[g] for g in t["generics"]) + ">"
    if m["recv"] not in RECV_EXPR:
        raise InventoryError(f"{t['trait']}::{m['name']}: receiver `{m['recv']}` is not in the wiring generator's table")
    args = [RECV_EXPR[m["recv"]]]
    for (an, ty) in m["args"]:
        if ty not in ARG_EXPR:
            raise InventoryError(f"{t['trait']}::{m['name']}: parameter type `{ty}` is not in the wiring generator's table")
        args.append(ARG_EXPR[ty])
    call = f"<unimock::Unimock as {up}>::{m['name']}({', '.join(args)})"
    tys = [ty for (_, ty) in m["args"]]
    if "&mut core::fmt::Formatter<'_>" in tys:
        return f"let _ = format!(\"{{}}\", FmtCall(|__f| {{ let _ = {call}; Ok(()) }}));"
    pre = ""
    if "&mut Context<'_>" in tys:
        pre = "let __w = crate::drivers::noop_waker(); let mut __cx = std::task::Context::from_waker(&__w); "
    return f"{pre}let _ = {call};"


def clause_expr(t, m, mentioned, idx):
    if mentioned:
        return f"{mockfn_path(t, m)}.next_call(matching!()).panics(\"wired:{idx}\")"
    others = [r for r in t["methods"] if not r["provided"] and r["name"] != m["name"]]
    cl = [f"{mockfn_path(t, r)}.each_call(matching!()).panics(\"req:{r['name']}\")" for r in others]
    if not cl:
        return "()"
    if len(cl) == 1:
        return cl[0]
    return "(" + ", ".join(cl) + ")"


def rows_of(traits):
    rows = []
    for t in traits:
        for m in t["methods"]:
            rows.append((t, m))
    return rows


def gen_rs(traits):
    rows = rows_of(traits)
    out = ["// generated by vlib/mirrors_src.py from the current src/mock/*.rs -- do not edit",
           "use unimock::*;", "",
           "struct FmtCall<F: Fn(&mut std::fmt::Formatter<'_>) -> std::fmt::Result>(F);",
           "impl<F: Fn(&mut std::fmt::Formatter<'_>) -> std::fmt::Result> std::fmt::Display for FmtCall<F> {",
           "    fn fmt(&self, f: &mut std::fmt::Formatter<'_>) -> std::fmt::Result { (self.0)(f) }", "}", "",
           "fn outcome(r: std::thread::Result<()>) -> String {",
           "    match r { Ok(()) => \"ret\".to_string(), Err(p) => format!(\"panic:{}\", crate::panic_text(p)) }", "}", ""]
    for idx, (t, m) in enumerate(rows):
        for v in VARIANTS:
            ctor = "Unimock::new_partial" if v[1] == "p" else "Unimock::new"
            out.append(f"// {t['upstream']}::{m['name']} ({'provided' if m['provided'] else 'required'}), "
                       f"{'mentioned' if v[0] == 'm' else 'not mentioned'}, {'partial' if v[1] == 'p' else 'strict'}")
            out.append(f"fn w{idx}_{v}() -> String {{")
            out.append("    outcome(std::panic::catch_unwind(std::panic::AssertUnwindSafe(|| {")
            out.append(f"        let mut u = {ctor}({clause_expr(t, m, v[0] == 'm', idx)}).no_verify_in_drop();")
            out.append(f"        {call_stmt(t, m)}")
            out.append("    })))")
            out.append("}")
    out.append("")
    out.append("pub fn wiring() -> Vec<(String, String)> {")
    out.append("    vec![")
    for idx, (t, m) in enumerate(rows):
        for v in VARIANTS:
            out.append(f"        (\"{idx}.{v}\".to_string(), w{idx}_{v}()),")
    out.append("    ]")
    out.append("}")
    return "\n".join(out) + "\n"

"""Which matcher functions a call consults (and when diagnostics are collected): a correspondence part for run_coexec-style checks.
The walkers' matcher functions log every invocation (pattern id, MismatchReporter::enabled()); the event `callm` prints that log next
to the call's outcome; the model side is Model/Run.v [matcher_trace] (theorems Proofs/Trace.v)."""
import re
from . import common as C
from . import cases as K
from .layer_a import Engine, proj_outcome_kind, proj_verdict_kind


def split(o):
    """outcome, matcher trace (plus, for the method with the counting argument type, the number of runs of the argument's Debug impl)"""
    m = re.match(r"^(.*) M\[([^\]]*)\]( D\d+)?$", o, re.S)
    if m:
        return m.group(1), m.group(2) + (m.group(3) or "")
    return o, None


def project(case, obs):
    if not obs or obs[0] != "new:ok":
        return [("new", "P") if o.startswith("new:P:") else o.split(" ")[0] for o in obs[:1]]
    out = ["new:ok"]
    for e, o in zip(case["events"], obs[1:]):
        if e["base"][0] == "callm":
            r, t = split(o)
            out.append((proj_outcome_kind(r), t))
        elif e["base"][0] == "call":
            out.append(proj_outcome_kind(o))
        else:
            out.append(proj_verdict_kind(o))
    if len(obs) - 1 != len(case["events"]):
        out.append(("LENGTH", len(obs) - 1))
    return out


def gen_case(rng):
    # 40: DB::db(a: A8) - the argument's Debug impl is user code that counts its runs: it must run exactly when the call ends in an error
    # whose message renders the call
    mids = rng.sample([0, 1, 2, 3, 4, 40, 40], rng.randint(1, 2))
    ordered = rng.random() < 0.25
    g = K.Gen(rng, mids=mids, n_terms=(2, 6), n_events=(3, 9), ordered_frac=1.0 if ordered else 0.0, clone_frac=0.1,
              final="verify", partial_frac=0.5, nomatcher_frac=0.04, max_count=2, full_mask_frac=0.25, stub_frac=0.25,
              other_frac=0.05, unw_call_frac=0.0, new_unwinding_frac=0.0)
    c = g.case()
    # every pattern gets a distinct debug id (the trace names patterns by it)
    k = 0
    for t in c["terms"]:
        for p in ([t["pat"]] if t["kind"] == "call" else t["pats"]):
            k += 1
            p["dbg"] = k
            if p["matcher"] is not None and rng.random() < 0.05:
                p["matcher"] |= (1 << 16)
    for e in c["events"]:
        if e["base"][0] == "call" and (e["base"][2] < 8 or e["base"][2] == 40):
            e["base"] = ("callm",) + tuple(e["base"][1:])
            e.pop("unwinding", None)
    return c


class TracePart:
    """random clause lists with several (overlapping, rejecting, accepting) patterns per method, strict and partial, unordered and
    ordered; every call is made through `callm`; compared: the call's outcome kind and the exact sequence of matcher invocations
    with their diagnostics flags"""
    def __init__(self, prop, n_quick=250, n_thorough=2500):
        self.prop, self.n = prop, {"quick": n_quick, "thorough": n_thorough}

    def __call__(self, rng, tier, seed, cases):
        eng = Engine(self.prop, project=project)
        eng.build()
        tc = [gen_case(rng) for _ in range(self.n[tier])]
        bad, impl, model = eng.disagreements(tc)
        lens = [len((split(o)[1] or "").split(" D")[0].split(",")) if split(o)[1] else 0 for obs in model for o in obs if " M[" in o]
        cov = {"matcher_trace_part": {"evaluations": len(tc), "observed_calls": len(lens),
                                      "calls_consulting_2_or_more_matchers": sum(1 for n in lens if n >= 2),
                                      "calls_with_diagnostics_rerun": sum(1 for obs in model for o in obs if " M[" in o and "d" in o.rsplit(" M[", 1)[1]),
                                      "calls_observing_the_argument_debug_impl": sum(1 for obs in model for o in obs if re.search(r" D\d+$", o)),
                                      "of_them_with_one_run": sum(1 for obs in model for o in obs if o.endswith(" D1")),
                                      "rule": TracePart.__doc__}}
        if not bad:
            return len(tc), None, cov
        case = eng.shrink(tc[bad[0][0]])
        payload = eng.replay_payload(case, seed, f"correspondence {self.prop} (matcher-trace part): the matcher functions a call consults and their diagnostics flags "
                                                 "(Model/Run.v matcher_trace; C06_runtime_consults_like_a_match, C06_diagnostics_only_after_the_decision) vs the log of the real runtime")
        payload["part"] = "trace"
        payload["disagreeing_cases_in_run"] = len(bad)
        return len(tc), payload, cov


def replay_trace(prop, payload, path):
    eng = Engine(prop, project=project)
    eng.build()
    case = payload["case"]
    impl, model = eng.both([case])
    print("model:", model[0]); print("impl :", impl[0])
    if project(case, impl[0]) != project(case, model[0]):
        C.violation(prop, path); return 1
    print("agree"); return 0

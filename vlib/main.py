import argparse, importlib, json, os, sys, time, random, traceback
from . import common as C

PROPS = ["C%02d" % i for i in range(1, 21)]


def main(argv):
    ap = argparse.ArgumentParser()
    ap.add_argument("prop")
    ap.add_argument("--tier", default=os.environ.get("VERIF_TIER", "quick"), choices=["quick", "thorough"])
    ap.add_argument("--replay")
    ap.add_argument("--seed", type=int, default=None)
    a = ap.parse_args(argv)
    seed = a.seed if a.seed is not None else int(os.environ.get("VERIF_SEED", "1"))
    if a.prop not in PROPS:
        print(f"unknown property {a.prop}")
        return 2
    try:
        mod = importlib.import_module(f"vlib.props.{a.prop}")
    except ModuleNotFoundError:
        print(f"property {a.prop} has no check (see MANIFEST.json not_applicable)")
        return 2
    t0 = time.time()
    C.TIER = a.tier
    try:
        if a.replay:
            return mod.replay(a.replay)
        return mod.run(a.tier, seed)
    except C.CheckFailure as f:
        # an obligation or the correspondence could not be established and no
        # concrete failing input is available
        path = C.write_replay(a.prop, seed, {
            "property": a.prop, "seed": seed, "tier": a.tier,
            "theorem_or_correspondence": f.what, "detail": f.detail,
            "note": "no concrete failing input was found; the named obligation no longer checks",
        })
        C.write_evidence(a.prop, a.tier, seed, {
            "obligations": 1, "discharged": 0, "checker_cmd": "make -C /verif/coq && ./check " + a.prop,
            "trusted_base": C.TRUSTED_BASE, "explanation": f.what, "samples": []},
            time.time() - t0, violations=1)
        print(f.what)
        print(f.detail[-2000:])
        C.violation(a.prop, path, no_input=True)
        return 1

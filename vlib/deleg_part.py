"""The delegation inventory (trait D: every receiver kind, original and clones, sole-owner and shared Rc/Arc) as a
correspondence part for properties other than C15 whose statement ranges over handles / receiver conversions."""
from . import common as C
from . import cases as K
from . import layer_d as D
from .layer_a import proj_kinds


def run_part(prop, crate, cases, seed, what, project=proj_kinds):
    """-> (number of evaluations, replay payload or None)"""
    impl, model = D.both(crate, cases)
    bad = [i for i, c in enumerate(cases) if project(c, impl[i]) != project(c, model[i])]
    if not bad:
        return len(cases), None
    case = cases[bad[0]]
    for _ in range(5):
        cands = K.shrink_candidates(case)[:40]
        if not cands:
            break
        ci, cm = D.both(crate, cands)
        nxt = next((c for k, c in enumerate(cands) if project(c, ci[k]) != project(c, cm[k])), None)
        if nxt is None:
            break
        case = nxt
    ci, cm = D.both(crate, [case])
    return len(cases), {"property": prop, "seed": seed, "part": "deleg", "crate": crate, "theorem_or_correspondence": what,
                        "case": case, "rust_clause": D.rust_clause(case["terms"]), "events": [K.event_tok(e) for e in case["events"]],
                        "expected_by_model": cm[0], "observed_on_implementation": ci[0], "disagreeing_cases_in_run": len(bad),
                        "replay_cmd": f"./check {prop} --replay <this file>"}


def replay(prop, payload, path, project=proj_kinds):
    case = payload["case"]
    ci, cm = D.both(payload["crate"], [case])
    print("clause:", payload.get("rust_clause")); print("model :", cm[0]); print("impl  :", ci[0])
    if project(case, ci[0]) != project(case, cm[0]):
        C.violation(prop, path); return 1
    print("agree"); return 0


class DelegPart:
    """correspondence part for runner.run_coexec"""
    def __init__(self, prop, gen, what, n_quick=50, n_thorough=400, rule="", directed=None):
        self.prop, self.gen, self.what, self.rule, self.directed = prop, gen, what, rule, directed
        self.crate = "deleg" + prop[1:]
        self.n = {"quick": n_quick, "thorough": n_thorough}

    def __call__(self, rng, tier, seed, cases):
        dcases = (self.directed() if self.directed else []) + [self.gen(rng) for _ in range(self.n[tier])]
        n, payload = run_part(self.prop, self.crate, dcases, seed, self.what)
        return n, payload, {"receiver_part": {"evaluations": n, "rule": self.rule}}


def report_case(rng):
    """`impl Termination for Unimock` with the mock-std feature: report() first evaluates TerminationMock::report (partial by
    default). Clauses on it: none, returns(code) / returns_default / panics / applies_unmocked / applies_default_impl, with a matcher
    that accepts or rejects, unordered or ordered (mixed with ordered clauses of trait T), strict and partial; after a history of calls
    on T (met or unmet expectations, recorded errors) the original, or a clone, is report()ed"""
    tag = [1]
    def fresh():
        tag[0] += 1
        return tag[0]
    ordered = rng.random() < 0.3
    terms = []
    opener = "next" if ordered else rng.choice(["each", "some"])
    for mid in rng.sample([0, 1, 2], rng.randint(1, 2)):
        ops = [("ret", fresh())] + ([("n", rng.randint(1, 2))] if rng.random() < 0.3 else [])
        terms.append({"kind": "call", "mid": mid, "opener": opener if ordered else rng.choice(["each", "each", "some"]),
                      "pat": {"matcher": 255, "dbg": fresh(), "ops": ops}})
    r = rng.random()
    if r < 0.8:
        kind = rng.choice(["ret", "ret", "retd", "pan", "unm", "dfl", "ret_n"])
        ops = {"ret": [("ret", rng.randint(2, 9))], "retd": [("retd",)], "pan": [("pan", fresh())], "unm": [("unm",)], "dfl": [("dfl",)],
               "ret_n": [("ret", rng.randint(2, 9)), ("n", 1)]}[kind]
        mask = rng.choice([511, 511, 511, 255])           # bit 8 = the empty argument tuple: 255 rejects it
        terms.insert(rng.randint(0, len(terms)), {"kind": "call", "mid": 8, "opener": opener, "pat": {"matcher": mask, "dbg": fresh(), "ops": ops}})
    evs = []
    if rng.random() < 0.3:
        evs.append({"base": ("clone", 0)})
    nins = 2 if evs else 1
    for _ in range(rng.randint(0, 4)):
        evs.append({"base": ("call", rng.randrange(nins), rng.choice([0, 1, 2, 3]), rng.randrange(8))})
    if nins == 2:
        evs.append({"base": (rng.choice(["drop", "drop", "report"]), 1)})
    evs.append({"base": ("report", 0)})
    return {"partial": rng.random() < 0.4, "terms": terms, "events": evs}

"""The common shape of a Layer A check run (DESIGN.md section 5)."""
import json, os, time, random
from . import common as C
from . import cases as K
from .layer_a import Engine


def canon(case):
    return json.dumps({k: v for k, v in case.items() if k != "_obs"}, sort_keys=True)


def load_corpus(prop):
    p = os.path.join(C.VERIF, "corpus", f"{prop}.json")
    if os.path.exists(p):
        return json.load(open(p))
    return []


def run_coexec(prop, tier, seed, *, module, theorems, gen_cases, nontrivial, rule,
               engines, known=None, extra_obligations=None, stats=None, extra_cov=None, parts=None):
    """gen_cases(rng, tier) -> list of cases; engines: list of Engine; nontrivial(case)->bool.
    known(case, impl_obs, model_obs) -> finding-id or None (known findings, DESIGN section 5)."""
    t0 = time.time()
    rng = random.Random(seed)
    obligations = C.proof_obligations(prop, module, theorems)
    pending_failure = None
    if extra_obligations:
        try:
            obligations += extra_obligations()
        except C.CheckFailure as f:
            # a regenerated table no longer checks: first look for a concrete input on which the implementation
            # departs from the model (the co-execution below); only if there is none report the table itself
            pending_failure = f
    cases = load_corpus(prop) + gen_cases(rng, tier)
    total = 0
    known_hits = {}
    for eng in engines:
        eng.build()
        bad, impl, model = eng.disagreements(cases)
        total += len(cases)
        for c, mo in zip(cases, model):
            c["_obs"] = mo          # lets non-triviality rules look at what happened
        real_bad = []
        for (i, io, mo) in bad:
            kid = known(cases[i], io, mo) if known else None
            if kid:
                known_hits[kid] = known_hits.get(kid, 0) + 1
            else:
                real_bad.append((i, io, mo))
        if real_bad:
            i, io, mo = real_bad[0]
            small = eng.shrink(cases[i])
            payload = eng.replay_payload(small, seed, f"correspondence {prop}: model (proved = spec) vs implementation on the property's projection")
            payload["original_case"] = cases[i]
            payload["disagreeing_cases_in_run"] = len(real_bad)
            path = C.write_replay(prop, seed, payload)
            write_ev(prop, tier, seed, obligations, cases, nontrivial, rule, total, t0, 1, engines, stats, corr_ok=False, extra_cov=extra_cov)
            C.violation(prop, path)
            return 1
    # further correspondence parts (e.g. the same term language written as real tuple expressions)
    part_cov = {}
    for part in (parts or []):
        n, payload, pc = part(rng, tier, seed, cases)
        total += n
        part_cov.update(pc)
        if payload is not None:
            path = C.write_replay(prop, seed, payload)
            write_ev(prop, tier, seed, obligations, cases, nontrivial, rule, total, t0, 1, engines, stats, corr_ok=False,
                     extra_cov=dict(extra_cov or {}, **part_cov), n_parts=len(parts))
            C.violation(prop, path)
            return 1
    if parts:
        extra_cov = dict(extra_cov or {}, **part_cov)
    if pending_failure is not None:
        raise pending_failure
    for f in C.known_findings().get("known", []):
        if f["property"] == prop and f["id"] in known_hits:
            print(f"KNOWN-FINDING: property={prop} {f['what']} ({known_hits[f['id']]} cases of this run)")
    write_ev(prop, tier, seed, obligations, cases, nontrivial, rule, total, t0, 0, engines, stats, corr_ok=True, extra_cov=extra_cov, n_parts=len(parts or []))
    print(f"{prop}: {len(obligations)} theorems closed; {total} co-executions agree ({time.time()-t0:.1f}s)")
    return 0


def write_ev(prop, tier, seed, obligations, cases, nontrivial, rule, total, t0, violations, engines, stats, corr_ok, extra_cov=None, n_parts=0):
    distinct = {}
    for c in cases:
        distinct.setdefault(canon(c), c)
    nt = sum(1 for c in distinct.values() if nontrivial(c))
    n_obl = len(obligations) + 1 + n_parts
    cov = {
        "obligations": n_obl,
        "discharged": len(obligations) + ((1 + n_parts) if corr_ok else 0),
        "checker_cmd": f"make -C /verif/coq (coqc 8.16.1, full .vo) ; ./check {prop} --tier {tier}",
        "trusted_base": C.TRUSTED_BASE,
        "theorems": obligations,
        "correspondence_obligation": "every generated case: projection(model) = projection(implementation)",
        "evaluations": total,
        "distinct_nontrivial": nt,
        "rule": rule,
        "builds": [{"model_cfg": e.bc, "cargo_features": e.features or "default (std-build)"} for e in engines],
        "samples": [K.harness_line(c, "sample") for c in list(distinct.values())[:3]],
        "distribution": (stats(cases) if stats else {}),
    }
    if extra_cov:
        cov.update(extra_cov)
    C.write_evidence(prop, tier, seed, cov, time.time() - t0, violations,
                     assumptions=["model/implementation agreement is established on the generated cases only"])


def replay_coexec(prop, path, engines_for):
    payload = json.load(open(path))
    case = payload.get("case")
    if case is None:
        print("replay file names an obligation, not an input:", payload.get("theorem_or_correspondence"))
        return 1
    if payload.get("part") == "trace":
        from .trace_part import replay_trace
        return replay_trace(prop, payload, path)
    if payload.get("part") == "deleg":
        from . import deleg_part
        return deleg_part.replay(prop, payload, path)
    if payload.get("part") == "sched":
        from . import layer_b
        return layer_b.replay_sched(prop, payload, path)
    if payload.get("part") == "tuples":
        from . import tuple_part as T
        from .layer_a import proj_default
        crate = "tuples" + prop[1:]
        impl, model = T.both(crate, [case])
        print("clause :", payload.get("rust_clause"))
        print("model  :", model[0])
        print("impl   :", impl[0])
        if proj_default(case, impl[0]) != proj_default(case, model[0]):
            C.violation(prop, path)
            return 1
        print("agree on the property's projection")
        return 0
    eng = engines_for(payload)
    eng.build()
    impl, model = eng.both([case])
    print("case   :", K.harness_line(case, "replay"))
    print("model  :", model[0])
    print("impl   :", impl[0])
    pi, pm = eng.project(case, impl[0]), eng.project(case, model[0])
    if pi != pm:
        C.violation(prop, path)
        return 1
    print("agree on the property's projection")
    return 0

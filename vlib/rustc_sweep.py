"""rustc accept/reject sweep for the builder's type states (C12, C14).
For each type state of build.rs (reached by a shortest prefix) and every builder
method, the model (Model/Builder.v: bstep / build_call) says whether the call
type-checks and whether the resulting value is a Clause; rustc says the same
about the real crate.  One rustc invocation per must-not-compile program
(--emit=metadata against the prebuilt rlib), one batch for the must-compile set."""
import glob, os, re, shutil, tempfile
from concurrent.futures import ThreadPoolExecutor
from . import common as C

OPS = ["ret", "retd", "ans", "pan", "unm", "dfl", "once", "n", "al", "then"]
_T = ["ans", "once", "then"]          # ... .then(): the states reached AFTER it carry the same ordering marker as before it
PREFIXES = {          # shortest op prefix reaching each type state from each opener (and the same states once more behind a then())
    "some": {"DR": [], "QRV": ["ret"], "Q": ["ans"], "QRE": ["ans", "once"], "QRA": ["ans", "al"], "DMR": list(_T),
             # the quantified states reached through the SINGLE-response builder (QuantifyReturnValue), whose methods are separate functions
             "QREv": ["ret", "once"], "QREvn": ["ret", "n"], "QRAv": ["ret", "al"],
             "Q'": _T + ["ans"], "Q'r": _T + ["ret"], "QRE'": _T + ["ans", "once"], "QRA'": _T + ["ans", "al"], "DMR'": _T + _T},
    "each": {"DMR": [], "Q": ["ans"], "QRE": ["ans", "once"], "QRA": ["ans", "al"],
             "DMR'": list(_T), "Q'": _T + ["ans"], "QRE'": _T + ["ans", "once"], "QRA'": _T + ["ans", "al"]},
    "next": {"DR": [], "QRV": ["ret"], "Q": ["ans"], "QRE": ["ans", "once"], "DMR": list(_T),
             "QREv": ["ret", "once"], "QREvn": ["ret", "n"],
             "Q'": _T + ["ans"], "Q'r": _T + ["ret"], "QRE'": _T + ["ans", "once"], "DMR'": _T + _T},
}
COQ_OP = {"ret": "OReturns 1", "retd": "OReturnsDefault", "ans": "OAnswers 1", "pan": "OPanics 1", "unm": "OUnmocked",
          "dfl": "ODefaultImpl", "once": "OOnce", "n": "ONTimes 2", "al": "OAtLeastTimes 1", "then": "OThen"}
COQ_OPENER = {"some": "SomeCall", "each": "EachCall", "next": "NextCall"}


def programs():
    """(opener, clone?, ops, as_clause?)"""
    out = []
    for opener, states in PREFIXES.items():
        for clone in (True, False):
            for st, prefix in states.items():
                if not clone and "ret" not in prefix and False:
                    pass
                out.append((opener, clone, list(prefix), True))        # is the state itself a Clause?
                for op in OPS:
                    if op == "retd" and not clone:
                        continue      # the non-Clone harness type has no Default either: not about Clone
                    out.append((opener, clone, list(prefix) + [op], False))
    # de-duplicate
    seen, res = set(), []
    for p in out:
        k = (p[0], p[1], tuple(p[2]), p[3])
        if k not in seen:
            seen.add(k); res.append(p)
    return res


def rust_chain(opener, clone, ops):
    ty, mid = ("Val", "m0") if clone else ("Uniq", "m4")
    s = f"TMock::{mid}.{opener}_call(&|m: &mut unimock::private::Matching<TMock::{mid}>| {{ m.func(|_, _| true); }})"
    for o in ops:
        s += {"ret": f".returns({ty}::new(\"r\"))", "retd": ".returns_default()",
              "ans": f".answers(&|_, a| {ty}::new(format!(\"a{{a}}\")))", "pan": ".panics(\"boom\")",
              "unm": ".applies_unmocked()", "dfl": ".applies_default_impl()", "once": ".once()", "n": ".n_times(2)",
              "al": ".at_least_times(1)", "then": ".then()"}[o]
    return s


def rust_program(prog, k):
    opener, clone, ops, as_clause = prog
    chain = rust_chain(opener, clone, ops)
    body = f"let _u = Unimock::new({chain});" if as_clause else f"let _c = {chain};"
    return f"pub fn prog{k}() {{ {body} }}\n"


def coq_term(prog):
    opener, clone, ops, as_clause = prog
    opsl = "[" + "; ".join(COQ_OP[o] for o in ops) + "]"
    if as_clause:
        return (f"(match build_call cfg_std {'true' if clone else 'false'} {COQ_OPENER[opener]} (Pt (Some 255) None {opsl}) "
                f"with Some _ => \"yes\" | None => \"no\" end)")
    return (f"(match bsteps cfg_std {'true' if clone else 'false'} (opener_state {COQ_OPENER[opener]}, "
            f"new_builder (opener_mode {COQ_OPENER[opener]}) (Some 255) None) {opsl} with Some _ => \"yes\" | None => \"no\" end)")


def model_verdicts(progs):
    prelude = "From Unimock Require Import Model.Run.\nOpen Scope N_scope.\nOpen Scope string_scope.\nDefinition idl (l : list string) := l.\n"
    src_terms = [coq_term(p) for p in progs]
    out = C.coq_eval_cases(prelude, [t + " ; \"--\"" for t in src_terms], show="idl", shard=400)
    return [o[0] == "yes" for o in out]


def find_rlib(target_dir):
    """the unimock rlib cargo built from the repository under test (the target directory may also hold builds of other
    checkouts, e.g. a scratch clone used to evaluate a seeded change: the dep-info file names the sources)"""
    deps = os.path.join(target_dir, "debug", "deps")
    libs = sorted(glob.glob(os.path.join(deps, "libunimock-*.rlib")), key=os.path.getmtime)
    mine = []
    for lib in libs:
        dinfo = os.path.join(deps, os.path.basename(lib)[3:-5] + ".d")
        try:
            if (os.path.join(C.REPO, "src", "lib.rs") + ":") in open(dinfo).read():
                mine.append(lib)
        except OSError:
            pass
    return deps, (mine[-1] if mine else None)


def rustc_verdicts(progs):
    """True = compiles"""
    try:
        C.build_harness("core")
    except C.CheckFailure:
        # the interpreter crate itself no longer type-checks against the current tree (its typed walkers follow the builder's
        # type states); cargo has still compiled the library before failing on the binary: use that rlib if it is not older
        # than the sources, so that the sweep can look for a concrete offending program
        deps, rlib = find_rlib(os.path.join(C.CACHE, "target", "core"))
        newest = max(os.path.getmtime(os.path.join(dp, f)) for dp, _, fs in os.walk(os.path.join(C.REPO, "src")) for f in fs)
        if rlib is None or os.path.getmtime(rlib) < newest:
            raise
    deps, rlib = find_rlib(os.path.join(C.CACHE, "target", "core"))
    if rlib is None:
        raise C.CheckFailure("rustc sweep: no prebuilt unimock rlib found", deps)
    inv = os.path.join(C.VERIF, "harness", "core", "src", "inventory.rs")
    d = tempfile.mkdtemp(prefix="vsweep")
    head = f"#![allow(unused)]\n#[path = \"{inv}\"]\nmod inventory;\nuse inventory::*;\nuse unimock::*;\n"

    def compile_file(name, body):
        path = os.path.join(d, name + ".rs")
        open(path, "w").write(head + body)
        rc, out, err = C.sh(["rustc", "--edition", "2021", "--crate-type", "lib", "--emit=metadata", "--cfg", "unimock_verif",
                             "--cap-lints", "allow", "-L", f"dependency={deps}", "--extern", f"unimock={rlib}",
                             "-o", os.path.join(d, name + ".rmeta"), path], cwd=d, timeout=300)
        return rc == 0, err

    try:
        ok_all, err_all = compile_file("probe", "pub fn probe() { let _u = Unimock::new(()); }\n")
        if not ok_all:
            raise C.CheckFailure("rustc sweep: the probe program does not compile against the current tree", err_all[-3000:])
        with ThreadPoolExecutor(max_workers=C.NCPU) as ex:
            res = list(ex.map(lambda kp: compile_file(f"p{kp[0]}", rust_program(kp[1], kp[0]))[0], enumerate(progs)))
        return res
    finally:
        shutil.rmtree(d, ignore_errors=True)


def sweep():
    """returns (programs, model verdicts, rustc verdicts)"""
    progs = programs()
    return progs, model_verdicts(progs), rustc_verdicts(progs)


def describe(prog):
    opener, clone, ops, as_clause = prog
    return ("Unimock::new(" if as_clause else "") + rust_chain(opener, clone, ops) + (")" if as_clause else "")

"""C05 -- #[unimock] impls forward arguments, receiver and result unchanged.

Programs (traits over the signature-shape grammar + one driver per method) are generated
from the seed, compiled with the REAL #[unimock] macro into ONE crate (harness/shapes/src/gen.rs),
run, and the same cases are evaluated by the Coq model Macro/ShapeRun.v (a transcription of what
def_method_impl emits, under a move-semantics binding environment).  Compared: what the matcher
closure saw, what the answer function received (receiver identity + arguments), the returned value,
the caller's variables behind &mut parameters, and for async flavours the evaluation counters before
the first poll / after the await / after dropping a future unpolled."""
import collections, copy, itertools, json, os, random, re, time
from .. import common as C

MODULE = "Props.C05"
THEOREMS = ["C05_pack_unpack", "C05_unpack_pack", "C05_destructurings_inverse", "C05_fn_pattern",
            "C05_matcher_sees_declaration_order", "C05_forwarding", "C05_unmock_arm", "C05_unmock_slot", "C05_mut_writes_visible",
            "C05_sync_runs_at_call", "C05_async_deferred", "C05_once_per_await", "C05_known_is", "C05_known_refuted",
            "C05_nonvacuous"]

RULE = ("traits generated from the grammar receiver{&self,&mut self,self,Rc,Arc,Box,Pin<&mut Self>,self: &Self,self: &mut Self} x arity 0..5 (thorough 0..7) x "
        "parameter classes{u32,Tok,String,&u32,&Tok,&str,&[u32],&mut u32,&mut Tok,&mut Lt<'_>(Impossible),T,G,impl Trait} x "
        "return{(),u32,Tok,String,T,Option} x flavour{sync,async fn,-> impl Future,#[async_trait]} x trait-level generic x "
        "api{module,flattened} x responder{answers,answers_arc,returns,applies_unmocked} x unmock_with entry{absent, _, path, path(exprs) with `self` first/"
        "last/absent and the parameters in a shuffled order} x receiver-less provided functions (skipped by the macro, each occupies an unmock_with slot) "
        "at random positions x opener{next,each,some}; 1-3 methods per trait; greedy pairwise "
        "covering over these factors first, random afterwards; every argument id distinct; neighbouring parameters get the same class "
        "with probability 0.6 (a transposition type-checks and is seen).  All traits are compiled with the real macro into one crate; "
        "every method is called (async: awaited, dropped unpolled, awaited again).  distinct = canonical JSON of (trait-level options, "
        "method); non-trivial = arity >= 2, or a &mut parameter, or an async flavour, or a polonius receiver")

PRELUDE = "From Unimock Require Import Macro.ShapeRun.\nOpen Scope N_scope.\n"

RECVS = ["ref", "mut", "owned", "rc", "arc", "box", "pin", "tref", "tmut"]      # tref / tmut: the typed spellings `self: &Self` / `self: &mut Self`
COQ_RECV = {"ref": "RcvRef", "mut": "RcvMut", "owned": "RcvOwned", "rc": "RcvRc", "arc": "RcvArc", "box": "RcvBox", "pin": "RcvPin", "tref": "RcvTypedRef", "tmut": "RcvTypedMut"}
CLASSES = ["u32", "tok", "string", "ref", "reftok", "str", "slice", "mut", "muttok", "mutlt", "mutnamed", "T", "G", "impl", "assoc", "refassoc"]
COQ_CLASS = {"u32": "POwned", "tok": "POwnedTok", "string": "PString", "ref": "PRef", "reftok": "PRefTok", "str": "PStr",
             "slice": "PSlice", "mut": "PMut", "muttok": "PMutTok", "mutlt": "PMutLt",
             "mutnamed": "PMut",     # `&'a mut u32`: the same class for the macro (the lifetime sits on the reference, not in the pointee)
             "T": "PGenericT", "G": "PGenericG", "impl": "PImpl",
             # an associated type of the trait, given in the attribute (`type A = u32;`): for the macro `Self::A` is just a path type
             "assoc": "POwned", "refassoc": "PRef"}
MUT = ("mut", "muttok", "mutlt", "mutnamed")
RETS = ["unit", "u32", "tok", "string", "T", "option", "assoc"]
COQ_RET = {"unit": "RetUnit", "u32": "RetVal", "tok": "RetTok", "string": "RetString", "T": "RetGeneric", "option": "RetOption", "assoc": "RetVal"}
FLAVS = ["sync", "async", "rpit", "async_trait"]
COQ_FLAV = {"sync": "FSync", "async": "FAsyncFn", "rpit": "FRpit", "async_trait": "FAsyncTrait"}
BOUND = "Show + Send + Sync + 'static"


# ---------------------------------------------------------------- generation
def gen_params(rng, arity, generic):
    out = []
    for k in range(arity):
        if out and rng.random() < 0.6:
            c = out[-1]["c"]
        else:
            c = rng.choice([x for x in CLASSES if x != "G" or generic])
        out.append({"c": c, "actual": rng.choice(["u32", "Tok"]) if c == "impl" else None})
    return out


def normalize(trait):
    """make every method satisfy the side conditions of the grammar (used after generation and after shrinking)"""
    for m in trait["methods"]:
        if "p" in trait.get("layout", []) and m["recv"] in ("box", "tref", "tmut"):
            # a trait with a provided method gets a helper impl, whose required methods convert the receiver back: there is no such
            # conversion for Box<Self> and for the typed spellings `self: &Self` / `self: &mut Self` (compile error E0277 on the
            # unchanged tree: outside the grammar)
            m["recv"] = {"box": "arc", "tref": "ref", "tmut": "mut"}[m["recv"]]
        if trait["async_trait"]:
            if m["flav"] in ("async", "rpit"):
                m["flav"] = "async_trait"
            if m["flav"] == "async_trait" and m["recv"] == "rc":
                m["recv"] = "arc"          # Rc<Self> futures are not Send
        elif m["flav"] == "async_trait":
            m["flav"] = "async"
        if m["flav"] == "rpit" and m["recv"] in ("mut", "pin") and not trait.get("probe"):
            # the recorded deviation class (Known in Props/C05.v, candidate defect F4): the expansion of
            # `fn m(&mut self / Pin<&mut Self>, ..) -> impl Future<..>` does not compile on the unchanged tree (the polonius
            # closure is annotated with the RPIT itself: E0562).  Main crate: excluded; probed separately (probe_known)
            m["flav"] = "async"
        for p in m["params"]:
            if p["c"] == "mutnamed" and m["flav"] != "sync":
                p["c"] = "mut"          # named lifetimes on async signatures are outside the grammar
            if p["c"] == "G" and not trait["generic"]:
                p["c"] = "u32"
            if p["c"] == "impl" and not p.get("actual"):
                p["actual"] = "u32"
        uses_t = any(p["c"] == "T" for p in m["params"])
        if m["ret"] == "T" and not uses_t:
            m["ret"] = "tok"
        m["T"] = (m.get("T") or "u32") if uses_t else None
        um = m.get("um")
        if um is not None and (m["recv"] in ("mut", "pin") or m["ret"] == "T"):
            # polonius receivers have no Unmock arm (finding F1, property C16); a generic result cannot be produced by the harness' real fn
            um = m["um"] = None
        if um is not None and um["form"] == "call":
            n = len(m["params"])
            vals = [x for x in um["exprs"] if x != "self"]
            if sorted(vals) != sorted(set(vals)) or any(not (0 <= x < n) for x in vals) or um["exprs"].count("self") > 1:
                um["exprs"] = ["self"] + list(range(n - 1, -1, -1))
        if m["resp"] == "unmock" and um is None and not (m.get("missing_fn") and m["recv"] != "owned"):
            m["resp"] = "answers_arc"
        if m["resp"] == "returns" and m["ret"] != "u32":
            m["resp"] = "answers_arc"
        if m["flav"] != "sync":
            m["opener"] = "each"
    lay = trait.get("layout")
    if lay is None or lay.count("m") != len(trait["methods"]):
        trait["layout"] = ["m"] * len(trait["methods"])
    return trait


def gen_um(rng, n):
    r = rng.random()
    if r < 0.45:
        return None
    if r < 0.7:
        return {"form": "path"}
    idx = list(range(n))
    rng.shuffle(idx)
    if rng.random() < 0.3 and n:
        idx = idx[:rng.randint(0, n)]                 # a subset: the function takes fewer values than the method has inputs
    k = rng.random()
    exprs = (["self"] + idx) if k < 0.5 else (idx + ["self"]) if k < 0.7 else idx
    return {"form": "call", "exprs": exprs}


def gen_method(rng, trait, max_arity):
    m = {"recv": rng.choice(RECVS), "params": gen_params(rng, rng.randint(0, max_arity), trait["generic"]),
         "ret": rng.choice(RETS), "flav": rng.choice(["sync", "async_trait"] if trait["async_trait"] else ["sync", "sync", "async", "rpit"]),
         "T": rng.choice(["u32", "Tok"]), "resp": rng.choice(["answers", "answers_arc", "answers_arc", "returns"]),
         "opener": rng.choice(["next", "each", "some"])}
    m["um"] = gen_um(rng, len(m["params"]))
    if m["um"] is not None and rng.random() < 0.7:
        m["resp"] = "unmock"
        # half of them reach the real function the other way: a partial mock whose only pattern REJECTS the call
        m["reject"] = rng.random() < 0.4
    elif m["um"] is None and rng.random() < 0.08:
        m["resp"], m["missing_fn"] = "unmock", True     # applies_unmocked() with no registered function: panics naming the method
    return m


def gen_trait(rng, max_arity):
    t = {"async_trait": rng.random() < 0.25, "generic": rng.choice([None, None, "u32", "Tok"]), "api": rng.choice(["module", "flat"]), "methods": []}
    t["methods"] = [gen_method(rng, t, max_arity) for _ in range(rng.choice([1, 1, 2, 3]))]
    lay = ["m"] * len(t["methods"])
    if rng.random() < 0.35:
        for _ in range(rng.randint(1, 2)):
            # "s": a receiver-less provided function (skipped by the macro); "p": a provided method WITH a receiver (mocked like any
            # other, not exercised here) - both are fn items of the trait and occupy a slot of unmock_with / of the flattened api list
            lay.insert(rng.randint(0, len(lay)), rng.choice(["s", "s", "p"]))
    t["layout"] = lay
    return normalize(t)


def factors(trait, m):
    cs = [p["c"] for p in m["params"]]
    f = {"recv": m["recv"], "arity": len(cs), "flav": m["flav"], "ret": m["ret"], "resp": m["resp"], "tg": bool(trait["generic"]),
         "api": trait["api"], "imp": "mutlt" in cs, "mut": any(c in MUT for c in cs), "first": cs[0] if cs else "-",
         "last": cs[-1] if cs else "-", "nmeth": len(trait["methods"]), "gen": m["T"] is not None or "impl" in cs,
         "um": (m.get("um") or {}).get("form", "-"), "skips": "s" in trait.get("layout", []), "provided": "p" in trait.get("layout", [])}
    return f


def pairs_of(f):
    items = sorted(f.items())
    return {(a, b) for a, b in itertools.combinations(items, 2)}


def gen_traits(rng, tier):
    n_cover, n_random, max_arity = (110, 40, 5) if tier == "quick" else (500, 1200, 7)
    traits, seen = [], set()
    for _ in range(n_cover):
        best, gain = None, -1
        for _ in range(12):
            t = gen_trait(rng, max_arity)
            g = set()
            for m in t["methods"]:
                g |= pairs_of(factors(t, m)) - seen
            if len(g) > gain:
                best, gain = t, len(g)
        traits.append(best)
        for m in best["methods"]:
            seen |= pairs_of(factors(best, m))
    traits += [gen_trait(rng, max_arity) for _ in range(n_random)]
    # every arity 0..max with each template (direct / polonius), all parameters of one class: transpositions are seen
    for a in range(0, max_arity + 1):
        for recv in ("ref", "mut"):
            for c in ("u32", "mut"):
                traits.append(normalize({"async_trait": False, "generic": None, "api": "module", "methods": [
                    {"recv": recv, "params": [{"c": c, "actual": None} for _ in range(a)], "ret": "u32", "flav": "sync", "T": None,
                     "resp": "answers_arc", "opener": "next"}]}))
    return traits


def ids_of(m, call):
    return [100 * (call + 1) + 10 + k for k in range(len(m["params"]))]


def script_of(m):
    return [("Awaited", 0)] if m["flav"] == "sync" else [("Awaited", 0), ("DroppedUnpolled", 1), ("Awaited", 2)]


# ---------------------------------------------------------------- rendering: Coq
def coq_case(trait, mi):
    m = trait["methods"][mi]
    shape = ("{| sh_recv := %s; sh_params := [%s]; sh_ret := %s; sh_flavour := %s; sh_trait_generic := %s; sh_api := %s |}"
             % (COQ_RECV[m["recv"]], "; ".join(COQ_CLASS[p["c"]] for p in m["params"]), COQ_RET[m["ret"]], COQ_FLAV[m["flav"]],
                "true" if trait["generic"] else "false", "ApiModule" if trait["api"] == "module" else "ApiFlattened"))
    calls = "; ".join("(%s, [%s])" % (u, "; ".join(str(i) for i in ids_of(m, c))) for u, c in script_of(m))
    if m["resp"] == "unmock":
        pos = [i for i in range(len(trait["layout"])) if item_method(trait, i) == mi][0]
        kth = sum(1 for x in trait["layout"][:pos] if x in ("m", "p"))
        resp = "(UseUnmock [%s] [%s] %d)" % ("; ".join("true" if x in ("m", "p") else "false" for x in trait["layout"]),
                                            "; ".join(coq_uentry(trait, i) for i in range(len(trait["layout"]))), kth)
    else:
        resp = "UseReturn" if m["resp"] == "returns" else "UseAnswer"
    return "{| k_shape := %s; k_resp := %s; k_calls := [%s] |}" % (shape, resp, calls)


def item_method(trait, i):
    """the method index of fn item i (None for a skipped function)"""
    lay = trait["layout"]
    return None if lay[i] != "m" else lay[:i].count("m")


def coq_uentry(trait, i):
    j = item_method(trait, i)
    um = None if j is None else trait["methods"][j].get("um")
    if um is None:
        return "UNone"
    if um["form"] == "path":
        return f"UPath {i}"
    return "UCall %d [%s]" % (i, "; ".join("USelf" if x == "self" else f"UParam {x}" for x in um["exprs"]))


def has_unmock_attr(trait):
    return any(m.get("um") is not None for m in trait["methods"]) or trait.get("empty_unmock_attr", False)


def rust_uentry(ti, trait, i):
    j = item_method(trait, i)
    um = None if j is None else trait["methods"][j].get("um")
    if um is None:
        return "_"
    if um["form"] == "path":
        return f"real_{ti}_{j}"
    return f"real_{ti}_{j}(" + ", ".join("self" if x == "self" else f"p{x}" for x in um["exprs"]) + ")"


def rust_real_fn(ti, j, trait):
    """the function registered for method j: logs what it was called with, writes through its unique borrows, returns
    20000 + 1000 * (its fn-item index) + the id of its first value argument"""
    m = trait["methods"][j]
    um = m["um"]
    fid = [i for i in range(len(trait["layout"])) if item_method(trait, i) == j][0]
    exprs = um["exprs"] if um["form"] == "call" else ["self"] + list(range(len(m["params"])))
    selfty = {"ref": "&Unimock", "owned": "Unimock", "rc": "Rc<Unimock>", "arc": "Arc<Unimock>", "box": "Box<Unimock>",
              "tref": "&Unimock", "tmut": "&mut Unimock"}[m["recv"]]
    def pty(p):
        return {"mutnamed": "&mut u32", "assoc": "u32", "refassoc": "&u32"}.get(p["c"], rust_param_ty(p))
    args = ", ".join(f"u: {selfty}" if x == "self" else f"{'mut ' if m['params'][x]['c'] in MUT else ''}p{x}: {pty(m['params'][x])}" for x in exprs)
    vals = [x for x in exprs if x != "self"]
    gen = []
    if any(m["params"][x]["c"] == "T" for x in vals): gen.append(f"T: {BOUND}")
    if any(m["params"][x]["c"] == "G" for x in vals): gen.append(f"G: {BOUND}")
    g = "<" + ", ".join(gen) + ">" if gen else ""
    shows = ", ".join(f"p{x}.show()" for x in vals)
    first = f"p{vals[0]}.id()" if vals else "0"
    bumps = " ".join(f"p{x}.bump();" for x in vals if m["params"][x]["c"] in MUT)
    addr = "Some(addr_of(&u))" if "self" in exprs else "None"
    ret = rust_ret_ty(trait, m, concrete=(m["ret"] == "assoc"))
    orig = " push(format!(\"O {}\", originality(u)));" if m["recv"] == "owned" and "self" in exprs else ""
    return (f"{'async ' if m['flav'] != 'sync' else ''}fn real_{ti}_{j}{g}({args})" + ("" if m["ret"] == "unit" else f" -> {ret}") +
            f" {{ unmocked({fid}, {addr}, vec![{shows}]); let r = 20000 + 1000 * {fid} + {first}; {bumps}{orig} {rust_ret_expr(m)} }}")


# ---------------------------------------------------------------- rendering: Rust
def actual_ty(trait, m, p):
    c = p["c"]
    return {"T": m["T"], "G": trait["generic"], "impl": p["actual"]}.get(c)


def rust_param_ty(p):
    return {"u32": "u32", "tok": "Tok", "string": "String", "ref": "&u32", "reftok": "&Tok", "str": "&str", "slice": "&[u32]",
            "mut": "&mut u32", "muttok": "&mut Tok", "mutlt": "&mut Lt<'_>", "mutnamed": "&'a mut u32", "T": "T", "G": "G",
            "impl": f"impl {BOUND}", "assoc": "Self::A", "refassoc": "&Self::A"}[p["c"]]


def rust_ret_ty(trait, m, concrete=False):
    return {"unit": "()", "u32": "u32", "tok": "Tok", "string": "String", "T": (m["T"] if concrete else "T"), "option": "Option<u32>",
            "assoc": ("u32" if concrete else "Self::A")}[m["ret"]]


def rust_ret_expr(m):
    r = m["ret"]
    if r == "T":
        r = {"u32": "u32", "Tok": "tok"}[m["T"]]
    return {"unit": "()", "u32": "r", "tok": "Tok(r)", "string": "r.to_string()", "option": "Some(r)", "assoc": "r"}[r]


def rust_value(ty, n):
    return {"u32": f"{n}u32", "Tok": f"Tok({n})"}[ty]


def rust_arg(trait, m, k, p, n):
    """(let-statement, argument expression) for parameter k with id n"""
    c, v = p["c"], f"a{k}"
    if c in ("u32", "assoc"): return f"let {v} = {n}u32;", v
    if c == "refassoc": return f"let {v} = {n}u32;", f"&{v}"
    if c == "tok": return f"let {v} = Tok({n});", v
    if c == "string": return f"let {v} = \"{n}\".to_string();", v
    if c == "ref": return f"let {v} = {n}u32;", f"&{v}"
    if c == "reftok": return f"let {v} = Tok({n});", f"&{v}"
    if c == "str": return f"let {v} = \"{n}\".to_string();", f"{v}.as_str()"
    if c == "slice": return f"let {v} = [{n}u32];", f"&{v}[..]"
    if c in ("mut", "mutnamed"): return f"let mut {v} = {n}u32;", f"&mut {v}"
    if c == "muttok": return f"let mut {v} = Tok({n});", f"&mut {v}"
    if c == "mutlt": return f"let mut {v} = lt({n});", f"&mut {v}"
    return f"let {v} = {rust_value(actual_ty(trait, m, p), n)};", v


def names(ti, trait):
    tn = f"T{ti}"
    return tn, (f"{tn}Mock" if trait["api"] == "module" else None)


def rust_trait(ti, trait):
    tn, mod = names(ti, trait)
    # the flattened name list is indexed like unmock_with: one name per fn item, skipped functions included
    api = mod if mod else "[" + ", ".join(f"{tn}f{item_method(trait, i)}" if k == "m" else f"{tn}x{i}" for i, k in enumerate(trait["layout"])) + "]"
    uw = ""
    if has_unmock_attr(trait):
        uw = ", unmock_with = [" + ", ".join(rust_uentry(ti, trait, i) for i in range(len(trait["layout"]))) + "]"
    uses_assoc = any(p["c"] in ("assoc", "refassoc") for m in trait["methods"] for p in m["params"]) or any(m["ret"] == "assoc" for m in trait["methods"])
    out = [f"#[unimock(api = {api}{uw}{', type A = u32;' if uses_assoc else ''})]"]
    if trait["async_trait"]:
        out.append("#[async_trait::async_trait]")
    out.append(f"{'pub ' if uses_assoc else ''}trait {tn}{'<G: ' + BOUND + '>' if trait['generic'] else ''} {{")
    if uses_assoc:
        out.append("    type A;")
    for i, kind in enumerate(trait["layout"]):
        if kind == "p":
            # a provided method with a receiver: mockable, declared BEFORE or between the methods under test
            out.append(f"    fn t{ti}_p{i}(&self) -> u32 {{ {i} }}")
            continue
        if kind != "m":
            # receiver-less provided function: not mockable, skipped by the macro, but it is one of the trait's fn items
            out.append(f"    fn t{ti}_s{i}() -> u32 where Self: Sized {{ {i} }}")
            continue
        j = item_method(trait, i)
        m = trait["methods"][j]
        recv = {"ref": "&self", "mut": "&mut self", "owned": "self", "rc": "self: Rc<Self>", "arc": "self: Arc<Self>",
                "box": "self: Box<Self>", "pin": "self: Pin<&mut Self>", "tref": "self: &Self", "tmut": "self: &mut Self"}[m["recv"]]
        ps = "".join(f", p{k}: {rust_param_ty(p)}" for k, p in enumerate(m["params"]))
        gparams = (["'a"] if any(p["c"] == "mutnamed" for p in m["params"]) else []) + ([f"T: {BOUND}"] if m["T"] else [])
        gen = "<" + ", ".join(gparams) + ">" if gparams else ""
        ret = rust_ret_ty(trait, m)
        if m["flav"] == "rpit":
            sig = f"fn t{ti}_m{j}{gen}({recv}{ps}) -> impl Future<Output = {ret}>"
        else:
            sig = f"{'async ' if m['flav'] in ('async', 'async_trait') else ''}fn t{ti}_m{j}{gen}({recv}{ps})" + ("" if m["ret"] == "unit" else f" -> {ret}")
        out.append(f"    {sig};")
    out.append("}")
    for j, m in enumerate(trait["methods"]):
        if m.get("um") is not None:
            out.append(rust_real_fn(ti, j, trait))
    return "\n".join(out)


def rust_driver(ti, mi, trait):
    m = trait["methods"][mi]
    tn, mod = names(ti, trait)
    n = len(m["params"])
    entry = f"{mod}::t{ti}_m{mi}" if mod else f"{tn}f{mi}"
    targs = ([trait["generic"]] if trait["generic"] else []) + ([m["T"]] if m["T"] else []) + [p["actual"] for p in m["params"] if p["c"] == "impl"]
    if targs:
        entry += ".with_types::<" + ", ".join(targs) + ">()"
    pat = "()" if n == 0 else ("p0" if n == 1 else "(" + ", ".join(f"p{k}" for k in range(n)) + ")")
    shows = ", ".join(f"p{k}.show()" for k in range(n))
    matcher = f"&|m| m.func(|{pat}, _| {{ matched(vec![{shows}]); true }})"
    cparams = "".join(f", {'mut ' if p['c'] in MUT else ''}p{k}" for k, p in enumerate(m["params"]))
    bumps = " ".join(f"p{k}.bump();" for k, p in enumerate(m["params"]) if p["c"] in MUT)
    first = "p0.id()" if n else "0"
    orig = " push(format!(\"O {}\", originality(u)));" if m["recv"] == "owned" else ""
    closure = (f"|u{cparams}| {{ answered(addr_of(&u), vec![{shows}]); let r = 5000 + {first}; {bumps}{orig} {rust_ret_expr(m)} }}")
    if m["resp"] == "unmock":
        resp = ".applies_unmocked()"
    elif m["resp"] == "returns":
        resp = ".returns(5000u32)"
    elif m["resp"] == "answers":
        resp = f".answers(&{closure})"
    else:
        resp = f".answers_arc(Arc::new({closure}))"
    # (a call that panics with a mock error makes the final verification fail as well: not part of this observation)
    nv = ".no_verify_in_drop()" if m["resp"] == "unmock" and m.get("um") is None else ""
    ctor = "Unimock::new"
    L0 = []
    if m["resp"] == "unmock" and m.get("um") is not None and m.get("reject") and m["opener"] != "next":
        # fall-through of a partial mock: the matcher is shown the call (exactly once) and rejects it
        matcher = matcher.replace("true })", "false })")
        ctor = "Unimock::new_partial"
        nv = ".no_verify_in_drop()"      # (a pattern that never matches is reported as a dead mock at verification: not part of this observation)
        L0 = ["    push(\"X exact\".to_string());"]
    L = [f"fn case_{ti}_{mi}() {{"] + L0 + [f"    let mut u = {ctor}({entry}.{m['opener']}_call({matcher}){resp}){nv};"]
    recv = m["recv"]
    if recv in ("rc", "arc"):
        L.append(f"    let u = {'Rc' if recv == 'rc' else 'Arc'}::new(u);")
    path = f"<Unimock as {tn}{'<' + trait['generic'] + '>' if trait['generic'] else ''}>::t{ti}_m{mi}"
    for use, call in script_of(m):
        ids = ids_of(m, call)
        L.append("    {")
        lets, args = [], []
        for k, p in enumerate(m["params"]):
            l, a = rust_arg(trait, m, k, p, ids[k])
            lets.append(l); args.append(a)
        L += ["        " + l for l in lets]
        if recv in ("ref", "tref"): rx, ex = "&u", "expect(&u as *const Unimock as usize);"
        elif recv in ("mut", "tmut"): rx, ex = "&mut u", "expect(&u as *const Unimock as usize);"
        elif recv == "pin": rx, ex = "Pin::new(&mut u)", "expect(&u as *const Unimock as usize);"
        elif recv == "owned": rx, ex = "u.clone()", "expect(0);"
        elif recv == "rc": rx, ex = "u.clone()", "expect(Rc::as_ptr(&u) as usize);"
        elif recv == "arc": rx, ex = "u.clone()", "expect(Arc::as_ptr(&u) as usize);"
        else: rx, ex = "b", "let b = Box::new(u.clone()); expect(&*b as *const Unimock as usize);"
        L.append("        " + ex)
        call_expr = f"{path}({', '.join([rx] + args)})"
        ws = "".join(f" {{}}" for p in m["params"] if p["c"] in MUT)
        wargs = "".join(f", a{k}.show()" for k, p in enumerate(m["params"]) if p["c"] in MUT)
        wline = f"push(format!(\"W{ws}\"{wargs}));"
        missing = m["resp"] == "unmock" and m.get("um") is None
        named = f"named_panic(\"{tn}::t{ti}_m{mi}\", "
        if missing and m["flav"] == "sync":
            L += [f"        {named}std::panic::catch_unwind(std::panic::AssertUnwindSafe(|| {{ let _ = {call_expr}; }})));", "        " + wline]
        elif missing:
            L += [f"        let f = {call_expr};", "        sample(\"constructed\");"]
            if use == "Awaited":
                L += [f"        let pr = std::panic::catch_unwind(std::panic::AssertUnwindSafe(|| {{ let _ = block_on(f); }}));",
                      "        sample(\"awaited\");", f"        {named}pr);", "        " + wline]
            else:
                L += ["        drop(f);", "        sample(\"dropped\");"]
        elif m["flav"] == "sync":
            L += [f"        let r = {call_expr};", "        push(format!(\"R {}\", r.show()));", "        " + wline]
        else:
            L += [f"        let f = {call_expr};", "        sample(\"constructed\");"]
            if use == "Awaited":
                L += ["        let r = block_on(f);", "        sample(\"awaited\");", "        push(format!(\"R {}\", r.show()));", "        " + wline]
            else:
                L += ["        drop(f);", "        sample(\"dropped\");"]
        L.append("    }")
    if recv == "owned" and m["flav"] == "sync" and m["resp"] != "returns" and m["opener"] != "next" and \
            (m["resp"] != "unmock" or m["um"]["form"] == "path" or "self" in m["um"]["exprs"]):
        # finally the ORIGINAL itself is passed by value: the answer must receive that very instance (not a clone of it)
        ids = ids_of(m, 7)
        lets, args = [], []
        for k, p in enumerate(m["params"]):
            l, a = rust_arg(trait, m, k, p, ids[k])
            lets.append(l); args.append(a)
        L.append("    {")
        L += ["        " + l for l in lets]
        L += ["        push(\"O expect-original\".to_string());", f"        let _r = {path}({', '.join(['u'] + args)});"]
        L.append("    }")
    L.append("}")
    return "\n".join(L)


HEADER = ("// generated by vlib/props/C05.py -- do not edit\n"
          "use crate::support::*;\nuse unimock::*;\nuse std::future::Future;\nuse std::pin::Pin;\nuse std::rc::Rc;\nuse std::sync::Arc;\n\n")


def render(traits):
    """returns (source, cases, line ranges per trait)"""
    src, cases, ranges = HEADER, [], []
    for ti, t in enumerate(traits):
        start = src.count("\n") + 1
        src += rust_trait(ti, t) + "\n"
        for mi in range(len(t["methods"])):
            src += rust_driver(ti, mi, t) + "\n"
            cases.append((ti, mi))
        src += "\n"
        ranges.append((start, src.count("\n")))
    arms = "\n".join(f"        {k} => case_{ti}_{mi}()," for k, (ti, mi) in enumerate(cases))
    src += "pub fn run(k: usize) {\n    match k {\n" + arms + "\n        _ => panic!(\"no such case\"),\n    }\n}\n"
    return src, cases, ranges


class BuildBroken(Exception):
    def __init__(self, traits_idx, log):
        self.idx, self.log = traits_idx, log


def prepare_crate(name):
    """a private copy of harness/shapes for another property's shape part"""
    import shutil
    src_dir = os.path.join(C.VERIF, "harness", "shapes")
    dst = os.path.join(C.VERIF, "harness", name)
    os.makedirs(os.path.join(dst, "src"), exist_ok=True)
    for rel in ("Cargo.toml.in", os.path.join("src", "main.rs"), os.path.join("src", "support.rs")):
        text = open(os.path.join(src_dir, rel)).read()
        if rel == "Cargo.toml.in":
            text = text.replace('name = "vshapes"', f'name = "v{name}"')
        b = os.path.join(dst, rel)
        if not os.path.exists(b) or open(b).read() != text:
            open(b, "w").write(text)


def both(traits, harness="shapes"):
    if harness not in ("shapes", "shapes_probe"):
        prepare_crate(harness)
    src, cases, ranges = render(traits)
    path = os.path.join(C.VERIF, "harness", harness, "src", "gen.rs")
    if not os.path.exists(path) or open(path).read() != src:
        open(path, "w").write(src)
    try:
        binary = C.build_harness(harness)
    except C.CheckFailure as f:
        lines = [int(x) for x in re.findall(r"src/gen\.rs:(\d+):", f.detail_full if hasattr(f, "detail_full") else f.detail)]
        idx = sorted({ti for ln in lines for ti, (a, b) in enumerate(ranges) if a <= ln <= b})
        raise BuildBroken(idx, f.detail)
    impl = C.run_harness(binary, [f"case {k} {k}" for k in range(len(cases))])
    model = C.coq_eval_cases(PRELUDE, [coq_case(traits[ti], mi) for ti, mi in cases], show="lines_of_kases", shard=40)
    return cases, impl, model


def own_receiver_check(lines):
    """by-value receivers: the answer function reports whether it was handed the original instance or a clone
    (Unimock::no_verify_in_drop refuses clones).  Calls made on `u.clone()` must see a clone, the final call made on
    the original itself must see the original; the lines of the extra call are not part of the model's prediction."""
    if not any(l.startswith("O ") for l in lines):
        return lines
    out, bad, after = [], [], False
    for l in lines:
        if l == "O expect-original":
            after = True
        elif l.startswith("O "):
            want = "O original" if after else "O clone"
            if l != want:
                bad.append(f"RECEIVER {l} where {want} is required")
        elif not after:
            out.append(l)
    if after and not any(l == "O original" for l in lines):
        bad.append("RECEIVER the answer function never saw the original instance")
    return out + bad


def proj(lines):
    """the property's projection: matcher views (consecutive repeats collapsed), answer calls with receiver and arguments,
    result, caller variables, and at each sample point whether/how often evaluation has happened (answer count exact,
    matcher count only as zero / non-zero)"""
    out = []
    lines = own_receiver_check(lines)
    exact = bool(lines) and lines[0] == "X exact"      # (harness marker) every matcher invocation counts: nothing is collapsed
    for l in lines[1:] if exact else lines:
        if l.startswith("C "):
            l = re.sub(r" m=(\d+)", lambda mo: " m=0" if mo.group(1) == "0" else " m>0", l)
        if l.startswith("M") and out and out[-1] == l and not exact:
            continue
        out.append(l)
    return out


def canon(trait, mi):
    t = {k: v for k, v in trait.items() if k != "methods"}
    return json.dumps({"t": t, "m": trait["methods"][mi]}, sort_keys=True)


def nontrivial(trait, m):
    cs = [p["c"] for p in m["params"]]
    return len(cs) >= 2 or any(c in MUT for c in cs) or m["flav"] != "sync" or m["recv"] in ("mut", "pin")


# ---------------------------------------------------------------- shrinking
def shrink_candidates(trait, mi):
    out = []
    m = trait["methods"][mi]
    def variant(f):
        t = copy.deepcopy(trait)
        t["methods"] = [t["methods"][mi]]
        f(t, t["methods"][0])
        out.append(normalize(t))
    variant(lambda t, mm: None)
    for k in range(len(m["params"])):
        variant(lambda t, mm, k=k: mm["params"].pop(k))
    for k, p in enumerate(m["params"]):
        if p["c"] not in ("u32", "mut", "mutlt"):
            variant(lambda t, mm, k=k: mm["params"][k].update({"c": "mut" if mm["params"][k]["c"] in MUT else "u32", "actual": None}))
    if m["recv"] not in ("ref", "mut"):
        variant(lambda t, mm: mm.update({"recv": "mut" if mm["recv"] == "pin" else "ref"}))
    if m["flav"] != "sync":
        variant(lambda t, mm: (mm.update({"flav": "sync"}), t.update({"async_trait": False})))
    if trait["generic"]:
        variant(lambda t, mm: t.update({"generic": None}))
    if m["ret"] != "u32":
        variant(lambda t, mm: mm.update({"ret": "u32"}))
    if trait["api"] != "module":
        variant(lambda t, mm: t.update({"api": "module"}))
    return out


def disagreeing(traits):
    """indices (into the rendered case list) whose projections differ; a build failure counts for the traits rustc names"""
    cases, impl, model = both(traits)
    return cases, impl, model, [k for k in range(len(cases)) if proj(impl[k]) != proj(model[k])]


def judge(cands):
    """(indices of candidates that compile and disagree, indices that do not compile)"""
    alive, broken = list(range(len(cands))), []
    for _ in range(4):
        if not alive:
            break
        try:
            cases, impl, model, bad = disagreeing([cands[i] for i in alive])
            return sorted({alive[cases[k][0]] for k in bad}), broken
        except BuildBroken as b:
            if not b.idx:
                break
            broken += [alive[i] for i in b.idx]
            alive = [a for k, a in enumerate(alive) if k not in b.idx]
    return [], broken


def shrink(trait, mi, rounds, compile_failure):
    """candidate 0 is the method alone, the others are strictly smaller; a run-time disagreement is preferred,
    a candidate that no longer compiles is only followed when the original failure was a compile failure"""
    cur = (trait, mi)
    for _ in range(rounds):
        cands = shrink_candidates(*cur)
        bad, broken = judge(cands)
        pool = broken if (compile_failure and not bad) else bad
        nxt = next((i for i in pool if i > 0), pool[0] if pool else None)
        if nxt is None:
            break
        new = (cands[nxt], 0)
        if canon(*new) == canon(*cur):
            break
        cur = new
    return cur


def one(trait, mi):
    """both sides for a single trait (build errors are reported as the implementation's observation)"""
    try:
        cases, impl, model = both([trait], harness="shapes_probe" if trait.get("probe") else "shapes")
        return impl[mi], model[mi], None
    except BuildBroken as b:
        model = C.coq_eval_cases(PRELUDE, [coq_case(trait, mi)], show="lines_of_kases", shard=40)
        errs = [l for l in b.log.splitlines() if l.startswith("error")][:6]
        return ["DOES-NOT-COMPILE"] + errs, model[0], b.log


# ---------------------------------------------------------------- the recorded deviation class
KNOWN_CLASS = "rpit-future-on-polonius-receiver"
KNOWN_WHAT = ("#[unimock] accepts `fn m(&mut self | self: Pin<&mut Self>, ..) -> impl Future<Output = R>` but its expansion does not "
              "compile (E0562: the polonius closure is annotated with the RPIT itself, mod.rs:512-517), so no generated method exists for this shape")


def known_entry():
    for e in C.known_findings().get("known", []):
        if e.get("property") == "C05" and e.get("class") == KNOWN_CLASS:
            return e
    return None


def probe_traits(rng):
    out = []
    for recv in ("mut", "pin"):
        t = {"probe": True, "async_trait": False, "generic": None, "api": "module", "methods": [
            {"recv": recv, "params": gen_params(rng, rng.randint(0, 3), None), "ret": rng.choice(["u32", "tok", "unit"]), "flav": "rpit",
             "T": "u32", "resp": "answers_arc", "opener": "each"}]}
        out.append(normalize(t))
    return out


def probe_known(rng):
    """returns (status per probe trait, records).  status: 'known' = does not compile, as recorded and as the model says
    (ILL-TYPED); 'repaired' = compiles and behaves as the spec demands (the model of the same shape written as `async fn`);
    'violation' = anything else"""
    traits = probe_traits(rng)
    res = []
    for t in traits:
        model = C.coq_eval_cases(PRELUDE, [coq_case(t, 0)], show="lines_of_kases", shard=40)[0]
        spec_t = copy.deepcopy(t); spec_t["methods"][0]["flav"] = "async"; spec_t.pop("probe")
        spec = C.coq_eval_cases(PRELUDE, [coq_case(spec_t, 0)], show="lines_of_kases", shard=40)[0]
        try:
            cases, impl, _ = both([t], harness="shapes_probe")
            obs = impl[0]
        except BuildBroken as b:
            obs = ["DOES-NOT-COMPILE"] + sorted({l for l in b.log.splitlines() if l.startswith("error[")})[:3]
        if obs[0] == "DOES-NOT-COMPILE" and set(model) == {"ILL-TYPED"}:
            status = "known"
        elif proj(obs) == proj(spec):
            status = "repaired"
        else:
            status = "violation"
        res.append({"trait": t, "rust_trait": rust_trait(0, t), "model": model, "spec_if_repaired": spec, "observed": obs, "status": status})
    return res


# ---------------------------------------------------------------- the check
def run(tier, seed):
    t0 = time.time()
    rng = random.Random(seed)
    obligations = C.proof_obligations("C05", MODULE, THEOREMS)
    traits = gen_traits(rng, tier)
    failing, compile_failure = None, False
    try:
        cases, impl, model, bad = disagreeing(traits)
        if bad:
            failing = cases[bad[0]]
    except BuildBroken as b:
        if not b.idx:
            raise C.CheckFailure("harness shapes does not build against the current tree (no generated trait named by rustc)", b.log)
        cases, impl, model, bad = [], [], [], [0]
        compile_failure = True
        ti = b.idx[0]
        failing = (ti, 0)
        # which method of that trait: try each alone
        for mi in range(len(traits[ti]["methods"])):
            t1 = copy.deepcopy(traits[ti]); t1["methods"] = [t1["methods"][mi]]
            i1, m1, log = one(normalize(t1), 0)
            if log is not None:
                failing = (ti, mi)
                break
    probes = probe_known(rng) if not failing else []
    entry = known_entry()
    probe_bad = [p for p in probes if p["status"] == "violation" or (p["status"] == "known" and entry is None)]
    all_m = [(t, m) for t in traits for m in t["methods"]]
    distinct = {canon(t, mi): (t, t["methods"][mi]) for t in traits for mi in range(len(t["methods"]))}
    nt = sum(1 for t, m in distinct.values() if nontrivial(t, m))
    dist = collections.Counter()
    for t, m in all_m:
        for k, v in factors(t, m).items():
            if k not in ("first", "last"):
                dist[f"{k}={v}"] += 1
        for p in m["params"]:
            dist["class=" + p["c"]] += 1
        dist["opener=" + m["opener"]] += 1
        dist["same_class_neighbours=%d" % sum(1 for a, b in zip(m["params"], m["params"][1:]) if a["c"] == b["c"])] += 1
    allpairs = set()
    for t, m in all_m:
        allpairs |= pairs_of(factors(t, m))
    n_obl = len(obligations) + 2
    cov = {
        "obligations": n_obl, "discharged": len(obligations) + (0 if failing else 1) + (0 if (failing or probe_bad) else 1),
        "known_finding_probe": [{k: p[k] for k in ("rust_trait", "model", "observed", "status")} for p in probes],
        "checker_cmd": f"make -C /verif/coq ; ./check C05 --tier {tier}",
        "trusted_base": C.TRUSTED_BASE + ["rustc type-checks the generated traits and drivers (harness/shapes/src/gen.rs); async-trait 0.1 (vendored registry copy)",
                                          "Macro/Unimock.v is a hand transcription of def_method_impl / InputsDestructuring (tied by this run's co-execution, not by parsing the expansion)"],
        "theorems": obligations,
        "correspondence_obligation": "every generated method: projection(model observation lines) = projection(lines printed by the compiled program)",
        "evaluations": len(all_m), "traits": len(traits), "distinct_nontrivial": nt, "rule": RULE,
        "factor_pairs_covered": len(allpairs),
        "samples": [{"trait": rust_trait(i, traits[i]), "driver": rust_driver(i, 0, traits[i]), "model": coq_case(traits[i], 0)} for i in (0, 1, 2)],
        "distribution": dict(sorted(dist.items())),
    }
    # receiver part: the default-impl arm of the generated impls (the fourth arm next to Return / Answer / Unmock): provided methods of
    # every receiver kind, their default bodies called with the caller's arguments on the very instance / a helper of it
    dn, dpayload = 0, None
    if not failing and not probe_bad:
        from .. import deleg_part as DP
        from . import C15
        def arms_of_m2():
            # T::m2 has all four arms (Return / Answer, Unmock: real2 registered at its own unmock_with position, default body): each response
            # kind must take ITS arm, in strict and partial mocks, on the original and on a clone
            out = []
            for ops in ([("unm",)], [("dfl",)], [("ret", 5)], [("ans", 6)], [("unm",), ("n", 1), ("then",), ("dfl",)]):
                for partial in (False, True):
                    terms = [{"kind": "call", "mid": 2, "opener": "each", "pat": {"matcher": 15, "dbg": 1, "ops": ops}}]
                    evs = [{"base": ("clone", 0)}, {"base": ("call", 1, 2, 3)}, {"base": ("call", 0, 2, 2)}, {"base": ("call", 0, 2, 6)},
                           {"base": ("drop", 1)}, {"base": ("drop", 0)}]
                    out.append({"partial": partial, "terms": terms, "events": evs})
            return out
        dn, dpayload = DP.run_part("C05", "deleg05", arms_of_m2() + [C15.gen_case(rng) for _ in range(40 if tier == "quick" else 300)], seed,
                                   "correspondence C05 (receiver part): the CallDefaultImpl arm of the generated impls for every receiver kind vs the model")
        cov["receiver_part"] = {"evaluations": dn, "rule": "C15 generator (trait D: &self, &mut self, self, Rc / Arc sole or shared, Pin; original and clones)"}
        cov["obligations"] += 1
        cov["discharged"] += 0 if dpayload else 1
    if dpayload is not None:
        path = C.write_replay("C05", seed, dpayload)
        C.write_evidence("C05", tier, seed, cov, time.time() - t0, 1)
        C.violation("C05", path)
        return 1
    if failing:
        ti, mi = failing
        t1, m1 = shrink(traits[ti], mi, 3 if tier == "quick" else 6, compile_failure)
        ci, cm, log = one(t1, m1)
        if proj(ci) == proj(cm):          # shrinking lost it: report the original
            t1, m1 = traits[ti], mi
            ci, cm, log = one(t1, m1)
        payload = {"property": "C05", "seed": seed, "tier": tier,
                   "theorem_or_correspondence": "correspondence C05: generated trait compiled with the real #[unimock] vs Macro/ShapeRun model (C05_forwarding)",
                   "case": {"trait": t1, "method": m1}, "rust_trait": rust_trait(0, t1), "rust_driver": rust_driver(0, m1, t1),
                   "coq_case": coq_case(t1, m1), "expected_by_model": cm, "observed_on_implementation": ci,
                   "compile_log": (log or "")[-3000:], "replay_cmd": "./check C05 --replay <this file>"}
        path = C.write_replay("C05", seed, payload)
        C.write_evidence("C05", tier, seed, cov, time.time() - t0, 1)
        C.violation("C05", path)
        return 1
    if probe_bad:
        p = probe_bad[0]
        payload = {"property": "C05", "seed": seed, "tier": tier,
                   "theorem_or_correspondence": "C05 outside the theorems' domain: shape of the class Known (C05_known_is) " +
                   ("fails and known_findings.json has no entry property=C05 class=" + KNOWN_CLASS if p["status"] == "known"
                    else "compiles but does not behave as C05_forwarding/C05_async_deferred demand"),
                   "case": {"trait": p["trait"], "method": 0}, "rust_trait": p["rust_trait"], "rust_driver": rust_driver(0, 0, p["trait"]),
                   "coq_case": coq_case(p["trait"], 0), "expected_by_model": p["spec_if_repaired"], "observed_on_implementation": p["observed"],
                   "replay_cmd": "./check C05 --replay <this file>"}
        path = C.write_replay("C05", seed, payload)
        C.write_evidence("C05", tier, seed, cov, time.time() - t0, 1)
        C.violation("C05", path)
        return 1
    # the arguments on their way through the runtime: a call that is answered runs NO user code of the argument types (their Debug impls
    # only run when the call ends in an error whose message renders the call: Model/Run.v debug_runs); the Layer A harness method
    # DB::db(a: A8) has an argument whose Debug impl counts its runs (and panics for one value), observed through `callm`
    from ..trace_part import TracePart
    tn, tpayload, tcov = TracePart("C05", n_quick=100, n_thorough=1000)(rng, tier, seed, [])
    cov.update(tcov)
    if tpayload is not None:
        path = C.write_replay("C05", seed, tpayload)
        C.write_evidence("C05", tier, seed, cov, time.time() - t0, 1)
        C.violation("C05", path)
        return 1
    if any(p["status"] == "known" for p in probes):
        print(f"KNOWN-FINDING: property=C05 {entry.get('id', '')} {KNOWN_WHAT} [{sum(1 for p in probes if p['status'] == 'known')} probe shape(s), e.g. "
              + probes[0]["rust_trait"].splitlines()[2].strip() + "]")
    C.write_evidence("C05", tier, seed, cov, time.time() - t0, 0,
                     assumptions=["model/implementation agreement is established on the generated traits only",
                                  "the body AST is a transcription of the macro, not parsed from its expansion"])
    print(f"C05: {len(obligations)} theorems closed; {len(traits)} traits / {len(all_m)} methods compiled with the real macro; all co-executions agree ({time.time()-t0:.1f}s)")
    return 0


def replay(path):
    payload = json.load(open(path))
    if payload.get("part") == "deleg":
        from .. import deleg_part as DP
        return DP.replay("C05", payload, path)
    if payload.get("part") == "trace":
        from ..trace_part import replay_trace
        return replay_trace("C05", payload, path)
    case = payload.get("case")
    if case is None:
        print("replay file names an obligation, not an input:", payload.get("theorem_or_correspondence"))
        return 1
    t1, m1 = case["trait"], case["method"]
    ci, cm, log = one(t1, m1)
    print(rust_trait(0, t1))
    print(rust_driver(0, m1, t1))
    print("model  :", cm)
    print("impl   :", ci)
    if proj(ci) != proj(cm):
        C.violation("C05", path)
        return 1
    print("agree on the property's projection")
    return 0

"""C02 -- the k-th match of a pattern yields the response its quantifier chain assigns."""
import collections
from .. import cases as K
from ..layer_a import Engine
from ..runner import run_coexec, replay_coexec

MODULE = "Props.C02"
THEOREMS = ["C02_builder_chain", "C02_start_indexes_are_prefix_sums", "C02_lookup_is_segment",
            "C02_segment_spec", "C02_counter_counts_matches", "C02_kth_response",
            "C02_binary_search_greatest", "C02_nonvacuous"]


def chain_counts(ops):
    """[(count or None)] per segment of an op chain"""
    segs, cur = [], None
    for o in ops:
        if o[0] in ("ret", "retd", "ans", "ansarc", "pan", "unm", "dfl"):
            cur = None
            segs.append(cur)
        elif o[0] == "once":
            segs[-1] = 1
        elif o[0] in ("n", "al"):
            segs[-1] = o[1]
    return segs


def nontrivial(case):
    """a pattern with >= 2 segments is matched at least (first boundary) times"""
    ncalls = collections.Counter(e["base"][2] for e in case["events"] if e["base"][0] == "call")
    for t in case["terms"]:
        pats = [t["pat"]] if t["kind"] == "call" else t["pats"]
        for p in pats:
            segs = chain_counts(p["ops"])
            if len(segs) >= 2 and ncalls[t["mid"]] >= (segs[0] or 0) + 1:
                return True
    return False


RULE = ("one or two methods, each with one response chain of 1-5 segments (counts 0-4, every response kind, last segment "
        "unquantified / exact / at-least / dangling then in stubs), ordered and unordered, top-level and stub form, matched "
        "from 0 to sum+3 times through the original and up to two clones; distinct = canonical JSON; non-trivial = a chain "
        "with >= 2 segments is driven past its first segment boundary")


def gen_cases(rng, tier):
    n = 500 if tier == "quick" else 5000
    out = []
    for i in range(n):
        nm = rng.choice([1, 1, 2])
        mids = rng.sample([0, 1, 2, 3, 4, 5], nm)
        g = K.Gen(rng, mids=mids, max_count=4, max_segments=5, nomatcher_frac=0.0)
        terms = []
        dbgs = []
        ordered_case = rng.random() < 0.3
        for mid in mids:
            clone_ok = K.CLONE_OK[mid]
            form = rng.choice(["next"] if ordered_case else ["some", "each", "stub"])
            if form == "stub":
                pats = []
                if rng.random() < 0.3:
                    p0 = g.pat("DMR", False, clone_ok, True, dbgs)
                    p0["matcher"] = rng.randrange(256)
                    pats.append(p0)
                p = g.pat("DMR", False, clone_ok, True, dbgs)
                p["matcher"] = 255
                pats.append(p)
                terms.append({"kind": "stub", "mid": mid, "pats": pats})
            else:
                p = g.pat("DMR" if form == "each" else "DR", form == "next", clone_ok, False, dbgs)
                p["matcher"] = 255
                terms.append({"kind": "call", "mid": mid, "opener": form, "pat": p})
        # history: every method up to sum+3 times, interleaved, through 3 instances
        evs = [{"base": ("clone", 0)}, {"base": ("clone", 0)}]
        calls = []
        for t in terms:
            p = t["pat"] if t["kind"] == "call" else t["pats"][-1]
            total = sum(c or 0 for c in chain_counts(p["ops"]))
            k = rng.randint(0, total + 3)
            calls += [t["mid"]] * k
        if ordered_case:
            # mostly in declaration order so that slots are consumed correctly
            if rng.random() < 0.2:
                rng.shuffle(calls)
        else:
            rng.shuffle(calls)
        for mid in calls:
            evs.append({"base": ("call", rng.randrange(3), mid, rng.randrange(K.NARGS))})
        evs += [{"base": ("drop", 2)}, {"base": ("drop", 1)}, {"base": (rng.choice(["drop", "verify"]), 0)}]
        out.append({"partial": rng.random() < 0.3, "terms": terms, "events": evs})
    return out


def stats(cases):
    d = collections.Counter()
    for c in cases:
        for t in c["terms"]:
            pats = [t["pat"]] if t["kind"] == "call" else t["pats"]
            for p in pats:
                d[f"segments={len(chain_counts(p['ops']))}"] += 1
                for o in p["ops"]:
                    d["op:" + o[0]] += 1
    return dict(d)


def engines(tier):
    es = [Engine("C02")]
    if tier == "thorough":
        es.append(Engine("C02", bc="cfg_spin", features=["spin-build"]))
    return es


def run(tier, seed):
    return run_coexec("C02", tier, seed, module=MODULE, theorems=THEOREMS, gen_cases=gen_cases,
                      nontrivial=nontrivial, rule=RULE, engines=engines(tier), stats=stats)


def replay(path):
    return replay_coexec("C02", path, lambda p: Engine("C02", bc=p.get("build", "cfg_std"), features=p.get("features")))

"""C02 -- the k-th match of a pattern yields the response its quantifier chain assigns."""
import collections
from .. import cases as K
from ..layer_a import Engine
from ..runner import run_coexec, replay_coexec

MODULE = "Props.C02"
THEOREMS = ["C02_builder_chain", "C02_start_indexes_are_prefix_sums", "C02_lookup_is_segment",
            "C02_segment_spec", "C02_counter_counts_matches", "C02_kth_response",
            "C02_binary_search_greatest", "C02_nonvacuous"]


def chain_counts(ops):
    """[(count or None)] per segment of an op chain"""
    segs, cur = [], None
    for o in ops:
        if o[0] in ("ret", "retd", "ans", "ansarc", "pan", "unm", "dfl"):
            cur = None
            segs.append(cur)
        elif o[0] == "once":
            segs[-1] = 1
        elif o[0] in ("n", "al"):
            segs[-1] = o[1]
    return segs


def nontrivial(case):
    """a pattern with >= 2 segments is matched at least (first boundary) times"""
    ncalls = collections.Counter(e["base"][2] for e in case["events"] if e["base"][0] == "call")
    for t in case["terms"]:
        pats = [t["pat"]] if t["kind"] == "call" else t["pats"]
        for p in pats:
            segs = chain_counts(p["ops"])
            if len(segs) >= 2 and ncalls[t["mid"]] >= (segs[0] or 0) + 1:
                return True
    return False


RULE = ("one or two methods, each with one response chain of 1-5 segments (counts 0-4, every response kind, last segment "
        "unquantified / exact / at-least / dangling then in stubs), ordered and unordered, top-level and stub form, matched "
        "from 0 to sum+3 times through the original and up to two clones; distinct = canonical JSON; non-trivial = a chain "
        "with >= 2 segments is driven past its first segment boundary")


def gen_cases(rng, tier):
    n = 500 if tier == "quick" else 5000
    out = []
    for i in range(n):
        nm = rng.choice([1, 1, 2])
        mids = rng.sample([0, 1, 2, 3, 4, 5], nm)
        g = K.Gen(rng, mids=mids, max_count=4, max_segments=5, nomatcher_frac=0.0)
        terms = []
        dbgs = []
        ordered_case = rng.random() < 0.3
        for mid in mids:
            clone_ok = K.CLONE_OK[mid]
            form = rng.choice(["next"] if ordered_case else ["some", "each", "stub"])
            if form == "stub":
                pats = []
                if rng.random() < 0.3:
                    p0 = g.pat("DMR", False, clone_ok, True, dbgs)
                    p0["matcher"] = rng.randrange(256)
                    pats.append(p0)
                p = g.pat("DMR", False, clone_ok, True, dbgs)
                p["matcher"] = 255
                pats.append(p)
                terms.append({"kind": "stub", "mid": mid, "pats": pats})
            else:
                p = g.pat("DMR" if form == "each" else "DR", form == "next", clone_ok, False, dbgs)
                p["matcher"] = 255
                terms.append({"kind": "call", "mid": mid, "opener": form, "pat": p})
        # history: every method up to sum+3 times, interleaved, through 3 instances
        evs = [{"base": ("clone", 0)}, {"base": ("clone", 0)}]
        calls = []
        for t in terms:
            p = t["pat"] if t["kind"] == "call" else t["pats"][-1]
            total = sum(c or 0 for c in chain_counts(p["ops"]))
            k = rng.randint(0, total + 3)
            calls += [t["mid"]] * k
        if ordered_case:
            # mostly in declaration order so that slots are consumed correctly
            if rng.random() < 0.2:
                rng.shuffle(calls)
        else:
            rng.shuffle(calls)
        for mid in calls:
            evs.append({"base": ("call", rng.randrange(3), mid, rng.randrange(K.NARGS))})
        evs += [{"base": ("drop", 2)}, {"base": ("drop", 1)}, {"base": (rng.choice(["drop", "verify"]), 0)}]
        out.append({"partial": rng.random() < 0.3, "terms": terms, "events": evs})
    return out


def stats(cases):
    d = collections.Counter()
    for c in cases:
        for t in c["terms"]:
            pats = [t["pat"]] if t["kind"] == "call" else t["pats"]
            for p in pats:
                d[f"segments={len(chain_counts(p['ops']))}"] += 1
                for o in p["ops"]:
                    d["op:" + o[0]] += 1
    return dict(d)


def engines(tier):
    es = [Engine("C02")]
    if tier == "thorough":
        es.append(Engine("C02", bc="cfg_spin", features=["spin-build"]))
    return es


def concurrent_part():
    """'counted over the original and all clones' also when the clones call concurrently: 2-3 threads on one response chain,
    ALL interleavings of the runtime's atomic operations (controlled scheduler, Layer B model: Props/C10.v gives the
    position theorem this rests on).  Returns extra obligation records; raises through a replay on disagreement."""
    import random
    from .. import common as C
    from .. import layer_b as B
    from .C10 import op_counts
    rng = random.Random(20)
    eng = B.SchedEngine(); eng.build()
    progs = []
    for (nth, ncalls, ops) in [(2, 1, [("ret", 1), ("n", 1), ("then",), ("ret", 2), ("n", 1), ("then",), ("ans", 3)]),
                               (3, 1, [("ret", 1), ("n", 2), ("then",), ("ret", 2)]),
                               (2, 2, [("ans", 1), ("n", 1), ("then",), ("ret", 2), ("n", 2), ("then",), ("ret", 3)])]:
        terms = [{"kind": "call", "mid": 0, "opener": "each", "pat": {"matcher": 255, "dbg": 1, "ops": ops}}]
        progs.append({"partial": False, "terms": terms, "threads": [[(0, k)] * ncalls for k in range(nth)], "sched": []})
    base = eng.model(progs)
    cases = []
    for c, obs in zip(progs, base):
        for s in list(B.all_schedules(op_counts(obs, len(c["threads"]))))[:400]:
            c2 = dict(c); c2["sched"] = s
            cases.append(c2)
    impl, model = eng.both(cases)
    bad = [i for i in range(len(cases)) if B.project(impl[i]) != B.project(model[i])]
    if bad:
        res = [i for i in bad if B.results_only(B.project(impl[i])) != B.results_only(B.project(model[i]))]
        i = (res or bad)[0]
        path = C.write_replay("C02", 0, {"property": "C02", "part": "concurrent",
            "theorem_or_correspondence": "correspondence C02 (concurrent matches of one response chain, all interleavings)"
                                         + ("" if res else ": only the trace of atomic operations differs"),
            "case": cases[i], "harness_line": B.harness_line(cases[i], "replay"),
            "expected_by_model": model[i], "observed_on_implementation": impl[i]})
        C.write_evidence("C02", "quick", 0, {"obligations": 1, "discharged": 0, "checker_cmd": "./check C02",
                                             "trusted_base": C.TRUSTED_BASE, "explanation": "concurrent part disagreed", "samples": [B.harness_line(cases[i], "replay")]},
                         0.0, violations=1)
        C.violation("C02", path, no_input=not res)
        return None
    return [{"theorem": f"concurrent matches: {len(cases)} schedules (all interleavings of 3 programs) agree with the Layer B model",
             "assumptions": "co-execution"}]


def run(tier, seed):
    extra = []
    def extra_obligations():
        r = concurrent_part()
        if r is None:
            raise SystemExit(1)
        return r
    def composite(rng, tier_, seed_, cases):
        """the same chains over COMPOSITE return types (Option/Result/Vec/Poll/tuples with owned leaves next to borrowed parts): the k-th
        request through returns / each_call / n_times(1|2|3) / at_least_times(1) yields the configured value or the single-use refusal"""
        from . import C12
        n, ntypes, bad = C12.composite_part(rng, tier_, crate="outputs02", limit=90 if tier_ == "quick" else 300)
        cov = {"composite_part": {"evaluations": n, "types": ntypes, "rule": composite.__doc__}}
        if not bad:
            return n, None, cov
        b = dict(bad[0])
        b.update({"property": "C02", "seed": seed_, "part": "composite", "disagreeing_cases_in_run": len(bad),
                  "theorem_or_correspondence": "correspondence C02 (composite part): k-th request on a composite return type vs Macro/Output.v (C17_single_use / C17_multi_use)",
                  "replay_cmd": "./check C02 --replay <this file>"})
        return n, b, cov
    return run_coexec("C02", tier, seed, module=MODULE, theorems=THEOREMS, gen_cases=gen_cases, parts=[composite],
                      nontrivial=nontrivial, rule=RULE + "; plus 2-3 threads matching one chain concurrently under every interleaving of "
                      "the runtime's atomic operations (controlled scheduler)", engines=engines(tier), stats=stats,
                      extra_obligations=extra_obligations)


def replay(path):
    import json
    payload = json.load(open(path))
    if payload.get("part") == "composite":
        from . import C12
        return C12.replay_composite("C02", payload, path, "outputs02")
    if payload.get("part") == "concurrent":
        from .. import common as C
        from .. import layer_b as B
        eng = B.SchedEngine(); eng.build()
        impl, model = eng.both([payload["case"]])
        print("model:", model[0]); print("impl :", impl[0])
        if B.project(impl[0]) != B.project(model[0]):
            C.violation("C02", path); return 1
        print("agree"); return 0
    return replay_coexec("C02", path, lambda p: Engine("C02", bc=p.get("build", "cfg_std"), features=p.get("features")))

"""C20 -- bundled std/core/tokio/futures/embedded-hal mocks act like hand-written impls."""
import collections, json, os, random, shutil, tempfile, time
from .. import common as C
from .. import mirrors_src as M

MODULE = "Props.C20"
THEOREMS = ["C20_default_body_on_mock_is_body_on_struct", "C20_mock_acts_like_scripted_struct",
            "C20_report_partial_by_default", "C20_wiring_table", "C20_nonvacuous"]

RULE = ("(1) WIRING: the inventory of mirrored traits is parsed from the current src/mock/*.rs; a Rust program generated from it "
        "calls EVERY method of EVERY mirrored trait through the upstream trait on four mocks (strict/partial x mentioning only that "
        "method's MockFn with a tagged panics-clause / mentioning only the trait's other required methods); the observed table is "
        "written to MirrorsCheck.v where Coq re-checks each row against the Layer A model instantiated with the row's MockFnInfo "
        "and instantiates C20_wiring_table. (2) DIFFERENTIAL: random scripts (chunk sizes incl. zero-length/short/oversized, "
        "ErrorKind::Interrupted, hard errors, EOF, Pending, payloads incl. empty and invalid UTF-8, too short / too long / "
        "perturbed scripts, no clause at all) are replayed by a plain struct implementing the upstream traits and by a Unimock "
        "(new and new_partial) built from ordered answers_arc clauses, both driven through the same upstream provided methods "
        "(write_all, write_fmt, write_vectored, read_exact, read_to_end, read_to_string, read_vectored, read_line, read_until, "
        "rewind, stream_position, Hasher::write_{u,i}*, DelayNs::delay_us/ms, set_state, toggle, set_duty_cycle_*, Display via "
        "write!/format!, tokio AsyncReadExt/AsyncWriteExt futures under a hand-rolled block_on); results, buffers, call "
        "sequences with arguments and the final verification verdict must be identical, and for cases whose operations have a "
        "transcription in Macro/StdBodies.v both must equal the Coq model's prediction (mock side through Layer A, struct side "
        "through Spec/Scripted). distinct = canonical JSON; non-trivial = a provided method made >= 2 required calls, or met an "
        "error / zero / interrupted / pending / oversized response, or the script did not fit")

# ---------------------------------------------------------------- wiring table

def classify(t, m, idx, variant, obs):
    path = f"{t['trait']}::{m['name']}"
    if obs == "ret":
        if t["handwritten"] and t["partial_by_default"]:
            return "WReal"
        return "WBodyReturned" if m["provided"] else "WOther"
    if not obs.startswith("panic:"):
        return "WOther"
    msg = obs[6:]
    if f"wired:{idx}" in msg and msg.startswith(path + "("):
        return "WClause"
    for r in t["methods"]:
        if not r["provided"] and msg.endswith(f"req:{r['name']}") and msg.startswith(f"{t['trait']}::{r['name']}("):
            return "WBodyReq"
    if "No mock implementation found" in msg and msg.startswith(path + "("):
        return "WNoImpl"
    if "cannot be unmocked" in msg and msg.startswith(path + " "):
        return "WCannotUnmock"
    return "WOther"


def expected_row(t, m):
    if m["provided"]:
        return {"ms": ["WClause"], "mp": ["WClause"], "us": ["WBodyReq", "WBodyReturned"], "up": ["WBodyReq", "WBodyReturned"]}
    if t.get("partial_by_default"):
        return {"ms": ["WClause"], "mp": ["WClause"], "us": ["WReal"], "up": ["WReal"]}
    return {"ms": ["WClause"], "mp": ["WClause"], "us": ["WNoImpl"], "up": ["WCannotUnmock"]}


def wiring_table(binary, traits):
    rc, out, err = C.sh([binary, "wiring"], timeout=300)
    if rc != 0:
        raise C.CheckFailure("the wiring program crashed", (out + err)[-3000:])
    raw = {}
    for line in out.splitlines():
        if line.startswith("W "):
            _, key, obs = line.split(" ", 2)
            raw[key] = obs
    rows = []
    for idx, (t, m) in enumerate(M.rows_of(traits)):
        r = {"idx": idx, "trait": t["trait"], "upstream": t["upstream"], "api": f"{t['modpath']}::{t['api']}", "method": m["name"],
             "provided": m["provided"], "partial_by_default": bool(t.get("partial_by_default")), "raw": {}, "obs": {}}
        for v in M.VARIANTS:
            o = raw.get(f"{idx}.{v}", "missing")
            r["raw"][v] = o[:300]
            r["obs"][v] = classify(t, m, idx, v, o)
        exp = expected_row(t, m)
        r["ok"] = all(r["obs"][v] in exp[v] for v in M.VARIANTS)
        rows.append(r)
    return rows


def coq_str(s):
    return '"' + s.replace('"', '""') + '"'


def check_table(rows):
    """MirrorsCheck.v: Coq re-checks every observed row against the Layer A model and instantiates the theorem."""
    body = ";\n  ".join(
        "{| w_trait := %s; w_method := %s; w_provided := %s; w_partial_by_default := %s; w_mentioned_strict := %s; "
        "w_mentioned_partial := %s; w_unmentioned_strict := %s; w_unmentioned_partial := %s |}"
        % (coq_str(r["trait"]), coq_str(r["method"]), "true" if r["provided"] else "false",
           "true" if r["partial_by_default"] else "false", r["obs"]["ms"], r["obs"]["mp"], r["obs"]["us"], r["obs"]["up"])
        for r in rows)
    src = ("From Unimock Require Import Macro.Mirror Proofs.C20 Props.C20.\n"
           f"Definition observed : list wrow := [\n  {body}\n].\n"
           "Lemma observed_ok : forallb wrow_ok observed = true.\nProof. vm_compute. reflexivity. Qed.\n"
           "Theorem observed_wired : Forall row_wired observed.\nProof. exact (C20_wiring_table observed observed_ok). Qed.\n"
           "Print Assumptions observed_wired.\n")
    d = tempfile.mkdtemp(prefix="vmirr")
    try:
        open(os.path.join(d, "MirrorsCheck.v"), "w").write(src)
        rc, out, err = C.sh(["coqc", "-noglob", "-Q", C.COQ, "Unimock", "MirrorsCheck.v"], cwd=d, timeout=300)
        ok = rc == 0 and "Closed under the global context" in out
        return ok, (out + err)[-1500:]
    finally:
        shutil.rmtree(d, ignore_errors=True)


# ---------------------------------------------------------------- differential cases
# script entry: [mid, resp]; resp: ["u"] | ["n", int] | ["b", [bytes]] | ["e", k] | ["p"]
# op: [id, arg]; arg: ["-"] | ["n", int] | ["b", [bytes]] | ["p", a, b]

HARD = [1, 2, 3, 7]
MAX_MICROS, MAX_MILLIS = 4294967295 // 1000, 4294967295 // 1000000
MODELLED_OPS = set([0, 1, 3, 4, 5, 6, 7, 8, 9, 10, 11, 32, 33] + list(range(40, 52)) + list(range(60, 68)))
WIDTH = {40: 1, 41: 2, 42: 4, 43: 8, 44: 16, 45: 8, 46: 1, 47: 2, 48: 4, 49: 8, 50: 16, 51: 8}


def payload(rng, lo=0, hi=12):
    n = rng.choice([lo, lo, 1, 2, 3, 5, 8, hi]) if rng.random() < 0.6 else rng.randint(lo, hi)
    n = max(lo, min(hi, n))
    return [rng.choice([0, 1, 10, 65, 97, 255, rng.randrange(256)]) for _ in range(n)]


def text(rng, lo=0, hi=10, newline_free=False):
    n = rng.randint(lo, hi)
    alphabet = b"abcXYZ 09-_" + (b"" if newline_free else b"\n")
    return [rng.choice(alphabet) for _ in range(n)]


def write_all_script(rng, mid, n, interrupts=True):
    """responses of `write`-like method [mid] for write_all over n bytes"""
    sc, rem = [], n
    while rem > 0:
        r = rng.random()
        if r < 0.62:
            c = rem if rng.random() < 0.35 else rng.randint(1, rem)
            sc.append([mid, ["n", c]]); rem -= c
        elif r < 0.78 and interrupts:
            sc.append([mid, ["e", 0]])
        elif r < 0.86:
            sc.append([mid, ["e", rng.choice(HARD)]]); break
        elif r < 0.93:
            sc.append([mid, ["n", 0]]); break
        elif r < 0.97:
            sc.append([mid, ["n", rem + rng.randint(1, 3)]]); break
        else:
            sc.append([mid, ["n", rem]]); rem = 0
    return sc


def read_exact_script(rng, mid, n):
    sc, rem = [], n
    while rem > 0:
        r = rng.random()
        if r < 0.66:
            c = rng.randint(1, rem + 2)
            sc.append([mid, ["b", payload(rng, c, c)]]); rem -= min(c, rem)
        elif r < 0.80:
            sc.append([mid, ["e", 0]])
        elif r < 0.90:
            sc.append([mid, ["b", []]]); break
        else:
            sc.append([mid, ["e", rng.choice(HARD)]]); break
    return sc


def read_all_script(rng, mid, utf8=False, pending=False):
    sc = []
    for _ in range(rng.choice([0, 1, 1, 2, 3, 5])):
        r = rng.random()
        if r < 0.75:
            d = text(rng, 1, 9) if utf8 and rng.random() < 0.85 else payload(rng, 1, rng.choice([3, 9, 40]))
            sc.append([mid, ["b", d]])
        elif r < 0.9:
            sc.append([mid, ["e", 0]])
        else:
            sc.append([mid, ["e", rng.choice(HARD)]]); return sc
    sc.append([mid, ["b", []]])
    return sc


def with_pending(rng, sc):
    out = []
    for e in sc:
        while rng.random() < 0.25:
            out.append([e[0], ["p"]])
        out.append(e)
    return out


def bufread_script(rng, delim):
    sc = []
    for _ in range(rng.choice([0, 1, 1, 2, 3])):
        r = rng.random()
        if r < 0.7:
            d = [b for b in text(rng, 1, 8) if b != delim] or [120]
            sc += [[12, ["b", d]], [13, ["u"]]]
        elif r < 0.85:
            sc.append([12, ["e", 0]])
        else:
            sc.append([12, ["e", rng.choice(HARD)]]); return sc
    if rng.random() < 0.7:
        d = [b for b in text(rng, 0, 5) if b != delim] + [delim] + text(rng, 0, 3)
        sc += [[12, ["b", d]], [13, ["u"]]]
    else:
        sc += [[12, ["b", []]], [13, ["u"]]]
    return sc


def unit_or_err(rng, mid, p=0.15):
    return [mid, ["e", rng.choice(HARD)]] if rng.random() < p else [mid, ["u"]]


def int_value(rng, width):
    top = (1 << (8 * width)) - 1
    return rng.choice([0, 1, 0x80, 0xFF, top, top >> 1, (top >> 1) + 1, rng.randint(0, top)]) & top


def delay_count(v, mx):
    n = 1
    while v > mx:
        v -= mx; n += 1
    return n


def op_segment(rng, fam):
    """one operation with a script that mostly fits it: (ops, script)"""
    if fam == "write":
        k = rng.choice([32, 32, 32, 1, 0, 103, 104])
        if k == 32:
            p = payload(rng)
            return [[32, ["b", p]]], write_all_script(rng, 0, len(p))
        if k == 1:
            return [[1, ["-"]]], [unit_or_err(rng, 1)]
        if k == 0:
            p = payload(rng)
            return [[0, ["b", p]]], [[0, ["n", rng.randint(0, len(p) + 1)]] if rng.random() < 0.8 else [0, ["e", rng.choice([0] + HARD)]]]
        if k == 103:
            p = payload(rng)
            return [[103, ["b", p]]], [[0, ["n", rng.randint(0, max(1, len(p)))]]]
        p = text(rng, 0, 6, newline_free=True)
        sc = []
        for piece in (str(len(p)), "-", p):
            if len(piece):
                part = write_all_script(rng, 0, len(piece))
                sc += part
                done = sum(e[1][1] for e in part if e[1][0] == "n")
                if done != len(piece):
                    break
        return [[104, ["b", p]]], sc
    if fam == "read":
        k = rng.choice([33, 33, 33, 100, 101, 102, 112])
        if k == 33:
            n = rng.choice([0, 1, 2, 3, 5, 8, 13])
            return [[33, ["n", n]]], read_exact_script(rng, 2, n)
        if k == 100:
            return [[100, ["-"]]], read_all_script(rng, 2)
        if k == 101:
            return [[101, ["-"]]], read_all_script(rng, 2, utf8=True)
        if k == 102:
            a, b = rng.choice([(0, 3), (2, 2), (0, 0), (4, 0)])
            return [[102, ["p", a, b]]], [[2, ["b", payload(rng, 0, 5)]]]
        return [[112, ["n", rng.randint(0, 6)]]], [[2, ["b", payload(rng, 0, 8)]] if rng.random() < 0.8 else [2, ["e", rng.choice([0] + HARD)]]]
    if fam == "bufread":
        k = rng.choice([105, 105, 106, 113, 114])
        if k == 105:
            return [[105, ["-"]]], bufread_script(rng, 10)
        if k == 106:
            d = rng.choice([10, 0, 97])
            return [[106, ["n", d]]], bufread_script(rng, d)
        if k == 113:
            return [[113, ["-"]]], [[12, ["b", payload(rng, 0, 6)]]]
        return [[114, ["n", rng.randint(0, 9)]]], [[13, ["u"]]]
    if fam == "hasher":
        ops, sc = [], []
        for _ in range(rng.randint(1, 4)):
            k = rng.randint(40, 51)
            ops.append([k, ["n", int_value(rng, WIDTH[k])]]); sc.append([3, ["u"]])
            if rng.random() < 0.15:
                ops.append([3, ["b", payload(rng, 0, 5)]]); sc.append([3, ["u"]])
        if rng.random() < 0.6:
            ops.append([4, ["-"]]); sc.append([4, ["n", rng.choice([0, 1, 2**64 - 1, rng.randrange(2**64)])]])
        return ops, sc
    if fam == "delay":
        k = rng.choice([60, 61, 60, 61, 5])
        if k == 5:
            return [[5, ["n", rng.choice([0, 1, 4294967295, rng.randrange(2**32)])]]], [[5, ["u"]]]
        mx = MAX_MICROS if k == 60 else MAX_MILLIS
        v = rng.choice([0, 1, mx - 1, mx, mx + 1, 2 * mx, 2 * mx + 1, 3 * mx + 5, rng.randint(0, 3 * mx), rng.randint(0, 1000)])
        return [[k, ["n", v]]], [[5, ["u"]] for _ in range(delay_count(v, mx))]
    if fam == "pin":
        k = rng.choice([62, 62, 63, 63, 63, 6, 7, 8, 9])
        if k == 62:
            st = rng.randint(0, 1)
            return [[62, ["n", st]]], [unit_or_err(rng, 7 if st else 6)]
        if k == 63:
            if rng.random() < 0.15:
                return [[63, ["-"]]], [[9, ["e", rng.choice(HARD)]]]
            low = rng.randint(0, 1)
            return [[63, ["-"]]], [[9, ["n", low]], unit_or_err(rng, 7 if low else 6)]
        if k in (6, 7):
            return [[k, ["-"]]], [unit_or_err(rng, k)]
        return [[k, ["-"]]], [[k, ["n", rng.randint(0, 1)]] if rng.random() < 0.85 else [k, ["e", 1]]]
    if fam == "pwm":
        k = rng.choice([64, 65, 66, 66, 67, 67, 10, 11])
        mx = rng.choice([0, 1, 255, 1000, 65535, rng.randrange(65536)])
        if k == 64:
            return [[64, ["-"]]], [unit_or_err(rng, 11)]
        if k == 65:
            return [[65, ["-"]]], [[10, ["n", mx]], unit_or_err(rng, 11)]
        if k == 66:
            den = rng.choice([0, 1, 3, 100, 65535, rng.randrange(1, 65536)])
            num = rng.choice([0, den, den + 1 if den < 65535 else den, rng.randint(0, max(0, den))])
            sc = [] if den == 0 or num > den else [[10, ["n", mx]], unit_or_err(rng, 11)]
            return [[66, ["p", num, den]]], sc
        if k == 67:
            p = rng.choice([0, 1, 50, 99, 100, 101, 255, rng.randint(0, 100)])
            sc = [] if p > 100 else [[10, ["n", mx]], unit_or_err(rng, 11)]
            return [[67, ["n", p]]], sc
        if k == 10:
            return [[10, ["-"]]], [[10, ["n", mx]]]
        return [[11, ["n", mx]]], [unit_or_err(rng, 11)]
    if fam == "display":
        k = rng.choice([110, 111])
        r = [14, ["b", text(rng, 0, 8)]] if rng.random() < 0.85 else [14, ["e", 1]]
        return [[k, ["-"]]], [r]
    if fam == "seek":
        k = rng.choice([108, 109, 115])
        r = [19, ["n", rng.choice([0, 7, 2**40])]] if rng.random() < 0.85 else [19, ["e", rng.choice(HARD)]]
        return [[k, ["-"] if k != 115 else ["n", rng.randint(0, 16)]]], [r]
    if fam == "tokio":
        k = rng.choice([120, 120, 121, 121, 122, 123, 124, 125, 126, 127, 128])
        if k == 120:
            p = payload(rng)
            return [[120, ["b", p]]], with_pending(rng, write_all_script(rng, 16, len(p), interrupts=False))
        if k == 121:
            n = rng.choice([0, 1, 2, 3, 5, 8])
            sc = [e for e in read_exact_script(rng, 15, n)]
            return [[121, ["n", n]]], with_pending(rng, sc)
        if k == 122:
            return [[122, ["-"]]], with_pending(rng, [e for e in read_all_script(rng, 15) if e[1] != ["e", 0]] or [[15, ["b", []]]])
        if k == 128:
            return [[128, ["-"]]], with_pending(rng, [e for e in read_all_script(rng, 15, utf8=True) if e[1] != ["e", 0]] or [[15, ["b", []]]])
        if k == 123:
            p = payload(rng)
            return [[123, ["b", p]]], with_pending(rng, [[16, ["n", rng.randint(0, max(1, len(p)))]]])
        if k == 124:
            return [[124, ["-"]]], with_pending(rng, [unit_or_err(rng, 17)])
        if k == 125:
            return [[125, ["-"]]], with_pending(rng, [unit_or_err(rng, 18)])
        if k == 126:
            return [[126, ["n", rng.randint(0, 6)]]], with_pending(rng, [[15, ["b", payload(rng, 0, 8)]]])
        p = payload(rng)
        return [[127, ["b", p]]], with_pending(rng, [[16, ["n", rng.randint(0, max(1, len(p)))]]])
    raise ValueError(fam)


FAMILIES = ["write", "read", "bufread", "hasher", "delay", "pin", "pwm", "display", "seek", "tokio"]
MODELLED_FAMILIES = ["write", "read", "hasher", "delay", "pin", "pwm"]


def gen_case(rng, kind):
    """kind: family name, 'mixed', 'mixed-modelled'"""
    ops, sc = [], []
    need_modelled = kind == "mixed-modelled" or kind.endswith("!")
    base = kind.rstrip("!")
    if base.startswith("mixed"):
        fams = [rng.choice(MODELLED_FAMILIES if need_modelled else FAMILIES) for _ in range(rng.randint(2, 4))]
    else:
        fams = [base] * rng.choice([1, 1, 2, 3])
    for f in fams:
        for _ in range(60):
            o, s = op_segment(rng, f)
            if not need_modelled or all(x[0] in MODELLED_OPS for x in o):
                break
        ops += o; sc += s
    case = {"partial": rng.random() < 0.35, "script": sc, "ops": ops, "_kind": kind.rstrip("!"), "_pert": "none"}
    r = rng.random()
    if r < 0.07 and sc:
        case["script"] = sc[:-1]; case["_pert"] = "too_short"
    elif r < 0.12:
        case["script"] = sc + [rng.choice(sc) if sc else [0, ["n", 1]]]; case["_pert"] = "too_long"
    elif r < 0.16 and len(sc) >= 2:
        i = rng.randrange(len(sc) - 1)
        s2 = list(sc); s2[i], s2[i + 1] = s2[i + 1], s2[i]
        case["script"] = s2; case["_pert"] = "swapped"
    elif r < 0.19:
        case["script"] = []; case["_pert"] = "no_clause"
    return case


def modelled(case):
    return all(o[0] in MODELLED_OPS for o in case["ops"]) and all(e[0] <= 11 and e[1][0] != "p" for e in case["script"])


def fixed_cases():
    """degenerate and boundary cases that are always present"""
    out = []
    for partial in (False, True):
        out += [
            {"partial": partial, "script": [], "ops": [[32, ["b", []]]], "_kind": "fixed", "_pert": "none"},
            {"partial": partial, "script": [], "ops": [[32, ["b", [1]]]], "_kind": "fixed", "_pert": "no_clause"},
            {"partial": partial, "script": [], "ops": [[33, ["n", 0]]], "_kind": "fixed", "_pert": "none"},
            {"partial": partial, "script": [], "ops": [[33, ["n", 2]]], "_kind": "fixed", "_pert": "no_clause"},
            {"partial": partial, "script": [], "ops": [[1, ["-"]]], "_kind": "fixed", "_pert": "no_clause"},
            {"partial": partial, "script": [[0, ["n", 2]], [0, ["e", 0]], [0, ["n", 3]], [1, ["u"]], [2, ["b", [7, 8]]], [2, ["b", [9, 9, 9]]]],
             "ops": [[32, ["b", [1, 2, 3, 4, 5]]], [1, ["-"]], [33, ["n", 4]]], "_kind": "fixed", "_pert": "none"},
            {"partial": partial, "script": [[2, ["b", []]]], "ops": [[100, ["-"]]], "_kind": "fixed", "_pert": "none"},
            {"partial": partial, "script": [[12, ["b", []]], [13, ["u"]]], "ops": [[105, ["-"]]], "_kind": "fixed", "_pert": "none"},
            {"partial": partial, "script": [[14, ["b", []]]], "ops": [[111, ["-"]]], "_kind": "fixed", "_pert": "none"},
            {"partial": partial, "script": [[5, ["u"]]], "ops": [[61, ["n", 0]]], "_kind": "fixed", "_pert": "none"},
            {"partial": partial, "script": [[3, ["u"]]] * 12, "ops": [[k, ["n", (1 << (8 * WIDTH[k])) - 2]] for k in range(40, 52)],
             "_kind": "fixed", "_pert": "none"},
        ]
    return out


def gen_cases(rng, tier):
    n = 1400 if tier == "quick" else 8000
    kinds = []
    for f in FAMILIES:
        kinds += [f] * 3
    kinds += ["write!", "read!", "mixed", "mixed", "mixed", "mixed-modelled", "mixed-modelled", "mixed-modelled"]
    return fixed_cases() + [gen_case(rng, rng.choice(kinds)) for _ in range(n)]


# ---------------------------------------------------------------- rendering

def hexs(b):
    return "".join("%02x" % x for x in b)


def resp_tok(r):
    return {"u": lambda: "u", "n": lambda: f"n{r[1]}", "b": lambda: "b" + hexs(r[1]), "e": lambda: f"e{r[1]}", "p": lambda: "p"}[r[0]]()


def arg_tok(a):
    return {"-": lambda: "-", "n": lambda: f"n{a[1]}", "b": lambda: "b" + hexs(a[1]), "p": lambda: f"p{a[1]},{a[2]}"}[a[0]]()


def harness_line(k, c):
    return " ".join([f"case {k}", "partial" if c["partial"] else "strict", f"S {len(c['script'])}"]
                    + [f"{e[0]}:{resp_tok(e[1])}" for e in c["script"]] + [f"O {len(c['ops'])}"]
                    + [f"{o[0]}:{arg_tok(o[1])}" for o in c["ops"]])


def coq_list(xs):
    return "[" + "; ".join(str(x) for x in xs) + "]"


def coq_resp(r):
    return {"u": lambda: "VUnit", "n": lambda: f"VNum {r[1]}", "b": lambda: f"VBytes {coq_list(r[1])}",
            "e": lambda: f"VErr {r[1]}"}[r[0]]()


def coq_arg(a):
    return {"-": lambda: "AUnit", "n": lambda: f"ANum {a[1]}", "b": lambda: f"ABytes {coq_list(a[1])}",
            "p": lambda: f"APair {a[1]} {a[2]}"}[a[0]]()


def coq_case(c):
    sc = "; ".join(f"({e[0]}, {coq_resp(e[1])})" for e in c["script"])
    ops = "; ".join(f"({o[0]}, {coq_arg(o[1])})" for o in c["ops"])
    return f"Kase {'true' if c['partial'] else 'false'} [{sc}] [{ops}]"


PRELUDE = "From Unimock Require Import Macro.StdBodies.\nOpen Scope N_scope.\n"


# ---------------------------------------------------------------- running and comparing

def split_sides(obs, tags):
    out = {t: [] for t in tags}
    for line in obs:
        for t in tags:
            if line.startswith(t + " "):
                out[t].append(line[len(t) + 1:])
    return out


def split_model(lines):
    i = lines.index("==")
    return lines[:i], lines[i + 1:]


def verdict_of(lines):
    """normalise the last line: left=n (struct / model) and verify=ok|fail (mock) -> done:clean|leftover"""
    out = []
    for l in lines:
        if l.startswith("left="):
            out.append("done:clean" if l == "left=0" else "done:leftover")
        elif l.startswith("verify="):
            out.append("done:clean" if l == "verify=ok" else "done:leftover")
        else:
            out.append(l.rstrip())
    return out


def judge(case, impl_obs, model_lines):
    """None if everything agrees, else a description of the first disagreement"""
    if any(l.startswith("CRASH") for l in impl_obs):
        return "the harness process crashed: " + " | ".join(impl_obs[-2:])
    sides = split_sides(impl_obs, ["P", "M"])
    p, m = verdict_of(sides["P"]), verdict_of(sides["M"])
    if p != m:
        return "mock differs from the plain scripted struct"
    if model_lines is not None:
        mm, mp = split_model(model_lines)
        if verdict_of(mp) != p:
            return "plain scripted struct differs from Spec.Scripted (transcription of the upstream body?)"
        if verdict_of(mm) != m:
            return "mock differs from the Layer A model's prediction"
    return None


def run_both(binary, cases):
    impl = C.run_harness(binary, [harness_line(k, c) for k, c in enumerate(cases)])
    idx = [i for i, c in enumerate(cases) if modelled(c)]
    model = [None] * len(cases)
    if idx:
        res = C.coq_eval_cases(PRELUDE, [coq_case(cases[i]) for i in idx], shard=max(20, (len(idx) + C.NCPU - 1) // C.NCPU))
        for i, r in zip(idx, res):
            model[i] = r
    return impl, model


def nontrivial(case, impl_obs):
    sides = split_sides(impl_obs, ["P"])
    log = next((l for l in sides["P"] if l.startswith("log")), "log")
    ncalls = len(log.split()) - 1
    special = any(e[1][0] in ("e", "p") or e[1] == ["n", 0] or e[1] == ["b", []] for e in case["script"])
    return ncalls >= 2 or special or case["_pert"] != "none" or any(l == "r panic" for l in sides["P"])


def shrink(binary, case):
    def bad(c):
        impl, model = run_both(binary, [c])
        return judge(c, impl[0], model[0]) is not None
    cur = dict(case)
    changed = True
    rounds = 0
    while changed and rounds < 40:
        changed = False
        rounds += 1
        cands = []
        for i in range(len(cur["ops"])):
            cands.append(dict(cur, ops=cur["ops"][:i] + cur["ops"][i + 1:]))
        for i in range(len(cur["script"])):
            cands.append(dict(cur, script=cur["script"][:i] + cur["script"][i + 1:]))
        for i, o in enumerate(cur["ops"]):
            if o[1][0] == "b" and len(o[1][1]) > 1:
                cands.append(dict(cur, ops=cur["ops"][:i] + [[o[0], ["b", o[1][1][:-1]]]] + cur["ops"][i + 1:]))
        for c in cands:
            if c["ops"] and bad(c):
                cur = c
                changed = True
                break
    return cur


def distribution(cases, impl):
    d = collections.Counter()
    for c, obs in zip(cases, impl):
        d["kind:" + c["_kind"]] += 1
        d["perturbation:" + c["_pert"]] += 1
        d["partial" if c["partial"] else "strict"] += 1
        d["modelled" if modelled(c) else "differential_only"] += 1
        d["script_len:" + ("0" if not c["script"] else "1-3" if len(c["script"]) <= 3 else "4-8" if len(c["script"]) <= 8 else "9+")] += 1
        for o in c["ops"]:
            d[f"op:{o[0]}"] += 1
        for e in c["script"]:
            r = e[1]
            k = ("interrupted" if r == ["e", 0] else "hard_error" if r[0] == "e" else "pending" if r[0] == "p" else
                 "zero" if r == ["n", 0] else "eof_or_empty" if r == ["b", []] else "unit" if r[0] == "u" else "data")
            d["resp:" + k] += 1
        p = split_sides(obs, ["P"])["P"]
        d["outcome:" + ("panic" if "r panic" in p else "leftover" if p and p[-1] != "left=0" else "clean")] += 1
    return dict(sorted(d.items()))


# ---------------------------------------------------------------- the mirrored trait with associated constants (harness/mirrors/src/extras.rs)
def gen_xcases(rng, tier):
    out = []
    for k in range(60 if tier == "quick" else 600):
        ops = []
        for _ in range(rng.randint(1, 4)):
            r = rng.random()
            data = bytes(rng.randrange(256) for _ in range(rng.randint(0, 14))).hex()
            ops.append("all:" + data if r < 0.4 else "put:" + data if r < 0.52 else "desc" if r < 0.64 else "hooks" if r < 0.74 else
                       "flush" if r < 0.84 else "touch" if r < 0.92 else "consts")
        if rng.random() < 0.5:
            ops.append("fin:" + bytes(rng.randrange(256) for _ in range(rng.randint(0, 6))).hex())
        acc = [rng.choice([0, 1, 1, 2, 2, 2, 3, 9]) for _ in range(rng.randint(0, 12))]
        out.append(f"xcase x{k} {'partial' if rng.random() < 0.4 else 'strict'} T {rng.randrange(256)} P {len(acc)} "
                   + " ".join(map(str, acc)) + (" " if acc else "") + f"O {len(ops)} " + " ".join(ops))
    return out


def xcase_bad(obs):
    sides = split_sides(obs, ["P", "M"])
    # the mock's drop verdict is comparable only when both of its clauses were used (an unused each_call clause is reported as a dead mock)
    log = next((l for l in sides["M"] if l.startswith("log")), "")
    if not ("put(" in log and "tag" in log.split()):
        sides = {k: [l for l in v if not l.startswith("end=")] for k, v in sides.items()}
    return sides["P"] != sides["M"] or not sides["P"]


def shrink_xcase(binary, line):
    """drop ops / script entries while the two sides still differ"""
    def parse(l):
        t = l.split()
        n = int(t[6]); acc = t[7:7 + n]; ops = t[7 + n + 2:]
        return t[:5], acc, ops
    def render(head, acc, ops):
        return " ".join(head + ["P", str(len(acc))] + acc + ["O", str(len(ops))] + ops)
    head, acc, ops = parse(line)
    for _ in range(30):
        cands = [(head, acc, ops[:i] + ops[i + 1:]) for i in range(len(ops)) if len(ops) > 1] + \
                [(head, acc[:i] + acc[i + 1:], ops) for i in range(len(acc))]
        if not cands:
            break
        obs = C.run_harness(binary, [render(*c) for c in cands])
        nxt = next((c for c, o in zip(cands, obs) if xcase_bad(o)), None)
        if nxt is None:
            break
        head, acc, ops = nxt
    return render(head, acc, ops)


def ordered_script_cases():
    """a script written as ONE ordered pattern with a then()-series whose last response is left unquantified (`next_call(r0).returns(a)
    .n_times(k).then().returns(b)`: k+1 consecutive slots), replayed through provided methods of every borrowed receiver kind whose
    bodies make one required call each; followed by an ordered pattern of the other required method"""
    out = []
    for m in (14, 15, 19):
        for k in (1, 2):
            for tail_quant in (False, True):
                ops = [("ret", 1), ("n", k), ("then",), ("ret", 2)] + ([("n", 1)] if tail_quant else [])
                terms = [{"kind": "call", "mid": 10, "opener": "next", "pat": {"matcher": 255, "dbg": 1, "ops": ops}},
                         {"kind": "call", "mid": 11, "opener": "next", "pat": {"matcher": 255, "dbg": 2, "ops": [("ret", 3)]}}]
                # a = 1: the body calls r0(1); a = 2: r0(2) then r1(3)
                evs = [{"base": ("call", 0, m, 1)} for _ in range(k)] + [{"base": ("call", 0, m, 2)}, {"base": ("verify", 0)}]
                out.append({"partial": False, "terms": terms, "events": evs})
    return out


def mirrors_binary():
    traits = M.inventory()
    gen_src = M.gen_rs(traits)
    path = os.path.join(C.VERIF, "harness", "mirrors", "src", "gen.rs")
    if not os.path.exists(path) or open(path).read() != gen_src:
        open(path, "w").write(gen_src)
    return C.build_harness("mirrors")


class ExtrasPart:
    """a correspondence part for other properties: a MIRRORED local upstream trait (`mirror = upstream::Chunked`: the provided methods'
    bodies in the declaration are placeholders `{}`, the upstream bodies run) with associated constants and provided methods of every
    receiver kind - also ones that return `()` - driven by random scripts on a plain implementor and on the mock (strict and partial):
    results and the sequence of required-method calls must be identical"""
    def __init__(self, prop):
        self.prop = prop

    def __call__(self, rng, tier, seed, cases):
        binary = mirrors_binary()
        xlines = gen_xcases(rng, tier)
        xobs = C.run_harness(binary, xlines)
        xbad = [k for k, o in enumerate(xobs) if xcase_bad(o)]
        cov = {"mirrored_trait_part": {"evaluations": len(xlines), "rule": ExtrasPart.__doc__}}
        if not xbad:
            return len(xlines), None, cov
        line = shrink_xcase(binary, xlines[xbad[0]])
        obs = C.run_harness(binary, [line])[0]
        return len(xlines), {"property": self.prop, "seed": seed, "part": "xcase", "xcase": line,
                             "theorem_or_correspondence": f"correspondence {self.prop} (mirrored-trait part): mock vs plain implementor of upstream::Chunked "
                                                          "(harness/mirrors/src/extras.rs)",
                             "observed": obs, "original_xcase": xlines[xbad[0]], "disagreeing_cases_in_run": len(xbad),
                             "replay_cmd": f"./check {self.prop} --replay <this file>"}, cov


def replay_xcase(prop, payload, path):
    binary = mirrors_binary()
    obs = C.run_harness(binary, [payload["xcase"]])[0]
    print("\n".join(obs))
    if xcase_bad(obs):
        C.violation(prop, path); return 1
    print("agree"); return 0


def run(tier, seed):
    t0 = time.time()
    rng = random.Random(seed)
    obligations = C.proof_obligations("C20", MODULE, THEOREMS)
    # (1) inventory from the current source, wiring program regenerated from it
    try:
        traits = M.inventory()
        gen_src = M.gen_rs(traits)
    except M.InventoryError as e:
        raise C.CheckFailure("the inventory of mirrored traits cannot be turned into a wiring program", str(e))
    n_methods = len(M.rows_of(traits))
    if len(traits) < 5 or n_methods < 20:
        raise C.CheckFailure("the inventory of mirrored traits read from src/mock/*.rs is implausibly small", json.dumps([t["trait"] for t in traits]))
    path = os.path.join(C.VERIF, "harness", "mirrors", "src", "gen.rs")
    if not os.path.exists(path) or open(path).read() != gen_src:
        open(path, "w").write(gen_src)
    binary = C.build_harness("mirrors")
    rows = wiring_table(binary, traits)
    table_ok, table_info = check_table(rows)
    bad_rows = [r for r in rows if not r["ok"]]
    # (2) differential scripts
    cases = gen_cases(rng, tier)
    impl, model = run_both(binary, cases)
    bad = [(i, judge(c, impl[i], model[i])) for i, c in enumerate(cases)]
    bad = [(i, why) for (i, why) in bad if why]
    distinct = {}
    for c, obs in zip(cases, impl):
        distinct.setdefault(json.dumps({k: v for k, v in c.items() if not k.startswith("_")}, sort_keys=True), (c, obs))
    nt = sum(1 for (c, obs) in distinct.values() if nontrivial(c, obs))
    n_model = sum(1 for mo in model if mo is not None)
    # (3) a mirrored trait with associated constants (default + override, default kept, no default) and provided methods of the
    #     &self / &mut self / by-value kinds reading them: mock = plain implementor with the same constants
    xlines = gen_xcases(rng, tier)
    xobs = C.run_harness(binary, xlines)
    xbad = [k for k, o in enumerate(xobs) if xcase_bad(o)]
    # (4) the receiver conversions delegation relies on (by value, Rc/Arc sole or shared, Pin, &, &mut), on originals and clones
    from .. import deleg_part as DP
    from . import C15
    dn, dpayload = (0, None)
    if not (bad_rows or not table_ok or bad or xbad):
        dn, dpayload = DP.run_part("C20", "deleg20", ordered_script_cases() + [C15.gen_case(rng) for _ in range(40 if tier == "quick" else 300)]
                                   + [DP.report_case(rng) for _ in range(60 if tier == "quick" else 500)], seed,
                                   "correspondence C20 (receiver part): unmocked provided methods through every receiver kind vs the model")
    n_obl = len(obligations) + 4
    cov = {
        "obligations": n_obl,
        "discharged": len(obligations) + (1 if table_ok and not bad_rows else 0) + (0 if bad else 1) + (0 if xbad else 1) + (0 if dpayload else 1),
        "associated_const_part": {"evaluations": len(xlines), "rule": "harness/mirrors/src/extras.rs: upstream::Chunked mirrored with `const CHUNK: usize = 2; const LIMIT: usize = 5;` "
                                  "(CHUNK has an upstream default 4, PAD keeps its default, LIMIT has none); random scripts of accepted counts driven through put_all(&mut self), "
                                  "describe(&self), finish(self), direct calls and the no-op hooks (empty default bodies, &mut self / &self / Pin) of a second, non-mirrored trait; compared with a plain implementor declaring the same constants (results, call log with arguments, leftovers)"},
        "receiver_part": {"evaluations": dn, "rule": "C15 generator (trait D: every receiver kind, original and clones); mocked Termination::report: " + DP.report_case.__doc__},
        "checker_cmd": f"make -C /verif/coq ; coqc MirrorsCheck.v (regenerated) ; ./check C20 --tier {tier}",
        "trusted_base": C.TRUSTED_BASE + [
            "rustc type-checks the generated wiring program against the UPSTREAM trait signatures (harness/mirrors/src/gen.rs)",
            "the source-text parser of src/mock/*.rs (vlib/mirrors_src.py); transcriptions of upstream default bodies in "
            "coq/Macro/StdBodies.v (cross-checked on every run against the real bodies running on the plain struct)"],
        "theorems": obligations + [{"theorem": "MirrorsCheck.observed_ok + observed_wired (table regenerated from the current src/mock/*.rs and observed)",
                                    "assumptions": "Closed under the global context" if table_ok else "FAILED"}],
        "wiring_inventory": {"traits": len(traits), "methods": n_methods,
                             "provided": sum(1 for r in rows if r["provided"]), "rows_ok": len(rows) - len(bad_rows)},
        "wiring_table": [{k: r[k] for k in ("upstream", "method", "provided", "obs")} for r in rows],
        "correspondence_obligation": "every case: mock = plain struct (results, buffers, call sequence, verdict); modelled cases: both = Coq model",
        "evaluations": len(cases) + 4 * len(rows) + len(xlines) + dn, "model_evaluations": n_model + dn,
        "distinct_nontrivial": nt, "rule": RULE,
        "samples": [{"line": harness_line(i, c), "observed": impl[i]} for i, c in list(enumerate(cases))[30:33]],
        "distribution": distribution(cases, impl),
    }
    if dpayload is not None:
        path = C.write_replay("C20", seed, dpayload)
        C.write_evidence("C20", tier, seed, cov, time.time() - t0, 1)
        C.violation("C20", path)
        return 1
    if xbad and not (bad_rows or not table_ok or bad):
        line = shrink_xcase(binary, xlines[xbad[0]])
        obs = C.run_harness(binary, [line])[0]
        payload = {"property": "C20", "seed": seed, "tier": tier, "part": "xcase", "xcase": line,
                   "theorem_or_correspondence": "differential C20 (associated constants): mock of the mirrored upstream::Chunked vs plain implementor with the same constants",
                   "observed": obs, "original_xcase": xlines[xbad[0]], "disagreeing_cases_in_run": len(xbad),
                   "replay_cmd": "./check C20 --replay <this file>"}
        path = C.write_replay("C20", seed, payload)
        C.write_evidence("C20", tier, seed, cov, time.time() - t0, 1)
        C.violation("C20", path)
        return 1
    if bad_rows or not table_ok or bad:
        payload = {"property": "C20", "seed": seed, "tier": tier, "replay_cmd": "./check C20 --replay <this file>"}
        what = []
        r = bad_rows[0] if bad_rows else None
        if bad_rows or not table_ok:
            what.append("wiring table: MirrorsCheck.observed_ok (each method served by its own entry point; unmentioned provided "
                        "methods run the upstream body over the mocked required methods)")
            payload.update({
                "wiring_row": r, "wiring_expected": expected_row_for(r) if r else None,
                "failing_rows": [{k: x[k] for k in ("upstream", "method", "provided", "obs", "raw")} for x in bad_rows[:10]],
                "failing_rows_in_run": len(bad_rows), "coq": table_info if not table_ok else "",
                "wiring_input": (f"call {r['upstream']}::{r['method']} on Unimock::new / new_partial with the clauses of "
                                 f"harness/mirrors/src/gen.rs functions w{r['idx']}_ms/mp/us/up") if r else None})
        if bad:
            i, why = bad[0]
            small = shrink(binary, cases[i])
            ci, cm = run_both(binary, [small])
            what.append("differential C20: " + (judge(small, ci[0], cm[0]) or why))
            payload.update({
                "case": {k: v for k, v in small.items()}, "original_case": cases[i], "harness_line": harness_line(0, small),
                "coq_case": coq_case(small) if modelled(small) else None,
                "observed_on_implementation": ci[0], "expected_by_model": cm[0],
                "disagreeing_cases_in_run": len(bad)})
        payload["theorem_or_correspondence"] = " ; ".join(what)
        path = C.write_replay("C20", seed, payload)
        C.write_evidence("C20", tier, seed, cov, time.time() - t0, 1)
        C.violation("C20", path, no_input=(r is None and not bad))
        return 1
    # replies a script gives REPEATEDLY (each_call / n_times / at_least_times / then) on the return shapes of the mirrored async traits -
    # Poll<Result<&T, E>>, Poll<Option<..>>, Result<&T, E>, Option<&T>, Vec - with a cloneable error: the C17 machinery in a crate of its own
    from . import C12
    kn, ktypes, kbad = C12.composite_part(rng, tier, crate="outputs20", limit=60 if tier == "quick" else 250)
    cov["composite_part"] = {"evaluations": kn, "types": ktypes}
    cov["obligations"] += 1
    cov["evaluations"] = cov.get("evaluations", 0) + kn
    if kbad:
        b = dict(kbad[0])
        b.update({"property": "C20", "seed": seed, "part": "composite", "disagreeing_cases_in_run": len(kbad),
                  "theorem_or_correspondence": "correspondence C20 (composite part): repeated replies on composite return types vs Macro/Output.v (C17_single_use / C17_multi_use)",
                  "replay_cmd": "./check C20 --replay <this file>"})
        path = C.write_replay("C20", seed, b)
        C.write_evidence("C20", tier, seed, cov, time.time() - t0, 1)
        C.violation("C20", path)
        return 1
    cov["discharged"] += 1
    C.write_evidence("C20", tier, seed, cov, time.time() - t0, 0,
                     assumptions=["model/implementation agreement is established on the generated scripts and on the observed wiring table only",
                                  "upstream bodies other than those transcribed in Macro/StdBodies.v are covered by the parametric theorem and the "
                                  "mock-vs-struct differential run, not by a per-body model"])
    print(f"C20: {len(obligations)} theorems closed; wiring table of {n_methods} methods / {len(traits)} traits re-checked; "
          f"{len(cases) + len(xlines)} differential co-executions agree ({n_model} also with the Coq model), {dn} receiver-kind co-executions agree ({time.time()-t0:.1f}s)")
    return 0


def expected_row_for(r):
    return expected_row({"partial_by_default": r["partial_by_default"]}, {"provided": r["provided"]})


def replay(path):
    payload = json.load(open(path))
    if payload.get("part") == "deleg":
        from .. import deleg_part as DP
        return DP.replay("C20", payload, path)
    if payload.get("part") == "composite":
        from . import C12
        return C12.replay_composite("C20", payload, path, "outputs20")
    if payload.get("part") == "xcase":
        return replay_xcase("C20", payload, path)
    traits = M.inventory()
    gen_src = M.gen_rs(traits)
    gpath = os.path.join(C.VERIF, "harness", "mirrors", "src", "gen.rs")
    if not os.path.exists(gpath) or open(gpath).read() != gen_src:
        open(gpath, "w").write(gen_src)
    binary = C.build_harness("mirrors")
    if payload.get("part") == "xcase":
        obs = C.run_harness(binary, [payload["xcase"]])[0]
        print("\n".join(obs))
        if xcase_bad(obs):
            C.violation("C20", path); return 1
        print("mock and plain implementor agree"); return 0
    case = payload.get("case")
    row = payload.get("wiring_row")
    if case is None and row is None:
        print("replay file names an obligation, not an input:", payload.get("theorem_or_correspondence"))
        return 1
    failed = False
    if row is not None:
        rows = wiring_table(binary, traits)
        cur = [r for r in rows if r["upstream"] == row["upstream"] and r["method"] == row["method"]]
        for r in cur:
            print("row     :", r["upstream"], r["method"], "provided" if r["provided"] else "required")
            print("observed:", r["obs"], r["raw"])
            print("expected:", expected_row_for(r))
        if not cur or any(not r["ok"] for r in cur):
            failed = True
        else:
            print("row agrees with the model")
    if case is not None:
        ci, cm = run_both(binary, [case])
        print("case  :", harness_line(0, case))
        print("impl  :", ci[0])
        print("model :", cm[0])
        why = judge(case, ci[0], cm[0])
        if why:
            print(why)
            failed = True
        else:
            print("case agrees on the property's projection")
    if failed:
        C.violation("C20", path)
        return 1
    return 0

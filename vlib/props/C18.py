"""C18 -- behaviour depends only on clauses and call history, not on incidental layout."""
import collections, copy, json, random, time
from .. import common as C
from .. import cases as K
from ..layer_a import Engine, proj_default, proj_kinds
from ..runner import canon
from . import C01, C03, C04
from .. import tuple_part as T
from .. import deleg_part as DP

MODULE = "Props.C18"
THEOREMS = ["C18_layout_independent", "C18_rejected_together", "C18_patterns_by_method",
            "C18_routing_independent", "C18_generic_instances_distinct", "C18_nonvacuous"]

RULE = ("each base case (from the C01, C03 and C04 generators, G<u8>::g / G<u16>::g included) is run four ways on the real crate: as is; with its "
        "clauses re-ordered by random admissible exchanges (different methods, not both ordered); with every call routed through a random live "
        "instance among the original and up to 3 extra clones; and interleaved step by step with an independent twin mock built from the same "
        "clauses. Per-call outcomes and the verdict must be identical across the four runs (verdict lines as a multiset) and equal to the model. "
        "distinct = canonical JSON of the base case; non-trivial = >= 2 methods mentioned and the permuted clause list differs from the original")


def mode_of_term(t):
    return "ord" if t["kind"] == "call" and t["opener"] == "next" else "any"


def permute_terms(rng, terms):
    ts = list(terms)
    for _ in range(4 * len(ts)):
        if len(ts) < 2:
            break
        i = rng.randrange(len(ts) - 1)
        x, y = ts[i], ts[i + 1]
        if x["mid"] != y["mid"] and (mode_of_term(x) == "any" or mode_of_term(y) == "any"):
            ts[i], ts[i + 1] = y, x
    return ts


def reroute(rng, case):
    """same history, every call through a random live instance; clones are added up front and dropped before the end"""
    evs = case["events"]
    ninst = 1 + sum(1 for e in evs if e["base"][0] == "clone")
    extra = rng.randint(1, 3)
    out = []
    live = {0}
    new_ids = []
    # the case's own clone events keep their numbering: extra clones are created after all of them would exist -> create lazily at the end of numbering
    # simpler: put the extra clones first and shift the case's own instance numbers
    shift = lambda i: i if i == 0 else i + extra
    for k in range(extra):
        out.append({"base": ("clone", 0)})
        live.add(1 + k)
    alive_case = {0}
    nxt = 1
    for e in evs:
        b = e["base"]
        if b[0] == "clone":
            out.append({"base": ("clone", shift(b[1]))}); alive_case.add(nxt); live.add(shift(nxt)); nxt += 1
        elif b[0] == "call":
            out.append({"base": ("call", rng.choice(sorted(live)), b[2], b[3])})
        elif b[0] == "lend":
            out.append({"base": ("lend", rng.choice(sorted(live)))})
        elif b[0] in ("drop", "verify", "report") and b[1] == 0:
            for k in range(extra):
                out.append({"base": ("drop", 1 + k), "_extra": True}); live.discard(1 + k)
            out.append({"base": (b[0], 0)}); live.discard(0)
        elif b[0] == "drop":
            out.append({"base": ("drop", shift(b[1]))}); live.discard(shift(b[1]))
        else:
            out.append({"base": (b[0], shift(b[1]))})
    return {"partial": case["partial"], "terms": case["terms"], "events": out}


def twin(rng, case):
    """[twin] + the history on world A interleaved with the same history on world B; returns (case, positions of A, positions of B)"""
    evs = case["events"]
    mapA, mapB = {0: 0}, {0: 1}
    nslots = 2
    out = [{"base": ("twin",)}]
    posA, posB = [], []
    ia = ib = 0
    cntA = cntB = 1
    def emit(e, mp, which):
        nonlocal nslots, cntA, cntB
        b = e["base"]
        if b[0] == "clone":
            out.append({"base": ("clone", mp[b[1]])})
            if which == "A":
                mp[cntA] = nslots; cntA += 1
            else:
                mp[cntB] = nslots; cntB += 1
            nslots += 1
        elif b[0] == "call":
            out.append({"base": ("call", mp[b[1]], b[2], b[3])})
        else:
            out.append({"base": (b[0], mp[b[1]])})
    while ia < len(evs) or ib < len(evs):
        pick_a = ib >= len(evs) or (ia < len(evs) and rng.random() < 0.5)
        if pick_a:
            emit(evs[ia], mapA, "A"); posA.append(len(out) - 1); ia += 1
        else:
            emit(evs[ib], mapB, "B"); posB.append(len(out) - 1); ib += 1
    return {"partial": case["partial"], "terms": case["terms"], "events": out}, posA, posB


def base_cases(rng, tier):
    n = 70 if tier == "quick" else 500
    out = []
    for _ in range(n):
        # 6/7: one trait-generic method at two instantiations; 38/39: same-named method-generic methods of two different traits
        mids = rng.sample([0, 1, 2, 3, 4, 5, 6, 7, 38, 39], rng.randint(2, 4))
        if rng.random() < 0.15:
            mids = sorted(set(mids) | {38, 39})
        g = K.Gen(rng, mids=mids, n_terms=(2, 6), n_events=(4, 16), ordered_frac=0.0, clone_frac=0.1,
                  final=rng.choice(["drop", "verify", "report"]), partial_frac=0.3, call_mids=sorted(set(mids) | {6, 7, 38, 39}))
        out.append(g.case())
    for _ in range(n):
        c = C03.gen_case(rng); c.pop("_steered", None); out.append(c)
    for _ in range(n):
        c = C04.gen_case(rng); c.pop("_prefix", None); out.append(c)
    # values lent through the instance a call happens to be routed through (they may own clones of the mock)
    for c in out:
        if rng.random() < 0.3:
            live = 0
            c["events"].insert(rng.randint(0, max(0, len(c["events"]) - 2)), {"base": ("lend", 0)})
    for c in out:
        for t in c["terms"]:
            for p in ([t["pat"]] if t["kind"] == "call" else t["pats"]):
                p.pop("_opener", None)
    return out


def strip(case):
    return {"partial": case["partial"], "terms": case["terms"], "events": [{"base": e["base"]} for e in case["events"]]}


def run(tier, seed):
    t0 = time.time()
    rng = random.Random(seed)
    obligations = C.proof_obligations("C18", MODULE, THEOREMS)
    bases = base_cases(rng, tier)
    eng = Engine("C18", project=proj_kinds)
    eng.build()
    runs, meta = [], []     # all cases to execute; meta: (base index, kind, extra)
    for bi, b in enumerate(bases):
        runs.append(strip(b)); meta.append((bi, "base", None))
        p = {"partial": b["partial"], "terms": permute_terms(rng, b["terms"]), "events": b["events"]}
        runs.append(strip(p)); meta.append((bi, "perm", None))
        r = reroute(rng, b)
        runs.append(r); meta.append((bi, "route", None))
        tw, pa, pb = twin(rng, b)
        runs.append(tw); meta.append((bi, "twin", (pa, pb)))
    lines = [K.harness_line(c, i) for i, c in enumerate(runs)]
    impl = C.run_harness(eng.binary, lines)
    # the model is evaluated on base, perm and route cases (twin: product of two base runs, by construction of the model)
    midx = [i for i, m in enumerate(meta) if m[1] != "twin"]
    model_obs = C.coq_eval_cases(K.COQ_PRELUDE, [K.coq_case(runs[i]) for i in midx])
    model = dict(zip(midx, model_obs))
    failures = []
    base_proj = {}
    for i, (bi, kind, extra) in enumerate(meta):
        c = runs[i]
        if kind != "twin":
            pi, pm = proj_kinds(c, impl[i]), proj_kinds(c, model[i])
            if pi != pm:
                failures.append((i, f"{kind}: implementation differs from the model", impl[i], model[i]))
                continue
        if kind == "base":
            base_proj[bi] = proj_kinds(c, impl[i])
        elif kind == "perm":
            if proj_kinds(c, impl[i]) != base_proj.get(bi):
                failures.append((i, "re-ordered clauses change an outcome or the verdict", impl[i], impl[i - 1]))
        elif kind == "route":
            keep = [k for k, e in enumerate(c["events"]) if e["base"][0] != "clone" or k >= 0]
            # compare the calls' outcomes and the final verdict with the base run
            bp = base_proj.get(bi)
            if bp is None or bp[0] != "new:ok":
                continue
            pr = proj_kinds(c, impl[i])
            mine = [o for e, o in zip(c["events"], pr[1:]) if e["base"][0] == "call" or (e["base"][0] in ("drop", "verify", "report") and e["base"][1] == 0)]
            bc_ = runs[i - 2]
            theirs = [o for e, o in zip(bc_["events"], bp[1:]) if e["base"][0] == "call" or (e["base"][0] in ("drop", "verify", "report") and e["base"][1] == 0)]
            if mine != theirs:
                failures.append((i, "routing calls through other instances changes an outcome or the verdict", impl[i], impl[i - 2]))
        elif kind == "twin":
            bp = base_proj.get(bi)
            if bp is None or bp[0] != "new:ok":
                continue
            pa, pb = extra
            obs = impl[i]
            if len(obs) != len(c["events"]) + 1 or obs[1] != "ok":
                failures.append((i, "twin run: unexpected shape", obs, impl[i - 3])); continue
            bcase = runs[i - 3]
            for which, pos in (("A", pa), ("B", pb)):
                sub = ["new:ok"] + [obs[1 + k] for k in pos]
                if proj_kinds(bcase, sub) != bp:
                    failures.append((i, f"twin run: world {which} behaves differently from the mock alone", sub, impl[i - 3]))
                    break
    # the same clause sets written as REAL tuple expressions: one flat tuple / chunks, a random nest of tuples, and an
    # admissible re-ordering laid out flat; all three must behave like the model on the list and like each other
    tcases, tmeta = T.targeted_cases(rng, tier), []
    tmeta = [(None, "targeted")] * len(tcases)
    pool = [bi for bi, b in enumerate(bases) if T.usable(b) and len(b["terms"]) >= 2]
    rng.shuffle(pool)
    for bi in pool[:40 if tier == "quick" else 120]:
        b = strip(bases[bi])
        v1 = dict(b, _layout=None, _kind="chunks")
        v2 = T.relayout(rng, b, "nest")
        v3 = dict(b, terms=permute_terms(rng, b["terms"]), _layout=None, _kind="perm")
        for v in (v1, v2, v3):
            tcases.append(v); tmeta.append((bi, v["_kind"]))
    timpl, tmodel = T.both("tuples18", tcases)
    tfail = []
    first_of = {}
    for k, (bi, kind) in enumerate(tmeta):
        pi = proj_kinds(tcases[k], timpl[k])
        if pi != proj_kinds(tcases[k], tmodel[k]):
            tfail.append((k, f"tuple layout `{kind}`: implementation differs from the model on the clause list in written order"))
        elif bi is not None:
            if bi in first_of and first_of[bi][1] != pi:
                tfail.append((k, f"tuple layout `{kind}` behaves differently from layout `{tmeta[first_of[bi][0]][1]}` of the same clauses"))
            first_of.setdefault(bi, (k, pi))
    if tfail and not failures:
        k, why = tfail[0]
        small = tcases[k] if "differently" in why else T.shrink("tuples18", tcases[k], proj_kinds)
        payload = T.replay_payload("C18", "tuples18", small, proj_kinds, seed, "paired runs C18 (tuple part): " + why)
        payload["failures_in_run"] = len(tfail)
        if "differently" in why:
            j = first_of[tmeta[k][0]][0]
            payload["compared_with"] = {"layout": tmeta[j][1], "rust_clause": T.D.rust_clause(tcases[j]["terms"], tcases[j].get("_layout")), "observed": timpl[j]}
        path = C.write_replay("C18", seed, payload)
        C.violation("C18", path)
        failures_t = True
    else:
        failures_t = False
    # routing through handles of every receiver kind (trait D: &self, &mut self, self, Rc/Arc sole or shared, Pin), on the original
    # and on clones: the model (for which routing independence is proved) must predict every outcome and the verdict
    from . import C15
    dcases = [C15.gen_case(rng) for _ in range(50 if tier == "quick" else 400)]
    dn, dpayload = (0, None) if (failures or failures_t) else DP.run_part(
        "C18", "deleg18", dcases, seed, "correspondence C18 (receiver part): calls routed through the original / clones with every receiver kind vs the model")
    if dpayload is not None:
        C.violation("C18", C.write_replay("C18", seed, dpayload))
        failures_t = True
    # clones share everything also when their calls overlap in time: small programs of 2-3 threads, each through its own clone, every
    # interleaving of the runtime's atomic operations (controlled scheduler) against the Layer B model
    from ..layer_b import ConcurrentPart
    from . import C10
    def conc_programs(rng_, tier_):
        progs = [C10.gen_case(rng_, nthreads=2, ncalls=1) for _ in range(8 if tier_ == "quick" else 30)]
        progs += [C10.gen_case(rng_, nthreads=2, ncalls=2) for _ in range(3 if tier_ == "quick" else 12)]
        progs += [C10.gen_case(rng_, nthreads=3, ncalls=1) for _ in range(2 if tier_ == "quick" else 10)]
        for c in progs:
            c["sched"] = []
        return progs
    cn, cpayload, ccov = (0, None, {})
    if not (failures or failures_t):
        cn, cpayload, ccov = ConcurrentPart("C18", conc_programs, "correspondence C18 (concurrent part): outcomes and verdict of calls routed through "
                                            "different clones on different threads, every interleaving, vs the Layer B model")(rng, tier, seed, [])
    if cpayload is not None:
        C.violation("C18", C.write_replay("C18", seed, cpayload))
        failures_t = True
    # routing also must not matter for LENT values: threads lending through ONE shared &Unimock (instead of a clone each) get their own
    # values (C13's thread cases under the controlled scheduler, every interleaving of the small programs; stress search as fallback)
    lend_n, lend_payload = 0, None
    if not (failures or failures_t):
        from . import C13
        lend_n, lend_payload = C13.concurrent_lending(rng, tier, "C18")
        if lend_payload is not None:
            lend_payload["seed"] = seed
            no_input = lend_payload.pop("no_input", False)
            C.violation("C18", C.write_replay("C18", seed, lend_payload), no_input=no_input)
            failures_t = True
    distinct = {canon(strip(b)): b for b in bases}
    nt = 0
    for bi, b in enumerate(bases):
        if len({t["mid"] for t in b["terms"]}) >= 2 and runs[4 * bi + 1]["terms"] != b["terms"]:
            nt += 1
    cov = {
        "obligations": len(obligations) + 5, "discharged": len(obligations) + (0 if failures else 1) + (0 if tfail else 1) + (0 if dpayload else 1) + (0 if cpayload else 1) + (0 if lend_payload else 1),
        **ccov,
        "lending_part": {"evaluations": lend_n},
        "receiver_part": {"evaluations": dn, "rule": "C15 generator: clause sets over trait D, calls through every receiver kind on the original and on clones"},
        "tuple_part": {"evaluations": len(tcases), "kinds": dict(collections.Counter(m[1] for m in tmeta)),
                       "rule": "flat tuples of every arity 2..16 (adjacent overlapping patterns; ordered clauses only) + base cases written as chunked tuples, "
                               "as a random nest of tuples and admissibly re-ordered: each equals the model on its clause list, and all layouts of one base agree"},
        "checker_cmd": f"make -C /verif/coq ; ./check C18 --tier {tier}", "trusted_base": C.TRUSTED_BASE,
        "theorems": obligations,
        "correspondence_obligation": "base / permuted / re-routed / twin-interleaved runs: pairwise identical projections and equal to the model",
        "evaluations": len(runs) + len(tcases) + dn + cn + lend_n, "distinct_nontrivial": min(nt, len(distinct)), "rule": RULE,
        "samples": [K.harness_line(runs[k], "sample") for k in (1, 2, 3)],
        "distribution": dict(collections.Counter(m[1] for m in meta)),
    }
    if failures_t:
        C.write_evidence("C18", tier, seed, cov, time.time() - t0, 1)
        return 1
    if failures:
        i, why, a, b = failures[0]
        payload = {"property": "C18", "seed": seed, "theorem_or_correspondence": "paired runs C18: " + why,
                   "variant": meta[i][1], "case": runs[i], "harness_line": K.harness_line(runs[i], "replay"),
                   "base_case": runs[4 * meta[i][0]], "observed": a, "compared_with": b, "failures_in_run": len(failures),
                   "replay_cmd": "./check C18 --replay <this file>"}
        path = C.write_replay("C18", seed, payload)
        C.write_evidence("C18", tier, seed, cov, time.time() - t0, 1)
        C.violation("C18", path)
        return 1
    C.write_evidence("C18", tier, seed, cov, time.time() - t0, 0,
                     assumptions=["model/implementation agreement is established on the generated cases only"])
    print(f"C18: {len(obligations)} theorems closed; {len(runs)} paired + {len(tcases)} tuple-layout + {dn} receiver-kind + {cn} scheduled + {lend_n} concurrent-lending co-executions agree ({time.time()-t0:.1f}s)")
    return 0


def replay(path):
    payload = json.load(open(path))
    if payload.get("part") == "deleg":
        return DP.replay("C18", payload, path)
    if payload.get("part") == "sched":
        from ..layer_b import replay_sched
        return replay_sched("C18", payload, path)
    if payload.get("part") == "lending":
        from . import C13
        return C13.replay_lending("C18", payload, path)
    if payload.get("part") == "tuples":
        case = payload["case"]
        ci, cm = T.both("tuples18", [case])
        print("clause :", payload.get("rust_clause")); print("model  :", cm[0]); print("impl   :", ci[0])
        if proj_kinds(case, ci[0]) != proj_kinds(case, cm[0]):
            C.violation("C18", path); return 1
        print("agree with the model"); return 0
    eng = Engine("C18", project=proj_kinds)
    eng.build()
    cs = [payload["base_case"], payload["case"]]
    impl = C.run_harness(eng.binary, [K.harness_line(c, i) for i, c in enumerate(cs)])
    print("base   :", impl[0])
    print("variant:", impl[1])
    model = C.coq_eval_cases(K.COQ_PRELUDE, [K.coq_case(cs[0])])
    print("model (base):", model[0])
    if proj_kinds(cs[0], impl[0]) != proj_kinds(cs[0], model[0]):
        C.violation("C18", path)
        return 1
    if payload["variant"] == "perm" and proj_kinds(cs[1], impl[1]) != proj_kinds(cs[0], impl[0]):
        C.violation("C18", path)
        return 1
    if payload["variant"] in ("route", "twin"):
        # re-judge by re-running the whole comparison on this single base case is done by run(); here: report both
        print("compare the two observation lists above (variant", payload["variant"] + ")")
        calls_b = [o for e, o in zip(cs[0]["events"], impl[0][1:]) if e["base"][0] == "call"]
        if payload["variant"] == "route":
            calls_v = [o for e, o in zip(cs[1]["events"], impl[1][1:]) if e["base"][0] == "call"]
            if [proj_kinds({"events": [{"base": ("call",)}]}, ["new:ok", o])[1] for o in calls_b] != \
               [proj_kinds({"events": [{"base": ("call",)}]}, ["new:ok", o])[1] for o in calls_v]:
                C.violation("C18", path)
                return 1
    print("agree")
    return 0

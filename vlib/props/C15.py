"""C15 -- default-method delegation runs the trait's own body against the same mock."""
import collections, json, random, time
from .. import common as C
from .. import cases as K
from .. import layer_d as D
from ..layer_a import proj_kinds
from ..runner import canon, load_corpus

MODULE = "Props.C15"
THEOREMS = ["C15_unmentioned_provided_runs_default", "C15_delegation_is_direct_calls", "C15_body_calls_required_methods",
            "C15_receivers_share_the_evaluation", "C15_pair_delegation_is_one_direct_call", "C15_nonvacuous"]
CRATE = "deleg15"

RULE = ("clause sets over the delegation inventory (trait D: required r0/r1; provided p_ref(&self), p_mut(&mut self), p_val(self), "
        "p_rc(Rc<Self>), p_arc(Arc<Self>), p_pin(Pin<&mut Self>) sharing one parametric default body that makes a%4 required calls; and trait T's "
        "provided m2 (which ALSO has a real function registered at its unmock_with position) and m3), written as "
        "literal builder chains and compiled with the real macros on every run: required methods with counted response chains, ordered sequences or "
        "failing patterns; provided methods unmentioned (implicit fall-through), with applies_default_impl(), or mocked; histories mix direct required "
        "calls with provided calls through every receiver kind (Rc/Arc both as sole owner and with another owner kept), on the original and on clones, "
        "strict and partial, followed by count observation and verification; plus a directed grid (every receiver kind x 1-2 body calls x re-entrant / plain answers x original / clone). Compared with the model per call (result text = the body's responses in "
        "order) and on the verdict. distinct = canonical JSON; non-trivial = a provided call whose body makes >= 2 required calls is interleaved with "
        "direct calls to the same required methods")


def chain(rng, fresh, ordered):
    k = rng.random()
    if ordered:
        return [("ret", fresh())] + ([("n", rng.randint(1, 3))] if rng.random() < 0.6 else [])
    if k < 0.45:
        return [("ret", fresh()), ("n", rng.randint(1, 2)), ("then",), ("ret", fresh()), ("n", 1), ("then",), ("ans", fresh())]
    if k < 0.52:
        return [("ans", fresh())]
    if k < 0.6:
        return [("ans", 2000 + fresh())]      # re-entrant answer: calls p_ref(0) on the mock it receives
    if k < 0.75:
        return [("ret", fresh()), ("al", rng.randint(0, 2))]
    if k < 0.85:
        return [("unm",)]
    if k < 0.92:
        return [("pan", fresh())]
    return [("ret", fresh())]


def gen_case(rng):
    tag = [0]
    def fresh():
        tag[0] += 1
        return tag[0]
    ordered = rng.random() < 0.35
    terms = []
    for mid in (10, 11, 23, 29, 33):
        if rng.random() < (0.9 if mid in (10, 11) else 0.6):
            for _ in range(rng.randint(1, 2) if not ordered else rng.randint(1, 3)):
                mask = 255 if rng.random() < 0.7 else rng.randrange(256)
                ops = chain(rng, fresh, ordered)
                if mid not in (10, 11):      # re-entrant answers exist for the &self required methods only
                    ops = [(o[0], o[1] - 2000) if o[0] == "ans" and o[1] >= 2000 else o for o in ops]
                terms.append({"kind": "call", "mid": mid, "opener": "next" if ordered else rng.choice(["each", "each", "some"]),
                              "pat": {"matcher": mask, "dbg": fresh(), "ops": ops}})
    # T::m2 (mid 2) is provided AND has a registered real function (unmock_with entry at its own position); T::m3 is provided only
    provided = rng.sample([14, 15, 16, 17, 18, 19, 24, 30, 34, 35, 2, 3], rng.randint(0, 2))
    for mid in provided:
        how = rng.choice(["dfl", "dfl", "ret", "partial_mask"] + (["unm", "unm"] if mid == 2 else []))
        if how == "unm":
            # T::m2 has a default body AND its own unmock_with entry: applies_unmocked() must call the registered function
            terms.append({"kind": "call", "mid": mid, "opener": "each", "pat": {"matcher": 255, "dbg": fresh(), "ops": [("unm",)]}})
            continue
        if how == "dfl":
            ops = [("dfl",)] + ([("n", rng.randint(1, 2))] if rng.random() < 0.4 else [])
            terms.append({"kind": "call", "mid": mid, "opener": "each", "pat": {"matcher": 255, "dbg": fresh(), "ops": ops}})
        elif how == "ret":
            terms.append({"kind": "call", "mid": mid, "opener": "each", "pat": {"matcher": 255, "dbg": fresh(), "ops": [("ret", fresh())]}})
        else:
            terms.append({"kind": "call", "mid": mid, "opener": "each", "pat": {"matcher": rng.randrange(256), "dbg": fresh(), "ops": [("dfl",)]}})
    rng.shuffle(terms)
    if rng.random() < 0.3:
        # a response CHAIN that begins with the default body (`applies_default_impl().n_times(k).then().returns(v)`), and two overlapping
        # clauses on one provided method of which the FIRST says applies_default_impl() (declaration order decides: the body runs)
        mid = rng.choice([14, 15, 19, 2, 3, 16, 17])
        if mid not in provided:
            if rng.random() < 0.5:
                terms.append({"kind": "call", "mid": mid, "opener": "each",
                              "pat": {"matcher": 255, "dbg": fresh(), "ops": [("dfl",), ("n", rng.randint(1, 2)), ("then",), ("ret", fresh())]}})
            else:
                terms.append({"kind": "call", "mid": mid, "opener": "each", "pat": {"matcher": rng.choice([255, 255, 15]), "dbg": fresh(), "ops": [("dfl",)]}})
                terms.append({"kind": "call", "mid": mid, "opener": "each", "pat": {"matcher": 255, "dbg": fresh(), "ops": [("ret", fresh())]}})
            provided = provided + [mid, mid]
    evs = []
    live = [0]
    n = 1
    for _ in range(rng.randint(0, 2)):
        evs.append({"base": ("clone", 0)}); live.append(n); n += 1
    for _ in range(rng.randint(3, 9)):
        if not live:
            break
        i = rng.choice(live)
        r = rng.random()
        if r < 0.4:
            m = rng.choice([10, 11, 10, 11, 23, 25, 29, 31, 33, 36])
            evs.append({"base": ("call", i, m, rng.randrange(8))})
            if m in D.CONSUMING:
                live.remove(i)
        else:
            m = rng.choice(D.PROVIDED_D + [2, 3, 2])
            evs.append({"base": ("call", i, m, rng.randrange(8))})
            if m in D.CONSUMING:
                live.remove(i)
        if rng.random() < 0.3 and live:
            evs.append({"base": ("count", live[0])})
        if rng.random() < 0.12 and live:
            # a value lent through the instance (it owns a clone of the mock): its value chain is no longer empty
            evs.append({"base": ("lend", rng.choice(live))})
    for i in sorted(live, reverse=True):
        evs.append({"base": ("drop" if i else rng.choice(["drop", "verify", "report"]), i)})
    return {"partial": rng.random() < 0.3, "terms": terms, "events": evs}


def directed_cases():
    """every provided receiver kind x a body that makes 1 or 2 required calls x {the required call is answered by a function that itself
    calls a provided method on the mock it receives (the helper's helper), plain responses}, on the original (all) and on a clone
    (re-entrant ones), followed by the handle count and the verdict"""
    out = []
    for m in D.PROVIDED_D:
        for a in (1, 2):
            for reentrant in (True, False):
                for on_clone in ((False, True) if reentrant else (False,)):
                    terms = [{"kind": "call", "mid": 10, "opener": "each", "pat": {"matcher": 255, "dbg": 1, "ops": [("ans", 2001 if reentrant else 1)]}},
                             {"kind": "call", "mid": 11, "opener": "each", "pat": {"matcher": 255, "dbg": 2, "ops": [("ret", 2)]}},
                             {"kind": "call", "mid": 23, "opener": "each", "pat": {"matcher": 255, "dbg": 3, "ops": [("ret", 3)]}},
                             {"kind": "call", "mid": 29, "opener": "each", "pat": {"matcher": 255, "dbg": 4, "ops": [("ret", 4)]}},
                             {"kind": "call", "mid": 33, "opener": "each", "pat": {"matcher": 255, "dbg": 5, "ops": [("ret", 5)]}}]
                    evs = [{"base": ("clone", 0)}]
                    i = 1 if on_clone else 0
                    evs.append({"base": ("call", i, m, a)})
                    consumed = m in D.CONSUMING
                    other = 0 if on_clone else 1
                    evs.append({"base": ("count", other)})
                    evs.append({"base": ("call", other, 10, 0)})
                    live = [x for x in (0, 1) if not (consumed and x == i)]
                    for x in sorted(live, reverse=True):
                        evs.append({"base": ("drop" if x else ("verify", "report", "drop")[(a + m) % 3], x)})
                    out.append({"partial": False, "terms": terms, "events": evs, "_directed": True})
    # a response chain that BEGINS with the default body: the first call runs it, the second gets the configured value
    for m in (14, 15, 19, 2):
        terms = [{"kind": "call", "mid": 10, "opener": "each", "pat": {"matcher": 255, "dbg": 1, "ops": [("ret", 1)]}},
                 {"kind": "call", "mid": m, "opener": "each", "pat": {"matcher": 255, "dbg": 2, "ops": [("dfl",), ("n", 1), ("then",), ("ret", 9)]}}]
        out.append({"partial": False, "terms": terms, "events": [{"base": ("call", 0, m, 1)}, {"base": ("call", 0, m, 1)}, {"base": ("call", 0, m, 1)},
                                                                 {"base": ("verify", 0)}], "_directed": True})
    # the instance keeps its delegation helper (a clone of itself) cached after a `&self` / `&mut self` / Pin provided call: ending it
    # with report() / verify() / drop, every expectation met, must be silent - the helper is the instance's own, not an escaped clone
    for m in (14, 15, 19):
        for a in (1, 2, 3):
            for final in ("report", "verify", "drop"):
                terms = [{"kind": "call", "mid": 10, "opener": "each", "pat": {"matcher": 255, "dbg": 1, "ops": [("ret", 1)]}}]
                if a >= 2:
                    terms.append({"kind": "call", "mid": 11, "opener": "each", "pat": {"matcher": 255, "dbg": 2, "ops": [("ret", 2)]}})
                out.append({"partial": False, "terms": terms, "events": [{"base": ("call", 0, m, a)}, {"base": ("count", 0)}, {"base": (final, 0)}],
                            "_directed": True})
    return out


def nontrivial(case):
    direct = any(e["base"][0] == "call" and e["base"][2] in (10, 11) for e in case["events"])
    deleg = any(e["base"][0] == "call" and e["base"][2] in (14, 15, 16, 17, 18, 19, 21, 22, 27, 28) and e["base"][3] % 4 >= 2 for e in case["events"])
    return direct and deleg


def run(tier, seed):
    t0 = time.time()
    rng = random.Random(seed)
    obligations = C.proof_obligations("C15", MODULE, THEOREMS)
    pending_failure = None
    try:
        obligations += C.inventory_obligation(with_dtrait=True)
    except C.CheckFailure as pf:
        pending_failure = pf          # look for a concrete failing input first
    cases = load_corpus("C15") + directed_cases() + [gen_case(rng) for _ in range(130 if tier == "quick" else 600)]
    impl, model = D.both(CRATE, cases)
    bad = [i for i, c in enumerate(cases) if proj_kinds(c, impl[i]) != proj_kinds(c, model[i])]
    distinct = {canon(c): c for c in cases}
    nt = sum(1 for c in distinct.values() if nontrivial(c))
    dist = collections.Counter()
    for c in cases:
        for e in c["events"]:
            if e["base"][0] == "call":
                m = e["base"][2]
                dist["call:" + {10: "r0", 11: "r1", 14: "p_ref", 15: "p_mut", 16: "p_val", 17: "p_rc(sole)", 18: "p_arc(sole)", 23: "r_rc(sole)", 27: "p_rc(sole+weak)", 28: "p_arc(sole+weak)", 24: "p_rc2(sole)", 25: "r_rc(kept)", 26: "p_rc2(kept)",
                                 19: "p_pin", 21: "p_rc(kept)", 22: "p_arc(kept)", 29: "r_arc(sole)", 30: "p_arc2(sole)", 33: "r_val", 34: "p_val2", 35: "p_rc3(sole, helper shared)", 31: "r_arc(kept)", 32: "p_arc2(kept)", 2: "T::m2(default+real fn)", 3: "T::m3(default)"}.get(m, str(m))] += 1
                if m >= 14:
                    dist[f"body-calls={e['base'][3] % 4}"] += 1
    cov = {"obligations": len(obligations) + 1, "discharged": len(obligations) + (0 if bad else 1),
           "checker_cmd": f"make -C /verif/coq ; ./check C15 --tier {tier}",
           "trusted_base": C.TRUSTED_BASE + ["rustc type-checks the generated clause expressions (harness/deleg15/src/gen.rs)"],
           "theorems": obligations,
           "correspondence_obligation": "every generated case: projection(model) = projection(implementation)",
           "evaluations": len(cases), "distinct_nontrivial": nt, "rule": RULE,
           "samples": [{"clause": D.rust_clause(c["terms"])[:500], "events": [K.event_tok(e) for e in c["events"]]} for c in cases[:2]],
           "distribution": dict(dist)}
    if bad:
        i = bad[0]
        case = cases[i]
        for _ in range(5):
            cands = K.shrink_candidates(case)[:40]
            if not cands:
                break
            ci, cm = D.both(CRATE, cands)
            nxt = next((c for k, c in enumerate(cands) if proj_kinds(c, ci[k]) != proj_kinds(c, cm[k])), None)
            if nxt is None:
                break
            case = nxt
        ci, cm = D.both(CRATE, [case])
        payload = {"property": "C15", "seed": seed, "theorem_or_correspondence": "correspondence C15: delegation through every receiver kind vs model",
                   "case": case, "rust_clause": D.rust_clause(case["terms"]), "events": [K.event_tok(e) for e in case["events"]],
                   "expected_by_model": cm[0], "observed_on_implementation": ci[0], "disagreeing_cases_in_run": len(bad)}
        path = C.write_replay("C15", seed, payload)
        C.write_evidence("C15", tier, seed, cov, time.time() - t0, 1)
        C.violation("C15", path)
        return 1
    if pending_failure is not None:
        raise pending_failure
    # delegation for a MIRRORED trait: the bodies in the declaration are placeholders, the upstream bodies must run against the mock
    from .C20 import ExtrasPart
    xn, xpayload, xcov = ExtrasPart("C15")(rng, tier, seed, [])
    cov.update(xcov)
    cov["obligations"] += 1
    cov["evaluations"] += xn
    if xpayload is not None:
        path = C.write_replay("C15", seed, xpayload)
        C.write_evidence("C15", tier, seed, cov, time.time() - t0, 1)
        C.violation("C15", path)
        return 1
    cov["discharged"] += 1
    C.write_evidence("C15", tier, seed, cov, time.time() - t0, 0,
                     assumptions=["model/implementation agreement on the generated cases only; the default body is the harness' parametric one"])
    print(f"C15: {len(obligations)} theorems closed; {len(cases)} co-executions + {xn} mirrored-trait scripts agree ({time.time()-t0:.1f}s)")
    return 0


def replay(path):
    payload = json.load(open(path))
    if payload.get("part") == "xcase":
        from .C20 import replay_xcase
        return replay_xcase("C15", payload, path)
    case = payload["case"]
    ci, cm = D.both(CRATE, [case])
    print("model:", cm[0]); print("impl :", ci[0])
    if proj_kinds(case, ci[0]) != proj_kinds(case, cm[0]):
        C.violation("C15", path); return 1
    print("agree"); return 0

"""C08 -- a mock-induced panic anywhere makes final verification fail with that error."""
import collections
from .. import cases as K
from ..layer_a import Engine, proj_kinds
from ..deleg_part import DelegPart
from ..runner import run_coexec, replay_coexec

MODULE = "Props.C08"
THEOREMS = ["C08_call_records", "C08_history_records", "C08_recorded_errors_fail",
            "C08_message_has_every_error", "C08_errors_recorded_during_teardown_are_reported", "C08_teardown_nonvacuous", "C08_nonvacuous"]

RULE = ("histories in which mock-induced panics of every kind (no implementation, no matching pattern, wrong order / out of range / inputs not "
        "matched, single-use value requested twice, explicit panics(), missing real function, missing default body, pattern without matcher / "
        "without response) occur at random positions, through the original or a clone, on the creator thread or another one, always caught; "
        "user panics (answer function, Clone, armed real function / default body) are mixed in and must NOT be recorded; the remaining calls often "
        "satisfy all counts; finished by drop / verify() / report() of the original; the verdict is compared as the multiset of (error kind, names "
        "mentioned) per line; distinct = canonical JSON; non-trivial = at least one mock-induced panic happened before verification (taken from the "
        "model's observations)")

W = dict(ret=30, retd=3, ans=10, ansarc=4, pan=12, unm=12, dfl=12)


def gen_case(rng):
    ordered = rng.random() < 0.35
    mids = rng.sample([0, 1, 2, 3, 4, 5], rng.randint(1, 3))
    g = K.Gen(rng, mids=mids, n_terms=(1, 4), n_events=(3, 12), ordered_frac=1.0 if ordered else 0.0, clone_frac=0.15,
              final=rng.choice(["drop", "verify", "report"]), partial_frac=0.3, resp_weights=W, nomatcher_frac=0.05,
              max_count=2, full_mask_frac=0.4)
    c = g.case()
    # user panics: some answers / repeatedly returned values get ids >= 1000
    for t in c["terms"]:
        for p in ([t["pat"]] if t["kind"] == "call" else t["pats"]):
            ops = p["ops"]
            for k, o in enumerate(ops):
                if o[0] in ("ans", "ansarc") and rng.random() < 0.2:
                    ops[k] = (o[0], 1000 + o[1])
                if o[0] == "ret" and rng.random() < 0.15 and k + 1 < len(ops) and ops[k + 1][0] in ("n", "al") and K.CLONE_OK[t["mid"]]:
                    ops[k] = ("ret", 1000 + o[1])
    # user panics inside a matcher: bit 16 of the mask, argument 7
    for t in c["terms"]:
        for p in ([t["pat"]] if t["kind"] == "call" else t["pats"]):
            if p["matcher"] is not None and rng.random() < 0.08:
                p["matcher"] |= (1 << 16)
    evs = []
    for e in c["events"]:
        if e["base"][0] == "call":
            if rng.random() < 0.1:
                evs.append({"base": ("arm", rng.choice([1, 2]))})
            if rng.random() < 0.2:
                e = dict(e); e["other"] = True
        evs.append(e)
    c["events"] = evs
    if rng.random() < 0.2:
        # values whose Drop calls the mock are lent through some instance: their calls happen when that instance's value chain is released
        for _ in range(rng.randint(1, 2)):
            evs.insert(rng.randint(0, max(0, len(evs) - 1)),
                       {"base": ("lendcall", rng.choice([0, 0, 1]), rng.choice(mids + [1, 3]), rng.randrange(8))})
    return c


def teardown_case(rng):
    """errors recorded WHILE the original is torn down: a history without errors, a lent value whose Drop makes a failing call (swallowed)
    through the clone it owns, then drop / verify() of the original (sometimes a clone lends, and is dropped before)"""
    mids = rng.sample([0, 1, 2, 4], rng.randint(1, 2))
    terms = [{"kind": "call", "mid": m, "opener": "each", "pat": {"matcher": 15, "dbg": k + 1, "ops": [("ans", k + 1)]}} for k, m in enumerate(mids)]
    ok_call = lambda i: {"base": ("call", i, rng.choice(mids), rng.randrange(4))}
    bad = rng.choice([(rng.choice(mids), rng.choice([4, 5, 6])), (rng.choice([x for x in (0, 1, 3, 5) if x not in mids]), 0)])
    evs = [ok_call(0) for _ in range(rng.randint(0, 2))]
    via_clone = rng.random() < 0.3
    if via_clone:
        evs += [{"base": ("clone", 0)}, {"base": ("lendcall", 1) + bad}, ok_call(1), {"base": ("drop", 1)}]
    else:
        evs += [{"base": ("lendcall", 0) + bad}] + [ok_call(0) for _ in range(rng.randint(0, 1))]
        if rng.random() < 0.3:
            evs += [{"base": ("lendcall", 0, rng.choice(mids), rng.randrange(8))}]
    evs += [{"base": (rng.choice(["drop", "verify"]), 0)}]
    return {"partial": False, "terms": terms, "events": evs}


def gen_cases(rng, tier):
    n = 800 if tier == "quick" else 8000
    return [gen_case(rng) for _ in range(n)] + [teardown_case(rng) for _ in range(n // 10)]


def nontrivial(case):
    obs = case.get("_obs") or []
    n = 0
    for e, o in zip(case["events"], obs[1:]):
        if e["base"][0] == "call" and o.startswith("P:") and not o.startswith("P:user:"):
            n += 1
    return n >= 1


def stats(cases):
    d = collections.Counter()
    for c in cases:
        obs = c.get("_obs") or []
        k = 0
        for e, o in zip(c["events"], obs[1:]):
            if e["base"][0] == "call" and o.startswith("P:"):
                if o.startswith("P:user:"):
                    d["user-panic"] += 1
                else:
                    k += 1
                    from ..layer_a import error_kind
                    d["mock-panic:" + error_kind(o)] += 1
                if e.get("other"):
                    d["panic-on-other-thread"] += 1
        d[f"mock-panics-per-case={min(k,4)}"] += 1
    return dict(d)


# ---------------------------------------------------------------- several errors from concurrent threads
def conc_case(rng, nth, ncalls):
    """threads that mostly make FAILING calls (unmentioned method, argument no pattern accepts, exhausted chain ending in
    panics(), ordered call out of turn) on shared patterns; every schedule decides how the recordings of the errors interleave"""
    tag = [0]
    def fresh():
        tag[0] += 1
        return tag[0]
    ordered = rng.random() < 0.3
    if ordered:
        terms = [{"kind": "call", "mid": m, "opener": "next", "pat": {"matcher": 3, "dbg": fresh(), "ops": [("ret", fresh())]}} for m in (0, 2)]
    else:
        terms = [{"kind": "call", "mid": 0, "opener": "each", "pat": {"matcher": 3, "dbg": fresh(),
                                                                       "ops": [("ret", fresh()), ("n", 1), ("then",), ("pan", fresh())]}},
                 {"kind": "call", "mid": 2, "opener": "some", "pat": {"matcher": 255, "dbg": fresh(), "ops": [("ret", fresh())]}}]
    failing = [(1, 0), (0, 5), (3, 1), (0, 0), (2, 1), (0, 1)]
    threads = [[rng.choice(failing) for _ in range(ncalls or rng.randint(1, 2))] for _ in range(nth)]
    return {"partial": False, "terms": terms, "threads": threads, "sched": [], "shared": rng.random() < 0.5}


class ConcurrentErrors:
    """correspondence part: the real runtime under the controlled scheduler vs the Layer B model (every mock error is pushed
    to the shared list in ONE critical section), on the same schedule; compared: every call's outcome and the verdict as the
    multiset of (error kind, names) -- the text of EVERY error must be in the original's verification message"""
    def __call__(self, rng, tier, seed, cases):
        from .. import layer_b as B
        from . import C10
        eng = B.SchedEngine()
        eng.build()
        small = [conc_case(rng, 2, 1) for _ in range(10 if tier == "quick" else 40)] + [conc_case(rng, 3, 1) for _ in range(3 if tier == "quick" else 15)] \
            + [conc_case(rng, 2, 2) for _ in range(2 if tier == "quick" else 10)]
        base = eng.model(small)
        ccases = []
        for c, obs in zip(small, base):
            counts = [n + 2 for n in C10.op_counts(obs, len(c["threads"]))]     # two spare steps per thread
            scheds = list(B.all_schedules([min(n, 7) for n in counts]))
            if len(scheds) > (60 if tier == "quick" else 400):
                scheds = rng.sample(scheds, 60 if tier == "quick" else 400)
            ccases += [dict(c, sched=s) for s in scheds]
        for _ in range(100 if tier == "quick" else 1500):
            c = conc_case(rng, rng.randint(2, 4), None)
            total = sum(6 * len(t) for t in c["threads"])
            c["sched"] = [rng.randrange(len(c["threads"])) for _ in range(rng.randint(0, total))]
            ccases.append(c)
        # search aid (not a proof, not a schedule enumeration): FREE-RUNNING threads that make many failing calls at the same moment - for
        # races that need a thread to be preempted where the hooks do not announce anything (e.g. inside the critical section that
        # pushes the error).  Every call fails whatever the order, so outcomes and the verdict (a multiset) are order-insensitive
        for (nth, k) in ([(8, 150), (12, 100)] if tier == "quick" else [(8, 600), (12, 400), (16, 300), (4, 1000)]):
            ccases.append({"partial": False, "terms": [{"kind": "call", "mid": 0, "opener": "each", "pat": {"matcher": 255, "dbg": 1, "ops": [("ret", 1)]}}],
                           "threads": [[(1, (t + j) % 8) for j in range(k)] for t in range(nth)], "sched": [], "free": True,
                           "shared": nth == 12})
        impl, model = eng.both(ccases)
        bad = [i for i in range(len(ccases)) if B.results_only(B.project(impl[i])) != B.results_only(B.project(model[i]))]
        cov = {"concurrent_part": {"evaluations": len(ccases), "rule": ConcurrentErrors.__doc__ + " / " + conc_case.__doc__,
                                   "exhaustive_programs": len(small),
                                   "free_running_stress_cases": sum(1 for c in ccases if c.get("free"))}}
        if not bad:
            return len(ccases), None, cov
        i = min(bad, key=lambda k: (sum(len(t) for t in ccases[k]["threads"]), len(ccases[k]["sched"])))
        payload = {"property": "C08", "seed": seed, "part": "concurrent",
                   "theorem_or_correspondence": "correspondence C08 (concurrent part): outcomes / verdict of the real runtime under the controlled scheduler vs the Layer B model "
                                                "(C10_errors_are_exactly_the_panics) on the same schedule",
                   "case": ccases[i], "harness_line": B.harness_line(ccases[i], "replay"), "coq_case": B.coq_case(ccases[i]),
                   "expected_by_model": model[i], "observed_on_implementation": impl[i], "disagreeing_cases_in_run": len(bad),
                   "replay_cmd": "./check C08 --replay <this file>"}
        return len(ccases), payload, cov


def receiver_error_case(rng):
    """the errors that the GENERATED method bodies raise (no real function / no default body to run: CannotUnmock, NoDefaultImpl) for
    every receiver kind of the delegation inventory - in particular the `&mut self` / Pin receivers, whose bodies are built from another
    template: a call that resolves to Unmock or to the default implementation where there is none, swallowed (on the original or a clone),
    then the verdict of the original"""
    tag = [0]
    def fresh():
        tag[0] += 1
        return tag[0]
    # required methods WITHOUT a registered function: 11 (&self), 23 (Rc), 29 (Arc), 33 (by value); with an entry but no arm: 20 (&mut self);
    # provided methods without a function: 14 (&self), 15 (&mut self), 19 (Pin)
    probes = [(11, "unm"), (20, "unm"), (15, "unm"), (19, "unm"), (14, "unm"), (11, "dfl"), (20, "dfl"), (10, "dfl"), (20, None), (11, None)]
    terms, evs = [], []
    chosen = rng.sample(probes, rng.randint(1, 3))
    seen = set()
    for (m, how) in chosen:
        if how is not None and m not in seen:
            seen.add(m)
            terms.append({"kind": "call", "mid": m, "opener": "each", "pat": {"matcher": 255, "dbg": fresh(), "ops": [(how,)]}})
    terms.append({"kind": "call", "mid": 10, "opener": "each", "pat": {"matcher": 255, "dbg": fresh(), "ops": [("ret", fresh())]}}) if 10 not in seen else None
    clone = rng.random() < 0.4
    if clone:
        evs.append({"base": ("clone", 0)})
    for (m, how) in chosen:
        e = {"base": ("call", 1 if clone and rng.random() < 0.6 else 0, m, rng.randrange(8))}
        if rng.random() < 0.3:
            e["other"] = True
        evs.append(e)
        if rng.random() < 0.4:
            evs.append({"base": ("call", 0, 10, rng.randrange(8))})
    if clone:
        evs.append({"base": ("drop", 1)})
    evs.append({"base": (rng.choice(["drop", "verify", "report"]), 0)})
    return {"partial": rng.random() < 0.6, "terms": terms, "events": evs}


def engines(tier):
    return [Engine("C08", project=proj_kinds)]


def run(tier, seed):
    return run_coexec("C08", tier, seed, module=MODULE, theorems=THEOREMS, gen_cases=gen_cases,
                      nontrivial=nontrivial, rule=RULE, engines=engines(tier), stats=stats, parts=[ConcurrentErrors(),
                             DelegPart("C08", receiver_error_case, "correspondence C08 (receiver part): errors raised by the generated method bodies "
                                       "(CannotUnmock, NoDefaultImpl) for every receiver kind are recorded like the runtime's own",
                                       rule=receiver_error_case.__doc__, n_quick=80, n_thorough=600)])


def replay(path):
    import json
    payload = json.load(open(path))
    if payload.get("part") == "concurrent":
        from .. import layer_b as B
        from .. import common as C
        eng = B.SchedEngine(); eng.build()
        impl, model = eng.both([payload["case"]])
        print("model:", model[0]); print("impl :", impl[0])
        if B.results_only(B.project(impl[0])) != B.results_only(B.project(model[0])):
            C.violation("C08", path); return 1
        print("agree"); return 0
    return replay_coexec("C08", path, lambda p: Engine("C08", project=proj_kinds))

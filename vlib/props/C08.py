"""C08 -- a mock-induced panic anywhere makes final verification fail with that error."""
import collections
from .. import cases as K
from ..layer_a import Engine, proj_kinds
from ..runner import run_coexec, replay_coexec

MODULE = "Props.C08"
THEOREMS = ["C08_call_records", "C08_history_records", "C08_recorded_errors_fail",
            "C08_message_has_every_error", "C08_nonvacuous"]

RULE = ("histories in which mock-induced panics of every kind (no implementation, no matching pattern, wrong order / out of range / inputs not "
        "matched, single-use value requested twice, explicit panics(), missing real function, missing default body, pattern without matcher / "
        "without response) occur at random positions, through the original or a clone, on the creator thread or another one, always caught; "
        "user panics (answer function, Clone, armed real function / default body) are mixed in and must NOT be recorded; the remaining calls often "
        "satisfy all counts; finished by drop / verify() / report() of the original; the verdict is compared as the multiset of (error kind, names "
        "mentioned) per line; distinct = canonical JSON; non-trivial = at least one mock-induced panic happened before verification (taken from the "
        "model's observations)")

W = dict(ret=30, retd=3, ans=10, ansarc=4, pan=12, unm=12, dfl=12)


def gen_case(rng):
    ordered = rng.random() < 0.35
    mids = rng.sample([0, 1, 2, 3, 4, 5], rng.randint(1, 3))
    g = K.Gen(rng, mids=mids, n_terms=(1, 4), n_events=(3, 12), ordered_frac=1.0 if ordered else 0.0, clone_frac=0.15,
              final=rng.choice(["drop", "verify", "report"]), partial_frac=0.3, resp_weights=W, nomatcher_frac=0.05,
              max_count=2, full_mask_frac=0.4)
    c = g.case()
    # user panics: some answers / repeatedly returned values get ids >= 1000
    for t in c["terms"]:
        for p in ([t["pat"]] if t["kind"] == "call" else t["pats"]):
            ops = p["ops"]
            for k, o in enumerate(ops):
                if o[0] in ("ans", "ansarc") and rng.random() < 0.2:
                    ops[k] = (o[0], 1000 + o[1])
                if o[0] == "ret" and rng.random() < 0.15 and k + 1 < len(ops) and ops[k + 1][0] in ("n", "al") and K.CLONE_OK[t["mid"]]:
                    ops[k] = ("ret", 1000 + o[1])
    # user panics inside a matcher: bit 16 of the mask, argument 7
    for t in c["terms"]:
        for p in ([t["pat"]] if t["kind"] == "call" else t["pats"]):
            if p["matcher"] is not None and rng.random() < 0.08:
                p["matcher"] |= (1 << 16)
    evs = []
    for e in c["events"]:
        if e["base"][0] == "call":
            if rng.random() < 0.1:
                evs.append({"base": ("arm", rng.choice([1, 2]))})
            if rng.random() < 0.2:
                e = dict(e); e["other"] = True
        evs.append(e)
    c["events"] = evs
    return c


def gen_cases(rng, tier):
    return [gen_case(rng) for _ in range(800 if tier == "quick" else 8000)]


def nontrivial(case):
    obs = case.get("_obs") or []
    n = 0
    for e, o in zip(case["events"], obs[1:]):
        if e["base"][0] == "call" and o.startswith("P:") and not o.startswith("P:user:"):
            n += 1
    return n >= 1


def stats(cases):
    d = collections.Counter()
    for c in cases:
        obs = c.get("_obs") or []
        k = 0
        for e, o in zip(c["events"], obs[1:]):
            if e["base"][0] == "call" and o.startswith("P:"):
                if o.startswith("P:user:"):
                    d["user-panic"] += 1
                else:
                    k += 1
                    from ..layer_a import error_kind
                    d["mock-panic:" + error_kind(o)] += 1
                if e.get("other"):
                    d["panic-on-other-thread"] += 1
        d[f"mock-panics-per-case={min(k,4)}"] += 1
    return dict(d)


def engines(tier):
    return [Engine("C08", project=proj_kinds)]


def run(tier, seed):
    return run_coexec("C08", tier, seed, module=MODULE, theorems=THEOREMS, gen_cases=gen_cases,
                      nontrivial=nontrivial, rule=RULE, engines=engines(tier), stats=stats)


def replay(path):
    return replay_coexec("C08", path, lambda p: Engine("C08", project=proj_kinds))

"""C07 -- calls without an applicable pattern fail loudly or fall through as documented."""
import collections
from .. import cases as K
from .. import common as C
from ..layer_a import Engine, proj_kinds
from ..runner import run_coexec, replay_coexec
from ..deleg_part import DelegPart
from .C16 import ShapePart

MODULE = "Props.C07"
THEOREMS = ["C07_unmentioned", "C07_unmatched", "C07_quiet_and_no_value", "C07_history_quiet",
            "C07_errors_recorded", "C07_table", "C07_nonvacuous"]

RULE = ("the whole decision table, enumerated: probed method in {m0: real fn only, m1: neither, m2: default body + real fn, "
        "m3: default body only, m4/m5: the same with a non-Clone output} x {strict, partial} x {unmentioned, mentioned with an "
        "unordered pattern rejecting the argument, mentioned and matched (control), mentioned by an ordered pattern rejecting the "
        "argument} x all 8 argument values x position {first, middle, last} in a history of counted calls to another method, "
        "with the probed call made on the original or on a clone, finished by drop / verify() / report() (report() itself is the partial-by-default row: it is answered by the real report "
        "in strict mocks too); the probed method's own pattern expects exactly one match so that a wrongly counted fall-through "
        "changes the verification text; distinct = canonical JSON; non-trivial = the probed call has no applicable pattern")

# zero_unmatched: the method IS mentioned, but only by patterns quantified exactly 0 times (which also reject the argument)
SITUATIONS = ["unmentioned", "unmatched", "matched", "ordered_unmatched", "zero_unmatched"]


def make_case(mid, partial, sit, arg, pos, final, k, via="orig"):
    bg = 1 if mid != 1 else 0          # background method with counted responses
    terms = [{"kind": "call", "mid": bg, "opener": "each",
              "pat": {"matcher": 255, "dbg": 1, "ops": [("ret", 1), ("n", 2), ("then",), ("ret", 2), ("n", 1)]}}]
    rej = 255 & ~(1 << arg)
    clone_ok = K.CLONE_OK[mid]
    resp = [("ret", 7), ("n", 1)] if clone_ok else [("ans", 7), ("n", 1)]
    if sit == "unmatched":
        terms.insert(k % 2, {"kind": "call", "mid": mid, "opener": "each", "pat": {"matcher": rej, "dbg": 2, "ops": resp}})
    elif sit == "zero_unmatched":
        zresp = [resp[0], ("n", 0)]
        terms.insert(k % 2, {"kind": "call", "mid": mid, "opener": "each", "pat": {"matcher": rej, "dbg": 2, "ops": zresp}})
        if k % 3 == 0:
            terms.append({"kind": "call", "mid": mid, "opener": "some", "pat": {"matcher": rej & 0x0f, "dbg": 3, "ops": zresp}})
    elif sit == "matched":
        terms.insert(k % 2, {"kind": "call", "mid": mid, "opener": "each", "pat": {"matcher": 1 << arg, "dbg": 2, "ops": resp}})
    elif sit == "ordered_unmatched":
        oresp = [("ret", 7)] if True else resp
        terms.insert(k % 2, {"kind": "call", "mid": mid, "opener": "next", "pat": {"matcher": rej, "dbg": 2, "ops": [("ans", 7)]}})
    bgcalls = [{"base": ("call", 0, bg, (arg + j) % 8)} for j in range(3)]
    probe = {"base": ("call", 0, mid, arg)}
    at = {"first": 0, "middle": 2, "last": 3}[pos]
    evs = bgcalls[:at] + [probe] + bgcalls[at:]
    if pos == "middle":
        evs.append({"base": ("call", 0, mid, arg)})   # the same probe twice
    if via == "clone":
        # the probe goes through a clone of the mock (the strict/partial switch and the patterns are shared state)
        evs = [{"base": ("clone", 0)}] + [dict(e, base=("call", 1) + tuple(e["base"][2:])) if e is probe or e["base"] == probe["base"] else e
                                            for e in evs] + [{"base": ("drop", 1)}]
    evs.append({"base": (final, 0)})
    return {"partial": partial, "terms": terms, "events": evs, "_sit": sit, "_via": via}


def gen_cases(rng, tier):
    out, k = [], 0
    for mid in range(6):
        for partial in (False, True):
            for sit in SITUATIONS:
                for arg in range(K.NARGS):
                    for pos in ("first", "middle", "last"):
                        finals = ["drop", "verify", "report"] if tier == "thorough" else [["drop", "verify", "report"][k % 3]]
                        for final in finals:
                            vias = ["orig", "clone"] if tier == "thorough" else [["orig", "clone"][(k // 3) % 2]]
                            for via in vias:
                                out.append(make_case(mid, partial, sit, arg, pos, final, k, via))
                            k += 1
    return out


def nontrivial(case):
    return case["_sit"] != "matched"


def stats(cases):
    d = collections.Counter()
    for c in cases:
        d["situation:" + c["_sit"]] += 1
        d["partial" if c["partial"] else "strict"] += 1
        d["final:" + c["events"][-1]["base"][0]] += 1
        d["via:" + c.get("_via", "orig")] += 1
    return dict(d)


def sparse_deleg_case(rng):
    """C15's generator with about half of the clauses removed and strict/partial at even odds: provided methods of every receiver
    kind whose default bodies call required methods that no clause mentions (or whose patterns reject the argument) -- those inner
    calls are made on the delegation helper's clone of the mock and must resolve exactly like direct calls"""
    from . import C15
    if rng.random() < 0.3:
        # the partial-by-default row: Termination::report with and without clauses of its own (mock-std)
        from ..deleg_part import report_case
        return report_case(rng)
    c = C15.gen_case(rng)
    c["terms"] = [t for t in c["terms"] if rng.random() < 0.5]
    c["partial"] = rng.random() < 0.5
    return c


def directed_receiver_cases():
    """every provided method of the delegation inventory (all receiver kinds) x {its only pattern rejects the argument, its pattern says
    applies_unmocked()} x {strict, partial}: none of them has a registered real function, so the partial fall-through / the Unmock response
    must be reported as CannotUnmock (never answered by the default body), the strict unmatched call as NoMatchingCallPatterns"""
    from .. import layer_d as D
    out = []
    for m in [14, 15, 16, 17, 18, 19, 24, 30, 34]:
        for partial in (False, True):
            for how in ("reject", "unm"):
                pat = {"matcher": 0 if how == "reject" else 255, "dbg": 1, "ops": [("dfl",)] if how == "reject" else [("unm",)]}
                terms = [{"kind": "call", "mid": m, "opener": "each", "pat": pat},
                         {"kind": "call", "mid": 10, "opener": "each", "pat": {"matcher": 255, "dbg": 2, "ops": [("ret", 2)]}},
                         {"kind": "call", "mid": 11, "opener": "each", "pat": {"matcher": 255, "dbg": 3, "ops": [("ret", 3)]}},
                         {"kind": "call", "mid": 23, "opener": "each", "pat": {"matcher": 255, "dbg": 4, "ops": [("ret", 4)]}},
                         {"kind": "call", "mid": 29, "opener": "each", "pat": {"matcher": 255, "dbg": 5, "ops": [("ret", 5)]}},
                         {"kind": "call", "mid": 33, "opener": "each", "pat": {"matcher": 255, "dbg": 6, "ops": [("ret", 6)]}}]
                evs = [{"base": ("clone", 0)}, {"base": ("call", 1, m, 2)}]
                if m not in D.CONSUMING:
                    evs.append({"base": ("drop", 1)})
                evs.append({"base": ("drop", 0)})
                out.append({"partial": partial, "terms": terms, "events": evs})
    # the associated constant K (trait default 2, overridden to 1 in the #[unimock] attribute) steps the arguments of the body's required
    # calls: r1's only pattern accepts exactly the argument the OVERRIDDEN value produces, so a body that sees another K makes a call no
    # pattern accepts (strict: NoMatchingCallPatterns; partial: CannotUnmock, r1 has no real function)
    for m in [14, 15, 19, 16, 17, 18]:
        for partial in (False, True):
            for a in (2, 6):
                terms = [{"kind": "call", "mid": 10, "opener": "each", "pat": {"matcher": 255, "dbg": 1, "ops": [("ret", 1)]}},
                         {"kind": "call", "mid": 11, "opener": "each", "pat": {"matcher": 1 << ((a + 1) % 8), "dbg": 2, "ops": [("ret", 2)]}}]
                evs = [{"base": ("call", 0, m, a)}] + ([] if m in D.CONSUMING else [{"base": ("drop", 0)}])
                out.append({"partial": partial, "terms": terms, "events": evs})
    return out


def engines(tier):
    return [Engine("C07", project=proj_kinds)]


def run(tier, seed):
    return run_coexec("C07", tier, seed, module=MODULE, theorems=THEOREMS, gen_cases=gen_cases,
                      nontrivial=nontrivial, rule=RULE, engines=engines(tier), stats=stats,
                      extra_cov={"exhaustive": True}, extra_obligations=C.inventory_obligation,
                      parts=[DelegPart("C07", sparse_deleg_case, directed=directed_receiver_cases,
                                       what= "correspondence C07 (receiver part): unmentioned / unmatched calls made by default bodies "
                                       "through delegation helpers of every receiver kind vs the model", rule=sparse_deleg_case.__doc__),
                             # the fall-through to the real implementation for every trait SHAPE (receiver spellings such as `self: &mut Self`,
                             # arities, flavours): C05's generator restricted to methods that resolve to Unmock (pattern rejects in a partial
                             # mock, applies_unmocked(), no function registered = must panic naming the method)
                             ShapePart("C07", "shapes07", lambda m: m["resp"] == "unmock",
                                       "calls that resolve to the real implementation (or must panic naming the method when none is registered), "
                                       "for generated trait shapes, vs Macro/ShapeRun (C05_unmock_arm, C05_unmock_slot)")])


def replay(path):
    import json
    payload = json.load(open(path))
    if payload.get("part") == "deleg":
        from .. import deleg_part
        return deleg_part.replay("C07", payload, path)
    if payload.get("part") == "shape":
        from .C16 import replay_shape
        return replay_shape("C07", payload, path, "shapes07")
    return replay_coexec("C07", path, lambda p: Engine("C07", project=proj_kinds))
